/-
The thin "engine guard" layer around one RunBundler (single run key): what
`RunEngine._open_run/_close_run/_create/_read/_save/_drop/_configure/_checkpoint/
_clear_checkpoint/_monitor/_unmonitor/_declare_stream/_kickoff/_collect/_pause`, `resume()`,
`_rewind()`, `_reset_checkpoint_state_meth()` and the `finally` block of `_run` do BEFORE/AFTER
delegating to the bundler: reject messages when no run is open, reject `checkpoint`/`configure`
inside a bundle, keep the length of the message cache (only its emptiness / None-ness matters
here) and issue `record_interruption`, `rewind`, `reset_checkpoint_state`, `suspend/restore/
clear_monitors`, `backstop_collect`, `close_run` in the order the engine does.

The replay of cached messages after a resume is NOT modelled here (the coordinator's Engine model
does that): a guard-level history simply contains the replayed messages again, as `msg_hook` sees
them.  `rewindable` is constantly True; suspenders are outside this layer.
-/
import BlueskyVerif.Bundler.Model

namespace BlueskyVerif.Bundler
open Generated

/-- the engine may call `rewind` in this bundler state without losing or wrongly resetting counters:
    the checkpoint copy has not been cleared since it was last filled, and every stream that has a
    counter also has a checkpointed counter or a descriptor in `_descriptor_objs` (the interruptions
    stream has no such descriptor: it must have been committed / checkpointed, which the engine
    guarantees by recording the interruption before it rewinds) -/
def rewindAdmissible (s : BState) : Bool :=
  !s.cpCleared && s.seq.all fun kv => ahas s.seqCopy kv.1 || (akeys s.descriptors).contains kv.1

/-- a bundler-level history is engine-admissible from `s` when every `rewind` in it is issued in a
    `rewindAdmissible` state -/
def admissibleFrom (w : World) (s : BState) : List Op → Bool
  | [] => true
  | op :: ops =>
    (match op with
     | .rewind => rewindAdmissible s
     | _ => true) && admissibleFrom w (step w s op).st ops

/-- messages and external events at the guard level -/
inductive GMsg where
  | openRun
  | closeRun (exit : Option String) (reason : Option String)
  | create (name : Option Name)
  | read (obj : Obj) (reading : Reading)     -- `reading` = what obj.read() returned
  | save
  | drop
  | checkpoint
  | clearCheckpoint
  | configure (obj : Obj) (cfg : Config)     -- obj.configure(cfg); afterwards read_configuration() = cfg
  | monitor (obj : Obj) (name : Name)
  | unmonitor (obj : Obj)
  | declareStream (name : Name) (objs : List Obj) (collect : Bool)
  | kickoff (obj : Obj)
  | collect (objs : List Obj) (name : Option Name) (mis : List Mis)
  | null
  | pause                                     -- Msg('pause')
  -- external events
  | resume                                    -- RE.resume() while paused
  | fire (obj : Obj) (reading : Reading)      -- the device delivers an update to its subscribers
  | poke (obj : Obj) (cfg : Config)           -- configuration changed behind the engine's back
  | advance (obj : Obj) (n : Nat)             -- a detector wrote n frames
  | endOfCall (exit : Option String) (reason : Option String)  -- the `finally` block of `_run`
deriving DecidableEq, Repr

def GMsg.command : GMsg → String
  | .openRun => "open_run" | .closeRun _ _ => "close_run" | .create _ => "create" | .read _ _ => "read"
  | .save => "save" | .drop => "drop" | .checkpoint => "checkpoint" | .clearCheckpoint => "clear_checkpoint"
  | .configure _ _ => "configure" | .monitor _ _ => "monitor" | .unmonitor _ => "unmonitor"
  | .declareStream _ _ _ => "declare_stream" | .kickoff _ => "kickoff" | .collect _ _ _ => "collect"
  | .null => "null" | .pause => "pause"
  | .resume => "" | .fire _ _ => "" | .poke _ _ => "" | .advance _ _ => "" | .endOfCall _ _ => ""

def GMsg.isMessage (m : GMsg) : Bool := m.command != ""

structure GState where
  cfg : BCfg := {}
  run : Option BState := none       -- `_run_bundlers.get(run_key)`
  cache : Option Nat := some 0      -- `len(_msg_cache)`; `none` = `_msg_cache is None`
  paused : Bool := false
  nextUid : Nat := 0
  envCfg : List (Obj × Config) := []
  dets : List (Obj × DetSt) := []

structure GEntry where
  msg : GMsg
  docs : List Doc := []
  calls : List Call := []
  err : Option Err := none
  ops : List Op := []               -- bundler operations issued (ghost; compared with the observed API calls)

/-- result of a handler -/
structure GRes where
  g : GState
  docs : List Doc := []
  calls : List Call := []
  err : Option Err := none
  ops : List Op := []

/-- apply bundler operations in order, stopping at the first exception -/
def applyOps (w : World) (b : BState) : List Op → Res × List Op
  | [] => (Res.ok b, [])
  | op :: ops =>
    let r := step w b op
    match r.err with
    | some _ => (r, [op])
    | none =>
      let (r2, done) := applyOps w r.st ops
      ({ st := r2.st, calls := r.calls ++ r2.calls, err := r2.err }, op :: done)

/-- apply bundler operations in order, swallowing exceptions (the engine logs them) -/
def applyOpsSwallow (w : World) (b : BState) : List Op → Res × List Op
  | [] => (Res.ok b, [])
  | op :: ops =>
    let r := step w b op
    let (r2, done) := applyOpsSwallow w r.st ops
    ({ st := r2.st, calls := r.calls ++ r2.calls, err := none }, op :: done)

/-- run `ops` on the open bundler (the environment is shared with the bundler state) -/
def onRun (w : World) (g : GState) (b : BState) (ops : List Op) (pre : List Call := []) : GRes :=
  let b := { b with envCfg := g.envCfg, dets := g.dets }
  let (r, done) := applyOps w b ops
  { g := { g with run := some r.st, envCfg := r.st.envCfg, dets := r.st.dets, nextUid := r.st.nextUid }
    docs := docsSince b r.st, calls := pre ++ r.calls, err := r.err, ops := done }

def gfail (g : GState) (e : Err) : GRes := { g := g, err := some e }

/-- `_reset_checkpoint_state_meth`: nothing when the cache is None; else empty the cache and reset
    every bundler -/
def engineReset (g : GState) : List Op × Option Nat :=
  match g.cache with
  | none => ([], none)
  | some _ => ([Op.resetCheckpoint], some 0)

/-- one message / event.  The cache push of `_run` (`msg_hook`, then `_msg_cache.append(msg)` for
    cacheable commands) happens before the handler. -/
def gstep (w : World) (g : GState) (m : GMsg) : GRes :=
  let g :=
    if m.isMessage && !uncacheable.contains m.command then
      { g with cache := g.cache.map (· + 1) }
    else g
  let needRun (flag : Bool) (k : BState → GRes) : GRes :=
    match g.run with
    | none => if flag then gfail g .illegalMessageSequence else { g := g }
    | some b => k b
  match m with
  | .openRun =>
    match g.run with
    | some _ => gfail g .illegalMessageSequence
    | none =>
      let b := openRun g.cfg g.nextUid g.envCfg
      { g := { g with run := some { b with dets := g.dets }, nextUid := b.nextUid }, docs := b.out }
  | .closeRun e rs =>
    needRun closeRunNeedsRun fun b =>
      let r := onRun w g b [.closeRun e rs]
      match r.err with
      | some _ => r
      | none =>
        -- `del self._run_bundlers[run_key]`, then the implicit checkpoint (no bundler left to reset)
        { r with g := { r.g with run := none, cache := r.g.cache.map fun _ => 0 } }
  | .create n => needRun createNeedsRun fun b => onRun w g b [.create n]
  | .save => needRun saveNeedsRun fun b => onRun w g b [.save]
  | .drop => needRun dropNeedsRun fun b => onRun w g b [.drop]
  | .declareStream n objs c => needRun declareStreamNeedsRun fun b => onRun w g b [.declareStream n objs c]
  | .read o rd =>
    match g.run with
    | none => if readNeedsRun then gfail g .illegalMessageSequence else { g := g, calls := [⟨o, "read"⟩] }
    | some b => onRun w g b [.read o rd] [⟨o, "read"⟩]
  | .monitor o n =>
    needRun monitorNeedsRun fun b =>
      let (rst, cache') := engineReset g
      let r := onRun w g b ([.monitor o n] ++ rst)
      if r.err.isNone then { r with g := { r.g with cache := cache' } } else r
  | .unmonitor o =>
    needRun unmonitorNeedsRun fun b =>
      let (rst, cache') := engineReset g
      let r := onRun w g b ([.unmonitor o] ++ rst)
      if r.err.isNone then { r with g := { r.g with cache := cache' } } else r
  | .checkpoint =>
    match g.run with
    | none =>
      let (_, cache') := engineReset g
      { g := { g with cache := cache' } }
    | some b =>
      if checkpointRejectsBundling && b.bundling then gfail g .illegalMessageSequence else
      let (rst, cache') := engineReset g
      let r := onRun w g b rst
      { r with g := { r.g with cache := cache' } }
  | .clearCheckpoint =>
    let g := { g with cache := none }
    match g.run with
    | none => { g := g }
    | some b => onRun w g b [.clearCheckpoint]
  | .configure o c =>
    match g.run with
    | none =>
      if configureNeedsRun then gfail g .illegalMessageSequence
      else { g := { g with envCfg := aset g.envCfg o c }, calls := [⟨o, "configure"⟩] }
    | some b =>
      if configureRejectsBundling && b.bundling then gfail g .illegalMessageSequence else
      onRun w g b [.setCfg o c, .configure o] [⟨o, "configure"⟩]
  | .kickoff o => needRun kickoffNeedsRun fun b => onRun w g b [.kickoff o] [⟨o, "kickoff"⟩]
  | .collect objs n mis => needRun collectNeedsRun fun b => onRun w g b [.collect objs n mis]
  | .null => { g := g }
  | .pause =>
    -- `_request_pause_coro`: record the interruption; then the loop top suspends the monitors.
    -- (a pause while the cache is None makes the engine abort: outside this layer)
    match g.run with
    | none => { g := { g with paused := g.cache.isSome } }
    | some b =>
      let r := onRun w g b ([.recordInterruption "pause"] ++ (if g.cache.isSome then [.suspendMonitors] else []))
      { r with g := { r.g with paused := g.cache.isSome } }
  | .resume =>
    if !g.paused then { g := g } else
    -- `resume()`: record 'resume', `_rewind()` (rewind the bundlers only if the cache was non-empty),
    -- then `_run` restores the monitors
    let n := g.cache.getD 0
    let g := { g with cache := some 0, paused := false }
    match g.run with
    | none => { g := g }
    | some b =>
      let rec1 := if resumeRecordsBeforeRewind then [Op.recordInterruption "resume"] else []
      let rw := if !rewindOnlyIfCacheNonEmpty || n > 0 then [Op.rewind] else []
      let rec2 := if resumeRecordsBeforeRewind then [] else [Op.recordInterruption "resume"]
      onRun w g b (rec1 ++ rw ++ rec2 ++ [.restoreMonitors])
  | .fire o rd =>
    match g.run with
    | none => { g := g }
    | some b => onRun w g b (List.replicate ((aget b.subs o).getD 0) (.monitorUpdate o rd))
  | .poke o c =>
    match g.run with
    | none => { g := { g with envCfg := aset g.envCfg o c } }
    | some b => onRun w g b [.setCfg o c]
  | .advance o k =>
    match g.run with
    | none =>
      let d := (aget g.dets o).getD {}
      { g := { g with dets := aset g.dets o { d with index := d.index + k } } }
    | some b => onRun w g b [.advance o k]
  | .endOfCall e rs =>
    let g := { g with cache := some 0, paused := false }
    match g.run with
    | none => { g := g }
    | some b =>
      let b := { b with envCfg := g.envCfg, dets := g.dets }
      let (r1, d1) := applyOpsSwallow w b [.clearMonitors, .backstopCollect]
      let (r2, d2) := if r1.st.runOpen then applyOpsSwallow w r1.st [.closeRun e rs] else (Res.ok r1.st, [])
      { g := { g with run := none, envCfg := r2.st.envCfg, dets := r2.st.dets, nextUid := r2.st.nextUid }
        docs := docsSince b r2.st, calls := r1.calls ++ r2.calls, ops := d1 ++ d2 }

def grun (w : World) (g : GState) : List GMsg → GState × List GEntry
  | [] => (g, [])
  | m :: ms =>
    let r := gstep w g m
    let (g', tr) := grun w r.g ms
    (g', ⟨m, r.docs, r.calls, r.err, r.ops⟩ :: tr)

end BlueskyVerif.Bundler
