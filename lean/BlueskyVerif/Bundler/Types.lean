/-
Types of the RunBundler model (src/bluesky/bundlers.py) shared by C05, C15, C16, C45.

Conventions
* A device is identified by its (unique) name (`Obj`); stream names, data keys are strings;
  reading / configuration values are integers (timestamps are dropped everywhere).
* Python dicts are insertion-ordered association lists (`aget`/`aset`/`aerase` below); the order
  is kept because the code iterates over some of them (`configure`, `rewind`, `close_run`).
* uids are fresh naturals taken from `BState.nextUid` (one per composed document).
* No Mathlib; everything is executable (`lean --run`).
-/
namespace BlueskyVerif.Bundler

abbrev Name := String
abbrev Obj := String
abbrev Key := String
abbrev Val := Int
abbrev Reading := List (Key × Val)
abbrev Config := List (Key × Val)

/-! ### insertion-ordered association lists (Python dicts) -/

def aget {α : Type} : List (String × α) → String → Option α
  | [], _ => none
  | (k', v) :: t, k => if k' = k then some v else aget t k

/-- `d[k] = v`: replace in place when the key exists, else append at the end. -/
def aset {α : Type} : List (String × α) → String → α → List (String × α)
  | [], k, v => [(k, v)]
  | (k', v') :: t, k, v => if k' = k then (k, v) :: t else (k', v') :: aset t k v

def aerase {α : Type} : List (String × α) → String → List (String × α)
  | [], _ => []
  | (k', v') :: t, k => if k' = k then t else (k', v') :: aerase t k

def ahas {α : Type} (m : List (String × α)) (k : String) : Bool := (aget m k).isSome

def akeys {α : Type} (m : List (String × α)) : List String := m.map Prod.fst

/-- `d.update(e)` -/
def aupdate {α : Type} (d e : List (String × α)) : List (String × α) :=
  e.foldl (fun acc kv => aset acc kv.1 kv.2) d

/-- order-preserving removal of duplicates (first occurrence wins the position) -/
def dedupKeys : List String → List String
  | [] => []
  | k :: t => k :: (dedupKeys t).filter (· != k)

/-- set equality of two key lists (Python `set(a) == set(b)`) -/
def sameSet (a b : List String) : Bool := a.all (b.contains ·) && b.all (a.contains ·)

/-- non-empty intersection -/
def overlaps (a b : List String) : Bool := a.any (b.contains ·)

/-! ### exceptions (by class name) -/

inductive Err where
  | illegalMessageSequence | valueError | runtimeError | keyError | assertionError
  | eventModelValidationError | eventModelValueError | eventModelError | schemaError
deriving DecidableEq, Repr

def Err.name : Err → String
  | .illegalMessageSequence => "IllegalMessageSequence"
  | .valueError => "ValueError"
  | .runtimeError => "RuntimeError"
  | .keyError => "KeyError"
  | .assertionError => "AssertionError"
  | .eventModelValidationError => "EventModelValidationError"
  | .eventModelValueError => "EventModelValueError"
  | .eventModelError => "EventModelError"
  | .schemaError => "ValidationError"

/-! ### documents -/

inductive Kind where
  | start | descriptor | event | streamResource | streamDatum | stop
deriving DecidableEq, Repr

/-- which emitter produced a document (ghost information: an emitted document does not carry
    it, the harness reconstructs it from the operation in progress) -/
inductive Src where
  | run          -- open_run / close_run
  | prepare      -- _prepare_stream (descriptors)
  | bundle       -- save: the only events that are re-taken after a rewind
  | monitor      -- the monitor closure
  | interruption -- record_interruption
  | collect      -- collect / _pack_external_assets
deriving DecidableEq, Repr

/-- configuration block of one object inside a descriptor -/
structure CfgBlock where
  data : Config := []          -- _config_values_cache[obj]
  dataKeys : List Key := []    -- keys of _config_desc_cache[obj]
deriving DecidableEq, Repr

structure Doc where
  kind : Kind
  src : Src
  uid : Nat := 0                       -- fresh; 0 for documents composed by a detector
  run : Nat := 0
  descriptor : Option Nat := none      -- event / stream_datum
  stream : Option Name := none         -- descriptor name; for events the name of the descriptor used
  seq : Option Nat := none             -- event.seq_num
  seqRange : Option (Nat × Nat) := none  -- stream_datum.seq_nums
  idxRange : Option (Nat × Nat) := none  -- stream_datum.indices
  keys : List Key := []                -- descriptor.data_keys / event.data keys (in order)
  extKeys : List Key := []             -- descriptor: the data keys marked external "STREAM:"
  data : List (Key × Val) := []        -- event.data
  note : Option String := none         -- interruption content
  objKeys : List (Obj × List Key) := []  -- descriptor.object_keys
  config : List (Obj × CfgBlock) := []   -- descriptor.configuration
  exit : Option String := none
  reason : Option String := none
  numEvents : List (Name × Nat) := []
  sid : Option String := none          -- stream_resource.uid / stream_datum.uid (detector-made)
  resource : Option String := none     -- stream_datum.stream_resource
  dataKey : Option Key := none         -- stream_resource.data_key
deriving DecidableEq, Repr

/-- device calls made by the bundler (compared with the fakes' ledger) -/
structure Call where
  obj : Obj
  meth : String
deriving DecidableEq, Repr

/-! ### the world: static device descriptions -/

structure DevSpec where
  name : Obj
  keys : List Key := []           -- describe() keys; also describe_collect() keys of a detector
  configurable : Bool := true     -- implements read_configuration/describe_configuration
  isDet : Bool := false           -- Collectable + WritesStreamAssets detector (all keys external "STREAM:")
deriving DecidableEq, Repr

abbrev World := List DevSpec

def World.spec (w : World) (o : Obj) : DevSpec :=
  (w.find? (·.name == o)).getD { name := o }

/-! ### stream-asset documents as a detector yields them -/

inductive Asset where
  | resource (uid : String) (dataKey : Key)
  | datum (uid : String) (resource : String) (descFilled : Bool) (start stop : Nat) (seqFilled : Bool)
deriving DecidableEq, Repr

/-- state of a contract-obeying detector (harness/bundler_fakes.py::Det) -/
structure DetSt where
  index : Nat := 0      -- frames written so far (get_index)
  last : Nat := 0       -- index reported by the previous collect_asset_docs
  sent : Bool := false  -- stream_resource documents already yielded
  ndatum : Nat := 0     -- number of stream_datum documents composed (for their uids)
deriving DecidableEq, Repr

/-- scripted one-shot contract violations of the fake detector -/
structure Mis where
  width : Nat := 0
  resend : Bool := false
  seq : Bool := false
  desc : Bool := false
  unknown : Bool := false
deriving DecidableEq, Repr

def Mis.any (m : Mis) : Bool := m.width != 0 || m.resend || m.seq || m.desc || m.unknown

/-! ### bundler state -/

/-- ghost log of what an operation did to the sequence counters, in order (used only by the
    proofs: the counter machine of Lemmas/C05*.lean is driven by these micro-events) -/
inductive CEv where
  | newStream (n : Name)                 -- ComposeDescriptor: `event_counters[name] = 1` for a new stream
  | ensure (n : Name)                    -- _prepare_stream: both dicts := 1 when the stream has no counter
  | emit (n : Name) (c : Nat) (replay : Bool)  -- ComposeEvent used seq_num c (replay: a bundle event)
  | bump (n : Name) (c d : Nat)          -- collect advanced the counter from c by d
  | commit (n : Name)                    -- _commit_sequence_counter
  | reset                                -- reset_checkpoint_state
  | rewind (descs : List Name)           -- rewind, with the keys of _descriptor_objs
  | clear                                -- clear_checkpoint
deriving DecidableEq, Repr

structure Desc where
  uid : Nat
  keys : List Key                      -- descriptor_doc["data_keys"] (order kept)
  objs : List (Obj × List Key)         -- _descriptor_objs[name]
  ext : List Key                       -- get_external_data_keys(data_keys)
  config : List (Obj × CfgBlock) := [] -- descriptor_doc["configuration"]
deriving DecidableEq, Repr

structure MonRec where
  name : Name            -- stream name the closure commits
  descUid : Nat          -- the closure captured `compose_event` of THIS descriptor
  descKeys : List Key
deriving DecidableEq, Repr

structure BCfg where
  recordInterruptions : Bool := false
  strict : Bool := false               -- strict_pre_declare
deriving DecidableEq, Repr

structure BState where
  cfg : BCfg := {}
  runOpen : Bool := false
  run : Nat := 0
  nextUid : Nat := 0
  bundling : Bool := false
  bundleName : Option Name := none
  objsRead : List Obj := []
  readCache : List Reading := []
  describeCache : List (Obj × List Key) := []
  describeCollectCache : List (Obj × List Key) := []
  configDescCache : List (Obj × List Key) := []
  configValuesCache : List (Obj × Config) := []
  descriptors : List (Name × Desc) := []       -- _descriptors + _descriptor_objs (always set together)
  streams : List (Name × List Key) := []       -- event_model ComposeDescriptor.streams
  seq : List (Name × Nat) := []                -- _sequence_counters (shared with event_model)
  seqCopy : List (Name × Nat) := []            -- _sequence_counters_copy
  monitors : List (Obj × MonRec) := []         -- _monitor_params
  interruptionsDesc : Option Nat := none       -- _interruptions_desc_uid
  uncollected : List Obj := []
  declared : List (List Obj × List Name) := [] -- _declared_stream_names (keys compared as sets)
  streamResources : List (String × Key) := []  -- _stream_resource_data_keys
  stopped : Bool := false                      -- event_model poison pill
  -- environment (not attributes of RunBundler): what the devices would answer right now
  envCfg : List (Obj × Config) := []           -- each device's current configuration
  dets : List (Obj × DetSt) := []              -- contract detectors
  subs : List (Obj × Nat) := []                -- how many times our closure is subscribed on the device
  -- output: every document emitted so far, in order (what `emit` / `emit_sync` were called with)
  out : List Doc := []
  -- ghost
  cpCleared : Bool := false   -- clear_checkpoint happened and no full reset_checkpoint_state since
  log : List CEv := []        -- what happened to the sequence counters so far (micro-events)
deriving Repr

/-- result of one operation: the state after (its `out` holds the documents emitted), the device
    calls made, and the exception (if any) that ended it -- state/documents up to the raise are kept,
    as in Python -/
structure Res where
  st : BState
  calls : List Call := []
  err : Option Err := none

def Res.ok (s : BState) : Res := { st := s }
def Res.fail (s : BState) (e : Err) : Res := { st := s, err := some e }

/-- sequencing: run `f` on the state after `r` unless `r` raised -/
def Res.andThen (r : Res) (f : BState → Res) : Res :=
  match r.err with
  | some _ => r
  | none =>
    let r2 := f r.st
    { st := r2.st, calls := r.calls ++ r2.calls, err := r2.err }

/-- `emit(name, doc)`: append to the output -/
def BState.emit (s : BState) (d : Doc) : BState := { s with out := s.out ++ [d] }

/-- ghost: record a counter micro-event -/
def BState.logEv (s : BState) (e : CEv) : BState := { s with log := s.log ++ [e] }

/-- the documents emitted between two states of the same bundler -/
def docsSince (s s' : BState) : List Doc := s'.out.drop s.out.length
def cevSince (s s' : BState) : List CEv := s'.log.drop s.log.length

/-- operations on one RunBundler (after its `open_run`), plus environment events -/
inductive Op where
  | closeRun (exit : Option String) (reason : Option String)
  | create (name : Option Name)
  | read (obj : Obj) (reading : Reading)
  | save
  | drop
  | monitor (obj : Obj) (name : Name)
  | unmonitor (obj : Obj)
  | monitorUpdate (obj : Obj) (reading : Reading)
  | suspendMonitors
  | restoreMonitors
  | clearMonitors
  | recordInterruption (content : String)
  | rewind
  | resetCheckpoint
  | clearCheckpoint
  | configure (obj : Obj)
  | declareStream (name : Name) (objs : List Obj) (collect : Bool)
  | kickoff (obj : Obj)
  | collect (objs : List Obj) (name : Option Name) (mis : List Mis)
  | backstopCollect
  -- environment
  | setCfg (obj : Obj) (cfg : Config)   -- the device's configuration changed (configure() or poked)
  | advance (obj : Obj) (n : Nat)       -- a detector wrote n more frames
deriving DecidableEq, Repr

end BlueskyVerif.Bundler
