/-
Executable model of `RunBundler` (src/bluesky/bundlers.py), transcribed method by method,
together with the three counter-handling lines of event_model (ComposeDescriptor sets the
counter of a new stream to 1, ComposeEvent reads the counter and writes `seq_num + 1`,
ComposeStop reports `v - 1` and refuses a second stop).

Every operation returns a `Res`: the state after, the documents emitted (in order), the device
calls made, and the exception (by class) that ended it, if any.  As in Python, whatever was
mutated / emitted before the `raise` stays.

What is NOT modelled (stated in the MANIFEST of the properties that use this file):
resource/datum documents of `WritesExternalAssets` devices inside `read`/`save`; old-style
(doubly nested `describe_collect`) flyers and `collect` of Event(Page)Collectable devices;
`hints`; timestamps; `filled`; the `stream=True` kwarg.  A bundler object serves one run
(RunEngine._open_run constructs a fresh one), hence `openRun` builds the initial state.
-/
import BlueskyVerif.Bundler.Types
import BlueskyVerif.Bundler.Generated

namespace BlueskyVerif.Bundler
open Generated

/-! ### small helpers -/

def emit (s : BState) (d : Doc) : Res := { st := s, docs := [d] }
def call (s : BState) (o : Obj) (m : String) : Res := { st := s, calls := [⟨o, m⟩] }

/-- current value of a stream's counter; 1 when the stream has no counter yet (a new stream
    starts at `firstSeq`) -/
def cur (s : BState) (n : Name) : Nat := (aget s.seq n).getD firstSeq

/-- `_commit_sequence_counter(stream_name)` -/
def commit (s : BState) (n : Name) : BState :=
  match aget s.seq n with
  | some c => { s with seqCopy := aset s.seqCopy n c }
  | none => s

/-- `reset_checkpoint_state`: `for key, counter in list(counters.items()): copy[key] = counter` -/
def resetCp (s : BState) : BState :=
  { s with seqCopy := aupdate s.seqCopy s.seq, cpCleared := false }

/-- `rewind` -/
def rewindOp (s : BState) : BState :=
  let s1 := { s with seq := s.seqCopy }
  let s2 :=
    if rewindReaddsDescriptorStreams then
      (akeys s1.descriptors).foldl
        (fun (a : BState) (n : Name) =>
          if ahas a.seq n then a
          else { a with seq := aset a.seq n firstSeq, seqCopy := aset a.seqCopy n firstSeq })
        s1
    else s1
  if rewindCancelsBundle then { s2 with bundling := false } else s2

/-- `clear_checkpoint` -/
def clearCp (s : BState) : BState :=
  { s with seqCopy := [], cpCleared := true }

/-- the calls as the code makes them (each guarded by the extracted fact that the call exists) -/
def commitR (s : BState) (n : Name) : Res := Res.pure (commit s n) [.commit n]
def resetR (s : BState) : Res := Res.pure (resetCp s) [.reset]

/-- keys of a descriptor that are not external "STREAM:" keys (event_model.keys_without_stream_keys) -/
def nonStream (ext keys : List Key) : List Key := keys.filter (fun k => !ext.contains k)

/-- event_model `ComposeEvent.__call__` for the descriptor `(uid, keys, ext)` of stream `n`:
    reads the counter (KeyError when the stream has none), validates the key sets, writes
    `seq_num + 1`, returns the event. -/
def composeEvent (s : BState) (n : Name) (descUid : Nat) (descKeys ext : List Key)
    (data : List (Key × Val)) (src : Src) (note : Option String := none) : Res :=
  match aget s.seq n with
  | none => Res.fail s .keyError
  | some c =>
    let uid := s.nextUid
    let s := { s with nextUid := s.nextUid + 1 }
    -- keys_without_stream_keys(data, descriptor["data_keys"]) indexes the descriptor with every data key
    if (data.map Prod.fst).any (fun k => !descKeys.contains k) then Res.fail s .keyError
    else if !sameSet (nonStream ext descKeys) (nonStream ext (data.map Prod.fst)) then
      Res.fail s .eventModelValidationError
    else
      let s := { s with seq := aset s.seq n (c + eventIncrement) }
      { st := s
        docs := [{ kind := .event, src := src, uid := uid, run := s.run, descriptor := some descUid,
                   stream := some n, seq := some c, keys := data.map Prod.fst, data := data, note := note }]
        cev := [.emit n c (src == .bundle)] }

/-- dict-merge of the cached readings: `{k: v for d in cache for k, v in d.items()}` -/
def mergeReadings (rs : List Reading) : List (Key × Val) :=
  rs.foldl (fun acc r => aupdate acc r) []

/-- `_cache_read_config(obj)` -/
def cacheReadConfig (w : World) (s : BState) (o : Obj) : Res :=
  if (w.spec o).configurable then
    { st := { s with configValuesCache := aset s.configValuesCache o ((aget s.envCfg o).getD []) }
      calls := [⟨o, "read_configuration"⟩] }
  else Res.ok { s with configValuesCache := aset s.configValuesCache o [] }

/-- `_cache_describe_config(obj)` -/
def cacheDescribeConfig (w : World) (s : BState) (o : Obj) : Res :=
  if (w.spec o).configurable then
    { st := { s with configDescCache := aset s.configDescCache o (akeys ((aget s.envCfg o).getD [])) }
      calls := [⟨o, "describe_configuration"⟩] }
  else Res.ok { s with configDescCache := aset s.configDescCache o [] }

/-- first half of `_ensure_cached`: `_cache_describe` / `_cache_describe_collect` (with their
    `check_supports(obj, Readable)` / `check_supports(obj, Collectable)`) -/
def cacheDescribe (w : World) (s : BState) (o : Obj) (collect : Bool) : Res :=
  if !collect && !ahas s.describeCache o && (w.spec o).isDet then Res.fail s .assertionError
  else if collect && !ahas s.describeCollectCache o && !(w.spec o).isDet then Res.fail s .assertionError
  else if !collect && !ahas s.describeCache o then
    { st := { s with describeCache := aset s.describeCache o (w.spec o).keys }, calls := [⟨o, "describe"⟩] }
  else if collect && !ahas s.describeCollectCache o then
    { st := { s with describeCollectCache := aset s.describeCollectCache o (w.spec o).keys }
      calls := [⟨o, "describe_collect"⟩] }
  else Res.ok s

/-- second half of `_ensure_cached`: the configuration caches, filled once per object -/
def cacheConfig (w : World) (s : BState) (o : Obj) : Res :=
  if !ahas s.configDescCache o then
    (cacheDescribeConfig w s o).andThen fun s => cacheReadConfig w s o
  else Res.ok s

/-- `_ensure_cached(obj, collect)` -/
def ensureCached (w : World) (s : BState) (o : Obj) (collect : Bool) : Res :=
  (cacheDescribe w s o collect).andThen fun s => cacheConfig w s o

/-- external ("STREAM:") keys among `keys`: exactly the keys that belong to a detector -/
def externalKeys (w : World) (objsDks : List (Obj × List Key)) : List Key :=
  dedupKeys (objsDks.flatMap fun od => if (w.spec od.1).isDet then od.2 else [])

/-- `_prepare_stream(desc_key, objs_dks)` including event_model's `ComposeDescriptor.__call__` -/
def prepareStream (w : World) (s : BState) (n : Name) (objsDks : List (Obj × List Key)) : Res :=
  let dataKeys := dedupKeys (objsDks.flatMap Prod.snd)
  let config : List (Obj × CfgBlock) :=
    objsDks.map fun od =>
      (od.1, { data := (aget s.configValuesCache od.1).getD [], dataKeys := (aget s.configDescCache od.1).getD [] })
  -- `self._config_values_cache[obj]` raises KeyError for an object that was never cached
  if objsDks.any (fun od => !ahas s.configValuesCache od.1) then Res.fail s .keyError else
  -- ComposeDescriptor
  let uid := s.nextUid
  let s := { s with nextUid := s.nextUid + 1 }
  match aget s.streams n with
  | some ks =>
    if !sameSet ks dataKeys then Res.fail s .eventModelValidationError
    else finish s uid dataKeys config []
  | none =>
    let s := { s with streams := aset s.streams n dataKeys, seq := aset s.seq n firstSeq }
    finish s uid dataKeys config [CEv.newStream n]
where
  finish (s : BState) (uid : Nat) (dataKeys : List Key) (config : List (Obj × CfgBlock)) (pre : List CEv) : Res :=
    let d : Desc := { uid := uid, keys := dataKeys, objs := objsDks, ext := externalKeys w objsDks, config := config }
    let s := { s with descriptors := aset s.descriptors n d }
    let ens := !ahas s.seq n
    let s :=
      if ens then { s with seq := aset s.seq n firstSeq, seqCopy := aset s.seqCopy n firstSeq } else s
    { st := s
      docs := [{ kind := .descriptor, src := .prepare, uid := uid, run := s.run, stream := some n,
                 keys := dataKeys, extKeys := d.ext, objKeys := objsDks, config := config }]
      cev := pre ++ (if ens then [.ensure n] else []) }

/-! ### run life cycle -/

/-- `RunBundler(...)` followed by `open_run`; `uid0` is the first free uid -/
def openRun (cfg : BCfg) (uid0 : Nat) (envCfg : List (Obj × Config) := []) : Res :=
  let s : BState := { cfg := cfg, runOpen := true, run := uid0, nextUid := uid0 + 1, envCfg := envCfg }
  let r : Res := { st := s, docs := [{ kind := .start, src := .run, uid := uid0, run := uid0 }] }
  (r.andThen fun s => if openRunResets then resetR s else Res.ok s).andThen fun s =>
    if s.cfg.recordInterruptions then
      let uid := s.nextUid
      let s := { s with nextUid := uid + 1, interruptionsDesc := some uid,
                        streams := aset s.streams "interruptions" ["interruption"],
                        seq := aset s.seq "interruptions" firstSeq }
      { st := s
        docs := [{ kind := .descriptor, src := .run, uid := uid, run := s.run, stream := some "interruptions",
                   keys := ["interruption"] }]
        cev := [.newStream "interruptions"] }
    else Res.ok s

/-- `for obj, (cb, kwargs) in list(self._monitor_params.items()): obj.clear_sub(cb); del ...` -/
def dropMonitors (s : BState) : Res :=
  { st := { s with monitors := [], subs := s.subs.filter fun p => !ahas s.monitors p.1 }
    calls := s.monitors.map fun m => ⟨m.1, "clear_sub"⟩ }

def closeRun (s : BState) (exit reason : Option String) : Res :=
  if !s.runOpen then Res.fail s .illegalMessageSequence else
  (dropMonitors s).andThen fun s =>
    let reason := reason.getD ""
    let exit := match exit with
      | some e => if e == "" then "success" else e
      | none => "success"
    -- ComposeStop
    if s.stopped then Res.fail s .eventModelError else
    let uid := s.nextUid
    let s := { s with stopped := true, nextUid := uid + 1 }
    (emit s { kind := .stop, src := .run, uid := uid, run := s.run, exit := some exit, reason := some reason,
              numEvents := s.seq.map fun kv => (kv.1, kv.2 - stopOffset) }).andThen fun s =>
      (if closeRunResets then resetR s else Res.ok s).andThen fun s =>
        Res.ok { s with runOpen := false }

/-! ### bundles -/

def create (s : BState) (name : Option Name) : Res :=
  if s.bundling then Res.fail s .illegalMessageSequence else
  let s := { s with readCache := [], objsRead := [], bundling := true }
  match name with
  | none => Res.fail s .valueError
  | some n =>
    let s := { s with bundleName := some n }
    if s.cfg.strict && !ahas s.descriptors n then Res.fail s .illegalMessageSequence else Res.ok s

/-- does `obj`'s describe collide with an object already read in this bundle -/
def collides (s : BState) (o : Obj) : Bool :=
  let curKeys := (aget s.describeCache o).getD []
  s.objsRead.any fun ro => overlaps ((aget s.describeCache ro).getD []) curKeys

def read (w : World) (s : BState) (o : Obj) (reading : Reading) : Res :=
  if !s.bundling then Res.ok s else
  (ensureCached w s o false).andThen fun s =>
    if collides s o then Res.fail s .valueError
    else Res.ok { s with objsRead := s.objsRead ++ [o], readCache := s.readCache ++ [reading] }

/-- the `objs_dks` dict built by `save` for a new descriptor (duplicates collapse) -/
def saveObjsDks (s : BState) (objs : List Obj) : List (Obj × List Key) :=
  objs.foldl (fun acc o => aset acc o ((aget s.describeCache o).getD [])) []

def ensureAll (w : World) (s : BState) (objs : List Obj) (collect : Bool) : Res :=
  objs.foldl (fun (r : Res) o => r.andThen fun s => ensureCached w s o collect) (Res.ok s)

/-- the part of `save` that looks the stream's descriptor up, making it when the stream is new and
    rejecting a bundle whose objects differ from the stream's -/
def saveDescriptor (w : World) (s : BState) (n : Name) (objsRead : List Obj) : Res :=
  match aget s.descriptors n with
  | none =>
    (ensureAll w s objsRead false).andThen fun s => prepareStream w s n (saveObjsDks s objsRead)
  | some d =>
    if !sameSet (akeys d.objs) objsRead then Res.fail s .runtimeError else Res.ok s

/-- the part of `save` that composes and emits the event -/
def saveEvent (s : BState) (n : Name) (readings : List (Key × Val)) : Res :=
  match aget s.descriptors n with
  | none => Res.fail s .keyError
  | some d => composeEvent s n d.uid d.keys d.ext readings .bundle

def save (w : World) (s : BState) : Res :=
  if !s.bundling then Res.fail s .illegalMessageSequence else
  if saveEmptyReturnsEarly && s.objsRead.isEmpty then
    Res.ok (if saveEmptyClearsBundle then { s with bundling := false, bundleName := none } else s)
  else
  match s.bundleName with
  | none => Res.fail { s with bundling := false, bundleName := none } .schemaError   -- compose_descriptor(name=None) fails schema validation
  | some n =>
    (saveDescriptor w { s with bundling := false, bundleName := none } n s.objsRead).andThen fun s' =>
      saveEvent s' n (mergeReadings s.readCache)

def drop (s : BState) : Res :=
  if !s.bundling then Res.fail s .illegalMessageSequence
  else Res.ok { s with bundling := false, bundleName := none }

/-! ### monitors and interruptions -/

def subInc (subs : List (Obj × Nat)) (o : Obj) : List (Obj × Nat) := aset subs o ((aget subs o).getD 0 + 1)

def monitor (w : World) (s : BState) (o : Obj) (n : Name) : Res :=
  if ahas s.monitors o then Res.fail s .illegalMessageSequence else
  (ensureCached w s o false).andThen fun s =>
    (prepareStream w s n [(o, (aget s.describeCache o).getD [])]).andThen fun s =>
      match aget s.descriptors n with
      | none => Res.fail s .keyError
      | some d =>
        { st := { s with monitors := aset s.monitors o { name := n, descUid := d.uid, descKeys := d.keys }
                         subs := subInc s.subs o }
          calls := [⟨o, "subscribe"⟩] }

/-- `compose_event(...)` inside the monitor closure.  The composer is looked up in `_descriptors`
    at call time (extracted fact `monitorUsesCurrentDescriptor`); otherwise it would be the one
    captured when `monitor` ran. -/
def monitorCompose (s : BState) (m : MonRec) (reading : Reading) : Res :=
  if monitorUsesCurrentDescriptor then
    match aget s.descriptors m.name with
    | none => Res.fail s .keyError
    | some d => composeEvent s m.name d.uid d.keys d.ext reading .monitor
  else composeEvent s m.name m.descUid m.descKeys [] reading .monitor

/-- one call of the closure `emit_event` created by `monitor(obj)` -/
def monitorUpdate (s : BState) (o : Obj) (reading : Reading) : Res :=
  match aget s.monitors o with
  | none => Res.ok s     -- no closure exists for this object
  | some m =>
    match (monitorCompose s m reading).err with
    | some _ => monitorCompose s m reading
    | none =>
      -- commit happens between compose_event and emit_sync
      if monitorCommits then
        { monitorCompose s m reading with
            st := commit (monitorCompose s m reading).st m.name
            cev := (monitorCompose s m reading).cev ++ [.commit m.name] }
      else monitorCompose s m reading

def unmonitor (s : BState) (o : Obj) : Res :=
  if !ahas s.monitors o then Res.fail s .illegalMessageSequence else
  let s := { s with monitors := aerase s.monitors o, subs := aerase s.subs o }
  let r : Res := { st := s, calls := [⟨o, "clear_sub"⟩] }
  r.andThen fun s => if unmonitorResets then resetR s else Res.ok s

def clearMonitors (s : BState) : Res := dropMonitors s

def suspendMonitors (s : BState) : Res :=
  { st := { s with subs := s.subs.filter fun p => !ahas s.monitors p.1 }
    calls := s.monitors.map fun m => ⟨m.1, "clear_sub"⟩ }

def restoreMonitors (s : BState) : Res :=
  { st := { s with subs := s.monitors.foldl (fun acc m => subInc acc m.1) s.subs }
    calls := s.monitors.map fun m => ⟨m.1, "subscribe"⟩ }

def recordInterruption (s : BState) (content : String) : Res :=
  match s.interruptionsDesc with
  | none => Res.ok s
  | some uid =>
    let r := composeEvent s "interruptions" uid ["interruption"] [] [("interruption", 0)] .interruption (some content)
    match r.err with
    | some _ => r
    | none =>
      if interruptionCommits then { r with st := commit r.st "interruptions", cev := r.cev ++ [.commit "interruptions"] }
      else r

/-! ### configure -/

/-- second half of `configure`: re-prepare every stream whose descriptor contains `o`
    (`for name in list(self._descriptors): ...`) -/
def reprepareAll (w : World) (s : BState) (o : Obj) : Res :=
  s.descriptors.foldl
    (fun (r : Res) (nd : Name × Desc) =>
      r.andThen fun s =>
        match aget s.descriptors nd.1 with
        | none => Res.fail s .keyError
        | some d =>
          if ahas d.objs o then
            prepareStream w { s with descriptors := aerase s.descriptors nd.1 } nd.1 d.objs
          else Res.ok s)
    (Res.ok s)

def configure (w : World) (s : BState) (o : Obj) : Res :=
  (cacheReadConfig w s o).andThen fun s => reprepareAll w s o

/-! ### declare_stream / collect -/

def declaredNames (s : BState) (objs : List Obj) : List Name :=
  match s.declared.find? (fun p => sameSet p.1 objs) with
  | some p => p.2
  | none => []

def declareAppend (d : List (List Obj × List Name)) (objs : List Obj) (n : Name) : List (List Obj × List Name) :=
  match d with
  | [] => [(objs, [n])]
  | p :: t => if sameSet p.1 objs then (p.1, p.2 ++ [n]) :: t else p :: declareAppend t objs n

def declareStream (w : World) (s : BState) (n : Name) (objs : List Obj) (collect : Bool) : Res :=
  let objs := dedupKeys objs
  (ensureAll w s objs collect).andThen fun s =>
    -- a detector with an empty describe_collect fails the single-stream assertion
    if collect && objs.any (fun o => ((aget s.describeCollectCache o).getD []).isEmpty) then
      Res.fail s .assertionError
    else
      let objsDks := objs.map fun o =>
        (o, if collect then (aget s.describeCollectCache o).getD [] else (aget s.describeCache o).getD [])
      let s := { s with declared := declareAppend s.declared objs n }
      prepareStream w s n objsDks

/-- `set.add` on `_uncollected`; the iteration order of that set is name order for the fakes
    (their `__hash__` is chosen so) -/
def setInsert : List Obj → Obj → List Obj
  | [], o => [o]
  | p :: t, o => if p = o then p :: t else if o < p then o :: p :: t else p :: setInsert t o

def kickoff (s : BState) (o : Obj) : Res := Res.ok { s with uncollected := setInsert s.uncollected o }

/-- the fake detector's `collect_asset_docs(index)` (harness/bundler_fakes.py::Det): the contract
    behaviour plus the scripted one-shot deviations `mis` -/
def detCollect (name : Obj) (keys : List Key) (d : DetSt) (index : Option Nat) (mis : Mis) : List Asset × DetSt :=
  let index := index.getD d.index
  let res : List Asset :=
    if !d.sent || mis.resend then keys.map fun k => Asset.resource s!"sr-{name}-{k}" k else []
  let emitDatums := decide (index > d.last) || mis.any
  let n := keys.length
  let datums : List Asset :=
    if emitDatums then
      (List.range n).zip keys |>.map fun ik =>
        let stop := index + (if ik.1 + 1 == n then mis.width else 0)
        Asset.datum s!"sd-{name}-{d.ndatum + ik.1 + 1}"
          (s!"sr-{name}-{ik.2}" ++ (if mis.unknown then "-x" else "")) mis.desc d.last stop mis.seq
    else []
  (res ++ datums,
   { d with sent := true, ndatum := if emitDatums then d.ndatum + n else d.ndatum,
            last := if emitDatums then max d.last index else d.last })

/-- `_pack_external_assets(asset_docs, message_stream_name)`; returns the state and the last
    indices difference (`prev`) through `Res` + the extra component -/
structure PackSt where
  res : Res
  prev : Nat := 0
  received : List Key := []

def packOne (n : Name) (d : Desc) (p : PackSt) (a : Asset) : PackSt :=
  match p.res.err with
  | some _ => p
  | none =>
    let s := p.res.st
    let fail (s : BState) (e : Err) : PackSt := { p with res := { p.res with st := s, err := some e } }
    match a with
    | .resource uid key =>
      if ahas s.streamResources uid then fail s .runtimeError else
      let s := { s with streamResources := aset s.streamResources uid key }
      if d.ext.isEmpty || !d.ext.contains key then fail s .runtimeError else
      { p with res := { p.res with st := s, docs := p.res.docs ++
          [{ kind := .streamResource, src := .collect, run := s.run, sid := some uid, dataKey := some key }] } }
    | .datum uid resource descFilled start stop seqFilled =>
      if descFilled then fail s .runtimeError else
      match aget s.streamResources resource with
      | none => fail s .keyError
      | some key =>
        let received := if p.received.contains key then p.received else p.received ++ [key]
        -- _pack_seq_nums_into_stream_datum
        if seqFilled then { fail s .eventModelValueError with received := received } else
        let diff := stop - start
        if p.prev != 0 && p.prev != diff then { fail s .eventModelValueError with received := received } else
        match aget s.seq n with
        | none => { fail s .keyError with received := received }
        | some c =>
          { res := { p.res with docs := p.res.docs ++
              [{ kind := .streamDatum, src := .collect, run := s.run, descriptor := some d.uid, stream := some n,
                 seqRange := some (c, c + diff), idxRange := some (start, stop), sid := some uid,
                 resource := some resource }] }
            prev := diff, received := received }

def packExternalAssets (s : BState) (n : Name) (assets : List Asset) : PackSt :=
  match aget s.descriptors n with
  | none => { res := Res.fail s .keyError }
  | some d =>
    let p := assets.foldl (packOne n d) { res := Res.ok s }
    match p.res.err with
    | some _ => p
    | none =>
      if !p.received.isEmpty && !sameSet d.ext p.received then
        { p with res := { p.res with err := some .runtimeError } }
      else p

def aggIndex (l : List Nat) : Nat :=
  match collectIndexAgg with
  | .min => l.foldl min (l.headD 0)
  | .max => l.foldl max (l.headD 0)

/-- ask every detector for its documents (in message order), threading the detector states -/
def gatherAssets (w : World) (s : BState) (objs : List Obj) (index : Option Nat) (mis : List Mis) :
    List Asset × List (Obj × DetSt) :=
  (objs.zip (mis ++ List.replicate objs.length {})).foldl
    (fun (acc : List Asset × List (Obj × DetSt)) om =>
      let d := (aget acc.2 om.1).getD {}
      let (docs, d') := detCollect om.1 (w.spec om.1).keys d index om.2
      (acc.1 ++ docs, aset acc.2 om.1 d'))
    ([], s.dets)

/-- `_collect(msg)` for detectors (every object Collectable + WritesStreamAssets) -/
def collectInner (w : World) (s : BState) (objs : List Obj) (name : Option Name) (mis : List Mis) : Res :=
  if !s.runOpen then Res.fail s .illegalMessageSequence else
  let s := { s with uncollected := s.uncollected.filter fun o => !objs.contains o }
  let declared := declaredNames s objs
  let stream? : Except Err (Option Name) :=
    match name with
    | some n => if declared.contains n then .ok (some n) else .error .assertionError
    | none =>
      match declared with
      | [] => .ok none
      | n :: _ => if declared.all (· == n) then .ok (some n) else .error .assertionError
  match stream? with
  | .error e => Res.fail s e
  | .ok none =>
    -- old-style path: `_describe_collect` rejects singly nested data keys
    match objs with
    | [o] => (ensureCached w s o true).andThen fun s => Res.fail s .assertionError
    | _ => Res.fail s .illegalMessageSequence
  | .ok (some n) =>
    let idxCalls : List Call := if objs.length > 1 then objs.map fun o => ⟨o, "get_index"⟩ else []
    let minIndex : Option Nat :=
      if objs.length > 1 then some (aggIndex (objs.map fun o => ((aget s.dets o).getD {}).index)) else none
    let (assets, dets') := gatherAssets w s objs minIndex mis
    let s := { s with dets := dets' }
    let pre : Res := { st := s, calls := idxCalls ++ objs.map fun o => ⟨o, "collect_asset_docs"⟩ }
    pre.andThen fun s =>
      let p := packExternalAssets s n assets
      p.res.andThen fun s =>
        match aget s.seq n with
        | none => Res.fail s .keyError
        | some c =>
          if collectAdvancesByDifference then Res.pure { s with seq := aset s.seq n (c + p.prev) } [.bump n c p.prev]
          else Res.ok s

/-- `collect(msg)`: `_collect` plus the `finally` that commits every counter that changed -/
def collect (w : World) (s : BState) (objs : List Obj) (name : Option Name) (mis : List Mis) : Res :=
  let before := s.seq
  let r := collectInner w s objs name mis
  if collectCommitsChanged then
    let changed := (r.st.seq.filter fun kv => aget before kv.1 != some kv.2).map Prod.fst
    { r with st := changed.foldl commit r.st, cev := r.cev ++ changed.map CEv.commit }
  else r

/-- `backstop_collect`: `for obj in list(self._uncollected): try: collect(Msg("collect", obj)) except: log` -/
def backstopCollect (w : World) (s : BState) : Res :=
  s.uncollected.foldl
    (fun (r : Res) o =>
      let r2 := collect w r.st [o] none []
      { st := r2.st, docs := r.docs ++ r2.docs, calls := r.calls ++ r2.calls, err := none, cev := r.cev ++ r2.cev })
    (Res.ok s)

/-! ### dispatcher -/

def step (w : World) (s : BState) : Op → Res
  | .closeRun e r => closeRun s e r
  | .create n => create s n
  | .read o r => read w s o r
  | .save => save w s
  | .drop => drop s
  | .monitor o n => monitor w s o n
  | .unmonitor o => unmonitor s o
  | .monitorUpdate o r => monitorUpdate s o r
  | .suspendMonitors => suspendMonitors s
  | .restoreMonitors => restoreMonitors s
  | .clearMonitors => clearMonitors s
  | .recordInterruption c => recordInterruption s c
  | .rewind => Res.pure (rewindOp s) [.rewind (akeys s.descriptors)]
  | .resetCheckpoint => resetR s
  | .clearCheckpoint => Res.pure (clearCp s) [.clear]
  | .configure o => configure w s o
  | .declareStream n objs c => declareStream w s n objs c
  | .kickoff o => kickoff s o
  | .collect objs n mis => collect w s objs n mis
  | .backstopCollect => backstopCollect w s
  | .setCfg o c => Res.ok { s with envCfg := aset s.envCfg o c }
  | .advance o k =>
    let d := (aget s.dets o).getD {}
    Res.ok { s with dets := aset s.dets o { d with index := d.index + k } }

/-- one entry of a trace: the operation, what it emitted, and how it ended -/
structure Entry where
  op : Op
  docs : List Doc
  calls : List Call
  err : Option Err
  cev : List CEv := []

/-- run a history; returns the final state and the trace (one entry per operation) -/
def runFrom (w : World) (s : BState) : List Op → BState × List Entry
  | [] => (s, [])
  | op :: ops =>
    let r := step w s op
    let (s', tr) := runFrom w r.st ops
    (s', ⟨op, r.docs, r.calls, r.err, r.cev⟩ :: tr)

def traceDocs (tr : List Entry) : List Doc := tr.flatMap (·.docs)

end BlueskyVerif.Bundler
