/-
Executable model of `RunBundler` (src/bluesky/bundlers.py), transcribed method by method,
together with the counter-handling lines of event_model (ComposeDescriptor sets the counter of a
new stream to 1, ComposeEvent reads the counter and writes `seq_num + 1`, ComposeStop reports
`v - 1` and refuses a second stop) and its key-set validations.

Every operation returns a `Res`: the state after (whose `out` has the documents emitted appended,
in order), the device calls made, and the exception (by class) that ended it, if any.  As in
Python, whatever was mutated / emitted before the `raise` stays.  `BState.log` is a ghost record
of what was done to the sequence counters (used by the proofs only).

What is NOT modelled (stated in the MANIFEST of the properties that use this file):
resource/datum documents of `WritesExternalAssets` devices inside `read`/`save`; old-style
(doubly nested `describe_collect`) flyers and `collect` of Event(Page)Collectable devices;
`hints`; timestamps; `filled`; the `stream=True` kwarg.  A bundler object serves one run
(RunEngine._open_run constructs a fresh one), hence `openRun` builds the initial state.
-/
import BlueskyVerif.Bundler.Types
import BlueskyVerif.Bundler.Generated

namespace BlueskyVerif.Bundler
open Generated

/-! ### counters -/

/-- current value of a stream's counter; 1 when the stream has no counter yet (a new stream
    starts at `firstSeq`) -/
def cur (s : BState) (n : Name) : Nat := (aget s.seq n).getD firstSeq

/-- `_commit_sequence_counter(stream_name)` -/
def commit (s : BState) (n : Name) : BState :=
  match aget s.seq n with
  | some c => { s with seqCopy := aset s.seqCopy n c, log := s.log ++ [.commit n] }
  | none => { s with log := s.log ++ [.commit n] }

/-- `reset_checkpoint_state`: `for key, counter in list(counters.items()): copy[key] = counter` -/
def resetCp (s : BState) : BState :=
  { s with seqCopy := aupdate s.seqCopy s.seq, cpCleared := false, log := s.log ++ [.reset] }

/-- one iteration of the loop of `rewind` over `_descriptor_objs` -/
def rewindReadd (a : BState) (n : Name) : BState :=
  if ahas a.seq n then a
  else { a with seq := aset a.seq n firstSeq, seqCopy := aset a.seqCopy n firstSeq }

/-- `rewind` -/
def rewindOp (s : BState) : BState :=
  let s1 := { s with seq := s.seqCopy, log := s.log ++ [.rewind (akeys s.descriptors)] }
  let s2 := if rewindReaddsDescriptorStreams then (akeys s1.descriptors).foldl rewindReadd s1 else s1
  if rewindCancelsBundle then { s2 with bundling := false } else s2

/-- `clear_checkpoint` -/
def clearCp (s : BState) : BState :=
  { s with seqCopy := [], cpCleared := true, log := s.log ++ [.clear] }

/-- keys of a descriptor that are not external "STREAM:" keys (event_model.keys_without_stream_keys) -/
def nonStream (ext keys : List Key) : List Key := keys.filter (fun k => !ext.contains k)

/-- event_model `ComposeEvent.__call__` for the descriptor `(uid, keys, ext)` of stream `n`, followed
    by the emission of the event: reads the counter (KeyError when the stream has none), validates
    the key sets, writes `seq_num + 1`. -/
def composeEvent (s : BState) (n : Name) (descUid : Nat) (descKeys ext : List Key)
    (data : List (Key × Val)) (src : Src) (note : Option String := none) : Res :=
  match aget s.seq n with
  | none => Res.fail s .keyError
  | some c =>
    -- keys_without_stream_keys(data, descriptor["data_keys"]) indexes the descriptor with every data key
    if (data.map Prod.fst).any (fun k => !descKeys.contains k) then
      Res.fail { s with nextUid := s.nextUid + 1 } .keyError
    else if !sameSet (nonStream ext descKeys) (nonStream ext (data.map Prod.fst)) then
      Res.fail { s with nextUid := s.nextUid + 1 } .eventModelValidationError
    else
      Res.ok
        { s with nextUid := s.nextUid + 1
                 seq := aset s.seq n (c + eventIncrement)
                 out := s.out ++ [{ kind := .event, src := src, uid := s.nextUid, run := s.run,
                                    descriptor := some descUid, stream := some n, seq := some c,
                                    keys := data.map Prod.fst, data := data, note := note }]
                 log := s.log ++ [.emit n c (src == .bundle)] }

/-- dict-merge of the cached readings: `{k: v for d in cache for k, v in d.items()}` -/
def mergeReadings (rs : List Reading) : List (Key × Val) :=
  rs.foldl (fun acc r => aupdate acc r) []

/-! ### caches -/

/-- `_cache_read_config(obj)` -/
def cacheReadConfig (w : World) (s : BState) (o : Obj) : Res :=
  if (w.spec o).configurable then
    { st := { s with configValuesCache := aset s.configValuesCache o ((aget s.envCfg o).getD []) }
      calls := [⟨o, "read_configuration"⟩] }
  else Res.ok { s with configValuesCache := aset s.configValuesCache o [] }

/-- `_cache_describe_config(obj)` -/
def cacheDescribeConfig (w : World) (s : BState) (o : Obj) : Res :=
  if (w.spec o).configurable then
    { st := { s with configDescCache := aset s.configDescCache o (akeys ((aget s.envCfg o).getD [])) }
      calls := [⟨o, "describe_configuration"⟩] }
  else Res.ok { s with configDescCache := aset s.configDescCache o [] }

/-- first half of `_ensure_cached`: `_cache_describe` / `_cache_describe_collect` (with their
    `check_supports(obj, Readable)` / `check_supports(obj, Collectable)`) -/
def cacheDescribe (w : World) (s : BState) (o : Obj) (collect : Bool) : Res :=
  if !collect && !ahas s.describeCache o && (w.spec o).isDet then Res.fail s .assertionError
  else if collect && !ahas s.describeCollectCache o && !(w.spec o).isDet then Res.fail s .assertionError
  else if !collect && !ahas s.describeCache o then
    { st := { s with describeCache := aset s.describeCache o (w.spec o).keys }, calls := [⟨o, "describe"⟩] }
  else if collect && !ahas s.describeCollectCache o then
    { st := { s with describeCollectCache := aset s.describeCollectCache o (w.spec o).keys }
      calls := [⟨o, "describe_collect"⟩] }
  else Res.ok s

/-- second half of `_ensure_cached`: the configuration caches, filled once per object -/
def cacheConfig (w : World) (s : BState) (o : Obj) : Res :=
  if !ahas s.configDescCache o then
    (cacheDescribeConfig w s o).andThen fun s => cacheReadConfig w s o
  else Res.ok s

/-- `_ensure_cached(obj, collect)` -/
def ensureCached (w : World) (s : BState) (o : Obj) (collect : Bool) : Res :=
  (cacheDescribe w s o collect).andThen fun s => cacheConfig w s o

def ensureAll (w : World) (s : BState) (objs : List Obj) (collect : Bool) : Res :=
  objs.foldl (fun (r : Res) o => r.andThen fun s => ensureCached w s o collect) (Res.ok s)

/-! ### descriptors -/

/-- external ("STREAM:") keys among `keys`: exactly the keys that belong to a detector -/
def externalKeys (w : World) (objsDks : List (Obj × List Key)) : List Key :=
  dedupKeys (objsDks.flatMap fun od => if (w.spec od.1).isDet then od.2 else [])

/-- the `configuration` block `_prepare_stream` builds from the caches -/
def configBlock (s : BState) (objsDks : List (Obj × List Key)) : List (Obj × CfgBlock) :=
  objsDks.map fun od =>
    (od.1, { data := (aget s.configValuesCache od.1).getD [], dataKeys := (aget s.configDescCache od.1).getD [] })

/-- the bundle `_prepare_stream` stores in `_descriptors[name]` / `_descriptor_objs[name]` -/
def mkDesc (w : World) (s : BState) (objsDks : List (Obj × List Key)) (uid : Nat) : Desc :=
  { uid := uid, keys := dedupKeys (objsDks.flatMap Prod.snd), objs := objsDks, ext := externalKeys w objsDks,
    config := configBlock s objsDks }

def descDoc (s : BState) (n : Name) (d : Desc) : Doc :=
  { kind := .descriptor, src := .prepare, uid := d.uid, run := s.run, stream := some n, keys := d.keys,
    extKeys := d.ext, objKeys := d.objs, config := d.config }

/-- `self._descriptors[desc_key] = ...; emit(descriptor); self._descriptor_objs[desc_key] = objs_dks` -/
def prepareStore (w : World) (s : BState) (n : Name) (objsDks : List (Obj × List Key)) (uid : Nat) : BState :=
  { s with descriptors := aset s.descriptors n (mkDesc w s objsDks uid),
           out := s.out ++ [descDoc s n (mkDesc w s objsDks uid)] }

/-- tail of `_prepare_stream`: store the bundle, emit the descriptor, make sure the stream has a counter -/
def prepareFinish (w : World) (s : BState) (n : Name) (objsDks : List (Obj × List Key)) (uid : Nat) : BState :=
  if ahas s.seq n then prepareStore w s n objsDks uid
  else { prepareStore w s n objsDks uid with
           seq := aset s.seq n firstSeq, seqCopy := aset s.seqCopy n firstSeq, log := s.log ++ [.ensure n] }

/-- `_prepare_stream(desc_key, objs_dks)` including event_model's `ComposeDescriptor.__call__` -/
def prepareStream (w : World) (s : BState) (n : Name) (objsDks : List (Obj × List Key)) : Res :=
  -- `self._config_values_cache[obj]` raises KeyError for an object that was never cached
  if objsDks.any (fun od => !ahas s.configValuesCache od.1) then Res.fail s .keyError else
  -- ComposeDescriptor
  match aget s.streams n with
  | some ks =>
    if !sameSet ks (dedupKeys (objsDks.flatMap Prod.snd)) then
      Res.fail { s with nextUid := s.nextUid + 1 } .eventModelValidationError
    else Res.ok (prepareFinish w { s with nextUid := s.nextUid + 1 } n objsDks s.nextUid)
  | none =>
    Res.ok (prepareFinish w
      { s with nextUid := s.nextUid + 1
               streams := aset s.streams n (dedupKeys (objsDks.flatMap Prod.snd)), seq := aset s.seq n firstSeq,
               log := s.log ++ [.newStream n] } n objsDks s.nextUid)

/-! ### run life cycle -/

/-- `RunBundler(...)` followed by `open_run`; `uid0` is the first free uid -/
def openRun (cfg : BCfg) (uid0 : Nat) (envCfg : List (Obj × Config) := []) : BState :=
  let s : BState := { cfg := cfg, runOpen := true, run := uid0, nextUid := uid0 + 1, envCfg := envCfg,
                      out := [{ kind := .start, src := .run, uid := uid0, run := uid0 }] }
  let s := if openRunResets then resetCp s else s
  if cfg.recordInterruptions then
    { s with nextUid := uid0 + 2, interruptionsDesc := some (uid0 + 1),
             streams := aset s.streams "interruptions" ["interruption"],
             seq := aset s.seq "interruptions" firstSeq,
             out := s.out ++ [{ kind := .descriptor, src := .run, uid := uid0 + 1, run := uid0,
                                stream := some "interruptions", keys := ["interruption"] }]
             log := s.log ++ [.newStream "interruptions"] }
  else s

/-- `for obj, (cb, kwargs) in list(self._monitor_params.items()): obj.clear_sub(cb); del ...` -/
def dropMonitors (s : BState) : Res :=
  { st := { s with monitors := [], subs := s.subs.filter fun p => !ahas s.monitors p.1 }
    calls := s.monitors.map fun m => ⟨m.1, "clear_sub"⟩ }

/-- ComposeStop + emit + the rest of `close_run` -/
def closeRunTail (s : BState) (exit reason : String) : Res :=
  if s.stopped then Res.fail s .eventModelError else
  let s1 := { s with stopped := true, nextUid := s.nextUid + 1
                     out := s.out ++ [{ kind := .stop, src := .run, uid := s.nextUid, run := s.run, exit := some exit,
                                        reason := some reason,
                                        numEvents := s.seq.map fun kv => (kv.1, kv.2 - stopOffset) }] }
  Res.ok { (if closeRunResets then resetCp s1 else s1) with runOpen := false }

def closeRun (s : BState) (exit reason : Option String) : Res :=
  if !s.runOpen then Res.fail s .illegalMessageSequence else
  (dropMonitors s).andThen fun s =>
    closeRunTail s
      (match exit with
       | some e => if e == "" then "success" else e
       | none => "success")
      (reason.getD "")

/-! ### bundles -/

def create (s : BState) (name : Option Name) : Res :=
  if s.bundling then Res.fail s .illegalMessageSequence else
  match name with
  | none => Res.fail { s with readCache := [], objsRead := [], bundling := true } .valueError
  | some n =>
    if s.cfg.strict && !ahas s.descriptors n then
      Res.fail { s with readCache := [], objsRead := [], bundling := true, bundleName := some n } .illegalMessageSequence
    else Res.ok { s with readCache := [], objsRead := [], bundling := true, bundleName := some n }

/-- does `obj`'s describe collide with an object already read in this bundle -/
def collides (s : BState) (o : Obj) : Bool :=
  let curKeys := (aget s.describeCache o).getD []
  s.objsRead.any fun ro => overlaps ((aget s.describeCache ro).getD []) curKeys

def read (w : World) (s : BState) (o : Obj) (reading : Reading) : Res :=
  if !s.bundling then Res.ok s else
  (ensureCached w s o false).andThen fun s =>
    if collides s o then Res.fail s .valueError
    else Res.ok { s with objsRead := s.objsRead ++ [o], readCache := s.readCache ++ [reading] }

/-- the `objs_dks` dict built by `save` for a new descriptor (duplicates collapse) -/
def saveObjsDks (s : BState) (objs : List Obj) : List (Obj × List Key) :=
  objs.foldl (fun acc o => aset acc o ((aget s.describeCache o).getD [])) []

/-- the part of `save` that looks the stream's descriptor up, making it when the stream is new and
    rejecting a bundle whose objects differ from the stream's -/
def saveDescriptor (w : World) (s : BState) (n : Name) (objsRead : List Obj) : Res :=
  match aget s.descriptors n with
  | none =>
    (ensureAll w s objsRead false).andThen fun s => prepareStream w s n (saveObjsDks s objsRead)
  | some d =>
    if !sameSet (akeys d.objs) objsRead then Res.fail s .runtimeError else Res.ok s

/-- the part of `save` that composes and emits the event -/
def saveEvent (s : BState) (n : Name) (readings : List (Key × Val)) : Res :=
  match aget s.descriptors n with
  | none => Res.fail s .keyError
  | some d => composeEvent s n d.uid d.keys d.ext readings .bundle

def save (w : World) (s : BState) : Res :=
  if !s.bundling then Res.fail s .illegalMessageSequence else
  if saveEmptyReturnsEarly && s.objsRead.isEmpty then
    Res.ok (if saveEmptyClearsBundle then { s with bundling := false, bundleName := none } else s)
  else
  match s.bundleName with
  | none => Res.fail { s with bundling := false, bundleName := none } .schemaError   -- compose_descriptor(name=None) fails schema validation
  | some n =>
    (saveDescriptor w { s with bundling := false, bundleName := none } n s.objsRead).andThen fun s' =>
      saveEvent s' n (mergeReadings s.readCache)

def drop (s : BState) : Res :=
  if !s.bundling then Res.fail s .illegalMessageSequence
  else Res.ok { s with bundling := false, bundleName := none }

/-! ### monitors and interruptions -/

def subInc (subs : List (Obj × Nat)) (o : Obj) : List (Obj × Nat) := aset subs o ((aget subs o).getD 0 + 1)

/-- last part of `monitor`: remember the closure and subscribe it -/
def monitorSubscribe (s : BState) (o : Obj) (n : Name) : Res :=
  match aget s.descriptors n with
  | none => Res.fail s .keyError
  | some d =>
    { st := { s with monitors := aset s.monitors o { name := n, descUid := d.uid, descKeys := d.keys }
                     subs := subInc s.subs o }
      calls := [⟨o, "subscribe"⟩] }

def monitor (w : World) (s : BState) (o : Obj) (n : Name) : Res :=
  if ahas s.monitors o then Res.fail s .illegalMessageSequence else
  (ensureCached w s o false).andThen fun s =>
    (prepareStream w s n [(o, (aget s.describeCache o).getD [])]).andThen fun s =>
      monitorSubscribe s o n

/-- `compose_event(...)` inside the monitor closure.  The composer is looked up in `_descriptors`
    at call time (extracted fact `monitorUsesCurrentDescriptor`); otherwise it would be the one
    captured when `monitor` ran. -/
def monitorCompose (s : BState) (m : MonRec) (reading : Reading) : Res :=
  if monitorUsesCurrentDescriptor then
    match aget s.descriptors m.name with
    | none => Res.fail s .keyError
    | some d => composeEvent s m.name d.uid d.keys d.ext reading .monitor
  else composeEvent s m.name m.descUid m.descKeys [] reading .monitor

/-- one call of the closure `emit_event` created by `monitor(obj)` (the commit happens between
    compose_event and emit_sync; the order is immaterial for the model) -/
def monitorUpdate (s : BState) (o : Obj) (reading : Reading) : Res :=
  match aget s.monitors o with
  | none => Res.ok s     -- no closure exists for this object
  | some m =>
    (monitorCompose s m reading).andThen fun s =>
      Res.ok (if monitorCommits then commit s m.name else s)

def unmonitor (s : BState) (o : Obj) : Res :=
  if !ahas s.monitors o then Res.fail s .illegalMessageSequence else
  { st := if unmonitorResets then resetCp { s with monitors := aerase s.monitors o, subs := aerase s.subs o }
          else { s with monitors := aerase s.monitors o, subs := aerase s.subs o }
    calls := [⟨o, "clear_sub"⟩] }

def clearMonitors (s : BState) : Res := dropMonitors s

def suspendMonitors (s : BState) : Res :=
  { st := { s with subs := s.subs.filter fun p => !ahas s.monitors p.1 }
    calls := s.monitors.map fun m => ⟨m.1, "clear_sub"⟩ }

def restoreMonitors (s : BState) : Res :=
  { st := { s with subs := s.monitors.foldl (fun acc m => subInc acc m.1) s.subs }
    calls := s.monitors.map fun m => ⟨m.1, "subscribe"⟩ }

def recordInterruption (s : BState) (content : String) : Res :=
  match s.interruptionsDesc with
  | none => Res.ok s
  | some uid =>
    (composeEvent s "interruptions" uid ["interruption"] [] [("interruption", 0)] .interruption (some content)).andThen
      fun s => Res.ok (if interruptionCommits then commit s "interruptions" else s)

/-! ### configure -/

/-- one iteration of the loop of `configure` over `list(self._descriptors)` -/
def reprepareOne (w : World) (s : BState) (o : Obj) (n : Name) : Res :=
  match aget s.descriptors n with
  | none => Res.fail s .keyError
  | some d =>
    if ahas d.objs o then
      prepareStream w { s with descriptors := aerase s.descriptors n } n d.objs
    else Res.ok s

/-- second half of `configure`: re-prepare every stream whose descriptor contains `o` -/
def reprepareAll (w : World) (s : BState) (o : Obj) : Res :=
  (akeys s.descriptors).foldl (fun (r : Res) (n : Name) => r.andThen fun s => reprepareOne w s o n) (Res.ok s)

def configure (w : World) (s : BState) (o : Obj) : Res :=
  (cacheReadConfig w s o).andThen fun s => reprepareAll w s o

/-! ### declare_stream / collect -/

def declaredNames (s : BState) (objs : List Obj) : List Name :=
  match s.declared.find? (fun p => sameSet p.1 objs) with
  | some p => p.2
  | none => []

def declareAppend (d : List (List Obj × List Name)) (objs : List Obj) (n : Name) : List (List Obj × List Name) :=
  match d with
  | [] => [(objs, [n])]
  | p :: t => if sameSet p.1 objs then (p.1, p.2 ++ [n]) :: t else p :: declareAppend t objs n

/-- `objs_dks` of `declare_stream` -/
def declareObjsDks (s : BState) (objs : List Obj) (collect : Bool) : List (Obj × List Key) :=
  objs.map fun o =>
    (o, if collect then (aget s.describeCollectCache o).getD [] else (aget s.describeCache o).getD [])

def declareStream (w : World) (s : BState) (n : Name) (objs : List Obj) (collect : Bool) : Res :=
  (ensureAll w s (dedupKeys objs) collect).andThen fun s =>
    -- a detector with an empty describe_collect fails the single-stream assertion
    if collect && (dedupKeys objs).any (fun o => ((aget s.describeCollectCache o).getD []).isEmpty) then
      Res.fail s .assertionError
    else
      prepareStream w { s with declared := declareAppend s.declared (dedupKeys objs) n } n
        (declareObjsDks s (dedupKeys objs) collect)

/-- `set.add` on `_uncollected`; the iteration order of that set is name order for the fakes
    (their `__hash__` is chosen so) -/
def setInsert : List Obj → Obj → List Obj
  | [], o => [o]
  | p :: t, o => if p = o then p :: t else if o < p then o :: p :: t else p :: setInsert t o

def kickoff (s : BState) (o : Obj) : Res := Res.ok { s with uncollected := setInsert s.uncollected o }

/-- the fake detector's `collect_asset_docs(index)` (harness/bundler_fakes.py::Det): the contract
    behaviour plus the scripted one-shot deviations `mis` -/
def detCollect (name : Obj) (keys : List Key) (d : DetSt) (index : Option Nat) (mis : Mis) : List Asset × DetSt :=
  let index := index.getD d.index
  let res : List Asset :=
    if !d.sent || mis.resend then keys.map fun k => Asset.resource s!"sr-{name}-{k}" k else []
  let emitDatums := decide (index > d.last) || mis.any
  let n := keys.length
  let datums : List Asset :=
    if emitDatums then
      (List.range n).zip keys |>.map fun ik =>
        let stop := max index d.last + (if ik.1 + 1 == n then mis.width else 0)
        Asset.datum s!"sd-{name}-{d.ndatum + ik.1 + 1}"
          (s!"sr-{name}-{ik.2}" ++ (if mis.unknown then "-x" else "")) mis.desc d.last stop mis.seq
    else []
  (res ++ datums,
   { d with sent := true, ndatum := if emitDatums then d.ndatum + n else d.ndatum,
            last := if emitDatums then max d.last index else d.last })

/-- state of `_pack_external_assets` while it loops over the asset documents -/
structure PackSt where
  st : BState
  err : Option Err := none
  prev : Nat := 0              -- stream_datum_previous_indices_difference
  received : List Key := []    -- data_keys_received

/-- one asset document inside `_pack_external_assets` (stream `n`, its descriptor `d`) -/
def packOne (n : Name) (d : Desc) (p : PackSt) (a : Asset) : PackSt :=
  match p.err with
  | some _ => p
  | none =>
    match a with
    | .resource uid key =>
      if ahas p.st.streamResources uid then { p with err := some .runtimeError } else
      if d.ext.isEmpty || !d.ext.contains key then
        { p with st := { p.st with streamResources := aset p.st.streamResources uid key }, err := some .runtimeError }
      else
        { p with st := { p.st with streamResources := aset p.st.streamResources uid key
                                   out := p.st.out ++ [{ kind := .streamResource, src := .collect, run := p.st.run,
                                                         sid := some uid, dataKey := some key }] } }
    | .datum uid resource descFilled start stop seqFilled =>
      if descFilled then { p with err := some .runtimeError } else
      match aget p.st.streamResources resource with
      | none => { p with err := some .keyError }
      | some key =>
        -- _pack_seq_nums_into_stream_datum
        if seqFilled then
          { p with err := some .eventModelValueError
                   received := if p.received.contains key then p.received else p.received ++ [key] }
        else if p.prev != 0 && p.prev != stop - start then
          { p with err := some .eventModelValueError
                   received := if p.received.contains key then p.received else p.received ++ [key] }
        else
        match aget p.st.seq n with
        | none =>
          { p with err := some .keyError
                   received := if p.received.contains key then p.received else p.received ++ [key] }
        | some c =>
          { st := { p.st with out := p.st.out ++ [{ kind := .streamDatum, src := .collect, run := p.st.run,
                                                    descriptor := some d.uid, stream := some n,
                                                    seqRange := some (c, c + (stop - start)),
                                                    idxRange := some (start, stop), sid := some uid,
                                                    resource := some resource }] }
            prev := stop - start
            received := if p.received.contains key then p.received else p.received ++ [key] }

/-- `_pack_external_assets(asset_docs, message_stream_name)` -/
def packExternalAssets (s : BState) (n : Name) (assets : List Asset) : PackSt :=
  match aget s.descriptors n with
  | none => { st := s, err := some .keyError }
  | some d =>
    let p := assets.foldl (packOne n d) { st := s }
    match p.err with
    | some _ => p
    | none =>
      if !p.received.isEmpty && !sameSet d.ext p.received then { p with err := some .runtimeError } else p

def aggIndex (l : List Nat) : Nat :=
  match collectIndexAgg with
  | .min => l.foldl min (l.headD 0)
  | .max => l.foldl max (l.headD 0)

/-- ask every detector for its documents (in message order), threading the detector states -/
def gatherAssets (w : World) (s : BState) (objs : List Obj) (index : Option Nat) (mis : List Mis) :
    List Asset × List (Obj × DetSt) :=
  (objs.zip (mis ++ List.replicate objs.length {})).foldl
    (fun (acc : List Asset × List (Obj × DetSt)) om =>
      let d := (aget acc.2 om.1).getD {}
      let (docs, d') := detCollect om.1 (w.spec om.1).keys d index om.2
      (acc.1 ++ docs, aset acc.2 om.1 d'))
    ([], s.dets)

/-- which stream a `collect` goes to: the given name must have been declared for exactly these objects;
    without a name the (single) declared stream is used; `none` = nothing declared -/
def collectStream (s : BState) (objs : List Obj) (name : Option Name) : Except Err (Option Name) :=
  match name with
  | some n => if (declaredNames s objs).contains n then .ok (some n) else .error .assertionError
  | none =>
    match declaredNames s objs with
    | [] => .ok none
    | n :: _ => if (declaredNames s objs).all (· == n) then .ok (some n) else .error .assertionError

/-- the index passed to `collect_asset_docs`: the aggregated `get_index()` when several detectors
    are collected together -/
def collectIndex (s : BState) (objs : List Obj) : Option Nat :=
  if objs.length > 1 then some (aggIndex (objs.map fun o => ((aget s.dets o).getD {}).index)) else none

def collectCalls (objs : List Obj) : List Call :=
  (if objs.length > 1 then objs.map fun o => ⟨o, "get_index"⟩ else []) ++ objs.map fun o => ⟨o, "collect_asset_docs"⟩

/-- advance the stream's counter by the (last) indices difference -/
def collectBump (p : PackSt) (n : Name) : Res :=
  match p.err with
  | some e => Res.fail p.st e
  | none =>
    match aget p.st.seq n with
    | none => Res.fail p.st .keyError
    | some c =>
      Res.ok (if collectAdvancesByDifference then
                { p.st with seq := aset p.st.seq n (c + p.prev), log := p.st.log ++ [.bump n c p.prev] }
              else p.st)

/-- the tail of `_collect` for detectors once the stream is known: gather, pack, advance the counter -/
def collectInto (w : World) (s : BState) (objs : List Obj) (n : Name) (mis : List Mis) : Res :=
  let r := collectBump
    (packExternalAssets { s with dets := (gatherAssets w s objs (collectIndex s objs) mis).2 } n
      (gatherAssets w s objs (collectIndex s objs) mis).1) n
  { r with calls := collectCalls objs }

/-- `_collect(msg)` for detectors (every object Collectable + WritesStreamAssets) -/
def collectInner (w : World) (s : BState) (objs : List Obj) (name : Option Name) (mis : List Mis) : Res :=
  if !s.runOpen then Res.fail s .illegalMessageSequence else
  match collectStream { s with uncollected := s.uncollected.filter fun o => !objs.contains o } objs name with
  | .error e => Res.fail { s with uncollected := s.uncollected.filter fun o => !objs.contains o } e
  | .ok none =>
    -- old-style path: `_describe_collect` rejects singly nested data keys
    match objs with
    | [o] =>
      (ensureCached w { s with uncollected := s.uncollected.filter fun o => !objs.contains o } o true).andThen
        fun s => Res.fail s .assertionError
    | _ => Res.fail { s with uncollected := s.uncollected.filter fun o => !objs.contains o } .illegalMessageSequence
  | .ok (some n) => collectInto w { s with uncollected := s.uncollected.filter fun o => !objs.contains o } objs n mis

/-- the `finally` of `collect`: commit every stream whose counter differs from its value on entry -/
def commitChanged (before : List (Name × Nat)) (s : BState) : BState :=
  ((s.seq.filter fun kv => aget before kv.1 != some kv.2).map Prod.fst).foldl commit s

/-- `collect(msg)`: `_collect` plus the `finally` that commits every counter that changed -/
def collect (w : World) (s : BState) (objs : List Obj) (name : Option Name) (mis : List Mis) : Res :=
  if collectCommitsChanged then
    { collectInner w s objs name mis with st := commitChanged s.seq (collectInner w s objs name mis).st }
  else collectInner w s objs name mis

/-- `backstop_collect`: `for obj in list(self._uncollected): try: collect(Msg("collect", obj)) except: log` -/
def backstopCollect (w : World) (s : BState) : Res :=
  s.uncollected.foldl
    (fun (r : Res) o =>
      { st := (collect w r.st [o] none []).st, calls := r.calls ++ (collect w r.st [o] none []).calls, err := none })
    (Res.ok s)

/-! ### dispatcher -/

def step (w : World) (s : BState) : Op → Res
  | .closeRun e r => closeRun s e r
  | .create n => create s n
  | .read o r => read w s o r
  | .save => save w s
  | .drop => drop s
  | .monitor o n => monitor w s o n
  | .unmonitor o => unmonitor s o
  | .monitorUpdate o r => monitorUpdate s o r
  | .suspendMonitors => suspendMonitors s
  | .restoreMonitors => restoreMonitors s
  | .clearMonitors => clearMonitors s
  | .recordInterruption c => recordInterruption s c
  | .rewind => Res.ok (rewindOp s)
  | .resetCheckpoint => Res.ok (resetCp s)
  | .clearCheckpoint => Res.ok (clearCp s)
  | .configure o => configure w s o
  | .declareStream n objs c => declareStream w s n objs c
  | .kickoff o => kickoff s o
  | .collect objs n mis => collect w s objs n mis
  | .backstopCollect => backstopCollect w s
  | .setCfg o c => Res.ok { s with envCfg := aset s.envCfg o c }
  | .advance o k =>
    Res.ok { s with dets := aset s.dets o { (aget s.dets o).getD {} with index := ((aget s.dets o).getD {}).index + k } }

/-- one entry of a trace: the operation, what it emitted, and how it ended -/
structure Entry where
  op : Op
  docs : List Doc
  calls : List Call
  err : Option Err
  cev : List CEv := []

/-- run a history; returns the final state and the trace (one entry per operation) -/
def runFrom (w : World) (s : BState) : List Op → BState × List Entry
  | [] => (s, [])
  | op :: ops =>
    ((runFrom w (step w s op).st ops).1,
     ⟨op, docsSince s (step w s op).st, (step w s op).calls, (step w s op).err, cevSince s (step w s op).st⟩ ::
       (runFrom w (step w s op).st ops).2)

/-- the final state only -/
def runState (w : World) (s : BState) : List Op → BState
  | [] => s
  | op :: ops => runState w (step w s op).st ops

def traceDocs (tr : List Entry) : List Doc := tr.flatMap (·.docs)

end BlueskyVerif.Bundler
