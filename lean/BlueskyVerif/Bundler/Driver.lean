/-
Shared driver core for C05, C15, C16, C45: JSON <-> bundler model.

Request  {"mode": "bundler", "cfg": {"ri": bool, "strict": bool}, "devs": [...], "envCfg": [[obj, [[k,v]..]]..],
          "ops": [ {"op": ...}, ... ]}
Reply    {"open": [docs of open_run], "entries": [{"docs": [...], "calls": [[obj, meth]..], "err": null | name}],
          "admissible": bool, "final": {...}}
Request  {"mode": "guards", ..., "msgs": [...]}    -> see Guards.lean
-/
import BlueskyVerif.Util.DriverLib
import BlueskyVerif.Bundler.Model
import BlueskyVerif.Bundler.Guards

namespace BlueskyVerif.Bundler.Drv
open Lean BlueskyVerif.Driver BlueskyVerif.Bundler

def jStr (s : String) : Json := Json.str s
def jOptStr : Option String → Json
  | none => Json.null
  | some s => Json.str s
def jOptNat : Option Nat → Json
  | none => Json.null
  | some n => jNat n
def jPair (p : Nat × Nat) : Json := Json.arr #[jNat p.1, jNat p.2]
def jKV (kv : Key × Val) : Json := Json.arr #[jStr kv.1, jInt kv.2]
def jStrs (l : List String) : Json := jList jStr l

def kindName : Kind → String
  | .start => "start" | .descriptor => "descriptor" | .event => "event"
  | .streamResource => "stream_resource" | .streamDatum => "stream_datum" | .stop => "stop"

def srcName : Src → String
  | .run => "run" | .prepare => "prepare" | .bundle => "bundle" | .monitor => "monitor"
  | .interruption => "interruption" | .collect => "collect"

def docJson (d : Doc) : Json :=
  let base : List (String × Json) := [("kind", jStr (kindName d.kind)), ("src", jStr (srcName d.src))]
  let opt (k : String) (v : Option Json) : List (String × Json) := match v with | some j => [(k, j)] | none => []
  Json.mkObj <| base
    ++ (match d.kind with
        | .streamResource | .streamDatum => []
        | _ => [("uid", jNat d.uid)])
    ++ [("run", jNat d.run)]
    ++ opt "descriptor" (d.descriptor.map jNat)
    ++ opt "stream" (d.stream.map jStr)
    ++ opt "seq" (d.seq.map jNat)
    ++ opt "seqRange" (d.seqRange.map jPair)
    ++ opt "idxRange" (d.idxRange.map jPair)
    ++ (match d.kind with
        | .descriptor => [("keys", jStrs d.keys), ("extKeys", jStrs d.extKeys)]
        | .event => [("keys", jStrs d.keys)]
        | _ => [])
    ++ (match d.kind with
        | .event => [("data", jList jKV d.data)]
        | _ => [])
    ++ opt "note" (d.note.map jStr)
    ++ (match d.kind with
        | .descriptor =>
          [("objKeys", jList (fun (p : Obj × List Key) => Json.arr #[jStr p.1, jStrs p.2]) d.objKeys),
           ("config", jList (fun (p : Obj × CfgBlock) =>
              Json.arr #[jStr p.1, jList jKV p.2.data, jStrs p.2.dataKeys]) d.config)]
        | _ => [])
    ++ opt "exit" (d.exit.map jStr)
    ++ opt "reason" (d.reason.map jStr)
    ++ (match d.kind with
        | .stop => [("numEvents", jList (fun (p : Name × Nat) => Json.arr #[jStr p.1, jNat p.2]) d.numEvents)]
        | _ => [])
    ++ opt "sid" (d.sid.map jStr)
    ++ opt "resource" (d.resource.map jStr)
    ++ opt "dataKey" (d.dataKey.map jStr)

def errJson : Option Err → Json
  | none => Json.null
  | some e => jStr e.name

def callsJson (cs : List Call) : Json := jList (fun (c : Call) => Json.arr #[jStr c.obj, jStr c.meth]) cs

/-! decoding -/

def getStrList (j : Json) (k : String) : List String := (getArr j k).map asStr

def getOptStr (j : Json) (k : String) : Option String :=
  match j.getObjVal? k with
  | .ok (Json.str s) => some s
  | _ => none

def asKV (j : Json) : Key × Val :=
  match asArr j with
  | [k, v] => (asStr k, asInt v)
  | _ => ("", 0)

def getKVs (j : Json) (k : String) : List (Key × Val) := (getArr j k).map asKV

def devOf (j : Json) : DevSpec :=
  { name := getStr j "name", keys := getStrList j "keys", configurable := getBool j "configurable" true,
    isDet := getBool j "isDet" false }

def misOf (j : Json) : Mis :=
  { width := getNat j "width", resend := getBool j "resend", seq := getBool j "seq", desc := getBool j "desc",
    unknown := getBool j "unknown" }

def opOf (j : Json) : Option Op :=
  match getStr j "op" with
  | "closeRun" => some (.closeRun (getOptStr j "exit") (getOptStr j "reason"))
  | "create" => some (.create (getOptStr j "name"))
  | "read" => some (.read (getStr j "obj") (getKVs j "reading"))
  | "save" => some .save
  | "drop" => some .drop
  | "monitor" => some (.monitor (getStr j "obj") (getStr j "name"))
  | "unmonitor" => some (.unmonitor (getStr j "obj"))
  | "monitorUpdate" => some (.monitorUpdate (getStr j "obj") (getKVs j "reading"))
  | "suspendMonitors" => some .suspendMonitors
  | "restoreMonitors" => some .restoreMonitors
  | "clearMonitors" => some .clearMonitors
  | "recordInterruption" => some (.recordInterruption (getStr j "content"))
  | "rewind" => some .rewind
  | "resetCheckpoint" => some .resetCheckpoint
  | "clearCheckpoint" => some .clearCheckpoint
  | "configure" => some (.configure (getStr j "obj"))
  | "declareStream" => some (.declareStream (getStr j "name") (getStrList j "objs") (getBool j "collect"))
  | "kickoff" => some (.kickoff (getStr j "obj"))
  | "collect" => some (.collect (getStrList j "objs") (getOptStr j "name") ((getArr j "mis").map misOf))
  | "backstopCollect" => some .backstopCollect
  | "setCfg" => some (.setCfg (getStr j "obj") (getKVs j "cfg"))
  | "advance" => some (.advance (getStr j "obj") (getNat j "n"))
  | _ => none

def cfgOf (j : Json) : BCfg :=
  let c := getObj j "cfg"
  { recordInterruptions := getBool c "ri", strict := getBool c "strict" }

def envOf (j : Json) : List (Obj × Config) :=
  (getArr j "envCfg").map fun e =>
    match asArr e with
    | [o, c] => (asStr o, (asArr c).map asKV)
    | _ => ("", [])

def detsOf (j : Json) : List (Obj × DetSt) :=
  (getArr j "dets").map fun e =>
    match asArr e with
    | [o, i, l, s, n] => (asStr o, { index := asNat i, last := asNat l, sent := (match s with | Json.bool b => b | _ => false), ndatum := asNat n })
    | _ => ("", {})

def entryJson (e : Entry) : Json :=
  Json.mkObj [("docs", jList docJson e.docs), ("calls", callsJson e.calls), ("err", errJson e.err)]

def finalJson (s : BState) : Json :=
  Json.mkObj [("seq", jList (fun (p : Name × Nat) => Json.arr #[jStr p.1, jNat p.2]) s.seq),
              ("seqCopy", jList (fun (p : Name × Nat) => Json.arr #[jStr p.1, jNat p.2]) s.seqCopy),
              ("bundling", Json.bool s.bundling), ("runOpen", Json.bool s.runOpen)]

def handleBundler (j : Json) : Json :=
  let w : World := (getArr j "devs").map devOf
  let ops? := (getArr j "ops").map opOf
  if ops?.any Option.isNone then Json.mkObj [("error", "bad-op")] else
  let ops := ops?.filterMap id
  let s0 := { openRun (cfgOf j) 0 (envOf j) with dets := detsOf j }
  let (sf, tr) := runFrom w s0 ops
  Json.mkObj [("open", jList docJson s0.out), ("entries", jList entryJson tr),
              ("admissible", Json.bool (admissibleFrom w s0 ops)), ("final", finalJson sf)]

def msgOf (j : Json) : Option GMsg :=
  match getStr j "cmd" with
  | "open_run" => some .openRun
  | "close_run" => some (.closeRun (getOptStr j "exit") (getOptStr j "reason"))
  | "create" => some (.create (getOptStr j "name"))
  | "read" => some (.read (getStr j "obj") (getKVs j "reading"))
  | "save" => some .save
  | "drop" => some .drop
  | "checkpoint" => some .checkpoint
  | "clear_checkpoint" => some .clearCheckpoint
  | "configure" => some (.configure (getStr j "obj") (getKVs j "cfg"))
  | "monitor" => some (.monitor (getStr j "obj") (getStr j "name"))
  | "unmonitor" => some (.unmonitor (getStr j "obj"))
  | "declare_stream" => some (.declareStream (getStr j "name") (getStrList j "objs") (getBool j "collect"))
  | "kickoff" => some (.kickoff (getStr j "obj"))
  | "collect" => some (.collect (getStrList j "objs") (getOptStr j "name") ((getArr j "mis").map misOf))
  | "null" => some .null
  | "pause" => some .pause
  | "resume" => some .resume
  | "fire" => some (.fire (getStr j "obj") (getKVs j "reading"))
  | "poke" => some (.poke (getStr j "obj") (getKVs j "cfg"))
  | "advance" => some (.advance (getStr j "obj") (getNat j "n"))
  | "end" => some (.endOfCall (getOptStr j "exit") (getOptStr j "reason"))
  | _ => none

def opJson : Op → Json
  | .closeRun e r => Json.mkObj [("op", "closeRun"), ("exit", jOptStr e), ("reason", jOptStr r)]
  | .create n => Json.mkObj [("op", "create"), ("name", jOptStr n)]
  | .read o r => Json.mkObj [("op", "read"), ("obj", jStr o), ("reading", jList jKV r)]
  | .save => Json.mkObj [("op", "save")]
  | .drop => Json.mkObj [("op", "drop")]
  | .monitor o n => Json.mkObj [("op", "monitor"), ("obj", jStr o), ("name", jStr n)]
  | .unmonitor o => Json.mkObj [("op", "unmonitor"), ("obj", jStr o)]
  | .monitorUpdate o r => Json.mkObj [("op", "monitorUpdate"), ("obj", jStr o), ("reading", jList jKV r)]
  | .suspendMonitors => Json.mkObj [("op", "suspendMonitors")]
  | .restoreMonitors => Json.mkObj [("op", "restoreMonitors")]
  | .clearMonitors => Json.mkObj [("op", "clearMonitors")]
  | .recordInterruption c => Json.mkObj [("op", "recordInterruption"), ("content", jStr c)]
  | .rewind => Json.mkObj [("op", "rewind")]
  | .resetCheckpoint => Json.mkObj [("op", "resetCheckpoint")]
  | .clearCheckpoint => Json.mkObj [("op", "clearCheckpoint")]
  | .configure o => Json.mkObj [("op", "configure"), ("obj", jStr o)]
  | .declareStream n objs c => Json.mkObj [("op", "declareStream"), ("name", jStr n), ("objs", jStrs objs), ("collect", Json.bool c)]
  | .kickoff o => Json.mkObj [("op", "kickoff"), ("obj", jStr o)]
  | .collect objs n _ => Json.mkObj [("op", "collect"), ("objs", jStrs objs), ("name", jOptStr n)]
  | .backstopCollect => Json.mkObj [("op", "backstopCollect")]
  | .setCfg o c => Json.mkObj [("op", "setCfg"), ("obj", jStr o), ("cfg", jList jKV c)]
  | .advance o n => Json.mkObj [("op", "advance"), ("obj", jStr o), ("n", jNat n)]

def gEntryJson (e : GEntry) : Json :=
  Json.mkObj [("docs", jList docJson e.docs), ("calls", callsJson e.calls), ("err", errJson e.err),
              ("ops", jList opJson e.ops)]

def handleGuards (j : Json) : Json :=
  let w : World := (getArr j "devs").map devOf
  let ms? := (getArr j "msgs").map msgOf
  if ms?.any Option.isNone then Json.mkObj [("error", "bad-msg")] else
  let ms := ms?.filterMap id
  let g0 : GState := { cfg := cfgOf j, envCfg := envOf j }
  let (_, tr) := grun w g0 ms
  Json.mkObj [("entries", jList gEntryJson tr)]

def handle (j : Json) : Json :=
  match getStr j "mode" with
  | "bundler" => handleBundler j
  | "guards" => handleGuards j
  | _ => Json.mkObj [("error", "bad-mode")]

end BlueskyVerif.Bundler.Drv
