/-
C27 -- `spiral` and `spiral_fermat` only produce points inside the requested (possibly tilted)
rectangle around the centre; `spiral_square_pattern` produces every point of the x_num × y_num
grid exactly once.

Part A is about the GENERATED bounds test / half ranges / dr_aspect / emitted point of
plan_patterns.py (Pure/SpiralGenerated.lean), for ALL candidate lists (the cos/sin products are
arbitrary rationals) and all rational parameters with dr, dr_y > 0.
Part B is about the GENERATED offsets, ring range, side guards, `range()` bounds, inner guards,
count guards and multipliers (Pure/SpiralSquareGenerated.lean) inside the hand-transcribed loop
skeleton (Pure/SpiralSquare.lean), for ALL x_num, y_num ≥ 2 (ring-by-ring proof in
Lemmas/C27Square.lean; no enumeration of sizes).
-/
import BlueskyVerif.Lemmas.C27Spiral
import BlueskyVerif.Lemmas.C27Square
import Mathlib.Tactic.Ring

namespace BlueskyVerif.C27
open BlueskyVerif.Pure.Spiral BlueskyVerif.Pure.SpiralSquare BlueskyVerif.Pure.SpiralSquare.Gen

/-! ## Part A: spiral, spiral_fermat -/

/-- The returned points are exactly the accepted candidates, shifted by the centre, in order. -/
theorem C27_points_filter (k : Kind) (p : Params) (cands : List (Rat × Rat)) :
    points k p cands = (cands.filter (accepts k p)).map (emit k p) := by
  simp [points, loop_eq]

/-- **In bounds** (both functions, every candidate list, every tilt): each produced point lies in
    the requested rectangle, `|x'| ≤ x_range/2` in the frame the tilt defines and
    `|y − y_start| ≤ y_range/2`. -/
theorem C27_in_bounds (k : Kind) (p : Params) (cands : List (Rat × Rat))
    (hdr : 0 < p.dr) (hdy : ∀ d, p.drY = some d → 0 < d) :
    ∀ pt ∈ points k p cands, InRect k p pt := by
  intro pt hpt
  rw [C27_points_filter, List.mem_map] at hpt
  obtain ⟨c, hc, rfl⟩ := hpt
  exact accepted_inRect k p c (drAspect_pos k p hdr hdy) (List.mem_filter.1 hc).2

/-- The same, spelled out with the ordinary absolute value and explicit formulas. -/
theorem C27_in_bounds_abs (k : Kind) (p : Params) (cands : List (Rat × Rat))
    (hdr : 0 < p.dr) (hdy : ∀ d, p.drY = some d → 0 < d) (pt : Rat × Rat) (h : pt ∈ points k p cands) :
    |(pt.1 - p.xStart) - ((pt.2 - p.yStart) / (match p.drY with | none => 1 | some d => d / p.dr)) / p.tiltTan|
        ≤ p.xRange / 2 ∧
    |pt.2 - p.yStart| ≤ p.yRange / 2 := by
  have := C27_in_bounds k p cands hdr hdy pt h
  simp only [InRect, frameX, rabs_eq_abs] at this
  have e : drAspect k p = (match p.drY with | none => 1 | some d => d / p.dr) := by
    unfold drAspect
    cases k <;> cases p.drY <;> rfl
  rw [e] at this
  exact this

/-- Nothing is produced without passing the test: the output never has more points than candidates. -/
theorem C27_points_length_le (k : Kind) (p : Params) (cands : List (Rat × Rat)) :
    (points k p cands).length ≤ cands.length := by
  rw [C27_points_filter, List.length_map]; exact List.length_filter_le _ _

/-! ## Part B: spiral_square_pattern -/

/-- Meaning of `gridList`: exactly the index pairs (k, l), 0 ≤ k < x_num, 0 ≤ l < y_num, each once. -/
theorem C27_gridList_spec (x y : Int) :
    (gridList x y).Nodup ∧ ∀ q : Pt, q ∈ gridList x y ↔ (0 ≤ q.1 ∧ q.1 < x) ∧ (0 ≤ q.2 ∧ q.2 < y) :=
  ⟨nodup_gridList x y, mem_gridList x y⟩

/-- **Bijection** (all sizes ≥ 2): the produced sequence, read as grid indices, is a permutation of
    the x_num × y_num grid — every grid point exactly once. -/
theorem C27_square_bijection (x y : Int) (hx : 2 ≤ x) (hy : 2 ≤ y) :
    ((spiralIdx x y).map (gridIdx x y)).Perm (gridList x y) := by
  rw [spiralIdx_eq_expected x y hx hy]; exact expected_perm x y hx hy

/-- every produced point is a grid point -/
theorem C27_square_in_grid (x y : Int) (hx : 2 ≤ x) (hy : 2 ≤ y) (p : Pt) (hp : p ∈ spiralIdx x y) :
    (0 ≤ (gridIdx x y p).1 ∧ (gridIdx x y p).1 < x) ∧ (0 ≤ (gridIdx x y p).2 ∧ (gridIdx x y p).2 < y) := by
  rw [← mem_gridList]
  exact (C27_square_bijection x y hx hy).subset (List.mem_map_of_mem hp)

/-- no grid point is produced twice -/
theorem C27_square_no_duplicates (x y : Int) (hx : 2 ≤ x) (hy : 2 ≤ y) :
    ((spiralIdx x y).map (gridIdx x y)).Nodup :=
  (C27_square_bijection x y hx hy).nodup_iff.2 (nodup_gridList x y)

/-- every grid point is produced -/
theorem C27_square_covers (x y : Int) (hx : 2 ≤ x) (hy : 2 ≤ y) (k l : Int)
    (hk : 0 ≤ k ∧ k < x) (hl : 0 ≤ l ∧ l < y) : ∃ p ∈ spiralIdx x y, gridIdx x y p = (k, l) := by
  have : (k, l) ∈ (spiralIdx x y).map (gridIdx x y) :=
    (C27_square_bijection x y hx hy).symm.subset ((mem_gridList x y (k, l)).2 ⟨hk, hl⟩)
  simpa [List.mem_map] using this

/-- exactly x_num * y_num points -/
theorem C27_square_count (x y : Int) (hx : 2 ≤ x) (hy : 2 ≤ y) : ((spiralIdx x y).length : Int) = x * y := by
  rw [spiralIdx_eq_expected x y hx hy]; exact length_expected x y hx hy

/-- The physical coordinate the code computes (`c_center - c_delta*c_offset + c_delta*m`,
    `c_delta = c_range/(c_num-1)`) is the linspace point of the grid index: the model's index pairs
    denote the documented grid. -/
theorem C27_square_coords (x y : Int) (hx : 2 ≤ x) (hy : 2 ≤ y) (cx rx cy ry : Rat) (p : Pt) :
    coordX cx rx x p.1 = linspacePt cx rx x (gridIdx x y p).1 ∧
    coordY cy ry y p.2 = linspacePt cy ry y (gridIdx x y p).2 := by
  obtain ⟨h1, h2⟩ := gridIdx_spec x y p
  have e1 : (2 : Rat) * ((gridIdx x y p).1 : Rat) = 2 * (p.1 : Rat) - (xOff2 x : Rat) + (x : Rat) - 1 := by
    exact_mod_cast h1
  have e2 : (2 : Rat) * ((gridIdx x y p).2 : Rat) = 2 * (p.2 : Rat) - (yOff2 y : Rat) + (y : Rat) - 1 := by
    exact_mod_cast h2
  have nx : (x : Rat) - 1 ≠ 0 := by
    have : (2 : Rat) ≤ (x : Rat) := by exact_mod_cast hx
    intro h; linarith
  have ny : (y : Rat) - 1 ≠ 0 := by
    have : (2 : Rat) ≤ (y : Rat) := by exact_mod_cast hy
    intro h; linarith
  have k1 : ((gridIdx x y p).1 : Rat) = ((p.1 : Rat) - (xOff2 x : Rat) / 2) + ((x : Rat) - 1) / 2 := by linarith
  have k2 : ((gridIdx x y p).2 : Rat) = ((p.2 : Rat) - (yOff2 y : Rat) / 2) + ((y : Rat) - 1) / 2 := by linarith
  constructor
  · simp only [coordX, coord, delta, linspacePt, k1]; field_simp; ring
  · simp only [coordY, coord, delta, linspacePt, k2]; field_simp; ring

/-! ## Non-vacuity -/

-- a tilted spiral: one candidate inside, one outside in y, one outside only because of the tilt
example : points .spiral ⟨0, 0, 2, 2, 1, some 2, -2⟩ [(1/2, 1), (0, 3), (1, 2)] = [(1/2, 1)] := by decide +kernel
example : points .fermat ⟨10, 20, 2, 2, 1, some (1/2), -2⟩ [(1/2, 1/4), (0, 1/2), (0, 5/4)] = [(21/2, 81/4), (10, 41/2)] := by
  decide +kernel
example : spiralIdx 3 2 = [(0, 0), (1, 0), (1, -1), (0, -1), (-1, -1), (-1, 0)] := by decide +kernel
example : (spiralIdx 4 3).map (gridIdx 4 3) =
    [(1, 1), (2, 1), (2, 0), (1, 0), (0, 0), (0, 1), (0, 2), (1, 2), (2, 2), (3, 2), (3, 1), (3, 0)] := by decide +kernel
example : raisesZeroDivision 1 5 = true := by decide

end BlueskyVerif.C27
