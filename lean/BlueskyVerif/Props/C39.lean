/-
C39 -- A LiveDispatcher's re-emitted stream is a valid run: events in each stream are numbered 1..N
and the re-emitted RunStop's num_events reports, for each stream, the number of events emitted in it.

Model: `IO/LiveDispatcher.lean` (transcription of start / descriptor / process_event / stop).
The facts these theorems hinge on -- "seq_num" is `self._seq_counts[stream_name]`, the counter is
`get(stream_name, 0) + 1`, num_events is `self._seq_counts.get(stream, 0)` over
`self._descriptors.keys()`, a new descriptor is named `stream_name`, `stop` clears the caches --
are regenerated from the current source into `IO/LiveDispatcherGenerated.lean` on every check; the
proofs unfold those constants, so they stop checking when the source says something else.

Every theorem is for an arbitrary dispatcher state left behind by `__init__`/`stop` (`Clean`, any
uid supply) and an ARBITRARY list of raw descriptors and `process_event` calls (any stream names,
any interleaving, any data keys / id_args, any number) -- by induction over that list.
"Stream" is read the way a subscriber of the dispatcher reads it: by the `name` of the descriptor an
event points to (`evSeqsByName`, `hasDescriptorNamed`); the same statements keyed by the
`stream_name` argument are `C39_numbering_by_stream_name` / `C39_num_events_by_stream_name`.
-/
import BlueskyVerif.Lemmas.C39Top

namespace BlueskyVerif.C39
open BlueskyVerif.LiveDispatcher

/-- Within one re-emitted run, the events of each stream (descriptor name) carry the seq_nums
    1, 2, ..., N in this order, N being the number of events emitted in that stream. -/
theorem C39_numbering (st : St) (hc : Clean st) (body : List BodyInp) (n : String) :
    evSeqsByName n (runOne st body).2 = List.range' 1 (evSeqsByName n (runOne st body).2).length := by
  obtain ⟨k, h, _⟩ := runOne_numbering st hc body n
  rw [runOne_byName st hc body n, h, List.length_range']

/-- The same, keyed by the `stream_name` argument of the `process_event` calls. -/
theorem C39_numbering_by_stream_name (st : St) (hc : Clean st) (body : List BodyInp) (s : String) :
    evSeqs s (runOne st body).2 = List.range' 1 (evSeqs s (runOne st body).2).length := by
  obtain ⟨k, h, _⟩ := runOne_numbering st hc body s
  rw [h, List.length_range']

/-- The last document of a run is the stop document; its num_events has one entry per stream that
    has a descriptor in this run (no duplicates, no other keys), and the entry is the number of
    events emitted in that stream. -/
theorem C39_num_events (st : St) (hc : Clean st) (body : List BodyInp) :
    ∃ ne, stopNumEvents (runOne st body).2 = some ne ∧ (ne.map (·.1)).Nodup ∧
      ∀ n, (hasDescriptorNamed n (runOne st body).2 →
              ne.lookup n = some (evSeqsByName n (runOne st body).2).length) ∧
           (¬ hasDescriptorNamed n (runOne st body).2 → ne.lookup n = none) := by
  obtain ⟨ne, h1, h2, h3⟩ := runOne_num_events st hc body
  refine ⟨ne, h1, h2, fun n => ?_⟩
  rw [runOne_hasNamed, runOne_byName st hc body n]
  exact h3 n

theorem C39_num_events_by_stream_name (st : St) (hc : Clean st) (body : List BodyInp) :
    ∃ ne, stopNumEvents (runOne st body).2 = some ne ∧ (ne.map (·.1)).Nodup ∧
      ∀ s, (hasDescriptorFor s (runOne st body).2 → ne.lookup s = some (evSeqs s (runOne st body).2).length) ∧
           (¬ hasDescriptorFor s (runOne st body).2 → ne.lookup s = none) :=
  runOne_num_events st hc body

/-- Each event refers to a descriptor that was emitted EARLIER in the same re-emitted run: it
    precedes the event in the document list, carries the uid of this run's start document (the first
    document) as run_start, and is named after the stream the event is counted in. -/
theorem C39_descriptor_before_event (st : St) (hc : Clean st) (body : List BodyInp)
    (pre post : List Doc) (u du k : Nat) (s : String)
    (h : (runOne st body).2 = pre ++ Doc.event u du k s :: post) :
    (runOne st body).2.head? = some (Doc.start st.nextUid) ∧
    ∃ ks, Doc.descriptor du (some st.nextUid) (some s) s ks ∈ pre := by
  refine ⟨by rw [runOne_docs]; rfl, runOne_referenced st hc body pre post u du k s h⟩

/-- A stream never has a descriptor without an event: a descriptor is only re-emitted together with
    the event that needed it, so every num_events entry is at least 1.  (A raw stream with a descriptor
    but no events leaves no trace in the re-emitted run.) -/
theorem C39_streams_nonempty (st : St) (hc : Clean st) (body : List BodyInp) (n : String)
    (h : hasDescriptorNamed n (runOne st body).2) : 1 ≤ (evSeqsByName n (runOne st body).2).length := by
  rw [runOne_byName st hc body n]
  have := runOne_nonempty st body n ((runOne_hasNamed st body n).1 h)
  cases hs : evSeqs n (runOne st body).2 with
  | nil => exact absurd hs this
  | cons a r => simp

/-- The uids of the re-emitted documents are pairwise distinct (fresh, in emission order), so
    "the descriptor with uid u" is well defined. -/
theorem C39_uids_distinct (st : St) (body : List BodyInp) : ((runOne st body).2.map Doc.uid).Nodup := by
  rw [runOne_uids]; exact List.nodup_range' 1

/-- what C39 asks of the documents of one re-emitted run -/
structure ValidRun (docs : List Doc) : Prop where
  numbered : ∀ n, evSeqsByName n docs = List.range' 1 (evSeqsByName n docs).length
  counted : ∃ ne, stopNumEvents docs = some ne ∧ (ne.map (·.1)).Nodup ∧
    ∀ n, (hasDescriptorNamed n docs → ne.lookup n = some (evSeqsByName n docs).length) ∧
         (¬ hasDescriptorNamed n docs → ne.lookup n = none)
  referenced : ∀ pre post u du k s, docs = pre ++ Doc.event u du k s :: post →
    ∃ rs ks, Doc.descriptor du rs (some s) s ks ∈ pre

theorem C39_valid_run (st : St) (hc : Clean st) (body : List BodyInp) : ValidRun (runOne st body).2 where
  numbered := C39_numbering st hc body
  counted := C39_num_events st hc body
  referenced := fun pre post u du k s h =>
    let ⟨ks, hd⟩ := (C39_descriptor_before_event st hc body pre post u du k s h).2
    ⟨_, ks, hd⟩

/-- After `stop` the dispatcher is back in a clean state, whatever happened before (from ANY state,
    clean or not): per-stream counters, descriptors, raw descriptors and the start uid are gone. -/
theorem C39_stop_resets (st : St) (body : List BodyInp) : Clean (runOne st body).1 :=
  runOne_clean st body

/-- Any number of raw runs fed one after the other through the same dispatcher object: EVERY
    re-emitted run is valid; in particular numbering starts again at 1 in each of them. -/
theorem C39_reset_between_runs (runs : List (List BodyInp)) (st : St) (hc : Clean st) :
    ∀ docs ∈ session st runs, ValidRun docs := by
  induction runs generalizing st with
  | nil => intro docs h; cases h
  | cons b bs ih =>
    intro docs h
    simp only [session, List.mem_cons] at h
    rcases h with rfl | h
    · exact C39_valid_run st hc b
    · exact ih (runOne st b).1 (C39_stop_resets st b) docs h

/-! ### Non-vacuity: concrete runs (the states are clean, events and several streams exist) -/

private def c (s : String) (ks : List String) (raw : String) (ia : List String := []) : BodyInp :=
  .call { stream := s, keys := ks, rawDesc := raw, idArgs := ia }

example : Clean {} := ⟨rfl, rfl, rfl, rfl, rfl⟩

/-- pass-through dispatcher on a run with a baseline and a primary raw stream -/
example :
    session {} [[.rawDescriptor "d1" (some "baseline"), .rawDescriptor "d2" (some "primary"),
                 c "primary" ["x"] "d1", c "primary" ["y"] "d2", c "primary" ["y"] "d2", c "primary" ["x"] "d1"]] =
      [[.start 0, .descriptor 1 (some 0) (some "primary") "primary" ["x"], .event 2 1 1 "primary",
        .descriptor 3 (some 0) (some "primary") "primary" ["y"], .event 4 3 2 "primary", .event 5 3 3 "primary",
        .event 6 1 4 "primary", .stop 7 (some 0) [("primary", 4)]]] := by decide

/-- two output streams interleaved, then a second run: numbering restarts at 1 -/
example :
    session {} [[.rawDescriptor "d" (some "primary"), c "a" ["x"] "d", c "b" ["x"] "d", c "a" ["x"] "d"],
                [.rawDescriptor "e" (some "primary"), c "b" ["x"] "e"]] =
      [[.start 0, .descriptor 1 (some 0) (some "a") "a" ["x"], .event 2 1 1 "a",
        .descriptor 3 (some 0) (some "b") "b" ["x"], .event 4 3 1 "b", .event 5 1 2 "a",
        .stop 6 (some 0) [("a", 2), ("b", 1)]],
       [.start 7, .descriptor 8 (some 7) (some "b") "b" ["x"], .event 9 8 1 "b", .stop 10 (some 7) [("b", 1)]]] := by
  decide

example : evSeqsByName "a"
    [.start 0, .descriptor 1 (some 0) (some "a") "a" ["x"], .event 2 1 1 "a",
     .descriptor 3 (some 0) (some "b") "b" ["x"], .event 4 3 1 "b", .event 5 1 2 "a",
     .stop 6 (some 0) [("a", 2), ("b", 1)]] = [1, 2] := by decide

end BlueskyVerif.C39
