/-
C32 -- The plan simulator replays plans faithfully.

`simulate`, `addHandler`, `respond`, `checkLimits` (Pure/Simulator.lean) transcribe
`RunEngineSimulator.simulate_plan`, `add_handler`, the handler lookup and `check_limits_async`;
the constants/flags in `Simulator.Gen` are regenerated from src/bluesky/simulators.py on every run.

A plan is an arbitrary behaviour function (any Python generator, terminating or not, branching on
what it receives); handlers are arbitrary (predicate, result) pairs.  `Yields p ρ msgs` (Lemmas/C32)
says, without mentioning the simulator: "fed the responses `ρ`, the plan's first outputs are exactly
the messages `msgs`, in order".

Domain (stated in the hypotheses): messages are truthy (`while msg := gen.send(..)` stops silently at
a falsy one -- `C32_falsy_message_stops` says what happens then), and handlers return normally on
the messages they are run on (`C32_handler_stopiteration` says what happens otherwise).
-/
import BlueskyVerif.Lemmas.C32

namespace BlueskyVerif.C32
open BlueskyVerif.Simulator

variable {M R V E : Type}

/-- the simulator answers message `m` with the result of the first matching handler in list order,
    None when none matches -/
abbrev answer (hs : List (Handler M R V E)) : M → Option R := sent hs

/-- handlers return normally (no exception) on these messages -/
def HandlersReturn (hs : List (Handler M R V E)) (msgs : List M) : Prop :=
  ∀ m ∈ msgs, ∃ r, respond hs none m = .val r

/-- **Messages, soundness.**  Whatever `simulate_plan` returns is exactly what the plan yields, in
    order, when each yield receives the simulator's answer to it: every returned message was
    yielded at that position, all of them are truthy, and the call ended because the plan
    returned / yielded a falsy message / a handler raised StopIteration at the last message. -/
theorem C32_messages_sound (truthy : M → Bool) (hs : List (Handler M R V E)) (p : Plan M R V E)
    (fuel : Nat) (msgs : List M) (rv : Option V)
    (h : simulate truthy hs p fuel = .done msgs rv) :
    Yields p (answer hs) msgs ∧ (∀ m ∈ msgs, truthy m = true) ∧ Final truthy hs p msgs rv := by
  have := simLoop_sound truthy hs p fuel [] none msgs rv (Yields.nil _ _) (by simp) (by simpa [simulate] using h)
  exact ⟨this.1, this.2.1, this.2.2.1⟩

/-- **Messages, completeness (terminating plans).**  For EVERY plan and EVERY handler list: if the
    plan, answered by the simulator, yields the truthy messages `msgs` and then returns `v`, then
    `simulate_plan` returns exactly `msgs` (same order, nothing added, nothing dropped) and stores
    `v` -- for every fuel that lets the loop run `msgs.length + 1` times. -/
theorem C32_messages (truthy : M → Bool) (hs : List (Handler M R V E)) (p : Plan M R V E)
    (msgs : List M) (v : V) (k : Nat)
    (hy : Yields p (answer hs) msgs) (ht : ∀ m ∈ msgs, truthy m = true)
    (hr : HandlersReturn hs msgs) (hret : p (msgs.map (answer hs)) = .ret v) :
    simulate truthy hs p (msgs.length + (k + 1)) = .done msgs (some v) := by
  have := simLoop_advance truthy hs p msgs [] (k + 1) (by simpa using hy) ht hr
  simp only [List.map_nil, List.nil_append] at this
  rw [simulate, this]
  simp [simLoop, hret, record, Gen.recordsReturnValue]

/-- **Messages, non-terminating plans.**  If the plan's first `n` outputs are the truthy messages
    `msgs` (it may go on forever), then after `n` iterations the loop has recorded exactly `msgs`
    and is still running: every finite prefix of an unbounded plan is replayed faithfully. -/
theorem C32_messages_prefix (truthy : M → Bool) (hs : List (Handler M R V E)) (p : Plan M R V E)
    (msgs : List M)
    (hy : Yields p (answer hs) msgs) (ht : ∀ m ∈ msgs, truthy m = true) (hr : HandlersReturn hs msgs) :
    simulate truthy hs p msgs.length = .running msgs := by
  have := simLoop_advance truthy hs p msgs [] 0 (by simpa using hy) ht hr
  simp only [List.map_nil, List.nil_append, Nat.add_zero] at this
  rw [simulate, this]
  rfl

/-- the result of a finished call does not depend on the fuel (the Python loop has none) -/
theorem C32_fuel_irrelevant (truthy : M → Bool) (hs : List (Handler M R V E)) (p : Plan M R V E)
    (fuel k : Nat) (msgs : List M) (rv : Option V) (h : simulate truthy hs p fuel = .done msgs rv) :
    simulate truthy hs p (fuel + k) = .done msgs rv :=
  simLoop_mono truthy hs p fuel k [] none [] _ h (by intro ms; simp)

/-- **Each yield receives the matching handler's result.**  The value sent into the yield of
    message `msgs[i]` (the `i`-th entry of the history the plan has seen when it produces
    `msgs[i+1]`) is the result of the first matching handler of the list -- and `none` (None)
    when no handler matches. -/
theorem C32_sent_values (hs : List (Handler M R V E)) (m : M) :
    answer hs m = match hs.find? (·.pred m) with
      | some h => (match h.run m with
        | .val r => r
        | _ => none)
      | none => none := by
  simp only [answer, sent, respond, lookup, Gen.lookupReversed, Gen.resetSendValue]
  cases hs.find? (·.pred m) with
  | none => simp
  | some h => cases h.run m <;> rfl

/-- **Newest matching handler wins (one step).**  After `add_handler(.., h)` with the default
    index, a message matched by `h` is answered by `h`; any other message is answered as before. -/
theorem C32_newest_handler_wins (hs : List (Handler M R V E)) (h : Handler M R V E)
    (prev : Option R) (m : M) :
    respond (addHandler hs h) prev m = if h.pred m then h.run m else respond hs prev m := by
  simp only [addHandler, Gen.addHandlerDefaultIndex, pyInsert_zero, respond, lookup_cons]
  cases h.pred m <;> simp

/-- **Newest matching handler wins (any number of registrations).**  Starting from any list
    `hs0`, after registering `adds` one after the other with the default index, a message is
    handled by the LAST registered handler that matches it; older ones (and `hs0`) only when no
    newer one matches. -/
theorem C32_newest_of_all (hs0 adds : List (Handler M R V E)) (m : M) :
    lookup (adds.foldl (fun hs h => addHandler hs h) hs0) m =
      (adds.reverse.find? (·.pred m)).or (lookup hs0 m) := by
  induction adds generalizing hs0 with
  | nil => simp
  | cons h t ih =>
    rw [List.foldl_cons, ih]
    simp only [addHandler, Gen.addHandlerDefaultIndex, pyInsert_zero, lookup_cons,
      List.reverse_cons, List.find?_append, List.find?_cons, List.find?_nil]
    cases h.pred m <;> simp

/-- `index=END` appends: such a handler only answers messages no existing handler matches.
    The same holds for `add_handler_for_callback_subscribes`, which also appends. -/
theorem C32_end_handler_loses (hs : List (Handler M R V E)) (h : Handler M R V E) (m : M) :
    lookup (addHandler hs h .end_) m = (lookup hs m).or (if h.pred m then some h else none) ∧
    lookup (addSubscribeHandler hs h) m = (lookup hs m).or (if h.pred m then some h else none) := by
  simp only [addHandler, addSubscribeHandler, Gen.endMeansAppend, Gen.subscribeHandlerAppends,
    ↓reduceIte, pyInsert_length, lookup_append, lookup_cons, lookup_nil, and_self]

/-- the predicate `add_handler` builds from `commands` and `msg_filter` -/
theorem C32_add_handler_predicate (commands : List String) (flt : Filter) (m : Msg) :
    matchPred commands flt m = true ↔
      m.command ∈ commands ∧
        (match flt with
         | .none => True
         | .fn f => f m = true
         | .name s => ∃ d, m.obj = some d ∧ d.name = s) := by
  unfold matchPred
  cases flt with
  | none => simp
  | fn f => simp
  | name s => cases h : m.obj <;> simp

/-- **Return value.**  A call that ended after the plan returned `v` -- at the very first
    `send(None)`, right after the first answer, or after any number of yields -- has set
    `return_value` to exactly `v`. -/
theorem C32_return_value (truthy : M → Bool) (hs : List (Handler M R V E)) (p : Plan M R V E)
    (fuel : Nat) (msgs : List M) (rv : Option V) (v : V)
    (h : simulate truthy hs p fuel = .done msgs rv) (hr : HandlersReturn hs msgs)
    (hret : p (msgs.map (answer hs)) = .ret v) :
    rv = some v := by
  obtain ⟨_, _, hf⟩ := C32_messages_sound truthy hs p fuel msgs rv h
  rcases hf with ⟨v', hv', e⟩ | ⟨m, hm, _, _⟩ | ⟨pre, m, v', hm, hstop, e⟩
  · rw [hret] at hv'; injection hv' with hv'; subst hv'
    simpa [record, Gen.recordsReturnValue] using e
  · rw [hret] at hm; simp at hm
  · obtain ⟨r, hr'⟩ := hr m (by simp [hm])
    rw [hstop] at hr'; simp at hr'

/-- ... in particular when the plan returns on the first `send(None)` without yielding anything -/
theorem C32_return_value_immediate (truthy : M → Bool) (hs : List (Handler M R V E))
    (p : Plan M R V E) (v : V) (k : Nat) (h : p [] = .ret v) :
    simulate truthy hs p (k + 1) = .done [] (some v) := by
  have := C32_messages truthy hs p [] v k (Yields.nil _ _) (by simp) (by intro m hm; simp at hm) (by simpa using h)
  simpa using this

/-- `return_value` is touched only when the plan returned (or a handler raised StopIteration):
    a call that ended at a falsy message leaves it alone and returns the messages so far. -/
theorem C32_falsy_message_stops (truthy : M → Bool) (hs : List (Handler M R V E)) (p : Plan M R V E)
    (msgs : List M) (m : M) (k : Nat)
    (hy : Yields p (answer hs) msgs) (ht : ∀ m ∈ msgs, truthy m = true)
    (hr : HandlersReturn hs msgs) (hm : p (msgs.map (answer hs)) = .yld m) (hf : truthy m = false) :
    simulate truthy hs p (msgs.length + (k + 1)) = .done msgs none := by
  have := simLoop_advance truthy hs p msgs [] (k + 1) (by simpa using hy) ht hr
  simp only [List.map_nil, List.nil_append] at this
  rw [simulate, this]
  simp [simLoop, hm, hf]

/-- What the code does outside the property's domain: a handler that raises StopIteration at
    message `m` is mistaken for the end of the plan -- the call returns the messages up to `m` and
    overwrites `return_value` with the StopIteration's value. -/
theorem C32_handler_stopiteration (truthy : M → Bool) (hs : List (Handler M R V E)) (p : Plan M R V E)
    (msgs : List M) (m : M) (v : V) (k : Nat)
    (hy : Yields p (answer hs) msgs) (ht : ∀ m ∈ msgs, truthy m = true)
    (hr : HandlersReturn hs msgs) (hm : p (msgs.map (answer hs)) = .yld m) (htm : truthy m = true)
    (hstop : respond hs none m = .stop v) :
    simulate truthy hs p (msgs.length + (k + 1)) = .done (msgs ++ [m]) (some v) := by
  have := simLoop_advance truthy hs p msgs [] (k + 1) (by simpa using hy) ht hr
  simp only [List.map_nil, List.nil_append] at this
  rw [simulate, this]
  simp [simLoop, hm, htm, hstop, record, Gen.recordsReturnValue]

/-- an exception raised by the plan leaves `simulate_plan` (no list, `return_value` untouched) -/
theorem C32_plan_exception_propagates (truthy : M → Bool) (hs : List (Handler M R V E)) (p : Plan M R V E)
    (msgs : List M) (e : E) (k : Nat)
    (hy : Yields p (answer hs) msgs) (ht : ∀ m ∈ msgs, truthy m = true)
    (hr : HandlersReturn hs msgs) (he : p (msgs.map (answer hs)) = .raise e) :
    simulate truthy hs p (msgs.length + (k + 1)) = .raised e := by
  have := simLoop_advance truthy hs p msgs [] (k + 1) (by simpa using hy) ht hr
  simp only [List.map_nil, List.nil_append] at this
  rw [simulate, this]
  simp [simLoop, he]

/-! ### check_limits -/

/-- **check_limits raises at the first offending `set`.**  For every plan (terminating or not): if
    its first messages under `for msg in plan` are `pre` -- all well-formed, none offending --
    followed by a `set` on a limit-checked device with a value outside its limits, `check_value`
    raises at that message; nothing after it is consumed. -/
theorem C32_check_limits_raises_at_first (p : Plan Msg R V E) (pre : List Msg) (m : Msg) (f : Nat)
    (hy : YieldsNone p (pre ++ [m]))
    (hw : ∀ x ∈ pre, wfSet x = true) (hn : ∀ x ∈ pre, offending x = false) (ho : offending m = true) :
    checkLimits p (pre.length + (f + 1)) = .limitError pre.length := by
  have hy' : ∀ j (h : j < pre.length), p (List.replicate (0 + j) none) = .yld pre[j] := by
    intro j h
    have := hy j (by simp; omega)
    rw [List.getElem_append_left h] at this
    simpa using this
  obtain ⟨ig, hi, e⟩ := checkLoop_advance p pre (f + 1) 0 [] hy' hw hn (by intro d hd; simp at hd)
  have hm : p (List.replicate pre.length none) = .yld m := by
    have := hy pre.length (by simp)
    simpa using this
  rw [checkLimits, e]
  simpa using checkLoop_offending p f (0 + pre.length) ig m (by simpa using hm) ho hi

/-- **check_limits raises iff some `set` is out of limits.**  For every plan that yields the
    well-formed messages `msgs` and then returns: `check_limits` raises the device's limit error
    iff some message is a `set` whose object has `check_value`/limits `(low, high)` with
    `low < high` and whose value is outside `[low, high]`; otherwise it finishes normally. -/
theorem C32_check_limits_iff (p : Plan Msg R V E) (msgs : List Msg) (v : V) (f : Nat)
    (hy : YieldsNone p msgs) (hret : p (List.replicate msgs.length none) = .ret v)
    (hw : ∀ x ∈ msgs, wfSet x = true) :
    (∃ k, checkLimits p (msgs.length + (f + 1)) = .limitError k) ↔ ∃ m ∈ msgs, offending m = true := by
  constructor
  · intro ⟨k, hk⟩
    apply Classical.byContradiction
    intro hne
    have hn : ∀ x ∈ msgs, offending x = false := by
      intro x hx
      cases hox : offending x with
      | false => rfl
      | true => exact absurd ⟨x, hx, hox⟩ hne
    have hy' : ∀ j (h : j < msgs.length), p (List.replicate (0 + j) none) = .yld msgs[j] := by
      intro j h; simpa using hy j h
    obtain ⟨ig, _, e⟩ := checkLoop_advance p msgs (f + 1) 0 [] hy' hw hn (by intro d hd; simp at hd)
    rw [checkLimits, e, checkLoop_succ] at hk
    simp [hret] at hk
  · intro h
    obtain ⟨pre, m, post, e, hpre, hm⟩ := exists_first offending msgs h
    subst e
    have hy1 : YieldsNone p (pre ++ [m]) := by
      intro i hi
      have hi' : i < (pre ++ m :: post).length := by simp at hi ⊢; omega
      have := hy i hi'
      rw [this]
      congr 1
      simp only [List.getElem_append]
      split
      · rfl
      · have : i = pre.length := by simp at hi; omega
        subst this; simp
    have := C32_check_limits_raises_at_first p pre m (post.length + f + 1) hy1
      (fun x hx => hw x (by simp [hx])) hpre hm
    refine ⟨pre.length, ?_⟩
    have hl : (pre ++ m :: post).length + (f + 1) = pre.length + (post.length + f + 1 + 1) := by
      simp only [List.length_append, List.length_cons]; omega
    rw [hl]; exact this

/-- what "offending" means, spelled out: command `set`, an object with limits `low < high`, and
    the first argument outside `[low, high]` -/
theorem C32_offending_iff (m : Msg) :
    offending m = true ↔
      m.command = "set" ∧ ∃ d v lo hi, m.obj = some d ∧ m.args[0]? = some v ∧ d.limits = some (lo, hi) ∧
        lo < hi ∧ ¬ (lo ≤ v ∧ v ≤ hi) := by
  simp only [offending, Gen.checkedCommand, Gen.checkedArgIndex, Bool.and_eq_true, beq_iff_eq]
  constructor
  · rintro ⟨hc, h⟩
    refine ⟨hc, ?_⟩
    cases hd : m.obj with
    | none => simp [hd] at h
    | some d =>
      cases hv : m.args[0]? with
      | none => simp [hd, hv] at h
      | some v =>
        cases hl : d.limits with
        | none => simp [hd, hv, hl] at h
        | some lim =>
          obtain ⟨lo, hi⟩ := lim
          simp only [hd, hv, hl, outOfLimits, Bool.and_eq_true, decide_eq_true_eq, Bool.not_eq_true',
            Bool.and_eq_false_iff, decide_eq_false_iff_not] at h
          exact ⟨d, v, lo, hi, rfl, rfl, hl, h.1, by omega⟩
  · rintro ⟨hc, d, v, lo, hi, hd, hv, hl, hlt, hout⟩
    refine ⟨hc, ?_⟩
    simp only [hd, hv, hl, outOfLimits, Bool.and_eq_true, decide_eq_true_eq, Bool.not_eq_true',
      Bool.and_eq_false_iff, decide_eq_false_iff_not]
    exact ⟨hlt, by omega⟩

/-! ### Non-vacuity: a concrete branching plan, handlers, and limits -/

/-- yields `"a"`; if it receives `some 7` yields `"b"` and returns 1, otherwise returns 0 -/
def demoPlan : Plan String Int Int String
  | [] => .yld "a"
  | [some 7] => .yld "b"
  | [some 7, _] => .ret 1
  | _ => .ret 0

def hOld : Handler String Int Int String := { pred := fun m => m == "a", run := fun _ => .val (some 3) }
def hNew : Handler String Int Int String := { pred := fun m => m == "a", run := fun _ => .val (some 7) }

example : simulate (fun _ => true) (addHandler (addHandler [] hOld) hNew) demoPlan 5 = .done ["a", "b"] (some 1) := by decide
example : simulate (fun _ => true) (addHandler (addHandler [] hNew) hOld) demoPlan 5 = .done ["a"] (some 0) := by decide
example : simulate (fun _ => true) (addHandler (addHandler [] hOld) hNew .end_) demoPlan 5 = .done ["a"] (some 0) := by decide
example : Yields demoPlan (answer (addHandler (addHandler [] hOld) hNew)) ["a", "b"] := by
  intro i h
  match i, h with
  | 0, _ => decide +revert
  | 1, _ => decide +revert
  | n + 2, h => simp at h; omega

def demoDev : Dev := { id := 0, name := "m", limits := some (-2, 5) }
def demoMoves : Plan Msg Int Int String
  | [] => .yld { command := "set", obj := some demoDev, args := [5] }
  | [_] => .yld { command := "set", obj := some demoDev, args := [6] }
  | _ => .ret 0
example : checkLimits demoMoves 9 = .limitError 1 := by decide
example : offending { command := "set", obj := some demoDev, args := [6] } = true := by decide
example : offending { command := "set", obj := some demoDev, args := [5] } = false := by decide

end BlueskyVerif.C32
