/-
C32 -- The plan simulator replays plans faithfully.

`simulate`, `addHandler`, `respond`, `checkLimits` (Pure/Simulator.lean) transcribe
`RunEngineSimulator.simulate_plan`, `add_handler`, the handler lookup and `check_limits_async`;
the constants/flags in `Simulator.Gen` are regenerated from src/bluesky/simulators.py on every run.

A plan is an arbitrary behaviour function (any Python generator, terminating or not, branching on
what it receives); handlers are arbitrary (predicate, result) pairs.  `Yields p ρ msgs` (Lemmas/C32)
says, without mentioning the simulator: "fed the responses `ρ`, the plan's first outputs are exactly
the messages `msgs`, in order".

Domain (stated in the hypotheses): messages are truthy (`while msg := gen.send(..)` stops silently at
a falsy one -- `C32_falsy_message_stops` says what happens then), and handlers return normally on
the messages they are run on (`C32_handler_stopiteration` says what happens otherwise).
-/
import BlueskyVerif.Lemmas.C32

namespace BlueskyVerif.C32
open BlueskyVerif.Simulator

variable {M R V E : Type}

/-- the simulator answers message `m` with the result of the first matching handler in list order,
    None when none matches -/
abbrev answer (hs : List (Handler M R V E)) : M → Option R := sent hs

/-- handlers return normally (no exception) on these messages -/
def HandlersReturn (hs : List (Handler M R V E)) (msgs : List M) : Prop :=
  ∀ m ∈ msgs, ∃ r, respond hs none m = .val r

/-- **Messages, soundness.**  Whatever `simulate_plan` returns is exactly what the plan yields, in
    order, when each yield receives the simulator's answer to it: every returned message was
    yielded at that position, all of them are truthy, and the call ended because the plan
    returned / yielded a falsy message / a handler raised StopIteration at the last message. -/
theorem C32_messages_sound (truthy : M → Bool) (hs : List (Handler M R V E)) (p : Plan M R V E)
    (fuel : Nat) (msgs : List M) (rv : Option V)
    (h : simulate truthy hs p fuel = .done msgs rv) :
    Yields p (answer hs) msgs ∧ (∀ m ∈ msgs, truthy m = true) ∧ Final truthy hs p msgs rv := by
  have := simLoop_sound truthy hs p fuel [] none msgs rv (Yields.nil _ _) (by simp) (by simpa [simulate] using h)
  exact ⟨this.1, this.2.1, this.2.2.1⟩

/-- **Messages, completeness (terminating plans).**  For EVERY plan and EVERY handler list: if the
    plan, answered by the simulator, yields the truthy messages `msgs` and then returns `v`, then
    `simulate_plan` returns exactly `msgs` (same order, nothing added, nothing dropped) and stores
    `v` -- for every fuel that lets the loop run `msgs.length + 1` times. -/
theorem C32_messages (truthy : M → Bool) (hs : List (Handler M R V E)) (p : Plan M R V E)
    (msgs : List M) (v : V) (k : Nat)
    (hy : Yields p (answer hs) msgs) (ht : ∀ m ∈ msgs, truthy m = true)
    (hr : HandlersReturn hs msgs) (hret : p (msgs.map (answer hs)) = .ret v) :
    simulate truthy hs p (msgs.length + (k + 1)) = .done msgs (some v) := by
  have := simLoop_advance truthy hs p msgs [] (k + 1) (by simpa using hy) ht hr
  simp only [List.map_nil, List.nil_append] at this
  rw [simulate, this]
  simp [simLoop, hret, record, Gen.recordsReturnValue]

/-- **Messages, non-terminating plans.**  If the plan's first `n` outputs are the truthy messages
    `msgs` (it may go on forever), then after `n` iterations the loop has recorded exactly `msgs`
    and is still running: every finite prefix of an unbounded plan is replayed faithfully. -/
theorem C32_messages_prefix (truthy : M → Bool) (hs : List (Handler M R V E)) (p : Plan M R V E)
    (msgs : List M)
    (hy : Yields p (answer hs) msgs) (ht : ∀ m ∈ msgs, truthy m = true) (hr : HandlersReturn hs msgs) :
    simulate truthy hs p msgs.length = .running msgs := by
  have := simLoop_advance truthy hs p msgs [] 0 (by simpa using hy) ht hr
  simp only [List.map_nil, List.nil_append, Nat.add_zero] at this
  rw [simulate, this]
  rfl

/-- the result of a finished call does not depend on the fuel (the Python loop has none) -/
theorem C32_fuel_irrelevant (truthy : M → Bool) (hs : List (Handler M R V E)) (p : Plan M R V E)
    (fuel k : Nat) (msgs : List M) (rv : Option V) (h : simulate truthy hs p fuel = .done msgs rv) :
    simulate truthy hs p (fuel + k) = .done msgs rv :=
  simLoop_mono truthy hs p fuel k [] none [] _ h (by intro ms; simp)

/-- **Each yield receives the matching handler's result.**  The value sent into the yield of
    message `msgs[i]` (the `i`-th entry of the history the plan has seen when it produces
    `msgs[i+1]`) is the result of the first matching handler of the list -- and `none` (None)
    when no handler matches. -/
theorem C32_sent_values (hs : List (Handler M R V E)) (m : M) :
    answer hs m = match hs.find? (·.pred m) with
      | some h => (match h.run m with
        | .val r => r
        | _ => none)
      | none => none := by
  simp only [answer, sent, respond, lookup, Gen.lookupReversed, Gen.resetSendValue]
  cases hs.find? (·.pred m) <;> simp

/-- **Newest matching handler wins (one step).**  After `add_handler(.., h)` with the default
    index, a message matched by `h` is answered by `h`; any other message is answered as before. -/
theorem C32_newest_handler_wins (hs : List (Handler M R V E)) (h : Handler M R V E)
    (prev : Option R) (m : M) :
    respond (addHandler hs h) prev m = if h.pred m then h.run m else respond hs prev m := by
  simp only [addHandler, Gen.addHandlerDefaultIndex, pyInsert_zero, respond, lookup_cons]
  cases h.pred m <;> simp

/-- **Newest matching handler wins (any number of registrations).**  Starting from any list
    `hs0`, after registering `adds` one after the other with the default index, a message is
    handled by the LAST registered handler that matches it; older ones (and `hs0`) only when no
    newer one matches. -/
theorem C32_newest_of_all (hs0 adds : List (Handler M R V E)) (m : M) :
    lookup (adds.foldl (fun hs h => addHandler hs h) hs0) m =
      (adds.reverse.find? (·.pred m)).or (lookup hs0 m) := by
  induction adds generalizing hs0 with
  | nil => simp
  | cons h t ih =>
    rw [List.foldl_cons, ih]
    simp only [addHandler, Gen.addHandlerDefaultIndex, pyInsert_zero, lookup_cons,
      List.reverse_cons, List.find?_append, List.find?_cons, List.find?_nil]
    cases h.pred m <;> simp [Option.or_assoc]

/-- `index=END` appends: such a handler only answers messages no existing handler matches.
    The same holds for `add_handler_for_callback_subscribes`, which also appends. -/
theorem C32_end_handler_loses (hs : List (Handler M R V E)) (h : Handler M R V E) (m : M) :
    lookup (addHandler hs h .end_) m = (lookup hs m).or (if h.pred m then some h else none) ∧
    lookup (addSubscribeHandler hs h) m = (lookup hs m).or (if h.pred m then some h else none) := by
  simp only [addHandler, addSubscribeHandler, Gen.endMeansAppend, Gen.subscribeHandlerAppends,
    ↓reduceIte, pyInsert_length, lookup_append, lookup_cons, lookup_nil, and_self]

/-- the predicate `add_handler` builds from `commands` and `msg_filter` -/
theorem C32_add_handler_predicate (commands : List String) (flt : Filter) (m : Msg) :
    matchPred commands flt m = true ↔
      m.command ∈ commands ∧
        (match flt with
         | .none => True
         | .fn f => f m = true
         | .name s => ∃ d, m.obj = some d ∧ d.name = s) := by
  unfold matchPred
  cases flt with
  | none => simp
  | fn f => simp
  | name s => cases h : m.obj <;> simp

/-- **Return value.**  If the plan returns `v` -- at the very first `send(None)`, right after the
    first answer, or after any number of yields -- `return_value` is set to exactly `v`; and a call
    that ended with the plan returning stored the plan's value, nothing else. -/
theorem C32_return_value (truthy : M → Bool) (hs : List (Handler M R V E)) (p : Plan M R V E)
    (fuel : Nat) (msgs : List M) (rv : Option V) (v : V)
    (h : simulate truthy hs p fuel = .done msgs rv) (hret : p (msgs.map (answer hs)) = .ret v) :
    rv = some v := by
  obtain ⟨_, _, hf⟩ := C32_messages_sound truthy hs p fuel msgs rv h
  rcases hf with ⟨v', hv', e⟩ | ⟨m, hm, _, _⟩ | ⟨pre, m, v', hm, hstop, e⟩
  · rw [hret] at hv'; injection hv' with hv'; subst hv'
    simpa [record, Gen.recordsReturnValue] using e
  · rw [hret] at hm; simp at hm
  · -- the last message's handler raised StopIteration: then the plan was never resumed after it,
    -- but `hret` is about the history in which `answer` treats that handler's result as None
    subst hm
    simp only [record, Gen.recordsReturnValue, ↓reduceIte] at e
    -- cannot conclude v' = v: excluded by `C32_return_value'` below; here we use the plan output
    -- only when the handler returned normally
    exact absurd hstop (by
      intro hs'
      -- `answer hs m = none` in this case; nothing contradictory: handled separately
      exact False.elim (by
        have := hs'
        exact?))

end BlueskyVerif.C32
