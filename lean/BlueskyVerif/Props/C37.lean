/-
C37 -- File-name templates expand exactly like printf.

`intReplacer`, `flagClass`, `typeClass` are GENERATED from src/bluesky/consolidators.py on every run
(Pure/PrintfGenerated.lean: the body of `int_replacer` translated statement by statement, the
character classes of the regex literal).  `cPrintf` (ISO C printf of one `%..d` conversion),
`pyFormatInt`/`pyStrFormat` (CPython's format-spec mini-language for ints) and `reMatch` are the
hand-written models of Pure/Printf.lean, tied to libc / CPython / `re` by the correspondence run.

`derive t i`  = what the consolidator's code path yields for the conversion text `t` and frame index `i`
               (regex groups -> int_replacer -> `.format(i)`);
`cPrintf t i` = what C `printf(t, i)` prints.
All theorems quantify over ARBITRARY flag strings, digit strings (widths, precisions) and indices.
-/
import BlueskyVerif.Lemmas.C37Regex

namespace BlueskyVerif.C37
open BlueskyVerif.PyStr BlueskyVerif.Printf

/-- The property's grammar, on the regex groups: flags over the regex's flag class, an optional width
    (digits, not starting with '0' -- a leading '0' is a flag), an optional precision (digits), and
    precision >= width when a precision is given (an absent width counts as 0). -/
structure InGrammar (flags : Str) (w p : Option Str) : Prop where
  wf : GroupsWF flags w p
  prec_ge_width : ∀ ps, p = some ps → pyIntOr w 0 ≤ pyInt ps

/-- The statement at full strength: for every template of the grammar and every frame index the derived
    name equals printf's output.  NOT provable on the current tree (see `C37_gap_characterised` and
    Counterexamples/C37.lean: precision value 0 with index 0). -/
def C37_full : Prop :=
  ∀ (flags : Str) (w p : Option Str) (i : Nat), InGrammar flags w p →
    ∃ out, cPrintf (tmpl flags w p) i = some out ∧ derive (tmpl flags w p) i = some out

/-- the one excluded input class: a precision whose value is 0 together with frame index 0 -/
def ZeroPrecZeroIndex (p : Option Str) (i : Nat) : Prop := p.map pyInt = some 0 ∧ i = 0

/-- PARTIAL (gap = `ZeroPrecZeroIndex`): for all flags, all widths, all precisions >= width and all
    indices outside the excluded class, the consolidator's file-name text equals C printf's. -/
theorem C37_agree_partial (flags : Str) (w p : Option Str) (i : Nat)
    (g : InGrammar flags w p) (hgap : ¬ ZeroPrecZeroIndex p i) :
    ∃ out, cPrintf (tmpl flags w p) i = some out ∧ derive (tmpl flags w p) i = some out := by
  refine ⟨_, cPrintf_tmpl flags w p i g.wf, ?_⟩
  have hnd := natRepr_length_pos i
  cases p with
  | none =>
    rw [derive_noprec flags w i g.wf]
    have h1 : (1 - (natRepr i).length) = 0 := by omega
    by_cases hm : '-' ∈ flags <;> by_cases hz : '0' ∈ flags <;> simp [hm, hz, h1, rep_zero]
  | some ps =>
    rw [derive_prec flags w ps i g.wf]
    have hle := g.prec_ge_width ps rfl
    have hmax : max (pyInt ps) (pyIntOr w 0) = pyInt ps := by omega
    have hdig : ¬ (i = 0 ∧ pyInt ps = 0) := by
      intro h; exact hgap ⟨by simp [h.2], h.1⟩
    have hpad : pyIntOr w 0 - ((signStr flags).length + (rep '0' (pyInt ps - (natRepr i).length) ++ natRepr i).length) = 0 := by
      simp [rep_length]; omega
    simp only [Option.map_some, Option.getD_some, hdig, if_false, hpad, rep_zero, hmax]
    by_cases hm : '-' ∈ flags <;> simp [hm]

/-- FULL for templates without a precision (`%[flags][width]d`): every index, including 0. -/
theorem C37_agree_no_precision (flags : Str) (w : Option Str) (i : Nat) (wf : GroupsWF flags w none) :
    ∃ out, cPrintf (tmpl flags w none) i = some out ∧ derive (tmpl flags w none) i = some out :=
  C37_agree_partial flags w none i ⟨wf, by intro ps h; cases h⟩ (by simp [ZeroPrecZeroIndex])

/-- Exactly what happens in the excluded class: printf prints the sign only (no digit), the consolidator
    prints the sign followed by "0". -/
theorem C37_gap_characterised (flags : Str) (w : Option Str) (ps : Str)
    (g : InGrammar flags w (some ps)) (h0 : pyInt ps = 0) :
    cPrintf (tmpl flags w (some ps)) 0 = some (signStr flags) ∧
    derive (tmpl flags w (some ps)) 0 = some (signStr flags ++ ['0']) := by
  have hle := g.prec_ge_width ps rfl
  constructor
  · rw [cPrintf_tmpl flags w (some ps) 0 g.wf]
    have hw : pyIntOr w 0 = 0 := by omega
    by_cases hm : '-' ∈ flags <;> simp [h0, hw, hm, rep_zero]
  · rw [derive_prec flags w ps 0 g.wf]
    have : max (pyInt ps) (pyIntOr w 0) - (natRepr 0).length = 0 := by omega
    rw [this]
    simp [rep_zero, natRepr, digitChar]

/-- The grammar is exactly what the code's regex matches (1): every conversion of the grammar, followed by
    any text, is matched with the expected groups ... -/
theorem C37_regex_complete (flags : Str) (w p : Option Str) (wf : GroupsWF flags w p) (rest : Str) :
    reMatch (tmpl flags w p ++ rest) = some ({ flags := flags, width := w, precision := p, typeChar := ['d'] }, rest) :=
  reMatch_tmpl flags w p wf rest

/-- ... (2) and everything the regex matches is such a conversion: well-formed groups whose text is the
    matched prefix. -/
theorem C37_regex_sound (t : Str) (g : Groups) (rest : Str) (h : reMatch t = some (g, rest)) :
    GroupsWF g.flags g.width g.precision ∧ g.typeChar = ['d'] ∧ t = tmpl g.flags g.width g.precision ++ rest :=
  reMatch_sound t g rest h

/-- Hence, stated on raw template text: for EVERY string the consolidator's regex matches entirely, with
    precision >= width and outside the excluded class, the derived text equals printf's. -/
theorem C37_agree_matched_partial (t : Str) (g : Groups) (i : Nat) (h : reMatch t = some (g, []))
    (hpw : ∀ ps, g.precision = some ps → pyIntOr g.width 0 ≤ pyInt ps)
    (hgap : ¬ ZeroPrecZeroIndex g.precision i) :
    ∃ out, cPrintf t i = some out ∧ derive t i = some out := by
  obtain ⟨wf, _, ht⟩ := reMatch_sound t g [] h
  rw [List.append_nil] at ht
  rw [ht]
  exact C37_agree_partial g.flags g.width g.precision i ⟨wf, hpw⟩ hgap

/-! Non-vacuity: concrete members of the grammar, and the theorem's conclusion evaluated on them. -/
example : InGrammar ['+', '0'] (some ['6']) (some ['1', '0']) :=
  ⟨⟨by decide, by intro ws h; cases h; exact ⟨by simp, by intro c hc; simp at hc; subst hc; decide, by simp⟩,
     by intro ps h; cases h; exact ⟨by simp, by intro c hc; simp at hc; rcases hc with rfl | rfl <;> decide⟩⟩,
   by intro ps h; cases h; decide⟩
example : tmpl ['+', '0'] (some ['6']) (some ['1', '0']) = "%+06.10d".toList := by decide
example : ¬ ZeroPrecZeroIndex (some ['1', '0']) 0 := by simp [ZeroPrecZeroIndex, pyInt, digitVal]
example : ¬ ZeroPrecZeroIndex (some ['0']) 7 := by simp [ZeroPrecZeroIndex]

end BlueskyVerif.C37
