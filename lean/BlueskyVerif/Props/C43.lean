/-
C43 -- PersistentDict keeps what was last written: used one instance at a time, a PersistentDict
reopened on the same directory holds exactly the keys and top-level values most recently set,
deleted, popped or flushed through the previous instance.

Model: `IO/PersistentDict.lean` -- the directory (zict.File), `self._cache`, and the dict object
captured by the `weakref.finalize` callback; operations `set del pop popitem setdefault update clear
flush reload mutate(nested) gcReopen crashReopen`, the MutableMapping mixins spelled out through
`__getitem__/__setitem__/__delitem__/popitem`.  Which methods write through, whether `reload`
updates `self._cache` in place and what the finalizer captured are regenerated from the current
source into `IO/PersistentDictGenerated.lean` on every check; the lemmas unfold those constants.
msgpack is a parameter with the round-trip law `load (dump v) = norm v` (`norm`: tuples -> lists).

Specification (`Spec`, same file): two plain maps -- `vis`, what the user sees, and `dur`, what has
been made durable -- with the obvious one-line meaning of each operation.
The theorems are for EVERY history (any operations, any keys and values, any number of reload /
reopen / crash points in between, any directory listing order), by induction over the history,
from any state satisfying the representation invariant (in particular a new empty directory).
-/
import BlueskyVerif.Lemmas.C43Step

namespace BlueskyVerif.C43
open BlueskyVerif.PersistentDict

section
variable {K V B : Type} [DecidableEq K]

theorem init_inv : Inv (init : St K V B) := ⟨rfl, fun _ => rfl⟩

theorem absSt_init (c : Codec V B) : absSt c (init : St K V B) = Spec.empty := rfl

theorem run_append (c : Codec V B) (a b : List (Op K V)) (st : St K V B) :
    (run c st (a ++ b)).1 = (run c (run c st a).1 b).1 := by
  induction a generalizing st with
  | nil => rfl
  | cons op ops ih => simp only [List.cons_append, run]; exact ih _

/-- Refinement: after ANY history the model state abstracts to the state of the two-map
    specification run over the same history as the user observed it; the invariant is kept. -/
theorem C43_refinement (c : Codec V B) (ops : List (Op K V)) (st : St K V B) (h : Inv st) :
    Inv (run c st ops).1 ∧
      absSt c (run c st ops).1 = Spec.run c.norm (absSt c st) (trace c st ops) := by
  induction ops generalizing st with
  | nil => exact ⟨h, rfl⟩
  | cons op ops ih =>
    obtain ⟨h1, e1⟩ := step_spec c st op h
    obtain ⟨h2, e2⟩ := ih (step c st op).1 h1
    refine ⟨h2, ?_⟩
    simp only [run, trace, List.zip_cons_cons, Spec.run, List.foldl_cons] at e2 ⊢
    rw [e2, e1]

/-- The instance is garbage-collected (finalizer runs) and the directory is re-opened: the new
    instance holds exactly the user-visible map of the old one, values normalised by msgpack --
    every key and top-level value most recently set / deleted / popped, including nested mutations. -/
theorem C43_refines_map (c : Codec V B) (ops : List (Op K V)) (order : List K) (st : St K V B) (h : Inv st) :
    content (run c st (ops ++ [.gcReopen order])).1 =
      fun k => ((Spec.run c.norm (absSt c st) (trace c st ops)).vis k).map c.norm := by
  obtain ⟨h1, e1⟩ := C43_refinement c ops st h
  obtain ⟨_, e2⟩ := step_spec c (run c st ops).1 (.gcReopen order) h1
  rw [run_append]
  show (absSt c (step c (run c st ops).1 (.gcReopen order)).1).vis = _
  rw [e2, e1]
  rfl

/-- The same after an explicit `flush()` even if the process then dies without running the finalizer. -/
theorem C43_flush_then_crash (c : Codec V B) (ops : List (Op K V)) (order : List K) (st : St K V B) (h : Inv st) :
    content (run c st (ops ++ [.flush, .crashReopen order])).1 =
      fun k => ((Spec.run c.norm (absSt c st) (trace c st ops)).vis k).map c.norm := by
  obtain ⟨h1, e1⟩ := C43_refinement c ops st h
  obtain ⟨h2, e2⟩ := step_spec c (run c st ops).1 .flush h1
  obtain ⟨_, e3⟩ := step_spec c (step c (run c st ops).1 .flush).1 (.crashReopen order) h2
  rw [run_append]
  show (absSt c (step c (step c (run c st ops).1 .flush).1 (.crashReopen order)).1).vis = _
  rw [e3, e2, e1]
  rfl

/-- Crash (no finalizer) and re-open: the new instance holds exactly the durable map of the
    specification -- see `C43_write_through` for which writes reach it. -/
theorem C43_crash_durable (c : Codec V B) (ops : List (Op K V)) (order : List K) (st : St K V B) (h : Inv st) :
    content (run c st (ops ++ [.crashReopen order])).1 =
      (Spec.run c.norm (absSt c st) (trace c st ops)).dur := by
  obtain ⟨h1, e1⟩ := C43_refinement c ops st h
  obtain ⟨_, e2⟩ := step_spec c (run c st ops).1 (.crashReopen order) h1
  rw [run_append]
  show (absSt c (step c (run c st ops).1 (.crashReopen order)).1).vis = _
  rw [e2, e1]
  rfl

/-- what a re-open after a crash would show: the files of the directory, loaded -/
def crashContent (c : Codec V B) (st : St K V B) : K → Option V := fun k => (lookup st.disk k).map c.load

theorem crashContent_eq (c : Codec V B) (st : St K V B) (order : List K) :
    content (step c st (.crashReopen order)).1 = crashContent c st := by
  funext k
  simp [content, step, reopenP, loaded, lookup_map, lookup_reorder, crashContent]

/-- Exactly which writes are durable at once: `d[k] = v`, `del d[k]`, `d.pop(k)` and `d.popitem()`
    are write-through (they change the durable entry of that key and no other); a nested mutation
    changes nothing durable; `flush()` makes the whole visible map durable. -/
theorem C43_write_through (c : Codec V B) (st : St K V B) (h : Inv st) :
    (∀ k v, crashContent c (step c st (.set k v)).1 = upd (crashContent c st) k (some (c.norm v))) ∧
    (∀ k, (content st k).isSome → crashContent c (step c st (.del k)).1 = upd (crashContent c st) k none) ∧
    (∀ k d, (content st k).isSome → crashContent c (step c st (.pop k d)).1 = upd (crashContent c st) k none) ∧
    (∀ k v, (step c st .popitem).2 = .item k v →
        crashContent c (step c st .popitem).1 = upd (crashContent c st) k none) ∧
    (∀ k v, crashContent c (step c st (.mutate k v)).1 = crashContent c st) ∧
    (crashContent c (step c st .flush).1 = fun k => (content st k).map c.norm) := by
  refine ⟨fun k v => ?_, fun k hk => ?_, fun k d hk => ?_, fun k v hr => ?_, fun k v => ?_, ?_⟩
  · have := congrArg Spec.dur (step_spec c st (.set k v) h).2
    simp only [Spec.step, Spec.set] at this
    exact this
  · have := congrArg Spec.dur (step_spec c st (.del k) h).2
    have hv : ((absSt c st).vis k).isSome = true := hk
    simp only [Spec.step, hv, if_true, Spec.remove] at this
    exact this
  · have := congrArg Spec.dur (step_spec c st (.pop k d) h).2
    have hv : ((absSt c st).vis k).isSome = true := hk
    simp only [Spec.step, hv, if_true, Spec.remove] at this
    exact this
  · have := congrArg Spec.dur (step_spec c st .popitem h).2
    rw [hr] at this
    exact this
  · have := congrArg Spec.dur (step_spec c st (.mutate k v) h).2
    simp only [Spec.step] at this
    split at this <;> exact this
  · have := congrArg Spec.dur (step_spec c st .flush h).2
    exact this

end

/-! ### Non-vacuity: concrete histories (values = (is_tuple, payload); msgpack drops the tuple flag) -/

private def exCodec : Codec (Bool × Nat) Nat :=
  { dump := fun v => v.2, load := fun n => (false, n), norm := fun v => (false, v.2), roundtrip := fun _ => rfl }

private abbrev S := St String (Bool × Nat) Nat

example : Inv (init : S) := init_inv

/-- the history of the repaired defect F16: reload, then delete, then gc -- the key stays deleted -/
example :
    let st := (run exCodec (init : S) [.set "a" (true, 1), .set "b" (false, 2), .reload, .del "a", .gcReopen ["b", "a"]]).1
    content st "a" = none ∧ content st "b" = some (false, 2) := by decide

/-- a nested mutation is lost by a crash, kept by gc; the tuple comes back as a list -/
example :
    content (run exCodec (init : S) [.set "a" (true, 1), .mutate "a" (true, 7), .crashReopen []]).1 "a" = some (false, 1) ∧
    content (run exCodec (init : S) [.set "a" (true, 1), .mutate "a" (true, 7), .gcReopen []]).1 "a" = some (false, 7) := by
  decide

example :
    (run exCodec (init : S) [.set "a" (false, 1), .set "b" (false, 2), .popitem, .pop "zz" none, .clear, .popitem]).2 =
      [.none, .none, .item "b" (false, 2), .keyError, .none, .keyError] := by decide

end BlueskyVerif.C43
