/-
C34 -- JSON writers produce files that parse back to the documents.

The strings written, the open() modes, the tested document names and the file-name pieces
(`arrayStartOps`, `arrayStartMode`, ..., `linesOps`, `linesModeIfExists`, ...) are GENERATED from
src/bluesky/callbacks/json_writer.py on every run; `arrayCall/linesCall/openWrite` are the
hand-written transcription (IO/JsonWriter.lean), tied by the correspondence run.
`json.dumps` of one record is a parameter: every document carries its text.
Specification-side definitions used below (IO/JsonWriter.lean, section "specification side"):
`arrayFile`, `linesFile` (which file), `lineFix` (newline put before the first record iff the old
content is non-empty and unterminated), `sepJoin`, `concatAll`, `parseArrayFile` (RFC 8259 array over
an element parser), `linesOf`; `IsValueText` is in Lemmas/C34.lean.
-/
import BlueskyVerif.Lemmas.C34Run

-- simp sets name generated constants that happen not to be needed for the current source
set_option linter.unusedSimpArgs false

namespace BlueskyVerif.C34
open BlueskyVerif.JsonWriter

/-! ### JSONWriter: the text of the file -/

/-- THE TEXT.  For ANY prior directory content (including an older file of the same name), any
    constructor `filename`, a start document, ANY number of further documents (none named start/stop)
    and a stop document: afterwards the run's file is exactly
    `"[\n" ++ ",\n".join(dumps of the records, in order) ++ "\n]"`, every call succeeded, and no
    other file was touched. -/
theorem C34_array_text (w : Writer) (fs : FS) (s e : Doc) (mids : List Doc) (u : String)
    (hs : s.name = "start") (hu : s.uid = some u) (he : e.name = "stop")
    (hm : ∀ d ∈ mids, d.name ≠ "start" ∧ d.name ≠ "stop") :
    (runCalls arrayCall w fs (s :: (mids ++ [e]))).2.1.get (arrayFile w u)
      = some ("[\n" ++ sepJoin ",\n" ((s :: (mids ++ [e])).map (·.text)) ++ "\n]") ∧
    (runCalls arrayCall w fs (s :: (mids ++ [e]))).2.2 = List.replicate (mids.length + 2) .ok ∧
    (∀ q, q ≠ arrayFile w u → (runCalls arrayCall w fs (s :: (mids ++ [e]))).2.1.get q = fs.get q) := by
  have h0 := arrayCall_start w fs s u hs hu
  have hw1 : (Writer.mk (some (arrayFile w u))).filename = some (arrayFile w u) := rfl
  have hget0 : (openWrite fs (arrayFile w u) .w ("[\n" ++ s.text ++ ",\n")).get (arrayFile w u)
      = some ("[\n" ++ s.text ++ ",\n") := by rw [openWrite_get]; simp
  obtain ⟨m1, m2, m3, m4⟩ := array_mids (arrayFile w u) mids hm _ hw1 _ _ hget0
  have hstop := fun fs' => arrayCall_stop ⟨some (arrayFile w u)⟩ fs' e (arrayFile w u) hw1 he
  simp only [runCalls, h0, runCalls_append, m1, hstop]
  refine ⟨?_, ?_, ?_⟩
  · rw [openWrite_get]
    simp only [if_true, m2, Option.getD_some]
    have : (s :: (mids ++ [e])).map (·.text) = ((s :: mids).map (·.text)) ++ [e.text] := by simp
    rw [this, sepJoin_snoc]
    simp [concatAll, String.append_assoc, Function.comp_def]
  · simp only [m4, List.replicate_succ]
    have : ∀ n, List.replicate n Outcome.ok ++ [Outcome.ok] = Outcome.ok :: List.replicate n Outcome.ok := by
      intro n; induction n with
      | zero => rfl
      | succ n ih => simp [List.replicate_succ, ih]
    simp [this]
  · intro q hq
    rw [openWrite_get]
    simp only [hq, if_false]
    rw [m3 q hq, openWrite_get]
    simp [hq]


/-- Examined: the stop document never arrives.  The file then is `"[\n"` followed by `dumps ++ ",\n"`
    for every document so far -- it has no closing bracket (and does not parse, see the `example` at the
    end); the statement of C34 is about completed runs only. -/
theorem C34_array_unfinished_text (w : Writer) (fs : FS) (s : Doc) (mids : List Doc) (u : String)
    (hs : s.name = "start") (hu : s.uid = some u)
    (hm : ∀ d ∈ mids, d.name ≠ "start" ∧ d.name ≠ "stop") :
    (runCalls arrayCall w fs (s :: mids)).2.1.get (arrayFile w u)
      = some ("[\n" ++ concatAll ((s :: mids).map (·.text ++ ",\n"))) := by
  have h0 := arrayCall_start w fs s u hs hu
  have hw1 : (Writer.mk (some (arrayFile w u))).filename = some (arrayFile w u) := rfl
  have hget0 : (openWrite fs (arrayFile w u) .w ("[\n" ++ s.text ++ ",\n")).get (arrayFile w u)
      = some ("[\n" ++ s.text ++ ",\n") := by rw [openWrite_get]; simp
  obtain ⟨_, m2, _, _⟩ := array_mids (arrayFile w u) mids hm _ hw1 _ _ hget0
  simp only [runCalls, h0]
  rw [m2]
  simp [concatAll, String.append_assoc]

/-- Examined: documents before any start document, no constructor `filename`: `self.dirname / None`
    raises TypeError and nothing is written. -/
theorem C34_array_before_start (fs : FS) (d : Doc) (h : d.name ≠ "start") :
    arrayCall ⟨none⟩ fs d = (⟨none⟩, fs, .typeError) := by
  unfold arrayCall
  by_cases h2 : d.name = "stop" <;> simp [arrayStartName, arrayStopName, h, h2]

/-! ### JSONWriter: the file parses as the array of the records -/

/-- GRAMMAR LEVEL.  If every text is the text of one value for the element parser (ASSUMPTION on
    `json.dumps`: its output is one JSON value; checked with `json.loads` in every correspondence
    run), then the bracketed, `",\n"`-separated list of ANY positive number of such texts parses
    (RFC 8259 array production, deterministic parser `parseArrayFile`) as the array of exactly those
    values, in order, with nothing left over. -/
theorem C34_array_parses {V} (pv : List Char → Option (V × List Char)) (tvs : List (String × V))
    (h : ∀ p ∈ tvs, IsValueText pv p.1.toList p.2) (hne : tvs ≠ []) :
    parseArrayFile pv ("[\n" ++ sepJoin ",\n" (tvs.map (·.1)) ++ "\n]").toList = some (tvs.map (·.2)) := by
  have hchars : ("[\n" ++ sepJoin ",\n" (tvs.map (·.1)) ++ "\n]").toList
      = '[' :: '\n' :: (sepJoinL [',', '\n'] ((tvs.map fun p => (p.1.toList, p.2)).map (·.1)) ++ '\n' :: ']' :: []) := by
    simp [String.toList_append, sepJoin_toList, List.map_map, Function.comp_def]
  rw [hchars]
  have h' : ∀ p ∈ tvs.map (fun p => (p.1.toList, p.2)), IsValueText pv p.1 p.2 := by
    intro p hp
    obtain ⟨q, hq, e⟩ := List.mem_map.mp hp
    subst e
    exact h q hq
  have hne' : tvs.map (fun p => (p.1.toList, p.2)) ≠ [] := by simpa using hne
  -- the first element starts with a character that is neither whitespace nor `]`
  cases htv : tvs.map (fun p => (p.1.toList, p.2)) with
  | nil => exact absurd htv hne'
  | cons p0 r0 =>
    obtain ⟨_, c, cs, e, hw, hb⟩ := h' p0 (by rw [htv]; exact List.mem_cons_self ..)
    have key := fun fuel hf => parseElems_joined pv (p0 :: r0) (by rw [← htv]; exact h') (by simp) fuel hf []
    have hstart : ∃ X, sepJoinL [',', '\n'] ((p0 :: r0).map (·.1)) ++ '\n' :: ']' :: [] = c :: X := by
      cases r0 <;> simp only [List.map_cons, List.map_nil, sepJoinL, e, List.cons_append] <;> exact ⟨_, rfl⟩
    obtain ⟨X, hX⟩ := hstart
    have hmap : (tvs.map fun p => (p.1.toList, p.2)).map (·.2) = tvs.map (·.2) := by
      simp [List.map_map, Function.comp_def]
    have hfuel : (p0 :: r0).length ≤ ('\n' :: (sepJoinL [',', '\n'] ((p0 :: r0).map (·.1)) ++ '\n' :: ']' :: [])).length := by
      have := length_le_joined [',', '\n'] (by simp) (p0 :: r0)
      simp only [List.length_cons, List.length_append] at this ⊢
      omega
    have hk := key _ (Nat.le_succ_of_le hfuel)
    have e2 : ∀ (fuel : Nat) (Y : List Char), parseElems pv (fuel + 1) ('\n' :: Y) = parseElems pv (fuel + 1) Y := by
      intro fuel Y; simp only [parseElems, skipWs_nl]
    have s1 : skipWs ('[' :: '\n' :: (sepJoinL [',', '\n'] ((p0 :: r0).map (·.1)) ++ '\n' :: ']' :: []))
        = '[' :: '\n' :: (sepJoinL [',', '\n'] ((p0 :: r0).map (·.1)) ++ '\n' :: ']' :: []) := by
      simp [skipWs, isWs]
    have s2 : skipWs ('\n' :: (sepJoinL [',', '\n'] ((p0 :: r0).map (·.1)) ++ '\n' :: ']' :: [])) = c :: X := by
      rw [skipWs_nl, hX]; simp [skipWs, hw]
    have hpa : parseArray pv ('[' :: '\n' :: (sepJoinL [',', '\n'] ((p0 :: r0).map (·.1)) ++ '\n' :: ']' :: []))
        = some ((p0 :: r0).map (·.2), []) := by
      unfold parseArray
      rw [s1]
      simp only [s2, List.head?_cons, Option.some.injEq, hb, if_false]
      rw [e2, hk]
    unfold parseArrayFile
    rw [hpa]
    simp [skipWs, ← htv, hmap]

/-! ### JSONLinesWriter -/

/-- APPEND ONLY.  For ANY directory content (the target file may or may not exist, with ANY content,
    terminated or not), any constructor `filename`, and ANY positive number of documents with any
    names: afterwards the file is its previous content, then a newline iff that content was non-empty
    and did not end with one, then `dumps(record) ++ "\n"` for each document in order -- so the
    previous content is a prefix of the new content (nothing lost or changed); every call succeeded;
    no other file is touched.  (`u` is the uid of the first document when it is a start document.) -/
theorem C34_lines_append (today : String) (w : Writer) (fs : FS) (d : Doc) (ds : List Doc) (u : String)
    (hu : d.name = "start" → d.uid = some u) :
    (runCalls (linesCall today) w fs (d :: ds)).2.1.get (linesFile today w d u)
      = some ((fs.get (linesFile today w d u)).getD "" ++ lineFix ((fs.get (linesFile today w d u)).getD "")
          ++ concatAll ((d :: ds).map (·.text ++ "\n"))) ∧
    (runCalls (linesCall today) w fs (d :: ds)).2.2 = List.replicate (ds.length + 1) .ok ∧
    (∀ q, q ≠ linesFile today w d u →
      (runCalls (linesCall today) w fs (d :: ds)).2.1.get q = fs.get q) := by
  -- the first call decides the file name; from then on `self.filename` is that non-empty name
  have hne : linesFile today w d u ≠ "" := by
    unfold linesFile
    by_cases ht : truthy w.filename = true
    · rw [if_pos ht]
      cases hw : w.filename with
      | none => simp [hw, truthy] at ht
      | some f => simpa [hw, truthy] using ht
    · rw [if_neg ht]
      split <;> exact append_ne_empty _ _ (by decide)
  have hfn : (if truthy w.filename then w.filename
            else if d.name = linesStartName then d.uid.map fun u => splitHead u linesUidSep ++ linesExt
            else some (today ++ linesExt)) = some (linesFile today w d u) := by
    unfold linesFile
    cases hw : w.filename with
    | none =>
      by_cases hn : d.name = "start"
      · simp [truthy, linesStartName, hn, hu hn, linesUidSep, linesExt]
      · simp [truthy, linesStartName, hn, linesExt]
    | some f =>
      by_cases hf : f = ""
      · by_cases hn : d.name = "start"
        · simp [truthy, hf, linesStartName, hn, hu hn, linesUidSep, linesExt]
        · simp [truthy, hf, linesStartName, hn, linesExt]
      · simp [truthy, hf]
  obtain ⟨k1, k2, k3, k4⟩ := linesCall_text today w fs d _ hfn
  have k3' : (linesCall today w fs d).2.1.get (linesFile today w d u)
      = some (((fs.get (linesFile today w d u)).getD "" ++ lineFix ((fs.get (linesFile today w d u)).getD "") ++ d.text) ++ "\n") := by
    rw [k3]; simp [String.append_assoc]
  obtain ⟨i1, i3, i4⟩ := lines_rest today _ hne ds (linesCall today w fs d).1 (by rw [k1])
    (linesCall today w fs d).2.1 _ k3'
  simp only [runCalls]
  refine ⟨?_, ?_, ?_⟩
  · rw [i1]; simp [concatAll, String.append_assoc]
  · rw [i4, k2]; simp [List.replicate_succ]
  · intro q hq; rw [i3 q hq, k4 q hq]

/-- ONE LINE PER DOCUMENT, for ARBITRARY pre-existing content (empty, newline-terminated, or with
    an unterminated last line): if no `dumps` text contains a raw newline (ASSUMPTION on json.dumps,
    checked in every run), the lines of the file afterwards are the old lines followed by exactly
    one line per document, each line being that document's text -- so each parses on its own to its
    record and every old line is still there. -/
theorem C34_lines_full (pre : String) (texts : List String) (ht : ∀ t ∈ texts, '\n' ∉ t.toList) :
    linesOf (pre ++ lineFix pre ++ concatAll (texts.map (· ++ "\n"))).toList
      = linesOf pre.toList ++ texts.map String.toList := by
  have hnew := concat_lines_toList texts
  have hl := linesOf_lines (texts.map String.toList) (by
    intro t htm
    obtain ⟨s, hs, e⟩ := List.mem_map.mp htm
    subst e; exact ht s hs)
  have hnl : ("\n" : String).toList = ['\n'] := rfl
  by_cases hp : pre = ""
  · subst hp
    simp [lineFix, hnew, hl, linesOf]
  · cases he : endsWith '\n' pre
    · -- unterminated last line: a newline is written first
      have hne : pre.toList ≠ [] := by
        intro e; apply hp; apply String.toList_inj.mp; simpa using e
      have hlast : pre.toList.getLast? ≠ some '\n' := by
        intro e; simp [endsWith, e] at he
      simp only [lineFix, hp, he, ne_eq, not_false_eq_true, and_self, if_true, String.toList_append, hnl, hnew]
      rw [List.append_assoc, List.singleton_append, linesOf_append_terminated, hl,
        linesOf_terminate _ hne hlast]
    · obtain ⟨p, e⟩ := (endsWith_iff '\n' pre).mp he
      have hs : String.singleton '\n' = "\n" := rfl
      rw [hs] at e
      subst e
      simp only [lineFix, endsWith_append_nl, String.toList_append, hnl, hnew]
      simp only [Bool.true_eq_false, and_false, if_false, String.toList_empty, List.append_nil]
      rw [List.append_assoc, List.singleton_append, linesOf_append_terminated, hl]

/-! ### non-vacuity -/

/-- toy element parser: one digit is one value -/
def digit : List Char → Option (Nat × List Char)
  | c :: r => if c.isDigit then some (c.toNat - 48, r) else none
  | [] => none

example : IsValueText digit "7".toList 7 := ⟨fun _ => rfl, '7', [], rfl, by decide, by decide⟩
example : parseArrayFile digit "[\n1,\n2,\n3\n]".toList = some [1, 2, 3] := by decide
example : parseArrayFile digit "[\n1,\n2,\n".toList = none := by decide   -- a run whose stop never arrived
example : ∃ c, (runCalls arrayCall ⟨none⟩ [("ab.json", "old")]
    [⟨"start", "1", some "ab-cd"⟩, ⟨"event", "2", none⟩, ⟨"stop", "3", none⟩]).2.1.get (arrayFile ⟨none⟩ "ab-cd") = some c :=
  ⟨_, (C34_array_text ⟨none⟩ [("ab.json", "old")] ⟨"start", "1", some "ab-cd"⟩ ⟨"stop", "3", none⟩
    [⟨"event", "2", none⟩] "ab-cd" rfl rfl rfl (by simp)).1⟩
example : ∃ c, (runCalls (linesCall "2026-09-21") ⟨none⟩ [("ab.jsonl", "0\n")]
    [⟨"start", "1", some "ab-cd"⟩, ⟨"stop", "3", none⟩]).2.1.get (linesFile "2026-09-21" ⟨none⟩ ⟨"start", "1", some "ab-cd"⟩ "ab-cd") = some c :=
  ⟨_, (C34_lines_append "2026-09-21" ⟨none⟩ [("ab.jsonl", "0\n")] ⟨"start", "1", some "ab-cd"⟩
    [⟨"stop", "3", none⟩] "ab-cd" (fun _ => rfl)).1⟩
example : lineFix "{\"a\": 1}" = "\n" ∧ lineFix "x\n" = "" ∧ lineFix "" = "" := by decide
example : linesOf "0\n1\n3\n".toList = ["0".toList, "1".toList, "3".toList] := by decide

end BlueskyVerif.C34
