/-
C04 -- resuming replays exactly the work done since the last checkpoint.

Model: Engine/Model.lean + Engine/Sim.lean (shared engine model).  The tables `Src.uncacheable`,
`Src.resetsCheckpoint`, `Src.rewindableToggleResets` are GENERATED from run_engine.py on every run
(_UNCACHEABLE_COMMANDS, the handlers that call _reset_checkpoint_state*, the `rewindable` setter).
Helper lemmas: Lemmas/C04{Gen,Frame,Cmd,Handlers,Run,Sched}.lean.
-/
import BlueskyVerif.Lemmas.C04Sched
import BlueskyVerif.Lemmas.C04Gen

namespace BlueskyVerif.C04
open BlueskyVerif.Engine

/-! ## (1) the cache rule -/

/-- the commands the documentation lists as never replayed -/
def documentedUncacheable : List String :=
  ["pause", "subscribe", "unsubscribe", "stage", "unstage", "monitor", "unmonitor", "open_run", "close_run",
   "install_suspender", "remove_suspender", "_start_suspender"]

/-- every documented non-replayable command is in the GENERATED `_UNCACHEABLE_COMMANDS` -/
theorem C04_uncacheable_table : ∀ c ∈ documentedUncacheable, c ∈ Src.uncacheable := by decide

/-- Processing a message (`noteMsg`: msg_hook, objs_seen, cache) logs it, leaves the rewindable flag and the
    stacks alone, and appends it to the cache IFF a cache exists, the plan is rewindable and the command is
    not in the generated `_UNCACHEABLE_COMMANDS`; otherwise the cache is unchanged.  For EVERY state and message. -/
theorem C04_cache_rule (s : EState) (m : Msg) :
    (noteMsg s m).msgs = s.msgs ++ [m] ∧ (noteMsg s m).rewindable = s.rewindable ∧
    (noteMsg s m).planStack = s.planStack ∧ (noteMsg s m).respStack = s.respStack ∧
    (∀ c, s.msgCache = some c → s.rewindable = true → m.cmd ∉ Src.uncacheable →
        (noteMsg s m).msgCache = some (c ++ [m])) ∧
    ((s.msgCache = none ∨ s.rewindable = false ∨ m.cmd ∈ Src.uncacheable) →
        (noteMsg s m).msgCache = s.msgCache) := by
  refine ⟨noteMsg_msgs s m, noteMsg_rew s m, (noteMsg_stacks s m).1, (noteMsg_stacks s m).2, ?_, ?_⟩
  · intro c hc hr hm
    rw [noteMsg_cache, hc]
    have : cacheable m = true := by
      unfold cacheable; simpa using hm
    simp [hr, this]
  · intro h
    rw [noteMsg_cache]
    cases hc : s.msgCache with
    | none => rfl
    | some c =>
      rcases h with h | h | h
      · rw [hc] at h; cases h
      · simp [h]
      · have : cacheable m = false := by
          unfold cacheable; simpa using h
        simp [this]

/-! ## (2) implicit checkpoints -/

/-- the commands the documentation lists as (implicit) checkpoints -/
def documentedResets : List String :=
  ["checkpoint", "stage", "unstage", "monitor", "unmonitor", "subscribe", "unsubscribe", "close_run"]

/-- every documented implicit checkpoint is a handler that ALWAYS calls `_reset_checkpoint_state*` in the
    current source (generated table).  The `close_run` member is what fix F1 established. -/
theorem C04_implicit_checkpoint_table :
    (∀ c ∈ documentedResets, c ∈ Src.resetsCheckpoint) ∧ "close_run" ∈ Src.resetsCheckpoint ∧
      Src.rewindableToggleResets = true := by decide

/-- For every state and message: when one of the modelled implicit-checkpoint commands does not raise, it
    leaves an EMPTY cache where there was one (and no cache where there was none), the flag, the log and
    the stacks untouched -- nothing executed before it can be replayed any more. -/
theorem C04_implicit_checkpoints (s : EState) (m : Msg)
    (hc : m.cmd ∈ ["checkpoint", "stage", "unstage", "monitor", "unmonitor", "close_run"])
    (hok : (runCommand s m).2.isRaised = false) :
    ck (runCommand s m).1 = (ck s).reset ∧ (runCommand s m).1.msgCache = resetOpt s.msgCache := by
  have key : ck (runCommand s m).1 = (ck s).reset := by
    simp only [List.mem_cons, List.not_mem_nil, or_false] at hc
    rcases hc with h | h | h | h | h | h
    · have e : runCommand s m = cmdCheckpoint s := by unfold runCommand; simp [h]
      rw [e] at hok ⊢; exact (ck_cmdCheckpoint s).2 hok
    · have e : runCommand s m = cmdStage s m "stage" := by unfold runCommand; simp [h]
      rw [e] at hok ⊢; exact (ck_cmdStage s m _).2 hok
    · have e : runCommand s m = cmdStage s m "unstage" := by unfold runCommand; simp [h]
      rw [e] at hok ⊢; exact (ck_cmdStage s m _).2 hok
    · have e : runCommand s m = cmdMonitor s m := by unfold runCommand; simp [h]
      rw [e] at hok ⊢; exact (ck_cmdMonitor s m).2 hok
    · have e : runCommand s m = cmdUnmonitor s m := by unfold runCommand; simp [h]
      rw [e] at hok ⊢; exact (ck_cmdUnmonitor s m).2 hok
    · have e : runCommand s m = cmdCloseRun s m := by unfold runCommand; simp [h]
      rw [e] at hok ⊢; exact (ck_cmdCloseRun s m).2 hok
  exact ⟨key, congrArg Ck.cache key⟩

/-- ... and when such a command raises, it is not a checkpoint: nothing changes -/
theorem C04_failed_checkpoint_is_none (s : EState) (m : Msg)
    (hc : m.cmd ∈ ["checkpoint", "stage", "unstage", "monitor", "unmonitor", "close_run"])
    (hbad : (runCommand s m).2.isRaised = true) : ck (runCommand s m).1 = ck s := by
  simp only [List.mem_cons, List.not_mem_nil, or_false] at hc
  rcases hc with h | h | h | h | h | h
  · have e : runCommand s m = cmdCheckpoint s := by unfold runCommand; simp [h]
    rw [e] at hbad ⊢; exact (ck_cmdCheckpoint s).1 hbad
  · have e : runCommand s m = cmdStage s m "stage" := by unfold runCommand; simp [h]
    rw [e] at hbad ⊢; exact (ck_cmdStage s m _).1 hbad
  · have e : runCommand s m = cmdStage s m "unstage" := by unfold runCommand; simp [h]
    rw [e] at hbad ⊢; exact (ck_cmdStage s m _).1 hbad
  · have e : runCommand s m = cmdMonitor s m := by unfold runCommand; simp [h]
    rw [e] at hbad ⊢; exact (ck_cmdMonitor s m).1 hbad
  · have e : runCommand s m = cmdUnmonitor s m := by unfold runCommand; simp [h]
    rw [e] at hbad ⊢; exact (ck_cmdUnmonitor s m).1 hbad
  · have e : runCommand s m = cmdCloseRun s m := by unfold runCommand; simp [h]
    rw [e] at hbad ⊢; exact (ck_cmdCloseRun s m).1 hbad

/-- toggling `rewindable` is an implicit checkpoint; a query or a no-op assignment is not -/
theorem C04_rewindable_toggle (s : EState) (m : Msg) :
    (m.iargs ≠ [] → m.flag ≠ s.rewindable →
      (cmdRewindable s m).1.msgCache = resetOpt s.msgCache ∧ (cmdRewindable s m).1.rewindable = m.flag ∧
        (cmdRewindable s m).1.msgs = s.msgs) ∧
    ((m.iargs = [] ∨ m.flag = s.rewindable) → ck (cmdRewindable s m).1 = ck s) := by
  obtain ⟨h1, h2, h3⟩ := ck_cmdRewindable s m
  refine ⟨fun ha hf => ?_, fun h => ?_⟩
  · have := h3 ha hf
    exact ⟨congrArg Ck.cache this, congrArg Ck.rew this, congrArg Ck.msgs this⟩
  · by_cases ha : m.iargs = []
    · exact h1 ha
    · rcases h with h | h
      · exact absurd h ha
      · exact h2 ha h

/-- `clear_checkpoint` removes the cache; neither `_reset_checkpoint_state_meth` nor the NoReplayAllowed
    path of the pause hooks re-creates it, and processing further messages caches nothing -/
theorem C04_clear_checkpoint (s : EState) (m : Msg) :
    (cmdClearCheckpoint s).1.msgCache = none ∧
    (s.msgCache = none → (resetCheckpointMeth s).msgCache = none ∧ (pauseHooks s).msgCache = none ∧
      (noteMsg s m).msgCache = none) := by
  refine ⟨congrArg Ck.cache (ck_cmdClearCheckpoint s), fun h => ⟨?_, ?_, ?_⟩⟩
  · have := congrArg Ck.cache (ck_resetCheckpointMeth s)
    simp only [ck, Ck.reset, h] at this; exact this
  · rcases ck_pauseHooks s with h1 | h1
    · exact (ck_cache h1).trans h
    · have := congrArg Ck.cache h1
      simp only [ck, Ck.reset, h] at this; exact this
  · rw [noteMsg_cache, h]

/-- a `pause()` hook raising NoReplayAllowed acts as a checkpoint: after the hooks the cache is what it was
    or has been emptied; nothing else of the checkpoint state moves -/
theorem C04_pause_hooks (s : EState) :
    ck (pauseHooks s) = ck s ∨ ck (pauseHooks s) = (ck s).reset := ck_pauseHooks s

/-! ## (3) the replay is exactly the cache -/

/-- `_rewind` returns exactly the cache and leaves an empty one -/
theorem C04_rewind (s : EState) :
    (rewindPlan s).1 = s.msgCache.getD [] ∧ (rewindPlan s).2.msgCache = some [] ∧
      (rewindPlan s).2.rewindable = s.rewindable ∧ (rewindPlan s).2.msgs = s.msgs :=
  ⟨rewindPlan_fst s, congrArg Ck.cache (ck_rewindPlan s), congrArg Ck.rew (ck_rewindPlan s),
    congrArg Ck.msgs (ck_rewindPlan s)⟩

/-- `Gen.list msgs` (= `ensure_generator(list(cache))`) hands out exactly `msgs`, in order, whatever it is
    sent, and then returns; so does a `yield from`-chain of such parts -- by induction on the lists, for
    ALL lists.  (`Yields` is defined in Lemmas/C04Gen.lean.) -/
theorem C04_list_replays_exactly (msgs : List Msg) : Yields (.list msgs) msgs := yields_list msgs

theorem C04_chain_replays_exactly {cur : Gen} {rest : List Gen} {a b : List Msg}
    (hc : Yields cur a) (hr : YieldsAll rest b) : Yields (.chain cur rest) (a ++ b) := yields_chain hr hc

/-- `RE.resume()` pushes the rewind plan -- a generator that hands out exactly the cached messages -- on top
    of the interrupted plan, with response None, and leaves an empty cache -/
theorem C04_resume_replays (s : EState) :
    ∃ g, (startResume s).planStack = g :: s.planStack ∧ Yields g (s.msgCache.getD []) ∧
      (startResume s).respStack = .none :: s.respStack ∧ (startResume s).msgCache = some [] ∧
      (startResume s).msgs = s.msgs := by
  have h := ck_startResume s
  exact ⟨.list (s.msgCache.getD []), congrArg Ck.plans h, yields_list _, congrArg Ck.resps h,
    congrArg Ck.cache h, congrArg Ck.msgs h⟩

/-- `_start_suspender` pushes the helper
    `rewindable(False); pre; wait_for; _resume_from_suspender; post; rewindable(was); <the cache>`:
    when the pre / post plans hand out `a` / `b`, the helper hands out exactly this sequence; the replayed
    part is the cache as the pause hooks left it (unchanged, or emptied by NoReplayAllowed). -/
theorem C04_suspender_replays (s : EState) (m : Msg) (rq : SuspReq) (a b : List Msg)
    (h : s.suspReqs[(m.iargs.headD 0).toNat]? = some rq)
    (hpre : ∀ g, rq.pre = some g → Yields g a) (hpre0 : rq.pre = none → a = [])
    (hpost : ∀ g, rq.post = some g → Yields g b) (hpost0 : rq.post = none → b = []) :
    ∃ g cache, (cmdStartSuspender s m).1.planStack = g :: s.planStack ∧
      (cmdStartSuspender s m).1.respStack = .none :: s.respStack ∧
      (cmdStartSuspender s m).1.msgCache = some [] ∧
      (cache = s.msgCache.getD [] ∨ cache = []) ∧
      Yields g ([{ cmd := "rewindable", iargs := [0], flag := false }] ++ (a ++ ([{ cmd := "wait_for", iargs := [rq.fut] },
        { cmd := "_resume_from_suspender" }] ++ (b ++ ([{ cmd := "rewindable", iargs := [0], flag := s.rewindable }] ++ (cache ++ [])))))) := by
  obtain ⟨s1, h1, h2⟩ := ck_cmdStartSuspender s m rq h
  refine ⟨_, s1.msgCache.getD [], congrArg Ck.plans h2, congrArg Ck.resps h2, congrArg Ck.cache h2, ?_, ?_⟩
  · rcases h1 with h1 | h1
    · left; rw [ck_cache h1]
    · have := congrArg Ck.cache h1
      simp only [ck, Ck.reset] at this
      rw [this]
      cases s.msgCache <;> simp [resetOpt]
  · apply yields_chain _ (yields_list _)
    have tail : YieldsAll ([Gen.list [{ cmd := "wait_for", iargs := [rq.fut] }, { cmd := "_resume_from_suspender" }]]
        ++ rq.post.toList ++ [Gen.list [{ cmd := "rewindable", iargs := [0], flag := s.rewindable }],
          Gen.list (s1.msgCache.getD [])])
        ([{ cmd := "wait_for", iargs := [rq.fut] }, { cmd := "_resume_from_suspender" }] ++ (b ++
          ([{ cmd := "rewindable", iargs := [0], flag := s.rewindable }] ++ (s1.msgCache.getD [] ++ [])))) := by
      have last : YieldsAll [Gen.list [{ cmd := "rewindable", iargs := [0], flag := s.rewindable }],
          Gen.list (s1.msgCache.getD [])]
          ([{ cmd := "rewindable", iargs := [0], flag := s.rewindable }] ++ (s1.msgCache.getD [] ++ [])) :=
        .cons (yields_list _) (.cons (yields_list _) .nil)
      cases hp : rq.post with
      | none =>
        rw [hpost0 hp]
        exact .cons (yields_list _) last
      | some g =>
        exact .cons (yields_list _) (.cons (hpost g hp) last)
    cases hp : rq.pre with
    | none =>
      rw [hpre0 hp]
      simpa using tail
    | some g =>
      have := YieldsAll.cons (hpre g hp) tail
      simpa using this

/-- one loop round with a rewind plan on top: the engine processes exactly its next message -/
theorem C04_replay_step (s : EState) (r : Resp) (rs : List Resp) (m : Msg) (ms : List Msg) (gs : List Gen)
    (hr : s.respStack = r :: rs) (hp : s.planStack = .list (m :: ms) :: gs)
    (hx : s.exceptionSlot = none) (hs : s.stashed = none) (hne : ∀ e, r ≠ .exc e) :
    afterSleep s = processMsg { (takeResp s r rs) with planStack := .list ms :: gs } m := by
  unfold afterSleep
  rw [hr, hp]
  simp only []
  have ht : thrownOf (takeResp s r rs) r = none := by
    unfold thrownOf takeResp
    simp only [hx, hs]
    try (cases r <;> first | rfl | (rename_i e; exact absurd rfl (hne e)))
  rw [ht]
  simp only [list_resume_cons, afterResume, logYield, Gen.pendingMid]

/-- ... and when the rewind plan is exhausted it is popped and the interrupted plan goes on -/
theorem C04_replay_end (s : EState) (r : Resp) (rs : List Resp) (g : Gen) (gs : List Gen)
    (hr : s.respStack = r :: rs) (hp : s.planStack = .list [] :: g :: gs)
    (hx : s.exceptionSlot = none) (hs : s.stashed = none) (hne : ∀ e, r ≠ .exc e) :
    afterSleep s = .loopTop { (takeResp s r rs) with planStack := g :: gs, resp := none } := by
  unfold afterSleep
  rw [hr, hp]
  simp only []
  have ht : thrownOf (takeResp s r rs) r = none := by
    unfold thrownOf takeResp
    simp only [hx, hs]
    try (cases r <;> first | rfl | (rename_i e; exact absurd rfl (hne e)))
  rw [ht]
  simp only [list_resume_nil, afterResume, logYield, Gen.pendingMid, popPlan, List.tail_cons, List.isEmpty_cons]
  rfl

/-! ## (4) the global invariant -/

/-- MAIN (global): for every plan (any generator behaviour), every device specification, every environment
    script, arrival bound and fuel: whenever `RE(plan)` hands control back, the message cache -- if there is
    one -- is exactly the cacheable messages (not in the generated `_UNCACHEABLE_COMMANDS`) among the LAST
    processed messages, in their original order with none skipped (a filtered suffix of the log), and it is
    empty while the plan is marked non-rewindable.  Same after any number of `resume()` / abort calls. -/
theorem C04_cache_invariant (maxArr : Nat) (sc : Script) (fuel : Nat) (s0 : EState) (plan : Gen) :
    CacheInv (schedule maxArr sc fuel (startCall s0 plan)) :=
  schedule_ci maxArr sc fuel _ (startCall_ci s0 plan)

theorem C04_cache_invariant_resume (maxArr : Nat) (sc : Script) (fuel : Nat) (s : EState) :
    CacheInv (schedule maxArr sc fuel (startResume s)) :=
  schedule_ci maxArr sc fuel _ (startResume_ci s)

theorem C04_cache_invariant_terminate (maxArr : Nat) (sc : Script) (fuel : Nat) (s : EState) (kind : String)
    (h : CacheInv s) : CacheInv (schedule maxArr sc fuel (startTerminate s kind)) :=
  schedule_ci maxArr sc fuel _ (startTerminate_ci s kind h)

/-- the invariant is about every single step too -/
theorem C04_cache_invariant_step (n : Nat) (s : EState) (h : CacheInv s) : CacheInv (advance n s) :=
  advance_ci n s h

/-! Non-vacuity -/
example : (noteMsg {} { cmd := "null", mid := some 3 }).msgCache = some [{ cmd := "null", mid := some 3 }] := by decide
example : (noteMsg {} { cmd := "stage", obj := some "d", mid := some 3 }).msgCache = some [] := by decide
example : (noteMsg { rewindable := false } { cmd := "null" }).msgCache = some [] := by decide
example : (noteMsg { msgCache := none } { cmd := "null" }).msgCache = none := by decide
example : (cmdStage { msgCache := some [{ cmd := "null" }] } { cmd := "stage", obj := some "d" } "stage").1.msgCache = some [] := by decide

end BlueskyVerif.C04
