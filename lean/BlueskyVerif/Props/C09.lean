/-
C09 -- a deferred pause takes effect exactly at the next checkpoint.

Model: Engine/Model.lean + Engine/Sim.lean.  Helper lemmas: Lemmas/C09Steps.lean (exact results of the blocks on
this path), Lemmas/C09Frame.lean (who touches the flag), Lemmas/C04*.lean (checkpoint projection `ck`).

PARTIAL: the statements about pausing AT the checkpoint carry the hypothesis that a message cache exists
(`s.msgCache = some c`).  After `clear_checkpoint` the real `_checkpoint` does not re-create the cache
(`_reset_checkpoint_state_meth` returns early), so the pause requested at the checkpoint becomes a FailedPause:
see Counterexamples/C09.lean and property C10.
-/
import BlueskyVerif.Lemmas.C09Frame

namespace BlueskyVerif.C09
open BlueskyVerif.Engine

/-- the full statement (kept visible): the same chain WITHOUT the cache hypothesis -/
def C09_full : Prop :=
  ∀ (s : EState) (m : Msg) (n1 n2 : Nat), m.cmd = "checkpoint" → s.state = .running → s.permit = true →
    s.deferredPause = true → s.bundlers.any (fun (_, b) => b.bundling) = false →
    ∃ sA, processMsg s m = .stop sA ∧
      (advance (n2 + 1) (advanceAt (n1 + 1) false sA)).state = .paused

/-- A deferred request only sets the flag: state, cache, stacks, logs -- everything else -- unchanged; it is
    refused exactly when the state machine does not allow `pausing` from the current state. -/
theorem C09_request_only_sets_flag (s : EState) :
    ((Src.transitions s.state).contains .pausing = true → requestPause s true = .ok { s with deferredPause := true }) ∧
    ((Src.transitions s.state).contains .pausing = false → ∀ d, requestPause s d = .error .transitionError) := by
  constructor
  · intro h; unfold requestPause; simp only [h, Bool.not_true, Bool.false_eq_true, if_false, if_true]
  · intro h d; unfold requestPause; simp only [h, Bool.not_false, if_true]

/-- `_checkpoint` with the flag set: the checkpoint is taken FIRST (cache emptied), then `_run` suspends in
    the 0.5 s sleep; nothing else of the control state moves.  Without the flag it just returns. -/
theorem C09_checkpoint_honours_request (s : EState)
    (hnb : s.bundlers.any (fun (_, b) => b.bundling) = false) :
    ck (cmdCheckpoint s).1 = (ck s).reset ∧ ctl (cmdCheckpoint s).1 = ctl s ∧
    (s.deferredPause = true → (cmdCheckpoint s).2.isRaised = false ∧
        ∃ s', cmdCheckpoint s = (s', .suspend .inCkptSleep)) ∧
    (s.deferredPause = false → ∃ s', cmdCheckpoint s = (s', .value .none)) := by
  unfold cmdCheckpoint
  rw [if_neg (by rw [hnb]; exact Bool.false_ne_true)]
  simp only []
  have hd : (resetCheckpointMeth s).deferredPause = s.deferredPause := dp_resetCheckpointMeth s
  refine ⟨?_, ?_, ?_, ?_⟩
  · split <;> exact ck_resetCheckpointMeth s
  · split <;> exact ctl_resetCheckpointMeth s
  · intro h
    rw [hd, h]
    exact ⟨rfl, _, rfl⟩
  · intro h
    rw [hd, h]
    exact ⟨_, rfl⟩

/-- The 0.5 s sleep ends (no cancellation): `_request_pause_coro(False)` runs -- state `pausing`, cancellation
    pending, flag cleared, interruption recorded -- and `_run` reaches the loop-top sleep WITHOUT processing a
    message (`msgs` unchanged).  For every state at that suspension point, every fuel. -/
theorem C09_sleep_then_pause_requested (n : Nat) (s : EState) (c : List Msg)
    (hpc : s.pc = .inCkptSleep) (hst : s.state = .running) (hperm : s.permit = true)
    (hstash : s.stashed = none) (hcache : s.msgCache = some c) :
    (advanceAt (n + 1) false s).pc = .loopSleep ∧ (advanceAt (n + 1) false s).state = .pausing ∧
    (advanceAt (n + 1) false s).cancelPending = true ∧ (advanceAt (n + 1) false s).deferredPause = false ∧
    (advanceAt (n + 1) false s).interrupted = true ∧ (advanceAt (n + 1) false s).permit = true ∧
    (advanceAt (n + 1) false s).msgs = s.msgs ∧ (advanceAt (n + 1) false s).msgCache = some c ∧
    (advanceAt (n + 1) false s).blockingEvent = s.blockingEvent ∧
    (advanceAt (n + 1) false s).planStack = s.planStack ∧ (advanceAt (n + 1) false s).rewindable = s.rewindable :=
  ckptSleep_step n s c hpc hst hperm hstash hcache

/-- The next step delivers the cancellation at the loop-top sleep: the permit is cleared and the engine pauses
    (`pc = pausedWait`, state `paused`, blocking event set) -- again `msgs` unchanged: no later message runs
    before the pause. -/
theorem C09_pause_without_processing (n : Nat) (s : EState) (c : List Msg)
    (hpc : s.pc = .loopSleep) (hst : s.state = .pausing) (hcancel : s.cancelPending = true)
    (hcache : s.msgCache = some c) :
    (advance (n + 1) s).pc = .pausedWait ∧ (advance (n + 1) s).state = .paused ∧
    (advance (n + 1) s).blockingEvent = true ∧ (advance (n + 1) s).msgs = s.msgs ∧
    ((advance (n + 1) s).msgCache = some c ∨ (advance (n + 1) s).msgCache = some []) ∧
    (advance (n + 1) s).planStack = s.planStack ∧ (advance (n + 1) s).rewindable = s.rewindable ∧
    (advance (n + 1) s).deferredPause = s.deferredPause ∧ (advance (n + 1) s).interrupted = s.interrupted :=
  pause_step n s c hpc hst hcancel hcache

/-- resuming with an empty cache replays nothing: the rewind plan on top of the stack is the empty list -/
theorem C09_resume_replays_nothing (s : EState) (h : s.msgCache = some []) :
    (startResume s).planStack = Gen.list [] :: s.planStack ∧ (startResume s).respStack = .none :: s.respStack ∧
    (Gen.list []).resume (.send .none) = (.ret, .list []) := by
  have := ck_startResume s
  rw [h] at this
  exact ⟨congrArg Ck.plans this, congrArg Ck.resps this, rfl⟩

/-- MAIN (chain), for EVERY engine state in which the plan hands out a `checkpoint` while a deferred pause is
    pending and a cache exists (running, permit set, no open bundle), every message identity, every fuel:
    the checkpoint is processed (cache emptied, logged) and `_run` suspends in the 0.5 s sleep; the next step
    requests the pause and reaches the loop-top sleep; the step after that pauses -- `msgs` is still the log
    up to and including the checkpoint, i.e. NO later message was executed; the engine is `paused` with the
    blocking event set (the call returns), the interruption is recorded, the flag is cleared; and `resume()`
    puts an EMPTY rewind plan on top of the untouched plan stack: nothing is replayed. -/
theorem C09_deferred_pause_at_checkpoint_partial (s : EState) (m : Msg) (c : List Msg) (n1 n2 : Nat)
    (hm : m.cmd = "checkpoint") (hst : s.state = .running) (hperm : s.permit = true)
    (hdp : s.deferredPause = true) (hcache : s.msgCache = some c)
    (hnb : s.bundlers.any (fun (_, b) => b.bundling) = false) :
    ∃ sA, processMsg s m = .stop sA ∧ sA.pc = .inCkptSleep ∧ sA.msgCache = some [] ∧ sA.msgs = s.msgs ++ [m] ∧
      sA.deferredPause = true ∧
      (advanceAt (n1 + 1) false sA).pc = .loopSleep ∧ (advanceAt (n1 + 1) false sA).state = .pausing ∧
      (advanceAt (n1 + 1) false sA).deferredPause = false ∧ (advanceAt (n1 + 1) false sA).msgs = s.msgs ++ [m] ∧
      (advance (n2 + 1) (advanceAt (n1 + 1) false sA)).pc = .pausedWait ∧
      (advance (n2 + 1) (advanceAt (n1 + 1) false sA)).state = .paused ∧
      (advance (n2 + 1) (advanceAt (n1 + 1) false sA)).blockingEvent = true ∧
      (advance (n2 + 1) (advanceAt (n1 + 1) false sA)).interrupted = true ∧
      (advance (n2 + 1) (advanceAt (n1 + 1) false sA)).deferredPause = false ∧
      (advance (n2 + 1) (advanceAt (n1 + 1) false sA)).msgs = s.msgs ++ [m] ∧
      (advance (n2 + 1) (advanceAt (n1 + 1) false sA)).msgCache = some [] ∧
      (startResume (advance (n2 + 1) (advanceAt (n1 + 1) false sA))).planStack = Gen.list [] :: s.planStack := by
  obtain ⟨hnctl, hnb'⟩ := noteMsg_ctl s m
  have hncache : ∃ c', (noteMsg s m).msgCache = some c' := by
    rw [noteMsg_cache, hcache]; simp only []; split <;> exact ⟨_, rfl⟩
  obtain ⟨c', hc'⟩ := hncache
  have hrun : runCommand (noteMsg s m) m = cmdCheckpoint (noteMsg s m) := by unfold runCommand; simp [hm]
  obtain ⟨hk, hctl, hsusp, _⟩ := C09_checkpoint_honours_request (noteMsg s m) (by rw [hnb']; exact hnb)
  have hndp : (noteMsg s m).deferredPause = true := (noteMsg_dp s m).trans hdp
  obtain ⟨_, s1, hs1⟩ := hsusp hndp
  have hs1' : s1 = (cmdCheckpoint (noteMsg s m)).1 := by rw [hs1]
  have hproc : processMsg s m = .stop { s1 with pc := .inCkptSleep, curMsg := some m } := by
    unfold processMsg
    simp only [hm, checkpoint_registered, Bool.not_true, Bool.false_eq_true, if_false]
    rw [hrun, hs1]
    rfl
  have hk1 : ck s1 = (ck (noteMsg s m)).reset := hs1' ▸ hk
  have hc1 : ctl s1 = ctl (noteMsg s m) := hs1' ▸ hctl
  have hA_cache : s1.msgCache = some [] := by
    have := congrArg Ck.cache hk1
    simp only [ck, Ck.reset, hc', resetOpt_some] at this
    exact this
  have hA_msgs : s1.msgs = s.msgs ++ [m] := (congrArg Ck.msgs hk1).trans (noteMsg_msgs s m)
  have hA_plans : s1.planStack = s.planStack := (congrArg Ck.plans hk1).trans (noteMsg_stacks s m).1
  have hA_state : s1.state = .running := (congrArg Ctl.state hc1).trans ((congrArg Ctl.state hnctl).trans hst)
  have hA_perm : s1.permit = true := (congrArg Ctl.permit hc1).trans ((congrArg Ctl.permit hnctl).trans hperm)
  have hA_stash : s1.stashed = none := (congrArg Ctl.stashed hc1).trans (congrArg Ctl.stashed hnctl)
  have hA_dp : s1.deferredPause = true := (congrArg Ctl.deferredPause hc1).trans hndp
  obtain ⟨b1, b2, b3, b4, b5, _, b7, b8, _, b10, _⟩ :=
    ckptSleep_step n1 { s1 with pc := .inCkptSleep, curMsg := some m } [] rfl hA_state hA_perm hA_stash hA_cache
  obtain ⟨p1, p2, p3, p4, p5, p6, _, p8, p9⟩ :=
    pause_step n2 (advanceAt (n1 + 1) false { s1 with pc := .inCkptSleep, curMsg := some m }) [] b1 b2 b3 b8
  have hCcache : (advance (n2 + 1) (advanceAt (n1 + 1) false { s1 with pc := .inCkptSleep, curMsg := some m })).msgCache = some [] := by
    rcases p5 with h | h <;> exact h
  refine ⟨_, hproc, rfl, hA_cache, hA_msgs, hA_dp, b1, b2, b4, b7.trans hA_msgs, p1, p2, p3, p9.trans b5,
    p8.trans b4, p4.trans (b7.trans hA_msgs), hCcache, ?_⟩
  rw [(C09_resume_replays_nothing _ hCcache).1, p6, b10]
  exact congrArg _ hA_plans

/-- "stays pending": nothing but `_request_pause_coro` and `RE.__call__` touches the flag -- no command handler
    other than `pause`, no block of `_run` (message bookkeeping, inner/outer finally, exception ladder, plan
    pop, cancellation handler, pause sequence, cleanup, end of task), no other request (abort/stop/halt,
    request_suspend), not `resume()`.  So when no checkpoint follows, the flag is still set when the task
    ends, it is what the caller is told (`outcomeOf`), and only the next `RE(plan)` clears it. -/
theorem C09_stays_pending :
    (∀ s m, m.cmd ≠ "pause" → (runCommand s m).1.deferredPause = s.deferredPause) ∧
    (∀ s m, m.cmd ≠ "pause" → (processMsg s m).state.deferredPause = s.deferredPause) ∧
    (∀ s m, (noteMsg s m).deferredPause = s.deferredPause) ∧
    (∀ s r, (fin s r).deferredPause = s.deferredPause) ∧
    (∀ s e, (leaveLoop s e).deferredPause = s.deferredPause) ∧
    (∀ s how, (popPlan s how).state.deferredPause = s.deferredPause) ∧
    (∀ s r, (hCancel s r).state.deferredPause = s.deferredPause) ∧
    (∀ s, (pauseBlock s).state.deferredPause = s.deferredPause) ∧
    (∀ s, (cleanup s).deferredPause = s.deferredPause) ∧
    (∀ s, (finishTask s).deferredPause = s.deferredPause) ∧
    (∀ s k r, (requestTerminate s k r).deferredPause = s.deferredPause) ∧
    (∀ s f pre post j, (requestSuspend s f pre post j).deferredPause = s.deferredPause) ∧
    (∀ s, (startResume s).deferredPause = s.deferredPause) ∧
    (∀ s op, (outcomeOf op s).deferred = s.deferredPause) ∧
    (∀ s plan, (startCall s plan).deferredPause = false) :=
  ⟨runCommand_dp, processMsg_dp, noteMsg_dp, fin_dp, leaveLoop_dp, popPlan_dp, hCancel_dp, pauseBlock_dp,
    cleanup_dp, finishTask_dp, requestTerminate_dp, requestSuspend_dp, startResume_dp, fun _ _ => rfl,
    fun _ _ => rfl⟩

/-- the only writers: an accepted request stores its `defer` argument -/
theorem C09_flag_writers (s s' : EState) (d : Bool) (h : requestPause s d = .ok s') : s'.deferredPause = d :=
  requestPause_dp h

/-! Non-vacuity -/
example : (Src.transitions .running).contains .pausing = true := by decide
example : (cmdCheckpoint { deferredPause := true, msgCache := some [{ cmd := "null" }] }).1.msgCache = some [] := by decide

end BlueskyVerif.C09
