/-
C36 -- Stream datums concatenate and consolidate into consistent array shapes.

GENERATED from the current source on every run: `singleShortcut`, `uniformChecks`, `sortKey`,
`notConsecutive`, `combine` (tiled_writer.py::concatenate_stream_datums) and `listSummands`,
`chunkDimBad` (consolidators.py).  Hand-written models around them: Pure/StreamDatum.lean (`concat`)
and Pure/Consolidator.lean (`construct`, `shape`, `chunks`, `consume`), tied by the correspondence run.
All theorems quantify over arbitrary document lists / constructor arguments / sizes.
-/
import BlueskyVerif.Lemmas.C36ConcatMain
import BlueskyVerif.Lemmas.C36Chunks

namespace BlueskyVerif.C36
open BlueskyVerif.StreamDatum BlueskyVerif.Consolidator

/-! ## concatenate_stream_datums -/

/-- the specification of acceptance: one descriptor, one resource, and SOME arrangement is a chain -/
def Acceptable (docs : List SD) : Prop := docs ≠ [] ∧ SameDesc docs ∧ SameRes docs ∧ Contiguous docs

def accepts (docs : List SD) : Prop := ∃ r, concat docs = .ok r

/-- The statement at full strength for well-formed ranges: accepted iff acceptable.  NOT provable on the current
    tree: with a zero-width range that shares its start with another range, acceptance depends on the
    argument order (Counterexamples/C36.lean). -/
def C36_concat_full : Prop := ∀ docs : List SD, WF docs → (accepts docs ↔ Acceptable docs)

/-- FULL, no hypothesis at all: whatever is accepted is a contiguous set for one descriptor and resource. -/
theorem C36_concat_accepts_only_contiguous (docs : List SD) (h : accepts docs) : Acceptable docs := by
  obtain ⟨r, hr⟩ := h
  exact concat_sound docs r hr

/-- PARTIAL (gap = zero-width ranges tied with another start): accepts exactly the contiguous sets. -/
theorem C36_concat_iff_partial (docs : List SD) (hw : WF docs) (ht : NoTiedEmpty docs) :
    accepts docs ↔ Acceptable docs :=
  ⟨C36_concat_accepts_only_contiguous docs, fun ⟨hne, hd, hr, hc⟩ => concat_complete docs hw ht hne hd hr hc⟩

/-- in particular for ranges of positive width (every real batch of rows) -/
theorem C36_concat_iff_positive_width (docs : List SD) (hpos : ∀ d ∈ docs, d.iStart < d.iStop) :
    accepts docs ↔ Acceptable docs := by
  apply C36_concat_iff_partial docs (fun d hd => Nat.le_of_lt (hpos d hd))
  unfold NoTiedEmpty
  induction docs with
  | nil => exact List.Pairwise.nil
  | cons a t ih =>
    rw [List.pairwise_cons]
    exact ⟨fun b hb _ => ⟨hpos a (by simp), hpos b (by simp [hb])⟩, ih (fun d hd => hpos d (by simp [hd]))⟩

/-- PARTIAL (same gap): "in any order" -- the outcome (document or error) is the same for every
    permutation of the arguments. -/
theorem C36_concat_any_order_partial (docs docs' : List SD) (hw : WF docs) (ht : NoTiedEmpty docs)
    (hp : docs'.Perm docs) : concat docs' = concat docs :=
  concat_perm docs docs' hw ht hp

/-- FULL: the returned document is the hull of the index ranges: its start is the least start, its stop the
    greatest stop, its width the sum of the widths (no gap, no overlap), its ids are those of an input. -/
theorem C36_concat_hull (docs : List SD) (r : SD) (h : concat docs = .ok r) (hw : WF docs) : Hull docs r :=
  concat_hull docs r h hw

/-- FULL: ... and the hull of the seq_num ranges, when seq_nums are ordered like the indices. -/
theorem C36_concat_seq_hull (docs : List SD) (r : SD) (h : concat docs = .ok r) (hm : SeqMono docs) : SeqHull docs r :=
  concat_seq_hull docs r h hm

/-! ## consolidators -/

/-- FULL: `∀ A b repeat, b > 0 → sum (list_summands A b repeat) = A * repeat`, and every summand is
    positive and at most `b` (or the list is the placeholder `(0,)`). -/
theorem C36_list_summands (A b r : Nat) (hb : 0 < b) :
    (listSummands A b r).sum = A * r ∧
    (listSummands A b r = [0] ∨ ∀ x ∈ listSummands A b r, 0 < x ∧ x ≤ b) :=
  ⟨listSummands_sum A b r hb, listSummands_entries A b r hb⟩

/-- FULL: for every accepted constructor argument set (any join method, chunk shape, multiplier, descriptor
    shape) and every list of consumed stream datums, whenever `chunks` returns it is a valid chunking of
    `shape`: one entry per dimension, each adding up to that dimension, all sizes positive (an empty
    dimension is advertised as `(0,)`). -/
theorem C36_chunks_valid (a : CtorArgs) (c0 : Cons) (docs : List SD) (cs : List (List Nat))
    (hc : construct a = .ok c0) (h : chunks (consumeAll c0 docs) = .ok cs) :
    cs.map List.sum = shape (consumeAll c0 docs) ∧ ∀ ch ∈ cs, ch = [0] ∨ ∀ x ∈ ch, 0 < x := by
  have hpos : ∀ d ∈ (consumeAll c0 docs).chunkShape, 0 < d := by
    rw [(consumeAll_params c0 docs).1]; exact construct_chunkShape_pos a c0 hc
  exact ⟨chunks_sum _ cs hpos h, chunks_entries _ cs hpos h⟩

/-- FULL: along the dimensions chunk_shape specifies, no advertised chunk is larger than chunk_shape says
    ("fixed-sized chunks with at most chunk_shape[k] elements; the last chunk can be smaller"). -/
theorem C36_chunks_bounded (a : CtorArgs) (c0 : Cons) (docs : List SD) (cs : List (List Nat))
    (hc : construct a = .ok c0) (h : chunks (consumeAll c0 docs) = .ok cs)
    (k : Nat) (ch : List Nat) (b : Nat) (hch : cs[k]? = some ch) (hb : c0.chunkShape[k]? = some b) :
    ∀ x ∈ ch, x ≤ b := by
  have hpos : ∀ d ∈ (consumeAll c0 docs).chunkShape, 0 < d := by
    rw [(consumeAll_params c0 docs).1]; exact construct_chunkShape_pos a c0 hc
  exact chunks_bounded _ cs hpos h k ch b hch (by rw [(consumeAll_params c0 docs).1]; exact hb)

/-- the one parameter class in which `chunks` crashes instead of answering -/
def ScalarNoJoin (c : Cons) : Prop :=
  c.join = .concat ∧ c.joinChunks = false ∧ c.chunkShape ≠ [] ∧ c.datumShape = []

/-- The statement "chunks is always advertised unless the parameters are rejected with the documented ValueError".
    NOT provable on the current tree (`ScalarNoJoin`). -/
def C36_chunks_defined_full : Prop :=
  ∀ c : Cons, c.chunkShape.length ≤ (shape c).length → ∃ cs, chunks c = .ok cs

/-- PARTIAL (gap = `ScalarNoJoin`) together with the exact failure modes: ValueError iff chunk_shape is longer
    than shape; IndexError iff concat without join_chunks on a scalar datum with a chunk_shape. -/
theorem C36_chunks_defined_partial (c : Cons) :
    ((∃ cs, chunks c = .ok cs) ↔ c.chunkShape.length ≤ (shape c).length ∧ ¬ ScalarNoJoin c) ∧
    (chunks c = .error .valueError ↔ (shape c).length < c.chunkShape.length) ∧
    (chunks c = .error .indexError ↔ c.chunkShape.length ≤ (shape c).length ∧ ScalarNoJoin c) := by
  unfold chunks ScalarNoJoin
  cases hj : c.join <;> cases hjc : c.joinChunks <;> cases hds : c.datumShape <;> cases hcs : c.chunkShape <;>
    simp [shape, hj, hds] <;> split <;> simp_all <;> first | omega | exact List.length_pos_iff.mpr ‹_›

/-- FULL: the row count after any datum list is the sum of the index-range widths, and `shape` follows. -/
theorem C36_num_rows (a : CtorArgs) (c0 : Cons) (docs : List SD) (hc : construct a = .ok c0) :
    (consumeAll c0 docs).numRows = (docs.map (fun d => d.iStop - d.iStart)).sum := by
  rw [consumeAll_numRows, (construct_fresh a c0 hc).1, Nat.zero_add]

/-- FULL: the seq_num -> index dict after ANY datum list: a seq_num is mapped iff some consumed document pairs it
    with a row, and then to the row given by the LAST such document (offset within the index range). -/
theorem C36_seqnum_map (a : CtorArgs) (c0 : Cons) (docs : List SD) (s : Nat) (hc : construct a = .ok c0) :
    lookup (consumeAll c0 docs) s =
      (docs.reverse.find? (fun d => covers d s)).map (fun d => d.iStart + (s - d.sStart)) := by
  rw [lookup_consumeAll]
  cases docs.reverse.find? (fun d => covers d s) with
  | some d => rfl
  | none => simp [lookup, (construct_fresh a c0 hc).2]

/-- FULL corollary: when the consumed documents have pairwise disjoint seq_num ranges, EVERY consumed seq_num
    (the k-th of a document, k below both range lengths) is mapped to its row index (the k-th index). -/
theorem C36_seqnum_to_row (a : CtorArgs) (c0 : Cons) (docs : List SD) (hc : construct a = .ok c0)
    (hdis : docs.Pairwise (fun x y => ∀ s, ¬ (covers x s = true ∧ covers y s = true)))
    (d : SD) (hd : d ∈ docs) (k : Nat) (hk : k < min (d.sStop - d.sStart) (d.iStop - d.iStart)) :
    lookup (consumeAll c0 docs) (d.sStart + k) = some (d.iStart + k) := by
  rw [C36_seqnum_map a c0 docs _ hc]
  have hcov : covers d (d.sStart + k) = true := by simp [covers]; omega
  have hdis' : docs.reverse.Pairwise (fun x y => ∀ s, ¬ (covers x s = true ∧ covers y s = true)) := by
    rw [List.pairwise_reverse]
    exact hdis.imp (fun h s hh => h s ⟨hh.2, hh.1⟩)
  have hd' : d ∈ docs.reverse := by simpa using hd
  -- the only document covering this seq_num is `d`
  have : ∀ l : List SD, l.Pairwise (fun x y => ∀ s, ¬ (covers x s = true ∧ covers y s = true)) → d ∈ l →
      l.find? (fun e => covers e (d.sStart + k)) = some d := by
    intro l hl hm
    induction l with
    | nil => simp at hm
    | cons x xs ih =>
      rw [List.pairwise_cons] at hl
      rcases List.mem_cons.mp hm with rfl | hm
      · simp [hcov]
      · have hx : covers x (d.sStart + k) = false := by
          cases hxx : covers x (d.sStart + k) with
          | false => rfl
          | true => exact absurd ⟨hxx, hcov⟩ (hl.1 d hm _)
        simp [hx, ih hl.2 hm]
  rw [this _ hdis' hd']
  simp

/-! Non-vacuity -/
example : accepts [⟨1, 7, 9, 3, 5, 4, 6⟩, ⟨2, 7, 9, 0, 3, 1, 4⟩] := ⟨⟨1, 7, 9, 0, 5, 1, 6⟩, rfl⟩
example : ¬ accepts [⟨1, 7, 9, 4, 5, 4, 6⟩, ⟨2, 7, 9, 0, 3, 1, 4⟩] := by
  intro ⟨r, h⟩
  have e : concat [⟨1, 7, 9, 4, 5, 4, 6⟩, ⟨2, 7, 9, 0, 3, 1, 4⟩] = .error .valueError := rfl
  rw [e] at h; cases h
example : NoTiedEmpty [⟨1, 7, 9, 3, 5, 4, 6⟩, ⟨2, 7, 9, 0, 3, 1, 4⟩, ⟨3, 7, 9, 5, 5, 6, 6⟩] := by
  unfold NoTiedEmpty; decide
example : construct ⟨.concat, false, [some 7, some 3], none, some [3], none, none⟩ = .ok ⟨[7, 3], [3], .concat, false, 0, []⟩ := rfl
example : chunks ⟨[7, 3], [3], .concat, false, 2, []⟩ = .ok [[3, 3, 1, 3, 3, 1], [3]] := rfl

end BlueskyVerif.C36
