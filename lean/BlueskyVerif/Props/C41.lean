/-
C41 -- monitors report only while their run is open and the engine is running.

Model: Engine/Model.lean (`cmdMonitor`, `cmdUnmonitor`, `suspendMonitors`, `restoreMonitors`,
`clearMonitors`, `closeRunDoc`, `pauseBlock`, the pausedWait branch of `advanceAt`, `cleanupBody`) and
Engine/Sim.lean (`monitorUpdate`).  `DevState.subs` is the device's list of engine callbacks
(run id, stream), WITH repeats; `clear_sub(cb)` removes every registration of `cb` (ophyd).
`Src.finallyClearsMonitors` is GENERATED from the finally block of RunEngine._run.

PARTIAL: the pause / resume / unmonitor / run-end part is proved (`C41_partial`); the suspension
part of `C41_full` is false on the unchanged tree (finding F17, Counterexamples/C41.lean).
-/
import BlueskyVerif.Lemmas.C41Cmds

namespace BlueskyVerif.C41
open BlueskyVerif.Engine

/-! ## a signal update -/

/-- An update of signal `sig` emits exactly one event per registration the device holds -- in
    registration order, each in the registration's run and stream, carrying the new value -- when every
    registration's run still has a bundler (bundler keys are unique: `_run_bundlers` is a dict). -/
theorem update_emits_one_event_per_subscription (s : EState) (sig : String) (v : Int)
    (hn : (keys s.bundlers).Nodup) (hp : ∀ p ∈ subsOf s sig, p.1 ∈ s.bundlers.map (fun kb => kb.2.runId)) :
    ∃ new, (monitorUpdate s sig v).docs = s.docs ++ new ∧
      new.map Doc.core = (subsOf s sig).map (fun p => ("event", p.1, p.2, [(sig, v)])) := by
  rw [monitorUpdate_eq]
  exact foldl_monStep_spec sig v (subsOf s sig) _ hn hp

/-- ... and nothing at all when the device holds no registration -/
theorem update_without_subscription_emits_nothing (s : EState) (sig : String) (v : Int) (h : subsOf s sig = []) :
    (monitorUpdate s sig v).docs = s.docs := by
  rw [monitorUpdate_eq, h]; rfl

/-! ## monitor / unmonitor / clear_monitors / close_run -/

/-- `monitor`: one descriptor, exactly one new registration (on that signal, for this run and stream),
    the monitor is remembered, and the message is an implicit checkpoint -/
theorem monitor_adds_one_subscription (s : EState) (m : Msg) (b : Bundler) (hb : getBundler s m = some b)
    (hfree : assocGet (m.obj.getD "") b.monitors = none) :
    (∀ n, subsOf (cmdMonitor s m).1 n = subsOf s n ++
      (if m.obj.getD "" = n then [(b.runId, m.name.getD (m.obj.getD "" ++ "_monitor"))] else [])) ∧
    (cmdMonitor s m).1.docs = s.docs ++
      [{ kind := "descriptor", run := b.runId, stream := m.name.getD (m.obj.getD "" ++ "_monitor"), keys := [m.obj.getD ""] }] ∧
    (∃ b', getBundler (cmdMonitor s m).1 m = some b' ∧ b'.runId = b.runId ∧
      b'.monitors = b.monitors ++ [(m.obj.getD "", m.name.getD (m.obj.getD "" ++ "_monitor"))]) ∧
    (cmdMonitor s m).1.msgCache = s.msgCache.map (fun _ => []) := by
  rw [cmdMonitor_state s m b hb hfree]
  refine ⟨?_, ?_, ?_, ?_⟩
  · intro n
    rw [subsOf_resetCheckpointMeth, subsOf_putBundler, subsOf_restStep, prepareStream_runId]; rfl
  · rw [docs_resetCheckpointMeth]; rfl
  · obtain ⟨j, hj⟩ := getBundler_resetCheckpointMeth (putBundler
        (restStep (prepareStream s b (m.name.getD (m.obj.getD "" ++ "_monitor")) [m.obj.getD ""]).2.runId
          (prepareStream s b (m.name.getD (m.obj.getD "" ++ "_monitor")) [m.obj.getD ""]).1
          (m.obj.getD "", m.name.getD (m.obj.getD "" ++ "_monitor"))) m
        { (prepareStream s b (m.name.getD (m.obj.getD "" ++ "_monitor")) [m.obj.getD ""]).2 with
          monitors := (prepareStream s b (m.name.getD (m.obj.getD "" ++ "_monitor")) [m.obj.getD ""]).2.monitors ++
            [(m.obj.getD "", m.name.getD (m.obj.getD "" ++ "_monitor"))] }) m
    rw [hj]
    simp only [getBundler, putBundler, assocGet_assocSet_same, Option.map_some]
    refine ⟨_, rfl, ?_, ?_⟩
    · rw [resetN_runId]; exact prepareStream_runId _ _ _ _
    · rw [resetN_monitors]; simp only []; rw [prepareStream_monitors]
  · rw [resetCheckpointMeth_msgCache]; rfl

/-- `unmonitor`: every registration of this run's stream on the signal is removed, nothing else is,
    and the monitor is forgotten -/
theorem unmonitor_removes_the_subscription (s : EState) (m : Msg) (b : Bundler) (stream : String)
    (hb : getBundler s m = some b) (hmon : assocGet (m.obj.getD "") b.monitors = some stream) :
    (∀ n p, p ∈ subsOf (cmdUnmonitor s m).1 n ↔ p ∈ subsOf s n ∧ ¬ (n = m.obj.getD "" ∧ p = (b.runId, stream))) ∧
    (∃ b', getBundler (cmdUnmonitor s m).1 m = some b' ∧ b'.runId = b.runId ∧
      b'.monitors = assocErase (m.obj.getD "") b.monitors) := by
  rw [cmdUnmonitor_state s m b stream hb hmon]
  refine ⟨?_, ?_⟩
  · intro n p
    rw [subsOf_resetCheckpointMeth, subsOf_putBundler, subsOf_suspStep]
    by_cases h : m.obj.getD "" = n
    · subst h; simp [List.mem_filter]
    · have h' : ¬ n = m.obj.getD "" := fun e => h e.symm
      simp [h, h']
  · obtain ⟨j, hj⟩ := getBundler_resetCheckpointMeth (putBundler (suspStep b.runId s (m.obj.getD "", stream)) m
        ({ b with monitors := assocErase (m.obj.getD "") b.monitors } : Bundler).resetCheckpoint) m
    rw [hj]
    simp only [getBundler, putBundler, assocGet_assocSet_same, Option.map_some]
    exact ⟨_, rfl, by rw [resetN_runId]; rfl, by rw [resetN_monitors]; rfl⟩

/-- `clear_monitors` / `suspend_monitors` of one bundler: exactly the registrations of its monitors
    are removed (every copy), from every signal -/
theorem clear_monitors_removes_all (s : EState) (b : Bundler) (n : String) (p : Nat × String) :
    (p ∈ subsOf (clearMonitors s b).1 n ↔ p ∈ subsOf s n ∧ ¬ ∃ st, (n, st) ∈ b.monitors ∧ p = (b.runId, st)) ∧
    (clearMonitors s b).2.monitors = [] :=
  ⟨by rw [clearMonitors_fst]; exact mem_subsOf_suspendMonitors s b n p, rfl⟩

/-- `close_run` clears the run's monitors before it writes the RunStop -/
theorem close_run_removes_all (s : EState) (b : Bundler) (e r : String) :
    (∀ ms ∈ b.monitors, (b.runId, ms.2) ∉ subsOf (closeRunDoc s b e r).1 ms.1) ∧
    (closeRunDoc s b e r).2.monitors = [] := by
  refine ⟨?_, rfl⟩
  intro ms hms hmem
  have e1 : subsOf (closeRunDoc s b e r).1 ms.1 = subsOf (suspendMonitors s b).1 ms.1 := by
    simp [closeRunDoc, clearMonitors]
  rw [e1, mem_subsOf_suspendMonitors] at hmem
  exact hmem.2 ⟨ms.2, hms, rfl⟩

/-! ## pause -/

/-- When the pause sequence of `_run` ends in the paused state (`pc = pausedWait`), no monitored
    signal holds a registration of a monitor of any current bundler: `suspend_monitors` ran for every
    bundler, and neither stopping the motors nor the pause hooks touch a subscription. -/
theorem C41_paused_no_subscription (s s' : EState) (h : pauseBlock s = .stop s') (hpc : s'.pc = .pausedWait) :
    NoMonSubs s' := by
  rcases pauseBlock_cases s with ⟨e, he⟩ | ⟨s1, hs, he⟩
  · rw [he] at h; cases h
    exact absurd hpc (leaveLoop_pc_ne_pausedWait _ _)
  · rw [he] at h; cases h
    have hno := pausePrep_noMonSubs s
    intro kb hkb ms hms
    have hb : s1.bundlers = (pausePrep s).bundlers := setState_bundlers hs
    have hkb' : kb ∈ (pausePrep s).bundlers := hb ▸ hkb
    have := hno kb hkb' ms hms
    intro hmem
    apply this
    have e1 : subsOf { s1 with blockingEvent := true, pc := .pausedWait } ms.1 = subsOf s1 ms.1 := rfl
    rw [e1, setState_subsOf hs] at hmem
    exact hmem

/-- hence an update that arrives while the engine is paused is not reported (every registration
    belongs to a monitor of a current bundler: `SubsOwned`) -/
theorem update_while_paused_not_reported (s s' : EState) (h : pauseBlock s = .stop s') (hpc : s'.pc = .pausedWait)
    (hown : SubsOwned s') (sig : String) (v : Int) : (monitorUpdate s' sig v).docs = s'.docs :=
  update_without_subscription_emits_nothing s' sig v
    (no_subscription_at_all (C41_paused_no_subscription s s' h hpc) hown sig)

/-- `RE.resume()` (main thread, while `_run` waits for the permit) leaves the subscriptions alone -/
theorem resume_call_keeps_no_subscription (s : EState) (h : NoMonSubs s) : NoMonSubs (startResume s) := by
  intro kb hkb ms hms
  rw [startResume_bundlers] at hkb
  obtain ⟨kb0, hkb0, rfl⟩ := List.mem_map.mp hkb
  have hsub : ∀ n, subsOf (startResume s) n = subsOf s n := by
    intro n
    unfold startResume
    simp only []
    show subsOf (resumeHooks _) n = _
    rw [subsOf_resumeHooks]
    show subsOf (rewindPlan _).2 n = _
    rw [subsOf_rewindPlan, subsOf_forBundlers_record]; rfl
  rw [hsub]
  have hF : ∀ b : Bundler, (if (s.msgCache.getD []).isEmpty then intBundler b else (intBundler b).rewind).monitors = b.monitors ∧
      (if (s.msgCache.getD []).isEmpty then intBundler b else (intBundler b).rewind).runId = b.runId := by
    intro b; split
    · exact ⟨intBundler_monitors b, intBundler_runId b⟩
    · exact ⟨by rw [rewind_monitors, intBundler_monitors], by rw [rewind_runId, intBundler_runId]⟩
  simp only [] at hms ⊢
  rw [(hF kb0.2).1] at hms
  rw [(hF kb0.2).2]
  exact h kb0 hkb0 ms hms

/-- When `_run` gets the permit back it first restores the monitors of every bundler; from the paused
    state (no registration) every monitor ends up with exactly one registration again. -/
theorem C41_resume_restores (fuel : Nat) (s : EState) (hpc : s.pc = .pausedWait) (hp : s.permit = true)
    (hw : MonWF s) (h0 : NoMonSubs s) :
    advanceAt fuel false s = resumeTail fuel (forBundlers s restoreMonitors) ∧
    OneSubEach (forBundlers s restoreMonitors) :=
  ⟨advanceAt_pausedWait fuel s hpc hp, restore_oneSubEach s hw h0⟩

/-! ## the end of the call -/

/-- After the outer `finally` of `_run` no registration of any monitor of any run that was still
    around is left, whatever happened before (driven by the GENERATED `Src.finallyClearsMonitors`);
    with `SubsOwned` no engine registration is left on any device at all. -/
theorem C41_no_leftover_subscription (s : EState) :
    (∀ kb ∈ s.bundlers, ∀ ms ∈ kb.2.monitors, (kb.2.runId, ms.2) ∉ subsOf (cleanup s) ms.1) ∧
    (cleanup s).bundlers = [] ∧
    (SubsOwned s → ∀ n, subsOf (cleanup s) n = []) := by
  refine ⟨?_, cleanup_bundlers s, ?_⟩
  · intro kb hkb ms hms
    rw [cleanup_subsOf]
    exact cleanupBody_no_monitor_subs s kb hkb ms hms
  · intro hown n
    apply List.eq_nil_iff_forall_not_mem.mpr
    intro p hp
    rw [cleanup_subsOf, cleanupBody_eq, subsOf_foldl _ subsOf_closeGen] at hp
    have h1 : p ∈ subsOf (cbClear (cbStop { s with pardon := true })) n := by
      have := subsLE_cbClose _ _ n _ hp
      have e : subsOf { cbUnstage (cbClear (cbStop { s with pardon := true })) with staged := [] } n =
          subsOf (cbUnstage (cbClear (cbStop { s with pardon := true }))) n := rfl
      rw [e, subsOf_cbUnstage] at this
      exact this
    unfold cbClear at h1
    rw [if_pos finally_clears_monitors, mem_subsOf_forBundlers_clear, subsOf_cbStop, bundlers_cbStop] at h1
    obtain ⟨kb, hkb, hrun, hmon⟩ := hown n p h1.1
    exact h1.2 ⟨kb, hkb, p.2, hmon, by rw [hrun]⟩

/-! ## the full statement and what is proved of it -/

/-- FULL: every way the engine stops executing the plan silences the monitors, every way back
    gives each monitor exactly one registration, and the end of the call leaves none. -/
def C41_full : Prop :=
  (∀ s s', pauseBlock s = .stop s' → s'.pc = .pausedWait → NoMonSubs s') ∧
  (∀ s, MonWF s → NoMonSubs s → OneSubEach (forBundlers s restoreMonitors)) ∧
  (∀ s m, (∃ rq, s.suspReqs[(m.iargs.headD 0).toNat]? = some rq) → NoMonSubs (cmdStartSuspender s m).1) ∧
  (∀ s, MonWF s → NoMonSubs s → OneSubEach (cmdResumeFromSuspender s).1) ∧
  (∀ s, ∀ kb ∈ s.bundlers, ∀ ms ∈ kb.2.monitors, (kb.2.runId, ms.2) ∉ subsOf (cleanup s) ms.1)

/-- everything except "`_start_suspender` silences the monitors" (finding F17: it never calls
    suspend_monitors; Counterexamples/C41.lean shows that clause is false) -/
def C41_partial_statement : Prop :=
  (∀ s s', pauseBlock s = .stop s' → s'.pc = .pausedWait → NoMonSubs s') ∧
  (∀ s, MonWF s → NoMonSubs s → OneSubEach (forBundlers s restoreMonitors)) ∧
  (∀ s, MonWF s → NoMonSubs s → OneSubEach (cmdResumeFromSuspender s).1) ∧
  (∀ s, ∀ kb ∈ s.bundlers, ∀ ms ∈ kb.2.monitors, (kb.2.runId, ms.2) ∉ subsOf (cleanup s) ms.1)

theorem C41_partial : C41_partial_statement :=
  ⟨C41_paused_no_subscription, restore_oneSubEach, resume_from_suspender_oneSubEach,
   fun s => (C41_no_leftover_subscription s).1⟩

/-! Non-vacuity: a bundler monitoring s1 with its one registration. -/
def demoB : Bundler := { runId := 0, monitors := [("s1", "s1_monitor")] }
def demoS : EState := { bundlers := [("", demoB)], devs := [("s1", { subs := [(0, "s1_monitor")] })] }

example : OneSubEach demoS := by
  intro kb hkb ms hms
  simp [demoS] at hkb; subst hkb
  simp [demoB] at hms; subst hms
  decide
example : MonWF demoS := ⟨by simp [demoS], by intro kb hkb; simp [demoS] at hkb; subst hkb; simp [demoB, keys]⟩

end BlueskyVerif.C41
