/-
C19 -- Callbacks see every document once, in order, and errors follow policy.

Same implementation model and specification as C18 (Disp/*.lean; `Engine.run` over histories of
subscribe / unsubscribe / RE(plan, subs) / in-plan subscribe + unsubscribe / emitted documents).
`beh : Beh` is the behaviour of the user callables: whether an invocation raises, as an ARBITRARY
function of everything invoked so far, the callable and the document -- every theorem holds for all
of them.  `(specAfter ops).order k` is the specification's list of callables live for kind `k`, in the
order in which they became live (a callable that has been live for `k` without interruption keeps
its place; a new one goes last; see `C19_order_*`).

The half of the property that needs the engine ("a raising callback ends the plan with that exception
and the run is closed as failed") is: the exception leaves `process` (`C19_raise_policy`), hence
`emit`, inside the command that emitted the document; what the engine does with an exception raised
by a command is C12/C02's subject and is exercised against the real RunEngine in harness/props/C19.py.
-/
import BlueskyVerif.Lemmas.C19Order
import BlueskyVerif.Props.C18

namespace BlueskyVerif.C19
open BlueskyVerif.Disp BlueskyVerif.C18

/-- the reply of the last operation of a history -/
def lastReply (beh : Beh) (ig : Bool) (ops : List Op) : Option Reply := (Engine.run beh (fresh ig) [] ops).2.2.getLast?

/-- what emitting `(k, doc)` after the history `ops` does: `process` walks the spec's order -/
theorem emit_after (beh : Beh) (ig : Bool) (ops : List Op) (k : Sig) (doc : Doc) :
    implLog beh ig (ops ++ [.emit k doc]) = (runCbs beh ig k doc ((specAfter ops).order k) (implLog beh ig ops) []).1 ∧
    lastReply beh ig (ops ++ [.emit k doc]) =
      some (.outcome (runCbs beh ig k doc ((specAfter ops).order k) (implLog beh ig ops) []).2) := by
  obtain ⟨h, _⟩ := refinement beh ig ops
  obtain ⟨_, b, c⟩ := Engine.run_append beh (fresh ig) [] ops [.emit k doc]
  have hcal : (implAfter beh ig ops).disp.reg.callees k = (specAfter ops).order k := by
    simp only [Registry.callees, Generated.processForward, if_true]
    exact h.rel.order k
  constructor
  · simp only [implLog, b]
    simp only [Engine.run, Engine.step, Dispatcher.process, Registry.process]
    show (runCbs beh (implAfter beh ig ops).disp.reg.ignoreExceptions k doc ((implAfter beh ig ops).disp.reg.callees k) _ []).1 = _
    rw [hcal, h.rel.ig]
  · simp only [lastReply, c]
    simp only [Engine.run, Engine.step, Dispatcher.process, Registry.process, List.getLast?_append, List.getLast?_singleton,
      Option.some_or]
    show some (Reply.outcome (runCbs beh (implAfter beh ig ops).disp.reg.ignoreExceptions k doc
      ((implAfter beh ig ops).disp.reg.callees k) _ []).2) = _
    rw [hcal, h.rel.ig]
    rfl

/-- **Exactly once, in order.**  After ANY history, when exceptions are ignored or no callback raises
    on this document, emitting a document of kind `k` invokes exactly the callables that have a live
    subscription covering `k` -- each exactly once, however many tokens it has -- in the order in
    which they became live. -/
theorem C19_exactly_once_in_order (beh : Beh) (ig : Bool) (ops : List Op) (k : Sig) (doc : Doc)
    (hq : ig = true ∨ ∀ l f, beh l f k doc = false) :
    implLog beh ig (ops ++ [.emit k doc]) = implLog beh ig ops ++ callsOf ((specAfter ops).order k) k doc ∧
    ((specAfter ops).order k).Nodup ∧
    (∀ f, f ∈ (specAfter ops).order k ↔ ∃ sub ∈ (specAfter ops).live, sub.f = f ∧ sub.name.covers k = true) := by
  obtain ⟨h, _⟩ := refinement beh ig ops
  refine ⟨?_, ?_, ?_⟩
  · rw [(emit_after beh ig ops k doc).1]
    rcases hq with hq | hq
    · subst hq; exact (runCbs_ignore beh k doc _ _ []).1
    · rw [runCbs_quiet beh ig k doc _ _ _ hq]
  · rw [← h.rel.order k]; exact h.rel.wf.fnNodup k
  · intro f
    rw [h.rel.sinv k f, liveFor_iff]
    simp only [Name.covers_iff]

/-- **Every document, in emission order** (exceptions ignored): over ANY history the complete
    invocation log is, document after document in the order of emission, the delivery of each
    document to the callables live for its kind at that moment.  So the log of one callable is
    exactly the subsequence of the emitted documents of its kinds, emitted while it was subscribed. -/
theorem C19_every_document_in_emission_order (beh : Beh) (ops : List Op) :
    implLog beh true ops = deliveries {} ops := by
  rw [(refinement beh true ops).2, spec_log_ignore]
  rfl

/-- **Ignore policy.**  With callback exceptions ignored a raising callback does not stop the
    delivery to the others and nothing leaves `process`: every live callable is invoked, `process`
    returns, and the collected exceptions are exactly those of the callables that raised. -/
theorem C19_ignore_policy (beh : Beh) (ops : List Op) (k : Sig) (doc : Doc) :
    implLog beh true (ops ++ [.emit k doc]) = implLog beh true ops ++ callsOf ((specAfter ops).order k) k doc ∧
    lastReply beh true (ops ++ [.emit k doc]) =
      some (.outcome (.returned (raisers beh k doc ((specAfter ops).order k) (implLog beh true ops)))) := by
  obtain ⟨a, b⟩ := emit_after beh true ops k doc
  refine ⟨by rw [a]; exact (runCbs_ignore beh k doc _ _ []).1, ?_⟩
  rw [b, runCbs_ignore_collected]
  rfl

/-- **Raise policy.**  Otherwise delivery stops at the first callable that raises: the callables
    before it (none of which raised) and it are invoked, in order, the later ones are not, and its
    exception leaves `process`; if nobody raises everybody is invoked and `process` returns. -/
theorem C19_raise_policy (beh : Beh) (ops : List Op) (k : Sig) (doc : Doc) :
    (implLog beh false (ops ++ [.emit k doc]) = implLog beh false ops ++ callsOf ((specAfter ops).order k) k doc ∧
      lastReply beh false (ops ++ [.emit k doc]) = some (.outcome (.returned []))) ∨
    (∃ pre f post, (specAfter ops).order k = pre ++ f :: post ∧
      implLog beh false (ops ++ [.emit k doc]) = implLog beh false ops ++ callsOf (pre ++ [f]) k doc ∧
      beh (implLog beh false ops ++ callsOf pre k doc) f k doc = true ∧
      lastReply beh false (ops ++ [.emit k doc]) = some (.outcome (.raised f))) := by
  obtain ⟨a, b⟩ := emit_after beh false ops k doc
  obtain ⟨h1, h2⟩ := runCbs_raise beh k doc ((specAfter ops).order k) (implLog beh false ops) []
  rcases h2 with ⟨r, e⟩ | ⟨pre, f, post, e1, e2, e3, e4⟩
  · left
    exact ⟨by rw [a, h1, e], by rw [b, r]⟩
  · right
    exact ⟨pre, f, post, e1, by rw [a, h1, e2], e3, by rw [b, e4]⟩

/-! ### the order -/

/-- A new subscription puts its callable LAST for every kind it covers and was not already live for;
    nobody else moves. -/
theorem C19_order_new_subscription_goes_last (s : Spec) (f : Callable) (name : Name) (temp : Bool) (k : Sig) :
    (s.add f name temp).order k =
      if name.covers k = true ∧ f ∉ s.order k then s.order k ++ [f] else s.order k := by
  show (if name.covers k && !(s.order k).contains f then s.order k ++ [f] else s.order k) = _
  by_cases c : name.covers k = true ∧ f ∉ s.order k
  · rw [if_pos c, if_pos (by simp [c.1, c.2])]
  · rw [if_neg c, if_neg]
    intro a
    have := (addCond_iff _ _ _ _).1 a
    exact c ⟨(Name.covers_iff _ _).2 this.1, this.2⟩

/-- Removing subscriptions (one token, or all temporary ones at the start of a call) only deletes
    callables from the order; the remaining ones keep their relative order. -/
theorem C19_order_removal_keeps_relative_order (s : Spec) (keep : Sub → Bool) (k : Sig) :
    ((s.restrict keep).order k).Sublist (s.order k) := List.filter_sublist

/-- **Plain subscription order.**  For every history in which no callable is subscribed again while
    it still has a live subscription (at every moment the live subscriptions have pairwise distinct
    callables), the callables live for kind `k` are invoked exactly in the order of their
    subscriptions (= token order). -/
theorem C19_subscription_order_distinct_callables (ops : List Op)
    (hd : ∀ ops1 ops2, ops = ops1 ++ ops2 → ((specAfter ops1).live.map Sub.f).Nodup) (k : Sig) :
    (specAfter ops).order k = ((specAfter ops).live.filter (fun x => x.name.covers k)).map Sub.f := by
  have key : ∀ (ops2 : List Op) (ops1 : List Op), ops = ops1 ++ ops2 → PlainOrder (specAfter ops1) →
      PlainOrder (specAfter ops) := by
    intro ops2
    induction ops2 with
    | nil => intro ops1 e h; rw [e, List.append_nil]; exact h
    | cons op rest ih =>
      intro ops1 e h
      apply ih (ops1 ++ [op]) (by rw [e]; simp)
      have e' : specAfter (ops1 ++ [op]) = (specAfter ops1).step op := by
        simp [specAfter, List.foldl_append]
      rw [e']
      apply plain_step h op (hd ops1 (op :: rest) e)
      rw [← e']
      exact hd (ops1 ++ [op]) rest (by rw [e]; simp)
  exact key ops [] rfl (by intro k; rfl) k

/-! Non-vacuity: three callables on 'start' (kind 1); callable 1 raises on its first invocation. -/
example : implLog (fun _ f _ _ => f == 1) true
    [.subscribe 0 (.one 1), .subscribe 1 .all, .subscribe 2 (.one 1), .emit 1 0] = [(0, 1, 0), (1, 1, 0), (2, 1, 0)] := by
  decide +kernel
example : implLog (fun _ f _ _ => f == 1) false
    [.subscribe 0 (.one 1), .subscribe 1 .all, .subscribe 2 (.one 1), .emit 1 0] = [(0, 1, 0), (1, 1, 0)] := by
  decide +kernel
example : lastReply (fun _ f _ _ => f == 1) false
    [.subscribe 0 (.one 1), .subscribe 1 .all, .subscribe 2 (.one 1), .emit 1 0] = some (.outcome (.raised 1)) := by
  decide +kernel

end BlueskyVerif.C19
