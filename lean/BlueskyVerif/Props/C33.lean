/-
C33 -- 0MQ publishing delivers documents intact, in order, filtered by prefix; malformed frames
are dropped (non-strict) or raise Bluesky0MQDecodeError (strict) without delivering anything.

`joinSep, joinParts, splitSep, splitMax, splitTargets, publisherRejects, dispatcherRejects,
prefixAccepts, onFailure, documentNames` are GENERATED from src/bluesky/callbacks/zmq.py (and the
DocumentNames enum it imports) on every run; `pySplit/pyJoin/pollStep/poll` are the hand-written
transcription (IO/Zmq.lean), tied by the correspondence run.  The serializer pair is a parameter:
`dumps : δ → Bytes`, `loads : Bytes → Option δ` with the law `loads (dumps d) = some d` as hypothesis.
-/
import BlueskyVerif.Lemmas.C33

-- simp sets name generated constants that happen not to be needed for the current source
set_option linter.unusedSimpArgs false

namespace BlueskyVerif.C33
open BlueskyVerif.Zmq

/-! ### framing -/

/-- For EVERY message, `message.split(b" ", 2)` followed by the 3-target unpacking is exactly
    "cut at the first two 0x20 bytes" (and ValueError when there are fewer than two). -/
theorem C33_split_is_two_cuts (msg : Bytes) : split3 msg = specSplit3 msg := by
  unfold split3 specSplit3
  simp only [splitSep, splitMax]
  rw [pySplit_succ]
  cases cutAt 32 msg with
  | none => simp [unpack, splitTargets]
  | some p =>
    obtain ⟨a, r⟩ := p
    simp only
    rw [pySplit_succ]
    cases cutAt 32 r with
    | none => simp [unpack, splitTargets]
    | some q =>
      obtain ⟨b, c⟩ := q
      simp [pySplit_zero, unpack, splitTargets, List.lookup]
      exact ⟨rfl, rfl⟩

/-- Round trip of the framing: prefix and name without 0x20, ANY payload bytes (spaces included). -/
theorem C33_roundtrip (pfx name payload : Bytes) (hp : 32 ∉ pfx) (hn : 32 ∉ name) :
    split3 (frame pfx name payload) = some (pfx, name, payload) := by
  rw [C33_split_is_two_cuts, frame_eq]
  simp [specSplit3, cutAt_append_sep 32 _ _ hp, cutAt_append_sep 32 _ _ hn]

/-- The split fails (ValueError) exactly for messages with fewer than two 0x20 bytes. -/
theorem C33_split_fails_iff (msg : Bytes) : split3 msg = none ↔ msg.count 32 < 2 := by
  rw [C33_split_is_two_cuts]
  unfold specSplit3
  cases h : cutAt 32 msg with
  | none =>
    have := (cutAt_none_iff 32 msg).mp h
    simp [List.count_eq_zero_of_not_mem this]
  | some p =>
    obtain ⟨a, r⟩ := p
    obtain ⟨hm, ha⟩ := cutAt_some 32 msg a r h
    simp only
    cases h2 : cutAt 32 r with
    | none =>
      have := (cutAt_none_iff 32 r).mp h2
      simp [hm, count_append_sep 32 a r ha, List.count_eq_zero_of_not_mem this]
    | some q =>
      obtain ⟨b, c⟩ := q
      obtain ⟨hr, hb⟩ := cutAt_some 32 r b c h2
      simp [hm, hr, count_append_sep 32 a _ ha, count_append_sep 32 b c hb]

/-- Whatever splits into three parts IS the frame of those parts, and the first two contain no 0x20:
    the decomposition of a message is unique. -/
theorem C33_split_sound (msg a b c : Bytes) (h : split3 msg = some (a, b, c)) :
    msg = frame a b c ∧ 32 ∉ a ∧ 32 ∉ b := by
  rw [C33_split_is_two_cuts] at h
  unfold specSplit3 at h
  cases h1 : cutAt 32 msg with
  | none => simp [h1] at h
  | some p =>
    obtain ⟨a', r⟩ := p
    cases h2 : cutAt 32 r with
    | none => simp [h1, h2] at h
    | some q =>
      obtain ⟨b', c'⟩ := q
      simp [h1, h2] at h
      obtain ⟨ea, eb, ec⟩ := h
      subst ea; subst eb; subst ec
      obtain ⟨hm, ha⟩ := cutAt_some 32 msg _ _ h1
      obtain ⟨hr, hb⟩ := cutAt_some 32 r _ _ h2
      exact ⟨by rw [frame_eq, hm, hr], ha, hb⟩

/-! ### constructors and the prefix filter -/

/-- Both constructors reject exactly the prefixes containing 0x20. -/
theorem C33_ctor_rejects_space {δ} (pfx : Bytes) (dumps : δ → Bytes) (strict : Bool) (loads : Bytes → Option δ) :
    (mkPublisher pfx dumps = none ↔ 32 ∈ pfx) ∧ (mkDispatcher pfx strict loads = none ↔ 32 ∈ pfx) := by
  simp [mkPublisher, mkDispatcher, publisherRejects, dispatcherRejects]

/-- A frame passes the dispatcher's filter iff the dispatcher has no prefix or the prefixes are EQUAL. -/
theorem C33_prefix_filter (ourPrefix pfx : Bytes) :
    prefixAccepts ourPrefix pfx = true ↔ (ourPrefix = [] ∨ pfx = ourPrefix) := by
  simp [prefixAccepts]

/-! ### one message -/

/-- No failure case leaves `_poll` with an exception other than Bluesky0MQDecodeError, and in
    non-strict mode nothing is raised at all: every stage has a handler that drops and continues. -/
theorem C33_no_crash {δ} (cfg : Dispatcher δ) (msg : Bytes) :
    (∀ s, pollStep cfg msg ≠ .crash s) ∧ (cfg.strict = false → ∀ s, pollStep cfg msg ≠ .raise s) := by
  have hf : ∀ s, (fail cfg s = .raise s ∧ cfg.strict = true) ∨ (fail cfg s = .drop s ∧ cfg.strict = false) := by
    intro s
    cases hs : cfg.strict <;> cases s <;> simp [fail, onFailure, hs]
  constructor
  · intro s
    unfold pollStep
    repeat' split
    all_goals first
      | (intro h; cases h; done)
      | (rename_i st; rcases hf _ with ⟨h1, _⟩ | ⟨h1, _⟩ <;> rw [h1] <;> intro h <;> cases h)
  · intro hs s
    unfold pollStep
    repeat' split
    all_goals first
      | (intro h; cases h; done)
      | (rcases hf _ with ⟨_, h2⟩ | ⟨h1, _⟩
         · rw [hs] at h2; cases h2
         · rw [h1]; intro h; cases h)


/-- SPECIFICATION: the (name, document) a message carries for this dispatcher -- it is
    `prefix SP name SP payload` with a decodable, known document name, a prefix the dispatcher
    listens to, and a payload the deserializer accepts. -/
def carries {δ} (cfg : Dispatcher δ) (msg : Bytes) : Option (Bytes × δ) :=
  match specSplit3 msg with
  | none => none
  | some (pfx, name, payload) =>
    if validUtf8 name = true ∧ (cfg.ourPrefix = [] ∨ pfx = cfg.ourPrefix) ∧ name ∈ documentNames then
      match cfg.loads payload with
      | some d => some (name, d)
      | none => none
    else none

/-- SPECIFICATION: a malformed frame -- fewer than two 0x20 bytes, or an undecodable name, or
    (addressed to this dispatcher and) an unknown document name or a payload the deserializer rejects. -/
def Malformed {δ} (cfg : Dispatcher δ) (msg : Bytes) : Prop :=
  msg.count 32 < 2 ∨
  ∃ pfx name payload, specSplit3 msg = some (pfx, name, payload) ∧
    (validUtf8 name = false ∨
      ((cfg.ourPrefix = [] ∨ pfx = cfg.ourPrefix) ∧ (name ∉ documentNames ∨ cfg.loads payload = none)))

/-- SPECIFICATION: a frame of another publisher (different prefix while the dispatcher has one). -/
def NotForUs {δ} (cfg : Dispatcher δ) (msg : Bytes) : Prop :=
  ∃ pfx name payload, specSplit3 msg = some (pfx, name, payload) ∧ validUtf8 name = true ∧
    cfg.ourPrefix ≠ [] ∧ pfx ≠ cfg.ourPrefix

/-- the loop body delivers exactly what the message carries, and nothing otherwise -/
theorem C33_step_delivers_carried {δ} (cfg : Dispatcher δ) (msg : Bytes) :
    carries cfg msg = match pollStep cfg msg with
      | .deliver n d => some (n, d)
      | _ => none := by
  unfold carries pollStep
  rw [C33_split_is_two_cuts]
  cases specSplit3 msg with
  | none => rcases fail_cases cfg .split with ⟨h, _⟩ | ⟨h, _⟩ <;> simp [h]
  | some t =>
    obtain ⟨pfx, name, payload⟩ := t
    simp only
    by_cases hv : validUtf8 name = true
    · by_cases hp : prefixAccepts cfg.ourPrefix pfx = true
      · have hp' := (C33_prefix_filter _ _).mp hp
        by_cases hn : name ∈ documentNames
        · cases hl : cfg.loads payload with
          | none => rcases fail_cases cfg .deser with ⟨h, _⟩ | ⟨h, _⟩ <;> simp [hv, hp, hp', hn, hl, h]
          | some d => simp [hv, hp, hp', hn, hl]
        · rcases fail_cases cfg .lookup with ⟨h, _⟩ | ⟨h, _⟩ <;> simp [hv, hp, hn, h]
      · have hp' : ¬ (cfg.ourPrefix = [] ∨ pfx = cfg.ourPrefix) := fun h => hp ((C33_prefix_filter _ _).mpr h)
        simp [hv, hp, hp']
    · rcases fail_cases cfg .decode with ⟨h, _⟩ | ⟨h, _⟩ <;> simp [hv, h]

/-- A published document reaches the dispatcher's callbacks unchanged iff the prefix filter passes:
    publisher constructed with ANY accepted prefix, name a DocumentNames member, ANY document,
    serializer pair with `loads (dumps d) = d`. -/
theorem C33_publish_step {δ} (cfg : Dispatcher δ) (pfx : Bytes) (dumps : δ → Bytes) (p : Publisher δ)
    (hp : mkPublisher pfx dumps = some p) (name : Bytes) (hn : name ∈ documentNames) (d : δ)
    (hl : cfg.loads (dumps d) = some d) :
    pollStep cfg (p.call name d) =
      if cfg.ourPrefix = [] ∨ pfx = cfg.ourPrefix then .deliver name d else .ignore := by
  obtain ⟨e1, e2, hs⟩ := mkPublisher_some hp
  obtain ⟨hn1, hn2⟩ := documentNames_ok name hn
  unfold pollStep Publisher.call
  rw [e1, e2, C33_roundtrip pfx name (dumps d) hs hn1]
  by_cases hf : cfg.ourPrefix = [] ∨ pfx = cfg.ourPrefix
  · simp [hn2, (C33_prefix_filter _ _).mpr hf, hn, hl, hf]
  · have : prefixAccepts cfg.ourPrefix pfx = false := by
      cases h : prefixAccepts cfg.ourPrefix pfx
      · rfl
      · exact absurd ((C33_prefix_filter _ _).mp h) hf
    simp [hn2, this, hf]

/-- Anything delivered came from a well-formed frame with a prefix the dispatcher listens to:
    a dispatcher with a prefix delivers only documents framed with exactly that prefix. -/
theorem C33_deliver_sound {δ} (cfg : Dispatcher δ) (msg name : Bytes) (d : δ)
    (h : pollStep cfg msg = .deliver name d) :
    ∃ pfx payload, msg = frame pfx name payload ∧ 32 ∉ pfx ∧ 32 ∉ name ∧ name ∈ documentNames ∧
      cfg.loads payload = some d ∧ (cfg.ourPrefix = [] ∨ pfx = cfg.ourPrefix) := by
  have hc := C33_step_delivers_carried cfg msg
  rw [h] at hc
  unfold carries at hc
  cases hs : specSplit3 msg with
  | none => simp [hs] at hc
  | some t =>
    obtain ⟨pfx, nm, payload⟩ := t
    simp only [hs] at hc
    split at hc
    · rename_i hcond
      cases hl : cfg.loads payload with
      | none => simp [hl] at hc
      | some d' =>
        simp [hl] at hc
        obtain ⟨e1, e2⟩ := hc
        subst e1; subst e2
        have := C33_split_sound msg pfx nm payload (by rw [C33_split_is_two_cuts]; exact hs)
        exact ⟨pfx, payload, this.1, this.2.1, this.2.2, hcond.2.2, hl, hcond.2.1⟩
    · cases hc

/-- Every message is exactly one of: carrying a document for us / malformed / not for us. -/
theorem C33_classify {δ} (cfg : Dispatcher δ) (msg : Bytes) :
    (∃ nd, carries cfg msg = some nd) ∨ Malformed cfg msg ∨ NotForUs cfg msg := by
  unfold carries Malformed NotForUs
  cases hs : specSplit3 msg with
  | none =>
    right; left; left
    exact (C33_split_fails_iff msg).mp (by rw [C33_split_is_two_cuts]; exact hs)
  | some t =>
    obtain ⟨pfx, name, payload⟩ := t
    by_cases hv : validUtf8 name = true
    · by_cases hp : cfg.ourPrefix = [] ∨ pfx = cfg.ourPrefix
      · by_cases hn : name ∈ documentNames
        · cases hl : cfg.loads payload with
          | none => right; left; right; exact ⟨pfx, name, payload, rfl, Or.inr ⟨hp, Or.inr hl⟩⟩
          | some d => left; exact ⟨(name, d), by simp [hv, hp, hn, hl]⟩
        · right; left; right; exact ⟨pfx, name, payload, rfl, Or.inr ⟨hp, Or.inl hn⟩⟩
      · right; right
        exact ⟨pfx, name, payload, rfl, hv, fun e => hp (Or.inl e), fun e => hp (Or.inr e)⟩
    · right; left; right
      exact ⟨pfx, name, payload, rfl, Or.inl (by simpa using hv)⟩

/-- Malformed frames deliver nothing: non-strict => printed, dropped, loop continues;
    strict => Bluesky0MQDecodeError.  Frames of other publishers are skipped silently. -/
theorem C33_malformed_dropped {δ} (cfg : Dispatcher δ) (msg : Bytes) :
    (Malformed cfg msg →
      carries cfg msg = none ∧
      (cfg.strict = false → ∃ s, pollStep cfg msg = .drop s) ∧
      (cfg.strict = true → ∃ s, pollStep cfg msg = .raise s)) ∧
    (NotForUs cfg msg → pollStep cfg msg = .ignore) := by
  constructor
  · intro hm
    unfold pollStep carries
    rw [C33_split_is_two_cuts]
    rcases hm with hc | ⟨pfx, name, payload, hs, hbad⟩
    · have : specSplit3 msg = none := by
        rw [← C33_split_is_two_cuts]; exact (C33_split_fails_iff msg).mpr hc
      rcases fail_cases cfg .split with ⟨h, h'⟩ | ⟨h, h'⟩ <;> simp [this, h, h']
    · rw [hs]
      rcases hbad with hv | ⟨hp, hbad⟩
      · rcases fail_cases cfg .decode with ⟨h, h'⟩ | ⟨h, h'⟩ <;> simp [hv, h, h']
      · have hp' := (C33_prefix_filter _ _).mpr hp
        by_cases hv : validUtf8 name = true
        · rcases hbad with hn | hl
          · rcases fail_cases cfg .lookup with ⟨h, h'⟩ | ⟨h, h'⟩ <;> simp [hv, hp', hn, h, h']
          · by_cases hn : name ∈ documentNames
            · rcases fail_cases cfg .deser with ⟨h, h'⟩ | ⟨h, h'⟩ <;> simp [hv, hp', hp, hn, hl, h, h']
            · rcases fail_cases cfg .lookup with ⟨h, h'⟩ | ⟨h, h'⟩ <;> simp [hv, hp', hn, h, h']
        · rcases fail_cases cfg .decode with ⟨h, h'⟩ | ⟨h, h'⟩ <;> simp [hv, h, h']
  · rintro ⟨pfx, name, payload, hs, hv, h1, h2⟩
    unfold pollStep
    rw [C33_split_is_two_cuts, hs]
    have : prefixAccepts cfg.ourPrefix pfx = false := by
      cases h : prefixAccepts cfg.ourPrefix pfx
      · rfl
      · rcases (C33_prefix_filter _ _).mp h with e | e
        · exact absurd e h1
        · exact absurd e h2
    simp [hv, this]

/-! ### histories -/

/-- NON-STRICT dispatcher, ANY sequence of messages of ANY length (published frames, frames of other
    publishers, arbitrary garbage, in any interleaving): the callbacks receive exactly the documents
    carried by the well-formed frames addressed to the dispatcher, in order of arrival; every
    message is consumed and the loop is still waiting for more (never ended by an exception). -/
theorem C33_nonstrict_stream {δ} (cfg : Dispatcher δ) (hs : cfg.strict = false) (msgs : List Bytes) :
    (poll cfg msgs).delivered = msgs.filterMap (carries cfg) ∧
    (poll cfg msgs).ending = .waiting ∧ (poll cfg msgs).consumed = msgs.length := by
  induction msgs with
  | nil => simp [poll]
  | cons m ms ih =>
    obtain ⟨i1, i2, i3⟩ := ih
    have hc := C33_step_delivers_carried cfg m
    have hn := C33_no_crash cfg m
    unfold poll
    cases hstep : pollStep cfg m with
    | deliver n d => rw [hstep] at hc; simp [hc, i1, i2, i3]
    | ignore => rw [hstep] at hc; simp [hc, i1, i2, i3]
    | drop s => rw [hstep] at hc; simp [hc, i1, i2, i3]
    | raise s => exact absurd hstep (hn.2 hs s)
    | crash s => exact absurd hstep (hn.1 s)

/-- something put on the wire: a document published through a Publisher, or raw bytes -/
inductive Send (δ : Type) where
  | pub (pfx : Bytes) (dumps : δ → Bytes) (name : Bytes) (d : δ)
  | raw (msg : Bytes)

/-- the published document is legitimate: the constructor accepted the prefix, the name is a
    document name, the serializer pair round-trips this document -/
def Send.ok {δ} (cfg : Dispatcher δ) : Send δ → Prop
  | .pub pfx dumps name d => 32 ∉ pfx ∧ name ∈ documentNames ∧ cfg.loads (dumps d) = some d
  | .raw msg => Malformed cfg msg ∨ NotForUs cfg msg

def Send.bytes {δ} : Send δ → Bytes
  | .pub pfx dumps name d => frame pfx name (dumps d)
  | .raw msg => msg

/-- what the dispatcher is expected to hand to its callbacks for one send -/
def Send.expected {δ} (cfg : Dispatcher δ) : Send δ → Option (Bytes × δ)
  | .pub pfx _ name d => if cfg.ourPrefix = [] ∨ pfx = cfg.ourPrefix then some (name, d) else none
  | .raw _ => none

theorem C33_send_carried {δ} (cfg : Dispatcher δ) (s : Send δ) (h : s.ok cfg) :
    carries cfg s.bytes = s.expected cfg := by
  cases s with
  | pub pfx dumps name d =>
    obtain ⟨h1, h2, h3⟩ := h
    have hp : mkPublisher pfx dumps = some ⟨pfx, dumps⟩ := by simp [mkPublisher, publisherRejects, h1]
    have := C33_publish_step cfg pfx dumps _ hp name h2 d h3
    rw [C33_step_delivers_carried]
    simp only [Send.bytes, Send.expected]
    simp only [Publisher.call] at this
    rw [this]
    by_cases hf : cfg.ourPrefix = [] ∨ pfx = cfg.ourPrefix <;> simp [hf]
  | raw msg =>
    simp only [Send.bytes, Send.expected]
    rcases h with h | h
    · exact ((C33_malformed_dropped cfg msg).1 h).1
    · have := (C33_malformed_dropped cfg msg).2 h
      rw [C33_step_delivers_carried, this]

/-- THE PROPERTY for a non-strict dispatcher: any number of publishers with any space-free
    prefixes publish any documents, interleaved in any way with malformed frames; the dispatcher
    delivers exactly the documents of the publishers whose prefix it listens to (all of them when
    it has no prefix), each with equal name and content, in the order they were sent; malformed
    frames contribute nothing and do not stop the loop. -/
theorem C33_order {δ} (cfg : Dispatcher δ) (hs : cfg.strict = false) (sends : List (Send δ))
    (hok : ∀ s ∈ sends, s.ok cfg) :
    (poll cfg (sends.map Send.bytes)).delivered = sends.filterMap (Send.expected cfg) ∧
    (poll cfg (sends.map Send.bytes)).ending = .waiting := by
  obtain ⟨h1, h2, _⟩ := C33_nonstrict_stream cfg hs (sends.map Send.bytes)
  refine ⟨?_, h2⟩
  rw [h1, List.filterMap_map]
  apply filterMap_congr_mem
  intro s hsm
  exact C33_send_carried cfg s (hok s hsm)

/-- STRICT dispatcher: everything before the first malformed frame is delivered as in the
    non-strict case; at the malformed frame `_poll` ends with Bluesky0MQDecodeError, the frame
    delivers nothing and nothing after it is consumed. -/
theorem C33_strict_stream {δ} (cfg : Dispatcher δ) (hs : cfg.strict = true)
    (good : List Bytes) (bad : Bytes) (rest : List Bytes)
    (hgood : ∀ m ∈ good, ¬ Malformed cfg m) (hbad : Malformed cfg bad) :
    (poll cfg (good ++ bad :: rest)).delivered = good.filterMap (carries cfg) ∧
    (∃ s, (poll cfg (good ++ bad :: rest)).ending = .decodeError s) ∧
    (poll cfg (good ++ bad :: rest)).consumed = good.length + 1 := by
  induction good with
  | nil =>
    obtain ⟨s, h⟩ := ((C33_malformed_dropped cfg bad).1 hbad).2.2 hs
    simp [poll, h]
  | cons m ms ih =>
    obtain ⟨i1, ⟨s, i2⟩, i3⟩ := ih (fun x hx => hgood x (List.mem_cons_of_mem _ hx))
    have hm := hgood m (List.mem_cons_self ..)
    have hc := C33_step_delivers_carried cfg m
    rw [List.cons_append]
    unfold poll
    cases hstep : pollStep cfg m with
    | deliver n d => rw [hstep] at hc; simp [hc, i1, i2, i3]
    | ignore => rw [hstep] at hc; simp [hc, i1, i2, i3]
    | drop s' => rw [hstep] at hc; simp [hc, i1, i2, i3]
    | crash s' => exact absurd hstep ((C33_no_crash cfg m).1 s')
    | raise s' =>
      exfalso
      rcases C33_classify cfg m with ⟨nd, h⟩ | h | h
      · rw [C33_step_delivers_carried, hstep] at h; cases h
      · exact hm h
      · rw [(C33_malformed_dropped cfg m).2 h] at hstep; cases hstep

/-! ### non-vacuity: concrete frames (payload with spaces, identity serializer) -/

def idLoads : Bytes → Option Bytes := fun b => if b = [0] then none else some b
def demo : Dispatcher Bytes := ⟨[115, 98], false, idLoads⟩
def demoStrict : Dispatcher Bytes := ⟨[115, 98], true, idLoads⟩
def startName : Bytes := [115, 116, 97, 114, 116]

example : startName ∈ documentNames := by decide
example : split3 (frame [115, 98] startName [1, 32, 2, 32, 32]) = some ([115, 98], startName, [1, 32, 2, 32, 32]) := by decide
example : (poll demo [frame [115, 98] startName [7, 32, 7], [1, 2, 3], frame [120] startName [8],
      frame [115, 98] [0xff] [9], frame [115, 98] [110, 111] [9], frame [115, 98] startName [0],
      frame [115, 98] startName []]).delivered = [(startName, [7, 32, 7]), (startName, [])] := by decide
example : (poll demoStrict [frame [115, 98] startName [7], frame [120] startName [8], [1, 2, 3],
      frame [115, 98] startName [9]]).ending = .decodeError .split := by decide
example : Malformed demo [1, 2, 3] := Or.inl (by decide)
example : (Send.pub [115, 98] id startName [5, 32]).ok demo := ⟨by decide, by decide, by decide⟩

end BlueskyVerif.C33
