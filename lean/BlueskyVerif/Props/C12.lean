/-
C12 -- device errors reach the plan at the message that caused them.

Model: Engine/Model.lean + Engine/Sim.lean.  Helper lemmas: Lemmas/C12.lean, C13Resp.lean, C13Logs.lean.

* `C12_sync_error`: a command that raises `e` -> the exception instance becomes the response of that message, the
  loop top goes to its sleep(0) and the very next `afterSleep` THROWS `e` into the same generator, before any other
  message is logged.
* `C12_status_failure*`: a status that finishes unsuccessfully (and unpardoned) stores `FailedStatus` in
  `self._exception`; completing the command in which `_run` happens to be suspended leaves it there and logs no
  message; a `wait` on the group of the failed status is resumed at once; at the next `afterSleep` the stored
  exception is thrown into the top plan with priority over the pending response (`stashed_exception or resp`).
* `C12_unhandled_ends_call`: if the last plan does not handle it the loop is left with that exception, the runs are
  closed with the exit status of the `except Exception` handler (generated: 'fail'), and it is the result of the task
  and of the blocking call.
* `C12_pardoned_after_exit`: once the cleanup has started, late failures store nothing.
* `C12_swallowed_exception_corner` (DESIGN Appendix A): the model transcribes the code -- a plan ABOVE another one
  that answers a throw by returning makes `_run` stash the StopIteration and throw it into the plan below;
  `C12_engine_plans_cannot_swallow`: none of the generators the engine itself pushes (list plans: `single_gen`,
  rewind plans) can do that.
-/
import BlueskyVerif.Lemmas.C12

namespace BlueskyVerif.C12
open BlueskyVerif.Engine

/-! ## 1. synchronous errors -/

/-- Plan `g` (top of the stack, its popped response in flight) has just yielded `m`; the command raises `e`
    (an `Exception`: DeviceError, IllegalMessageSequence, ...).  Then
    (1) `processMsg` logs `m`, stores the exception instance in the slot of `g` and goes back to the loop top;
    (2) with the engine running and nothing stashed the loop top just sleeps (no message is processed);
    (3) the next `afterSleep` -- for ANY state that still has these stacks, whatever the environment did to the
        rest -- resumes THE SAME generator `g` with `throw e`, logging `(mid, throw e)` for the message `g` is
        suspended at, and the message log still ends with `m`: no other message came in between. -/
theorem C12_sync_error (s : EState) (m : Msg) (g : Gen) (gs : List Gen) (r0 : Resp) (e : Exc) (s1 : EState)
    (hplan : s.planStack = g :: gs) (hresp : s.resp = some r0)
    (hreg : Src.registry.contains m.cmd = true) (hnot : m.cmd ≠ "_start_suspender")
    (hcmd : runCommand (noteMsg s m) m = (s1, .raised e)) (he : e.isException = true) :
    ∃ s2, processMsg s m = .loopTop s2 ∧ s2.respStack = .exc e :: s.respStack ∧ s2.planStack = g :: gs ∧
      s2.msgs = s.msgs ++ [m] ∧ s2.yields = s.yields ∧
      (s2.state = .running → s2.permit = true → s2.stashed = none →
        loopTop s2 = .stop { s2 with pc := .loopSleep, resp := none }) ∧
      ∀ s3 : EState, s3.respStack = s2.respStack → s3.planStack = s2.planStack →
        s3.exceptionSlot = none → s3.stashed = none →
        ∃ s4, afterSleep s3 = afterResume s4 gs (some e) (g.resume (.throw e)) ∧ s4.msgs = s3.msgs ∧
          ∀ mid, g.pendingMid = some mid → s4.yields = s3.yields ++ [(mid, .throw e)] := by
  obtain ⟨hp, hq, hr, _, hx⟩ := processMsg_pushes s m r0 s1 (.raised e) hresp hreg hnot hcmd
  have hlg : lg s1 = lg (noteMsg s m) := by
    have := runCommand_lg (noteMsg s m) m
    rw [hcmd] at this; exact this
  have hmsgs : s1.msgs = s.msgs ++ [m] := by
    have h1 : (noteMsg s m).msgs = s.msgs ++ [m] := by unfold noteMsg; frame_be
    exact (congrArg Lg.msgs hlg).trans h1
  have hy : s1.yields = s.yields := by
    have h1 : (noteMsg s m).yields = s.yields := by unfold noteMsg; frame_be
    exact (congrArg Lg.yields hlg).trans h1
  refine ⟨_, hx e rfl, rfl, hp.trans hplan, hmsgs, hy, ?_, ?_⟩
  · intro hst hperm hsta
    exact loopTop_sleeps _ hst hperm hsta
  · intro s3 h3r h3p hslot hst
    refine ⟨_, afterSleep_throws s3 e s.respStack g gs h3r (h3p.trans (hp.trans hplan)) hslot hst he, ?_, ?_⟩
    · unfold logYield; split <;> rfl
    · intro mid hmid
      exact logYield_yields _ g _ mid hmid

/-- unknown commands are answered the same way with `InvalidCommand` -/
theorem C12_invalid_command (s : EState) (m : Msg) (r0 : Resp) (hresp : s.resp = some r0)
    (hreg : Src.registry.contains m.cmd = false) :
    ∃ s2, processMsg s m = .loopTop s2 ∧ s2.respStack = .exc .invalidCommand :: s.respStack ∧ s2.planStack = s.planStack := by
  have hn := stk_noteMsg s m
  have hr : (noteMsg s m).resp = some r0 := (congrArg Stk.resp hn).trans hresp
  have hq : (noteMsg s m).respStack = s.respStack := congrArg Stk.resps hn
  have hpl : (noteMsg s m).planStack = s.planStack := congrArg Stk.plans hn
  refine ⟨fin (noteMsg s m) (.exc .invalidCommand), ?_, ?_, ?_⟩
  · unfold processMsg; simp only [hreg, Bool.not_false, ↓reduceIte]
  · rw [(fin_stacks _ r0 _ hr).1, hq]
  · rw [(fin_stacks _ r0 _ hr).2.1, hpl]

/-! ## 2. statuses that finish unsuccessfully -/

/-- `_status_object_completed`: a status that failed while the call is running stores `FailedStatus(k)` in
    `self._exception` and fails the future kept in `_groups` -/
theorem C12_status_failure (s : EState) (k : Nat) (r : StatusRec) (hk : s.statuses[k]? = some r)
    (hnd : r.futDone = false) (hok : r.ok = false) (hp : s.pardon = false) :
    (completeStatus s k).exceptionSlot = some (.failedStatus k) ∧
    (completeStatus s k).statuses = s.statuses.set k { r with futDone := true, futExc := true } :=
  completeStatus_failed s k r hk hnd hok hp

/-- the environment action "status k finishes with ok = false" does exactly that -/
theorem C12_status_action_fails (s : EState) (k : Nat) (r : StatusRec) (hk : s.statuses[k]? = some r)
    (hdone : r.done = false) (hnd : r.futDone = false) (hp : s.pardon = false) :
    (applyAction s (.status k false)).exceptionSlot = some (.failedStatus k) := by
  have hlt : k < s.statuses.length := by
    rcases Nat.lt_or_ge k s.statuses.length with h | h
    · exact h
    · rw [List.getElem?_eq_none h] at hk; cases hk
  simp only [applyAction, hk, hdone, Bool.false_eq_true, ↓reduceIte]
  refine (completeStatus_failed { s with statuses := s.statuses.set k { r with done := true, ok := false } } k
    { r with done := true, ok := false } ?_ hnd rfl hp).1
  simp [hlt]

/-- PRIORITY: at the next `afterSleep` whatever is stored in `self._exception` is thrown into the top plan, not the
    pending response (not even when that response is itself an exception) -/
theorem C12_failure_has_priority (s : EState) (e : Exc) (r : Resp) (rs : List Resp) (g : Gen) (gs : List Gen)
    (hr : s.respStack = r :: rs) (hp : s.planStack = g :: gs) (hslot : s.exceptionSlot = some e) :
    ∃ s4, afterSleep s = afterResume s4 gs (some e) (g.resume (.throw e)) ∧ s4.msgs = s.msgs ∧ s4.exceptionSlot = none ∧
      ∀ mid, g.pendingMid = some mid → s4.yields = s.yields ++ [(mid, .throw e)] := by
  refine ⟨_, afterSleep_slot_priority s e r rs g gs hr hp hslot, ?_, ?_, ?_⟩
  · unfold logYield; split <;> rfl
  · unfold logYield; split <;> rfl
  · intro mid hmid; exact logYield_yields _ g _ mid hmid

/-- NO LATER THAN THE WAIT ON ITS GROUP: a `wait` whose group contains a failed future is resumed at once (asyncio
    FIRST_EXCEPTION): it answers WaitForTimeoutError, puts the futures back -- and by `C12_failure_has_priority` the
    stored FailedStatus, not that answer, is what the plan gets -/
theorem C12_wait_resumes_on_failure (fuel : Nat) (s : EState) (g : String) (hpc : s.pc = .inWait g)
    (hall : (groupReady s g).1 = false) (hexc : (groupReady s g).2 = true) :
    advanceAt fuel false s =
      runLoop fuel (fin { s with groups := assocSet g s.waiting s.groups } (.exc .waitForTimeout)) ∧
    (fin { s with groups := assocSet g s.waiting s.groups } (.exc .waitForTimeout)).exceptionSlot = s.exceptionSlot := by
  refine ⟨?_, ?_⟩
  · unfold advanceAt
    simp [hpc, hall, hexc]
  · unfold fin; split <;> rfl

/-- NEVER AFTER A LATER MESSAGE: if `_run` is suspended inside another command when the status fails, completing
    that command logs no message, sends nothing to a plan and leaves `self._exception` alone; the loop then goes on
    from its top (where, nothing being stashed, it sleeps and then throws: `C12_failure_has_priority`) -/
theorem C12_failure_survives_command_completion (fuel : Nat) (s : EState) (a : Resp)
    (ha : pushedAnswer false s = some a) :
    ∃ s1 : EState, advanceAt fuel false s = runLoop fuel s1 ∧ s1.msgs = s.msgs ∧ s1.yields = s.yields ∧
      s1.exceptionSlot = s.exceptionSlot := by
  obtain ⟨s1, h1, h2⟩ := advanceAt_completion_lg fuel s a ha
  exact ⟨s1, h1, congrArg Lg.msgs h2, congrArg Lg.yields h2, congrArg Lg.slot h2⟩

/-- no command handler clears or overwrites `self._exception` either -/
theorem C12_commands_keep_failure (s : EState) (m : Msg) : (runCommand s m).1.exceptionSlot = s.exceptionSlot :=
  runCommand_slot s m

/-! ## 3. an exception nobody handles ends the call -/

/-- The last plan on the stack (nothing below it: `afterResume s [] ..`) answered a throw (or a send) by raising `e` (an ordinary exception: not one of the
    engine's own control exceptions).  Then the loop is left with `e`: exit status = what the `except Exception`
    handler of `_run` assigns (GENERATED from the source: 'fail'), the cleanup closes the open runs with it, the
    engine ends `idle`, the task's result is `raise e` and the blocking call reports `raise:<class of e>`. -/
theorem C12_unhandled_ends_call (fuel : Nat) (s : EState) (g : Gen) (e : Exc)
    (he : plainFailure e = true) (hexc : e.isException = true)
    (hst : s.stashed ≠ some .cancelled) (hc : s.cleanupExc = none)
    (h1 : s.state ≠ .idle) (h2 : s.state ≠ .panicked) (t : Option Exc) :
    ∃ s' : EState, afterResume s [] t (.raise e, g) = .stop s' ∧ s'.pc = .finished ∧ s'.exitExc = some e ∧
      s'.exitStatus = .fail ∧ s'.exitReason = e.name ∧
      let final := contFlow fuel (afterResume s [] t (.raise e, g))
      final.taskResult = .raised e ∧ final.state = .idle ∧ final.pc = .finished ∧ final.pardon = true ∧
      (outcomeOf "call" final).result = "raise:" ++ e.name := by
  have hpop : afterResume s [] t (.raise e, g) =
      .stop (leaveLoop { s with planStack := [], resp := none } e) := by
    simp only [afterResume, hexc, ↓reduceIte]
    exact popPlan_last_raises _ g e rfl
  have hl := leaveLoop_failure { s with planStack := [], resp := none } e he
  refine ⟨_, hpop, ?_, ?_, ?_, ?_, ?_⟩
  · rw [hl]
  · rw [hl]
  · rw [hl]; rfl
  · rw [hl]
  · simp only []
    rw [hpop]
    simp only [contFlow]
    have hfin : (leaveLoop { s with planStack := [], resp := none } e).pc = .finished := by rw [hl]
    simp only [hfin, beq_self_eq_true, ↓reduceIte]
    obtain ⟨x, hx⟩ : ∃ x, x = leaveLoop { s with planStack := [], resp := none } e := ⟨_, rfl⟩
    rw [← hx]
    have hxs : x.state = s.state := by rw [hx, hl]
    obtain ⟨c1, c2, c3, c4, _, _⟩ := cleanup_ctl_fields x (by rw [hxs]; exact h1) (by rw [hxs]; exact h2)
    have hxc : x.cleanupExc = none := by rw [hx, hl]; exact hc
    have hxe : x.exitExc = some e := by rw [hx, hl]
    have hxst : x.stashed = s.stashed := by rw [hx, hl]
    obtain ⟨f1, f2⟩ := finishTask_raised (cleanup x) e (c2.trans hxc) (c3.trans hxe) (by rw [c4, hxst]; exact hst) he
    have hpar : (cleanup x).pardon = true := congrArg Prod.fst (cleanup_pp x)
    refine ⟨f1, ?_, f2, ?_, ?_⟩
    · exact (show (finishTask (cleanup x)).state = (cleanup x).state from rfl).trans c1
    · exact (show (finishTask (cleanup x)).pardon = (cleanup x).pardon from rfl).trans hpar
    · unfold outcomeOf
      simp only [f2, beq_self_eq_true, ↓reduceIte, f1]

/-- the plan MAY recover: if it answers the throw by yielding its next message, the stashed exception is cleared
    and that message is processed like any other (`noteMsg` clears `stashed`) -/
theorem C12_handled_continues (s : EState) (gs : List Gen) (e : Exc) (m : Msg) (g' : Gen) :
    afterResume s gs (some e) (.yld m, g') = processMsg { s with planStack := g' :: gs } m ∧
    (noteMsg { s with planStack := g' :: gs } m).stashed = none := by
  refine ⟨rfl, ?_⟩
  unfold noteMsg; frame_be

/-! ## 4. after the cleanup has started, failures are pardoned -/

theorem C12_pardoned_after_exit (s : EState) :
    (cleanup s).pardon = true ∧ (cleanup s).exceptionSlot = s.exceptionSlot ∧
    ∀ (x : EState) (k : Nat) (ok : Bool), x.pardon = true →
      (completeStatus x k).exceptionSlot = x.exceptionSlot ∧ (applyAction x (.status k ok)).exceptionSlot = x.exceptionSlot := by
  refine ⟨congrArg Prod.fst (cleanup_pp s), congrArg Prod.snd (cleanup_pp s), ?_⟩
  intro x k ok hp
  refine ⟨completeStatus_pardoned x k hp, ?_⟩
  simp only [applyAction]
  split
  · split
    · rfl
    · exact completeStatus_pardoned _ k hp
  · rfl

/-! ## 5. the suspected corner of DESIGN Appendix A -/

/-- The model transcribes the code: a plan with other plans BELOW it that answers a throw by RETURNING is popped
    with `StopIteration` stashed (`except Exception as e` around `.throw()` also catches StopIteration), and the
    next plan down gets StopIteration thrown at its pending yield (`afterSleep_stashed_priority`). -/
theorem C12_swallowed_exception_corner (s : EState) (g' below : Gen) (rest : List Gen) (e : Exc) :
    afterResume s (below :: rest) (some e) (.ret, g') =
      .loopTop { s with planStack := below :: rest, resp := none, stashed := some .stopIteration } := by
  simp [afterResume, popPlan]

/-- ... while a plan that simply returns when it is SENT a value is popped silently -/
theorem C12_normal_return_is_silent (s : EState) (g' below : Gen) (rest : List Gen) :
    afterResume s (below :: rest) none (.ret, g') = .loopTop { s with planStack := below :: rest, resp := none } := by
  simp [afterResume, popPlan]

/-- None of the list plans the engine pushes itself (`single_gen(_start_suspender ...)`, the rewind plans of
    `resume()` and of the suspender helper) can swallow anything: a throw always comes back out. -/
theorem C12_engine_plans_cannot_swallow (msgs : List Msg) (e : Exc) :
    ∃ e' g', (Gen.list msgs).resume (.throw e) = (.raise e', g') := by
  exact ⟨_, _, rfl⟩

/-! ## non-vacuity: concrete runs of the model -/

section examples

def devsRaise : EState := { devSpecs := [{ name := "m1", kind := "motor", modes := [("set", ["raise"])] }] }
def devsFail : EState := { devSpecs := [{ name := "m1", kind := "motor", modes := [("set", ["fail"])] }] }

def planSet : Gen := Gen.list [
  { cmd := "open_run", mid := some 0 }, { cmd := "set", obj := some "m1", iargs := [3], name := some "g", mid := some 1 },
  { cmd := "null", mid := some 2 }, { cmd := "wait", name := some "g", mid := some 3 }, { cmd := "close_run", mid := some 4 }]

/-- `set` raises: the call ends with DeviceError, the run is closed with 'fail', `null` is never executed -/
example : (outcomeOf "call" (schedule 300 [] 1000 (startCall devsRaise planSet))).result = "raise:DeviceError" ∧
    (schedule 300 [] 1000 (startCall devsRaise planSet)).msgs.map (·.cmd) = ["open_run", "set"] ∧
    ((schedule 300 [] 1000 (startCall devsRaise planSet)).docs.map (fun d => (d.kind, d.exit))) = [("start", ""), ("stop", "fail")] := by
  decide

/-- `set` returns a failing status: FailedStatus is thrown at the very next resume (before `null` is executed) -/
example : (outcomeOf "call" (schedule 300 [] 1000 (startCall devsFail planSet))).result = "raise:FailedStatus" ∧
    (schedule 300 [] 1000 (startCall devsFail planSet)).msgs.map (·.cmd) = ["open_run", "set"] := by
  decide

end examples

end BlueskyVerif.C12
