/-
C15 -- Events contain exactly the readings bundled between create and save.

Model: Bundler/Model.lean (RunBundler, transcribed) + Bundler/Guards.lean (the engine's guards).
A *history* is an arbitrary list of bundler operations applied after `open_run`
(`Bundler.Op`: create, read, save, drop, monitor, configure, rewind, collect, ... in any order,
including malformed orders; any devices `w`, any configuration).  All theorems quantify over every
history (`pre`), i.e. over every reachable bundler state, or over every state outright.
-/
import BlueskyVerif.Lemmas.C15Collide
import BlueskyVerif.Lemmas.BundlerKeepsOut
import BlueskyVerif.Bundler.Guards

namespace BlueskyVerif.C15
open BlueskyVerif.Bundler BlueskyVerif.Bundler.Generated

/-- state reached by the history `ops` after `open_run`, with the ghost list of the readings accepted
    into the currently open bundle (a function of the history only, see `acceptedStep`).  The state's
    `out` field holds every document emitted so far, in order. -/
def after (w : World) (cfg : BCfg) (env : List (Obj × Config)) (ops : List Op) : BState × List (Obj × Reading) :=
  runAcc w (openRun cfg 0 env) [] ops

theorem runAcc_state (w : World) (s : BState) (acc : List (Obj × Reading)) (ops : List Op) :
    (runAcc w s acc ops).1 = runState w s ops := by
  induction ops generalizing s acc with
  | nil => rfl
  | cons op ops ih => simp only [runAcc, runState]; exact ih _ _

theorem after_bundleInv (w : World) (cfg : BCfg) (env : List (Obj × Config)) (ops : List Op) :
    BundleInv (after w cfg env ops).1 (after w cfg env ops).2 := by
  apply bundleInv_run
  intro hb
  rw [(openRun_bundling cfg 0 env).1] at hb; cases hb

/-- **Event = exactly the bundled readings.**  After ANY history, if `save` emits an event then that
    event is a bundle event whose data is the dict-merge of exactly the readings accepted since the
    `create` that opened the bundle (and there was at least one). -/
theorem C15_event_keys (w : World) (cfg : BCfg) (env : List (Obj × Config)) (pre : List Op) :
    ∀ e ∈ docsSince (after w cfg env pre).1 (step w (after w cfg env pre).1 .save).st, e.kind = .event →
      e.src = .bundle ∧
      e.data = mergeReadings ((after w cfg env pre).2.map Prod.snd) ∧
      e.keys = (mergeReadings ((after w cfg env pre).2.map Prod.snd)).map Prod.fst ∧
      (after w cfg env pre).2 ≠ [] := by
  intro e he hk
  obtain ⟨descs, ev, hdocs, hkind, hev⟩ := save_spec w (after w cfg env pre).1
  simp only [step] at he
  rw [docsSince_of_append _ _ _ hdocs] at he
  rcases List.mem_append.1 he with h | h
  · have := hkind e h; rw [hk] at this; cases this
  · rcases hev with h0 | ⟨e', n, d, hev', hb, hne, _, _, hsrc, _, _, hdata, hkeys, _, _, _⟩
    · rw [h0] at h; cases h
    · rw [hev'] at h; simp at h; subst h
      obtain ⟨hc, ho⟩ := after_bundleInv w cfg env pre hb
      refine ⟨hsrc, by rw [hdata, hc], by rw [hkeys, hc], ?_⟩
      intro hnil; apply hne; rw [ho, hnil]; rfl

/-- **The descriptor comes first and its data keys match.**  After ANY history, what `save` emits
    is: zero or more descriptors, then at most one event; the event's `descriptor` is the uid of a
    descriptor document of the same stream emitted earlier (by an earlier operation -- it is in the
    output `out` before the `save` -- or just before it in this `save`), and the event's keys equal
    that descriptor's (non-external) data keys. -/
theorem C15_descriptor_first (w : World) (cfg : BCfg) (env : List (Obj × Config)) (pre : List Op) :
    ∃ descs ev, docsSince (after w cfg env pre).1 (step w (after w cfg env pre).1 .save).st = descs ++ ev ∧
      (∀ d ∈ descs, d.kind = .descriptor) ∧
      (ev = [] ∨ ∃ e, ev = [e] ∧ e.kind = .event ∧
        ∃ d ∈ (after w cfg env pre).1.out ++ descs, d.kind = .descriptor ∧ e.descriptor = some d.uid ∧
          d.stream = e.stream ∧
          sameSet (nonStream d.extKeys d.keys) (nonStream d.extKeys e.keys) = true) := by
  obtain ⟨descs, ev, hdocs, hkind, hev⟩ := save_spec w (after w cfg env pre).1
  refine ⟨descs, ev, docsSince_of_append _ _ _ hdocs, hkind, ?_⟩
  rcases hev with h0 | ⟨e, n, d, hev', _, _, _, hk, _, hstream, hdesc, _, _, hsame, hdoc, _⟩
  · exact Or.inl h0
  · refine Or.inr ⟨e, hev', hk, ?_⟩
    have hdocd : KeepsDocs.Documented ((after w cfg env pre).1.out ++ descs) n d := by
      rcases hdoc with h | h
      · have hinv : DInv (after w cfg env pre).1 := by
          unfold after
          rw [runAcc_state]
          apply DInv_run
          intro nd hm
          rw [openRun_descriptors] at hm; cases hm
        exact (hinv (n, d) h).mono (by intro x hx; simp; exact Or.inl hx)
      · exact h.mono (by intro x hx; simp; exact Or.inr hx)
    obtain ⟨doc, hm, h1, h2, h3, h4, h5, _, _, _⟩ := hdocd
    refine ⟨doc, hm, h1, by rw [hdesc, h2], by rw [h3, hstream], ?_⟩
    rw [h4, h5]; exact hsame

/-- **Overlapping data keys are rejected.**  After ANY history that left a bundle open, reading an
    object whose data keys (its `describe()`) overlap those of an object already read in the bundle
    raises `ValueError`, emits nothing and leaves the bundle as it was. -/
theorem C15_collision_rejected (w : World) (cfg : BCfg) (env : List (Obj × Config)) (pre : List Op)
    (o : Obj) (rd : Reading) (hb : (after w cfg env pre).1.bundling = true)
    (hdev : (w.spec o).isDet = false)
    (hcol : ∃ ro ∈ (after w cfg env pre).1.objsRead, overlaps (w.spec ro).keys (w.spec o).keys = true) :
    (step w (after w cfg env pre).1 (.read o rd)).err = some .valueError ∧
    (step w (after w cfg env pre).1 (.read o rd)).st.out = (after w cfg env pre).1.out ∧
    (step w (after w cfg env pre).1 (.read o rd)).st.readCache = (after w cfg env pre).1.readCache ∧
    (step w (after w cfg env pre).1 (.read o rd)).st.objsRead = (after w cfg env pre).1.objsRead ∧
    (step w (after w cfg env pre).1 (.read o rd)).st.bundling = true := by
  generalize hs : (after w cfg env pre).1 = s at *
  have hinv : DescribeInv w s := by
    rw [← hs]; unfold after
    have : ∀ (ops : List Op) (s0 : BState) (acc : List (Obj × Reading)), DescribeInv w s0 →
        DescribeInv w (runAcc w s0 acc ops).1 := by
      intro ops
      induction ops with
      | nil => intro s0 acc h; exact h
      | cons op ops ih => intro s0 acc h; exact ih _ _ (describeInv_step w s0 op h)
    apply this
    have h0 := openRun_bundling cfg 0 env
    refine ⟨fun o ks h => ?_, fun h => ?_⟩
    · rw [h0.2] at h; cases h
    · rw [h0.1] at h; cases h
  obtain ⟨ro, hro, hov⟩ := hcol
  obtain ⟨hok, hcached⟩ := ensureCached_cached w s o hdev
  have hk := keeps_ensureCached w s o false
  have hkd := KeepsDescribeCache.keeps_ensureCached w s o false
  -- ensureCached emits nothing: it keeps the whole output (frame for `out`)
  have hout : (ensureCached w s o false).st.out = s.out := KeepsOut.keeps_ensureCached w s o false
  -- the caches after ensureCached hold the devices' keys for both objects
  obtain ⟨kso, hkso⟩ := (ahas_iff _ _).1 hcached
  have hkso' : kso = (w.spec o).keys := by
    rcases hkd.2 o kso hkso with h | h
    · exact hinv.1 o kso h
    · exact h
  obtain ⟨ksr, hksr⟩ := (ahas_iff _ _).1 (hinv.2 hb ro hro)
  have hksr' : ksr = (w.spec ro).keys := hinv.1 ro ksr hksr
  have hcoll : collides (ensureCached w s o false).st o = true := by
    unfold collides
    simp only [hkso, Option.getD_some, List.any_eq_true]
    refine ⟨ro, by rw [hk.2.1]; exact hro, ?_⟩
    rw [hkd.1 ro ksr hksr, Option.getD_some, hkso', hksr']; exact hov
  simp only [step]
  unfold Bundler.read
  simp only [hb, Bool.not_true, Bool.false_eq_true, if_false]
  rw [Res.andThen_of_ok _ _ hok]
  simp only [hcoll, if_true, Res.fail_err, Res.fail_st]
  exact ⟨trivial, hout, hk.1, hk.2.1, by rw [hk.2.2.2]; exact hb⟩

/-- **checkpoint / configure inside a bundle are rejected** (engine guards `_checkpoint`,
    `_configure`): for EVERY engine state with an open bundle the message raises
    `IllegalMessageSequence`, no document is emitted, no bundler operation is issued, the device's
    `configure` is not called and the bundler is untouched. -/
theorem C15_checkpoint_configure_rejected (w : World) (g : GState) (b : BState) (o : Obj) (c : Config)
    (hr : g.run = some b) (hb : b.bundling = true) :
    ((gstep w g .checkpoint).err = some .illegalMessageSequence ∧ (gstep w g .checkpoint).docs = [] ∧
      (gstep w g .checkpoint).calls = [] ∧ (gstep w g .checkpoint).ops = [] ∧
      (gstep w g .checkpoint).g.run = some b) ∧
    ((gstep w g (.configure o c)).err = some .illegalMessageSequence ∧ (gstep w g (.configure o c)).docs = [] ∧
      (gstep w g (.configure o c)).calls = [] ∧ (gstep w g (.configure o c)).ops = [] ∧
      (gstep w g (.configure o c)).g.run = some b ∧ (gstep w g (.configure o c)).g.envCfg = g.envCfg) := by
  constructor
  · simp [gstep, GMsg.isMessage, GMsg.command, uncacheable, hr, hb, checkpointRejectsBundling, gfail]
  · simp [gstep, GMsg.isMessage, GMsg.command, uncacheable, hr, hb, configureRejectsBundling, gfail]

/-- ... and without an open run `create`, `save`, `drop` are rejected with `IllegalMessageSequence`. -/
theorem C15_no_run_rejected (w : World) (g : GState) (n : Option Name) (hr : g.run = none) :
    (gstep w g (.create n)).err = some .illegalMessageSequence ∧ (gstep w g (.create n)).docs = [] ∧
    (gstep w g .save).err = some .illegalMessageSequence ∧ (gstep w g .save).docs = [] ∧
    (gstep w g .drop).err = some .illegalMessageSequence ∧ (gstep w g .drop).docs = [] := by
  simp [gstep, GMsg.isMessage, GMsg.command, uncacheable, hr, createNeedsRun, saveNeedsRun, dropNeedsRun, gfail]

/-- **drop, and save with no readings, are silent**: for EVERY bundler state `drop` emits no document
    and leaves both counter dictionaries untouched; so does `save` when nothing has been read; and
    after ANY history in which no reading was accepted since the `create`, `save` emits nothing,
    raises nothing and consumes no seq_num. -/
theorem C15_drop_or_empty_save_silent (w : World) (s : BState) :
    ((step w s .drop).st.out = s.out ∧ (step w s .drop).st.seq = s.seq ∧ (step w s .drop).st.seqCopy = s.seqCopy) ∧
    (s.objsRead = [] → (step w s .save).st.out = s.out ∧ (step w s .save).st.seq = s.seq ∧
      (step w s .save).st.seqCopy = s.seqCopy ∧ (s.bundling = true → (step w s .save).err = none)) := by
  constructor
  · simp only [step, drop]; split <;> simp
  · intro h
    simp only [step, save, h, List.isEmpty_nil, saveEmptyReturnsEarly, Bool.and_self, if_true]
    cases hb : s.bundling <;> simp [saveEmptyClearsBundle]

theorem C15_empty_save_silent_history (w : World) (cfg : BCfg) (env : List (Obj × Config)) (pre : List Op)
    (hb : (after w cfg env pre).1.bundling = true) (hacc : (after w cfg env pre).2 = []) :
    (step w (after w cfg env pre).1 .save).st.out = (after w cfg env pre).1.out ∧
    (step w (after w cfg env pre).1 .save).err = none ∧
    (step w (after w cfg env pre).1 .save).st.seq = (after w cfg env pre).1.seq := by
  have ho : (after w cfg env pre).1.objsRead = [] := by
    rw [(after_bundleInv w cfg env pre hb).2, hacc]; rfl
  obtain ⟨h1, h2, _, h4⟩ := (C15_drop_or_empty_save_silent w (after w cfg env pre).1).2 ho
  exact ⟨h1, h4 hb, h2⟩

/-! ### Non-vacuity: concrete histories exercising the hypotheses -/

def wEx : World := [{ name := "a", keys := ["a1", "a2"] }, { name := "b", keys := ["b1"] }, { name := "c", keys := ["a2"] }]
def hEx : List Op := [.create (some "primary"), .read "a" [("a1", 1), ("a2", 2)], .read "b" [("b1", 3)]]

/-- a bundle over two devices is accepted and `save` emits descriptor + event with the four readings -/
example : ((docsSince (after wEx {} [] hEx).1 (step wEx (after wEx {} [] hEx).1 .save).st).map (·.kind)) = [.descriptor, .event] := by decide
example : (after wEx {} [] hEx).2.length = 2 := by decide
/-- the collision hypothesis is satisfiable: `c` overlaps `a` -/
example : (after wEx {} [] hEx).1.bundling = true ∧
    (step wEx (after wEx {} [] hEx).1 (.read "c" [("a2", 9)])).err = some .valueError := by decide

end BlueskyVerif.C15
