/-
C10 -- interrupting a non-resumable section aborts cleanly.

Model: Engine/Model.lean + Engine/Sim.lean.  Both code paths are modelled: the top-of-loop test of `_run`
(pause, deferred pause reaching a checkpoint, suspension already in progress) and `_request_suspend`'s own
test.  Tables used: `Src.transitions` (pausing/suspending -> aborting are edges; `paused` is reachable only
from `pausing`; aborting -> suspending is not an edge), `Src.exitOnAbortLike` (exit ladder of `_run`).
Helper lemmas: Lemmas/C10{Frame,Steps,Sched}.lean.
-/
import BlueskyVerif.Lemmas.C10Sched

namespace BlueskyVerif.C10
open BlueskyVerif.Engine

/-- Top of the loop with a pause or a suspension in progress and NO message cache (after clear_checkpoint):
    FailedPause is stashed, the run permit is set, the state becomes `aborting` (logged edge of the generated
    table), no message is processed, the blocking event is not touched -- and the result is "go round the loop
    again", i.e. the pause sequence (`pauseBlock`) is not entered.  For every such state. -/
theorem C10_loopTop_failed_pause (s : EState) (hst : s.state = .pausing ∨ s.state = .suspending)
    (hc : s.msgCache = none) :
    ∃ s', loopTop s = .loopTop s' ∧ s'.stashed = some .failedPause ∧ s'.permit = true ∧ s'.state = .aborting ∧
      s'.msgs = s.msgs ∧ s'.msgCache = none ∧ s'.pc = s.pc ∧ s'.blockingEvent = s.blockingEvent ∧
      s'.planStack = s.planStack ∧ s'.respStack = s.respStack ∧
      s'.trans = s.trans ++ [(s.state, .aborting)] :=
  loopTop_failedPause s hst hc

/-- `request_suspend` without a cache: FailedPause in the exception slot, call marked interrupted, state
    `aborting`, task cancelled; the engine does not go to `suspending` (that move is refused from `aborting`). -/
theorem C10_request_suspend_failed (s : EState) (f : Nat) (pre post : Option Gen) (j : Option String)
    (hc : s.msgCache = none) (hst : s.state = .running ∨ s.state = .pausing ∨ s.state = .suspending) :
    (requestSuspend s f pre post j).exceptionSlot = some .failedPause ∧
    (requestSuspend s f pre post j).interrupted = true ∧
    (requestSuspend s f pre post j).state = .aborting ∧
    (requestSuspend s f pre post j).cancelPending = true ∧
    (requestSuspend s f pre post j).msgCache = none ∧
    (requestSuspend s f pre post j).msgs = s.msgs :=
  requestSuspend_failed s f pre post j hc hst

/-- The FailedPause -- stored in the slot by `_request_suspend` or stashed by the top of the loop -- is what the
    next resume of the top plan THROWS (the plan's cleanup code observes it); the slot is emptied. -/
theorem C10_failed_pause_is_thrown (s : EState) (r : Resp) (rs : List Resp) (g : Gen) (gs : List Gen)
    (hr : s.respStack = r :: rs) (hp : s.planStack = g :: gs)
    (h : s.exceptionSlot = some .failedPause ∨ (s.exceptionSlot = none ∧ s.stashed = some .failedPause)) :
    afterSleep s = afterResume (logYield (takeResp s r rs) g (.throw .failedPause)) gs (some .failedPause)
      (g.resume (.throw .failedPause)) ∧ (takeResp s r rs).exceptionSlot = none := by
  rcases h with h | ⟨hx, hs⟩
  · obtain ⟨h1, h2⟩ := thrownOf_slot s r rs .failedPause h
    exact ⟨afterSleep_throws s r rs g gs _ hr hp h1, h2⟩
  · refine ⟨afterSleep_throws s r rs g gs _ hr hp (thrownOf_stashed s r rs _ hx hs), ?_⟩
    unfold takeResp; simp only [hx]

/-- FailedPause leaving the loop: exit status `abort` (generated exit ladder of `_run`: this is what the
    engine's cleanup writes into the RunStop of the runs it closes), then the exit sleep and the cleanup. -/
theorem C10_failed_pause_exit_abort (s : EState) :
    (leaveLoop s .failedPause).exitStatus = .abort ∧ (leaveLoop s .failedPause).pc = .exitSleep ∧
      (leaveLoop s .failedPause).exitExc = some .failedPause := ⟨rfl, rfl, rfl⟩

/-- ... and the cleanup ends in `idle`: from `aborting` the final assignment is an edge of the table -/
theorem C10_cleanup_idle : (Src.transitions .aborting).contains .idle = true := by decide

/-- A step of `_run` never ends `paused` without a checkpoint in effect: from ANY state that is not paused (any
    suspension point, any stacks, any plan, a cancellation pending or not, any fuel), if the step ends in
    `paused` then a message cache exists, `_run` sits at its pause point and the blocking event is set. -/
theorem C10_never_paused_without_checkpoint (n : Nat) (s : EState) (h : s.state ≠ .paused)
    (hp : (advance n s).state = .paused) :
    (advance n s).msgCache.isSome = true ∧ (advance n s).pc = .pausedWait ∧ (advance n s).blockingEvent = true :=
  advance_pwc n s h hp

/-- the same along the scheduler: for every plan, device specification, environment script, arrival bound
    and fuel -- whenever the engine is `paused` a message cache exists (so `resume()` has something
    well-defined to replay) and `_run` is at a point where it processes no message -/
theorem C10_paused_implies_checkpoint (maxArr : Nat) (sc : Script) (fuel : Nat) (s0 : EState) (plan : Gen)
    (h0 : s0.state ≠ .paused) : PausedInv (schedule maxArr sc fuel (startCall s0 plan)) :=
  schedule_pausedInv maxArr sc fuel _ (startCall_pausedInv s0 plan h0)

theorem C10_paused_implies_checkpoint_resume (maxArr : Nat) (sc : Script) (fuel : Nat) (s : EState)
    (h : PausedInv s) : PausedInv (schedule maxArr sc fuel (startResume s)) :=
  schedule_pausedInv maxArr sc fuel _ (startResume_pausedInv s h)

theorem C10_paused_implies_checkpoint_terminate (maxArr : Nat) (sc : Script) (fuel : Nat) (s : EState)
    (kind : String) (h : PausedInv s) : PausedInv (schedule maxArr sc fuel (startTerminate s kind)) :=
  schedule_pausedInv maxArr sc fuel _ (startTerminate_pausedInv s kind h)

/-- The pause path end to end: a pause was requested (`pausing`, cancellation pending at the loop-top sleep)
    while NO cache exists.  The cancellation clears the permit, the top of the loop turns the pause into
    FailedPause / `aborting`, and the loop continues from there: the step equals the run of the loop from a
    state with FailedPause stashed -- it does not stop at the pause point. -/
theorem C10_pause_without_cache_aborts (n : Nat) (s : EState)
    (hpc : s.pc = .loopSleep) (hst : s.state = .pausing) (hcancel : s.cancelPending = true)
    (hc : s.msgCache = none) :
    ∃ s', advance (n + 2) s = runLoop (n + 1) s' ∧ s'.stashed = some .failedPause ∧ s'.state = .aborting ∧
      s'.permit = true ∧ s'.msgs = s.msgs ∧ s'.msgCache = none ∧ s'.blockingEvent = s.blockingEvent := by
  obtain ⟨rs, hfin⟩ := fin_eq { s with cancelPending := false, permit := false } .none
  obtain ⟨s', h1, h2, h3, h4, h5, h6, _, h8, _⟩ :=
    loopTop_failedPause (fin { s with cancelPending := false, permit := false } .none)
      (by rw [hfin]; exact Or.inl hst) (by rw [hfin]; exact hc)
  refine ⟨s', ?_, h2, h4, h3, ?_, h6, ?_⟩
  · unfold advance
    rw [hcancel, advanceAt_loopSleep_cancel _ _ (show ({ s with cancelPending := false } : EState).pc = _ from hpc),
      hCancel_pausing _ _ (show ({ s with cancelPending := false } : EState).state = _ from hst)]
    show runLoop (n + 2) _ = _
    exact runLoop_continue _ _ _ h1
  · rw [h5, hfin]
  · rw [h8, hfin]

/-! Non-vacuity -/
example : (Src.transitions .pausing).contains .aborting = true := by decide
example : ¬ (Src.transitions .aborting).contains .suspending = true := by decide
example : (cmdClearCheckpoint { msgCache := some [{ cmd := "null" }] }).1.msgCache = none := by decide

end BlueskyVerif.C10
