/-
C40 -- interruption records are complete and uniquely numbered.

Model: Engine/Model.lean (`recordInterruption`, `Bundler.rewind`, `Bundler.commit`, `cmdOpenRun`,
`closeRunDoc`, `requestPause`, `cmdStartSuspender`) and Engine/Sim.lean (`startResume`).  The fact that
`record_interruption` commits the counter it used (`Src.bundlerCommits`, fix commit "rewind no longer
rolls back seq_nums of events that are never re-taken") is GENERATED from bundlers.py on every run:
if the commit disappears from the source, `record_interruption_commits` (Lemmas/C40.lean, `by decide`)
no longer checks and every numbering theorem below breaks with it.
-/
import BlueskyVerif.Lemmas.C40Engine

namespace BlueskyVerif.C40
open BlueskyVerif.Engine

/-! ## record_interruption -/

/-- With the interruptions descriptor present, `record_interruption(content)` emits exactly one
    document: an event of this run in stream "interruptions" carrying the stream's counter and the
    text; the counter advances by one and the new value is committed to the checkpoint copy. -/
theorem record_interruption_emits_one_event (s : EState) (b : Bundler) (c : String) (h : b.recordInt = true) :
    (recordInterruption s b c).1.docs = s.docs ++
      [{ kind := "event", run := b.runId, stream := "interruptions", seq := b.counter "interruptions", note := c }] ∧
    (recordInterruption s b c).2.counter "interruptions" = b.counter "interruptions" + 1 ∧
    assocGet "interruptions" (recordInterruption s b c).2.seqCopy = some (b.counter "interruptions" + 1) := by
  refine ⟨?_, ?_, ?_⟩
  · rw [recordInterruption_docs, intDocs, if_pos h]; rfl
  · rw [recordInterruption_bundler, intBundler, if_pos h]
    unfold Bundler.commit Bundler.counter
    simp [bundlerCommits_nonempty, assocGet_assocSet_same]
  · rw [recordInterruption_bundler, intBundler, if_pos h]
    unfold Bundler.commit
    simp [bundlerCommits_nonempty, assocGet_assocSet_same]

/-- Without the descriptor (recording disabled) nothing happens at all. -/
theorem record_interruption_disabled (s : EState) (b : Bundler) (c : String) (h : b.recordInt = false) :
    recordInterruption s b c = (s, b) := by
  simp [recordInterruption, h]

/-- `for current_run in self._run_bundlers.values(): current_run.record_interruption(content)`:
    exactly one event per bundler with recording, in bundler order, nothing else; every bundler goes
    through `record_interruption` exactly once. -/
theorem one_event_per_recording_run (s : EState) (c : String) :
    (forBundlers s (fun s b => recordInterruption s b c)).docs = s.docs ++ s.bundlers.flatMap (fun kb => intDocs c kb.2) ∧
    (forBundlers s (fun s b => recordInterruption s b c)).bundlers = mapB intBundler s.bundlers :=
  ⟨forBundlers_record_docs s c, forBundlers_record_bundlers s c⟩

/-! ## the three callers -/

/-- an accepted immediate pause request records "pause" once per open run and emits nothing else -/
theorem pause_request_records_once_per_run (s s' : EState) (h : requestPause s false = .ok s') :
    s'.docs = s.docs ++ s.bundlers.flatMap (fun kb => intDocs "pause" kb.2) ∧
    s'.bundlers = mapB intBundler s.bundlers := by
  unfold requestPause at h
  split at h
  · cases h
  · simp only [Bool.false_eq_true, if_false] at h
    split at h
    · cases h
    · rename_i s1 hs
      cases h
      have hd := setState_docs hs
      have hb := setState_bundlers hs
      refine ⟨?_, ?_⟩
      · show (forBundlers s1 _).docs = _
        rw [forBundlers_record_docs, hd, hb]
      · show (forBundlers s1 _).bundlers = _
        rw [forBundlers_record_bundlers, hb]; rfl

/-- a deferred pause request records nothing (the record is written when the checkpoint turns it
    into an immediate request) -/
theorem deferred_pause_request_records_nothing (s s' : EState) (h : requestPause s true = .ok s') :
    s'.docs = s.docs ∧ s'.bundlers = s.bundlers := by
  unfold requestPause at h
  split at h
  · cases h
  · simp only [if_true] at h
    cases h; exact ⟨rfl, rfl⟩

/-- `RE.resume()` records "resume" once per open run, emits nothing else, and only then rewinds
    (so the rewind meets a committed counter: `resume_keeps_numbering`) -/
theorem resume_records_once_per_run (s : EState) :
    (startResume s).docs = s.docs ++ s.bundlers.flatMap (fun kb => intDocs "resume" kb.2) ∧
    (startResume s).bundlers =
      mapB (fun b => if (s.msgCache.getD []).isEmpty then intBundler b else (intBundler b).rewind) s.bundlers := by
  exact ⟨startResume_docs s, startResume_bundlers s⟩

theorem resume_keeps_numbering (s : EState) :
    ∃ F : Bundler → Bundler, (startResume s).bundlers = mapB F s.bundlers ∧
      ∀ b ok n, IInv ok b n → IInv true (F b) (n + 1) := by
  refine ⟨_, (resume_records_once_per_run s).2, ?_⟩
  intro b ok n h
  split
  · exact h.record
  · exact h.record.rewind

/-- `_start_suspender` records the justification (or "suspended") once per open run and emits nothing
    else; afterwards the checkpoint may be reset (NoReplayAllowed from a pause hook) and the bundlers
    are rewound -- after the commit. -/
theorem start_suspender_records_once_per_run (s : EState) (m : Msg) (rq : SuspReq)
    (h : s.suspReqs[(m.iargs.headD 0).toNat]? = some rq) :
    (cmdStartSuspender s m).1.docs = s.docs ++ s.bundlers.flatMap (fun kb => intDocs (rq.just.getD "suspended") kb.2) ∧
    ∃ (j : Nat) (rw : Bool), (cmdStartSuspender s m).1.bundlers =
      mapB (fun b => if rw then (resetN j (intBundler b)).rewind else resetN j (intBundler b)) s.bundlers := by
  exact ⟨cmdStartSuspender_docs s m rq h, cmdStartSuspender_bundlers s m rq h⟩

theorem start_suspender_keeps_numbering (s : EState) (m : Msg) (rq : SuspReq)
    (h : s.suspReqs[(m.iargs.headD 0).toNat]? = some rq) :
    ∃ F : Bundler → Bundler, (cmdStartSuspender s m).1.bundlers = mapB F s.bundlers ∧
      ∀ b ok n, IInv ok b n → IInv true (F b) (n + 1) := by
  obtain ⟨j, rw, hb⟩ := (start_suspender_records_once_per_run s m rq h).2
  refine ⟨_, hb, ?_⟩
  intro b ok n hi
  split
  · exact (hi.record.resetN j).rewind
  · exact hi.record.resetN j

/-- a `_start_suspender` message that names no pending request does nothing (defensive branch) -/
theorem start_suspender_unknown_request (s : EState) (m : Msg) (h : s.suspReqs[(m.iargs.headD 0).toNat]? = none) :
    (cmdStartSuspender s m).1 = s := by
  unfold cmdStartSuspender; rw [h]

/-! ## numbers are never reused -/

/-- MAIN (numbering).  Take a bundler whose interruptions stream has handed out `n` numbers so far,
    and ANY sequence of the operations that touch sequence counters -- record_interruption, rewind,
    reset_checkpoint_state, clear_checkpoint, events and descriptors of other streams (with or
    without commit) -- of any length, in any order, provided a rewind never meets a cleared copy (the
    engine rewinds only right after `record_interruption`, see `resume_keeps_numbering`,
    `start_suspender_keeps_numbering`).  Then the seq_nums of the interruption events written for this
    run are extended by exactly n+1, n+2, ..., one per `record_interruption`, nothing else writes into
    the stream, and the counter ends at n + (number of records) + 1. -/
theorem C40_unique_seq (ops : List BOp) (s : EState) (b : Bundler) (ok : Bool) (n : Nat)
    (h : IInv ok b n) (hl : legal ok ops) :
    intSeqs b.runId (runOps (s, b) ops).1.docs = intSeqs b.runId s.docs ++ List.range' (n + 1) (nRecords ops) ∧
    (runOps (s, b) ops).2.counter "interruptions" = n + nRecords ops + 1 ∧
    (runOps (s, b) ops).2.runId = b.runId := by
  obtain ⟨hid, ⟨ok', hinv⟩, hseq⟩ := runOps_spec ops (s, b) ok n h hl
  exact ⟨hseq, hinv.counter, hid⟩

/-- `open_run`: the interruptions descriptor (and with it the stream) is created iff
    `record_interruptions` is set; the new bundler starts the numbering at 1 -/
theorem open_run_creates_stream_iff_recording (s : EState) (m : Msg) (h : getBundler s m = none) :
    ∃ b : Bundler,
      (cmdOpenRun s m).1.bundlers = s.bundlers ++ [(runKey m, b)] ∧ b.runId = s.nextRun ∧
      b.recordInt = s.recordInterruptions ∧
      (cmdOpenRun s m).1.docs = s.docs ++ [{ kind := "start", run := s.nextRun, seq := s.scanId + 1 }] ++
        (if s.recordInterruptions then
          [{ kind := "descriptor", run := s.nextRun, stream := "interruptions", keys := ["interruption"] }] else []) ∧
      (s.recordInterruptions = true → IInv false b 0) ∧
      (s.recordInterruptions = false → NoStream b) := by
  cases hr : s.recordInterruptions
  · obtain ⟨hb, hd⟩ := cmdOpenRun_off s m h hr
    refine ⟨_, hb, rfl, rfl, ?_, ?_, ?_⟩
    · rw [hd]; simp
    · intro e; cases e
    · intro _
      exact { off := rfl, seq := by simp [keys], copy := by simp [keys], desc := by simp [keys] }
  · obtain ⟨hb, hd⟩ := cmdOpenRun_on s m h hr
    refine ⟨_, hb, rfl, rfl, ?_, ?_, ?_⟩
    · rw [hd]; simp
    · intro _
      exact { on := rfl, seq := by simp [assocGet], nd := by simp [keys], ndc := by simp [keys], copy := fun e => by cases e }
    · intro e; cases e

/-- `close_run` writes one RunStop whose `num_events['interruptions']` is the counter minus one =
    the number of interruption events handed out -/
theorem close_run_reports_count (s : EState) (b : Bundler) (e r : String) (ok : Bool) (n : Nat) (h : IInv ok b n) :
    (closeRunDoc s b e r).1.docs = s.docs ++ [stopDoc b e r] ∧
    (stopDoc b e r).kind = "stop" ∧ (stopDoc b e r).run = b.runId ∧
    assocGet "interruptions" (stopDoc b e r).numEvents = some n := by
  refine ⟨closeRunDoc_docs s b e r, rfl, rfl, ?_⟩
  simp only [stopDoc]
  rw [assocGet_map_val "interruptions" (fun v => v - 1), h.seq]
  rfl

/-- MAIN (one run, recording enabled): from `open_run` through any legal operation sequence to
    `close_run`: the interruption events of the run carry exactly the seq_nums 1, 2, ..., N in this
    order (N = number of `record_interruption` calls), without repeats, and the RunStop reports N. -/
theorem C40_run_numbering (s0 : EState) (m : Msg) (h0 : getBundler s0 m = none) (hrec : s0.recordInterruptions = true)
    (b0 : Bundler) (hb0 : (cmdOpenRun s0 m).1.bundlers = s0.bundlers ++ [(runKey m, b0)])
    (s : EState) (hfresh : intSeqs b0.runId s.docs = [])
    (ops : List BOp) (hl : legal false ops) (e r : String) :
    let p := runOps (s, b0) ops
    intSeqs b0.runId p.1.docs = List.range' 1 (nRecords ops) ∧
    (intSeqs b0.runId p.1.docs).Nodup ∧
    assocGet "interruptions" (stopDoc p.2 e r).numEvents = some (nRecords ops) ∧
    (stopDoc p.2 e r).run = b0.runId := by
  obtain ⟨b, hb, _, _, _, hinv, _⟩ := open_run_creates_stream_iff_recording s0 m h0
  have hbb : b = b0 := by
    rw [hb] at hb0
    have := List.append_cancel_left hb0
    simpa using this
  subst hbb
  have hi := hinv hrec
  obtain ⟨hid, ⟨ok', hinv'⟩, hseq⟩ := runOps_spec ops (s, b) false 0 hi hl
  simp only [] at hid hinv' hseq ⊢
  rw [hfresh, List.nil_append, Nat.zero_add] at hseq
  rw [Nat.zero_add] at hinv'
  refine ⟨hseq, ?_, ?_, ?_⟩
  · rw [hseq]; exact List.nodup_range'
  · simp only [stopDoc]; rw [assocGet_map_val "interruptions" (fun v => v - 1), hinv'.seq]; rfl
  · exact hid

/-- MAIN (recording disabled): from `open_run` with `record_interruptions = False` through any
    operation sequence to `close_run`: no event is ever written into a stream called "interruptions"
    and the RunStop has no such entry (provided the plan itself does not call a stream that way). -/
theorem C40_disabled_no_stream (s0 : EState) (m : Msg) (h0 : getBundler s0 m = none) (hrec : s0.recordInterruptions = false)
    (b0 : Bundler) (hb0 : (cmdOpenRun s0 m).1.bundlers = s0.bundlers ++ [(runKey m, b0)])
    (s : EState) (ops : List BOp) (hn : ∀ op ∈ ops, op.nameOk) (e r : String) :
    let p := runOps (s, b0) ops
    (∀ rid, intSeqs rid p.1.docs = intSeqs rid s.docs) ∧
    assocGet "interruptions" (stopDoc p.2 e r).numEvents = none ∧
    (∀ c, recordInterruption p.1 p.2 c = p) := by
  obtain ⟨b, hb, _, _, _, _, hno⟩ := open_run_creates_stream_iff_recording s0 m h0
  have hbb : b = b0 := by
    rw [hb] at hb0
    have := List.append_cancel_left hb0
    simpa using this
  subst hbb
  have := NoStream.runOps ops (s, b) (hno hrec) hn
  refine ⟨this.2, ?_, fun c => record_interruption_disabled _ _ c this.1.off⟩
  simp only [stopDoc]
  rw [assocGet_map_val "interruptions" (fun v => v - 1), assocGet_none_of_not_mem _ _ this.1.seq]
  rfl

/-! ## Non-vacuity: a concrete history with two interruptions before any checkpoint, a rewind, a
    bundle, a third interruption, a checkpoint reset and another rewind. -/
def demoOps : List BOp :=
  [.record "pause", .record "resume", .rewind, .prepareOther "primary" ["d1"], .emitOther "primary" [("d1", 1)] false,
   .record "beam", .resetCheckpoint, .rewind, .clearCheckpoint, .record "pause"]

example : legal false demoOps := by simp [demoOps, legal]
example : nRecords demoOps = 4 := rfl
example : ¬ legal false [.rewind] := by simp [legal]

end BlueskyVerif.C40
