/-
C07 -- RunEngine lifecycle never takes an illegal transition or gets stuck.

Model: Engine/Model.lean + Engine/Sim.lean (the `_run` coroutine as a program-counter machine, the
request coroutines, the scheduler that plays ANY environment script).  The transition table
`Src.transitions` is GENERATED from RunEngineStateMachine.Meta.transitions on every run.
-/
import BlueskyVerif.Lemmas.EngineSched

namespace BlueskyVerif.C07
open BlueskyVerif.Engine

/-- every logged state change is an edge of the table, the log is a connected path, and the current
    state is its end point -- for EVERY engine state (the state can only be changed by `setState`,
    which carries the proof along: `EState.lifeOk`) -/
theorem path_edges {cur : St} {log : List (St × St)} (h : LifePath cur log) :
    ∀ p ∈ log, (Src.transitions p.1).contains p.2 = true := by
  induction h with
  | nil => intro p hp; cases hp
  | snoc _ hc ih =>
    intro p hp
    rcases List.mem_append.mp hp with hp | hp
    · exact ih p hp
    · simp only [List.mem_singleton] at hp; subst hp; exact hc

theorem state_follows_table (s : EState) : ∀ p ∈ s.trans, (Src.transitions p.1).contains p.2 = true :=
  path_edges s.lifeOk

theorem path_end {cur : St} {log : List (St × St)} (h : LifePath cur log) :
    (log = [] ∧ cur = .idle) ∨ (∃ l a, log = l ++ [(a, cur)]) := by
  cases h with
  | nil => exact Or.inl ⟨rfl, rfl⟩
  | snoc _ _ => exact Or.inr ⟨_, _, rfl⟩

/-- the current state is where the log ends (or `idle` when nothing happened yet) -/
theorem state_is_end_of_log (s : EState) :
    (s.trans = [] ∧ s.state = .idle) ∨ (∃ l a, s.trans = l ++ [(a, s.state)]) := path_end s.lifeOk

/-- consecutive log entries chain: each change starts where the previous one ended -/
theorem path_chain {cur : St} {log : List (St × St)} (h : LifePath cur log) :
    ∀ l a b c d r, log = l ++ [(a, b), (c, d)] ++ r → b = c := by
  induction h with
  | nil => intro l a b c d r hl; simp at hl
  | @snoc cur log new hp hc ih =>
    intro l a b c d r hl
    rcases List.eq_nil_or_concat r with hr | ⟨r', x, hr⟩
    · subst hr
      simp only [List.append_nil] at hl
      have h1 : log ++ [(cur, new)] = (l ++ [(a, b)]) ++ [(c, d)] := by simpa using hl
      have h2 := List.append_inj' h1 rfl
      have hcd : (cur, new) = (c, d) := by simpa using h2.2
      have hlog : log = l ++ [(a, b)] := h2.1
      rcases path_end hp with ⟨hnil, _⟩ | ⟨l', a', hl'⟩
      · rw [hnil] at hlog; simp at hlog
      · rw [hl'] at hlog
        have := List.append_inj' hlog rfl
        have hab : (a', cur) = (a, b) := by simpa using this.2
        cases hab; cases hcd; rfl
    · subst hr
      have h1 : log ++ [(cur, new)] = (l ++ [(a, b), (c, d)] ++ r') ++ [x] := by simpa using hl
      have h2 := List.append_inj' h1 rfl
      exact ih l a b c d r' h2.1

theorem log_is_connected (s : EState) :
    ∀ l a b c d r, s.trans = l ++ [(a, b), (c, d)] ++ r → b = c := path_chain s.lifeOk

/-- From every transient state the table allows the final `idle` assignment of `_run`'s cleanup
    (finite check over the GENERATED table; this is what fails without the fix of finding F3). -/
theorem idle_allowed_from_every_active_state :
    ∀ st : St, st ≠ .idle → st ≠ .panicked → (Src.transitions st).contains .idle = true := by
  intro st h1 h2
  cases st <;> first | (exact absurd rfl h1) | (exact absurd rfl h2) | decide

/-- hence the cleanup block always ends in `idle`, and never raises, when it starts in an active state -/
theorem cleanup_reaches_idle (s : EState) (h1 : s.state ≠ .idle) (h2 : s.state ≠ .panicked) :
    (cleanup s).state = .idle ∧ (cleanup s).cleanupExc = s.cleanupExc := by
  have hc := cleanupBody_ctl s
  have hst : (cleanupBody s).state = s.state := congrArg Ctl.state hc
  have hce : (cleanupBody s).cleanupExc = s.cleanupExc := congrArg Ctl.cleanupExc hc
  have hall : (Src.transitions (cleanupBody s).state).contains .idle = true := by
    rw [hst]; exact idle_allowed_from_every_active_state s.state h1 h2
  unfold cleanup
  simp only []
  have hset : ∃ s', setState (cleanupBody s) .idle = .ok s' ∧ s'.state = .idle ∧ s'.cleanupExc = (cleanupBody s).cleanupExc := by
    unfold setState
    rw [dif_pos hall]
    exact ⟨_, rfl, rfl, rfl⟩
  obtain ⟨s', hs', h3, h4⟩ := hset
  rw [hs']
  exact ⟨h3, h4.trans hce⟩

/-- MAIN: for every plan (any generator behaviour), every device specification, every environment
    script (requests, status completions, monitor updates at any suspension point of `_run`), every
    arrival bound and fuel: when `RE(plan)` hands control back to its caller, the engine is `paused`
    at its pause point, or the task is over and the state is `idle` (the residual alternative --
    the final `idle` assignment itself was refused -- is excluded by `cleanup_reaches_idle`). -/
theorem call_returns_idle_or_paused (maxArr : Nat) (sc : Script) (fuel : Nat) (s0 : EState) (plan : Gen) :
    RetOK (schedule maxArr sc fuel (startCall s0 plan)) :=
  schedule_retok maxArr sc fuel _ (retok_of_nobe rfl)

theorem resume_returns_idle_or_paused (maxArr : Nat) (sc : Script) (fuel : Nat) (s : EState) :
    RetOK (schedule maxArr sc fuel (startResume s)) :=
  schedule_retok maxArr sc fuel _ (retok_of_nobe rfl)

theorem terminate_returns_idle_or_paused (maxArr : Nat) (sc : Script) (fuel : Nat) (s : EState) (kind : String) :
    RetOK (schedule maxArr sc fuel (startTerminate s kind)) :=
  schedule_retok maxArr sc fuel _ (retok_of_nobe rfl)

/-- a refused request changes neither the state nor the transition log (e.g. `aborting -> suspending`) -/
theorem refused_transition_changes_nothing (s : EState) (new : St)
    (h : (Src.transitions s.state).contains new = false) : setState s new = .error .transitionError := by
  unfold setState
  rw [dif_neg (by rw [h]; exact Bool.false_ne_true)]

/-! Non-vacuity: a concrete run that pauses and one that ends idle. -/
example : (Src.transitions .running).contains .pausing = true := by decide
example : ¬ (Src.transitions .aborting).contains .suspending = true := by decide

end BlueskyVerif.C07
