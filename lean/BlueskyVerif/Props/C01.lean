/-
C01 -- every opened run is a well-formed document stream, whatever happens.

Model: Engine/Model.lean + Engine/Sim.lean (`_run` as a program-counter machine, the request coroutines,
the scheduler that plays ANY environment script against ANY plan).  Facts generated from the source on
every run and used here: `Src.finallyClosesRuns` (the outer `finally` of `_run` closes every open run),
`Src.registry`, `Src.resetsCheckpoint`, `Src.bundlerCommits`, the transition table.

The invariant `Inv` (Lemmas/C01View.lean: `DocInv` on the documents emitted so far, the next fresh run index,
the engine callbacks registered on devices and the registered bundlers) is preserved by every command
handler, every block of `_run`, every request and the scheduler (Lemmas/C01*.lean); here are its consequences.
Document uids and event-model schemas are not modelled: uid uniqueness and schema validity are TESTS on the
real documents (harness/props/C01.py: `dup_uids`, `schema_errors`).
-/
import BlueskyVerif.Lemmas.C01Sched
import BlueskyVerif.Lemmas.C01Spec

namespace BlueskyVerif.C01
open BlueskyVerif.Engine

/-- every started run has been stopped -/
def allStopped (ds : List Doc) : Prop := ∀ r, started ds r → stopped ds r

/-- exactly one RunStop for every RunStart -/
def closedOnce (ds : List Doc) : Prop :=
  ∀ d ∈ ds, d.kind = "start" → ds.countP (isStopOf d.run) = 1

theorem inv_wf {s : EState} (h : Inv s) : wfDocs s.docs := wfDocs_of_WF h.1.wf

theorem closedOnce_of {s : EState} (h : Inv s) (hb : s.bundlers = []) : allStopped s.docs ∧ closedOnce s.docs := by
  have h0 : DocInv s.docs s.nextRun (subsOf s) [] := by
    have := h.1
    unfold dv bvs at this
    simpa [hb] using this
  have hall : allStopped s.docs := h0.all_stopped
  refine ⟨hall, ?_⟩
  intro d hd hk
  have h1 := stopped_countP (hall d.run ⟨d, hd, hk, rfl⟩)
  have h2 := h0.wf.stops_le_one d.run
  omega

/-! ## local theorems: the operations that open and close runs -/

/-- `open_run` on a key that is not open: exactly the RunStart with the fresh run index is emitted (plus the
    `interruptions` descriptor of that run when interruptions are recorded), the counter moves on, and a new
    open bundler for that run is registered under the key -/
theorem C01_open_run_emits_fresh_start (s : EState) (m : Msg) (hn : ¬ (getBundler s m).isSome = true) :
    ∃ (b : Bundler) (start : Doc) (extra : List Doc),
      (cmdOpenRun s m).1.docs = s.docs ++ [start] ++ extra ∧ (cmdOpenRun s m).1.nextRun = s.nextRun + 1 ∧
      (cmdOpenRun s m).1.bundlers = s.bundlers ++ [(runKey m, b)] ∧
      start.kind = "start" ∧ start.run = s.nextRun ∧ b.runId = s.nextRun ∧ b.runOpen = true ∧
      (∀ d ∈ extra, d.kind = "descriptor" ∧ d.run = s.nextRun) := by
  obtain ⟨b, start, extra, e1, e2, _, e4, _, k1, k2, k3, k4, _, _, hx⟩ := cmdOpenRun_shape s m hn
  refine ⟨b, start, extra, e1, e2, e4, k1, k2, k3, k4, ?_⟩
  rcases hx with ⟨_, r2⟩ | ⟨_, d, r2, d1, d2, _⟩
  · subst r2; intro d hd; cases hd
  · subst r2; intro d' hd'; simp only [List.mem_singleton] at hd'; subst hd'; exact ⟨d1, d2⟩

theorem C01_open_run_preserves (s : EState) (m : Msg) (h : Inv s) : Inv (cmdOpenRun s m).1 := inv_cmdOpenRun s m h

theorem C01_close_run_preserves (s : EState) (m : Msg) (h : Inv s) : Inv (cmdCloseRun s m).1 := inv_cmdCloseRun s m h

/-- `close_run` on an open key emits the RunStop of that key's run and unregisters the bundler -/
theorem C01_close_run_emits_stop (s : EState) (m : Msg) (b : Bundler) (hb : getBundler s m = some b) (ho : b.runOpen = true) :
    ∃ stop, (cmdCloseRun s m).1.docs = s.docs ++ [stop] ∧ stop.kind = "stop" ∧ stop.run = b.runId ∧
      keysOf (cmdCloseRun s m).1 = (assocErase (runKey m) s.bundlers).map (·.1) := by
  have hdocs : ∀ (s : EState) (b : Bundler), (suspendMonitors s b).1.docs = s.docs := by
    intro s b
    unfold suspendMonitors
    simp only []
    generalize b.monitors = l
    induction l generalizing s with
    | nil => rfl
    | cons a l ih => rw [List.foldl_cons, ih]; rfl
  unfold cmdCloseRun
  simp only [hb, ho, Bool.not_true, Bool.false_eq_true, if_false]
  refine ⟨{ kind := "stop", run := b.runId, exit := m.name.getD "success", reason := "",
            numEvents := b.seq.map (fun (k, v) => (k, v - 1)) }, ?_, rfl, rfl, ?_⟩
  · split
    · have e := congrArg DV.docs (dv_resetCheckpointMeth
        { (closeRunDoc s b (m.name.getD "success") "").1 with
          bundlers := assocErase (runKey m) (closeRunDoc s b (m.name.getD "success") "").1.bundlers })
      refine Eq.trans e ?_
      show (suspendMonitors s b).1.docs ++ [_] = s.docs ++ [_]
      rw [hdocs]
    · show (suspendMonitors s b).1.docs ++ [_] = s.docs ++ [_]
      rw [hdocs]
  · split
    · have e := congrArg DV.keys (dv_resetCheckpointMeth
        { (closeRunDoc s b (m.name.getD "success") "").1 with
          bundlers := assocErase (runKey m) (closeRunDoc s b (m.name.getD "success") "").1.bundlers })
      refine Eq.trans e ?_
      show List.map _ (assocErase (runKey m) (closeRunDoc s b (m.name.getD "success") "").1.bundlers) = _
      rw [closeRunDoc_bundlers]
    · show List.map _ (assocErase (runKey m) (closeRunDoc s b (m.name.getD "success") "").1.bundlers) = _
      rw [closeRunDoc_bundlers]

/-- RunBundler.close_run on an open bundler: one RunStop for its run, the bundler is closed afterwards -/
theorem C01_closeRunDoc (s : EState) (b : Bundler) (e r : String) :
    (∃ stop, (closeRunDoc s b e r).1.docs = (suspendMonitors s b).1.docs ++ [stop] ∧ stop.kind = "stop" ∧ stop.run = b.runId) ∧
    (closeRunDoc s b e r).2.runOpen = false ∧ (closeRunDoc s b e r).2.runId = b.runId :=
  ⟨⟨_, rfl, rfl, rfl⟩, rfl, rfl⟩

/-- the outer `finally` of `_run` (depends on the extracted fact `Src.finallyClosesRuns`): every run that is
    still open gets its RunStop, no bundler stays registered, hence every RunStart has exactly one RunStop -/
theorem C01_cleanup_closes_every_open_run (s : EState) (h : Inv s) :
    Inv (cleanup s) ∧ (cleanup s).bundlers = [] ∧ allStopped (cleanup s).docs ∧ closedOnce (cleanup s).docs := by
  obtain ⟨h1, h2⟩ := cleanup_inv s h
  exact ⟨h1, h2, closedOnce_of h1 h2⟩

/-! ## global theorems -/

/-- MAIN (safety).  For every plan (any generator behaviour), every environment script (requests, status
    completions, monitor updates at any suspension point of `_run`), every arrival bound and fuel, from every
    engine state that satisfies the invariant (e.g. the initial one, or the state left by an earlier call):
    the documents emitted up to the moment `RE(plan)` hands control back form a well-formed stream. -/
theorem C01_safety (maxArr : Nat) (sc : Script) (fuel : Nat) (s0 : EState) (plan : Gen) (h0 : Inv s0) :
    wfDocs (schedule maxArr sc fuel (startCall s0 plan)).docs :=
  inv_wf (schedule_res maxArr sc fuel _ (startCall_res s0 plan h0)).1

theorem C01_safety_from_initial_state (devSpecs : List DevSpec) (ri : Bool) (maxArr : Nat) (sc : Script) (fuel : Nat)
    (plan : Gen) :
    wfDocs (schedule maxArr sc fuel (startCall { devSpecs := devSpecs, recordInterruptions := ri } plan)).docs :=
  C01_safety maxArr sc fuel _ plan (inv_init devSpecs ri)

/-- the invariant itself survives the call, so the next call / resume starts from it again -/
theorem C01_invariant_after_call (maxArr : Nat) (sc : Script) (fuel : Nat) (s0 : EState) (plan : Gen) (h0 : Inv s0) :
    Inv (schedule maxArr sc fuel (startCall s0 plan)) :=
  (schedule_res maxArr sc fuel _ (startCall_res s0 plan h0)).1

/-- MAIN (closure).  When the call hands back with the `_run` task over (the engine is idle again), every run
    started so far has exactly one RunStop and no bundler is registered. -/
theorem C01_closed_when_idle (maxArr : Nat) (sc : Script) (fuel : Nat) (s0 : EState) (plan : Gen) (h0 : Inv s0)
    (hfin : (schedule maxArr sc fuel (startCall s0 plan)).pc = .finished) :
    (schedule maxArr sc fuel (startCall s0 plan)).bundlers = [] ∧
    allStopped (schedule maxArr sc fuel (startCall s0 plan)).docs ∧
    closedOnce (schedule maxArr sc fuel (startCall s0 plan)).docs := by
  have hr := schedule_res maxArr sc fuel _ (startCall_res s0 plan h0)
  exact ⟨hr.2 hfin, closedOnce_of hr.1 (hr.2 hfin)⟩

/-- the same after `RE.resume()` and after abort()/stop()/halt() issued while paused -/
theorem C01_resume (maxArr : Nat) (sc : Script) (fuel : Nat) (s : EState) (h : Inv s) (hp : s.pc ≠ .finished) :
    wfDocs (schedule maxArr sc fuel (startResume s)).docs ∧
    ((schedule maxArr sc fuel (startResume s)).pc = .finished →
      allStopped (schedule maxArr sc fuel (startResume s)).docs ∧ closedOnce (schedule maxArr sc fuel (startResume s)).docs) := by
  have hr := schedule_res maxArr sc fuel _ (startResume_res s (res_of_live h hp))
  exact ⟨inv_wf hr.1, fun hfin => closedOnce_of hr.1 (hr.2 hfin)⟩

theorem C01_terminate (maxArr : Nat) (sc : Script) (fuel : Nat) (s : EState) (kind : String) (h : Inv s)
    (hp : s.pc ≠ .finished) :
    wfDocs (schedule maxArr sc fuel (startTerminate s kind)).docs ∧
    ((schedule maxArr sc fuel (startTerminate s kind)).pc = .finished →
      allStopped (schedule maxArr sc fuel (startTerminate s kind)).docs ∧
      closedOnce (schedule maxArr sc fuel (startTerminate s kind)).docs) := by
  have hr := schedule_res maxArr sc fuel _ (startTerminate_res s kind (res_of_live h hp))
  exact ⟨inv_wf hr.1, fun hfin => closedOnce_of hr.1 (hr.2 hfin)⟩

/-- the whole scenario function that the correspondence run executes (`RE(plan)` followed by a decision
    resume/abort/stop/halt after every pause): for EVERY scenario -/
theorem C01_simulate (sc : Scenario) :
    wfDocs (simulate sc).1.docs ∧
    ((simulate sc).1.pc = .finished → allStopped (simulate sc).1.docs ∧ closedOnce (simulate sc).1.docs) := by
  have hr := simulate_res sc
  exact ⟨inv_wf hr.1, fun hfin => closedOnce_of hr.1 (hr.2 hfin)⟩

/-- one RunStart and at most one RunStop per run, in every reachable document list -/
theorem C01_one_start_one_stop (maxArr : Nat) (sc : Script) (fuel : Nat) (s0 : EState) (plan : Gen) (h0 : Inv s0) (r : Nat) :
    (schedule maxArr sc fuel (startCall s0 plan)).docs.countP (isStartOf r) ≤ 1 ∧
    (schedule maxArr sc fuel (startCall s0 plan)).docs.countP (isStopOf r) ≤ 1 := by
  have hr := (schedule_res maxArr sc fuel _ (startCall_res s0 plan h0)).1
  exact ⟨hr.1.wf.starts_le_one r, hr.1.wf.stops_le_one r⟩

/-! ## non-vacuity -/

/-- the hypothesis `Inv s0` is satisfiable: the initial state -/
example : Inv ({ devSpecs := [], recordInterruptions := true } : EState) := inv_init [] true

private def dStart : Doc := { kind := "start", run := 0 }
private def dDesc : Doc := { kind := "descriptor", run := 0, stream := "primary" }
private def dEv : Doc := { kind := "event", run := 0, stream := "primary", seq := 1 }
private def dStop : Doc := { kind := "stop", run := 0 }

/-- a concrete well-formed stream ... -/
example : WF [dStart, dDesc, dEv, dStop] := by
  have h1 : WF [dStart] := WF.snoc (ds := []) WF.nil (Or.inl ⟨rfl, by intro d hd; cases hd⟩)
  have s1 : started [dStart] 0 := ⟨dStart, by simp, rfl, rfl⟩
  have n1 : ¬ stopped [dStart] 0 := by rintro ⟨d, hd, hk, _⟩; simp at hd; subst hd; exact absurd hk (by decide)
  have h2 : WF [dStart, dDesc] := WF.snoc (ds := [dStart]) h1 (Or.inr (Or.inl ⟨rfl, s1, n1⟩))
  have s2 : started [dStart, dDesc] 0 := ⟨dStart, by simp, rfl, rfl⟩
  have n2 : ¬ stopped [dStart, dDesc] 0 := by
    rintro ⟨d, hd, hk, _⟩
    simp at hd
    rcases hd with hd | hd <;> subst hd <;> exact absurd hk (by decide)
  have h3 : WF [dStart, dDesc, dEv] :=
    WF.snoc (ds := [dStart, dDesc]) h2 (Or.inr (Or.inr (Or.inl ⟨rfl, s2, n2, ⟨dDesc, by simp, rfl, rfl, rfl⟩⟩)))
  have s3 : started [dStart, dDesc, dEv] 0 := ⟨dStart, by simp, rfl, rfl⟩
  have n3 : ¬ stopped [dStart, dDesc, dEv] 0 := by
    rintro ⟨d, hd, hk, _⟩
    simp at hd
    rcases hd with hd | hd | hd <;> subst hd <;> exact absurd hk (by decide)
  exact WF.snoc (ds := [dStart, dDesc, dEv]) h3 (Or.inr (Or.inr (Or.inr ⟨rfl, s3, n3⟩)))

/-- ... and the predicate is not trivially true: an event before its descriptor is rejected -/
example : ¬ wfDocs [dStart, dEv] := by
  intro h
  obtain ⟨_, _, _, _, h5⟩ := h [dStart] dEv [] rfl
  obtain ⟨d, hd, hk, _⟩ := h5 rfl
  simp at hd; subst hd
  exact absurd hk (by decide)

example : Src.finallyClosesRuns = true := rfl

end BlueskyVerif.C01
