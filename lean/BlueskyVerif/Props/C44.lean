/-
C44 -- For strictly monotonic x and finite y, PeakStats reports the x of the largest and smallest y as max
and min, a center of mass and center that lie within the x range, crossings that each lie between adjacent
samples straddling the half-maximum, and fwhm equal to the distance between the outermost crossings.

Model: `calcStats n x y ec` (Pure/PeakStats.lean), an exact-rational transcription of
`PeakStats._calc_stats(x, y, fields, edge_count)`; arrays are `Nat → Rat` with length `n`.
`ranked n x y ec` is the data the statistics are computed on (y, or y minus the linear edge background).
Every theorem holds for ALL n >= 1, ALL strictly monotonic x (increasing or decreasing), ALL rational y and
every `edge_count` in the domain `ValidEdge` (None, or 1 <= edge_count < n).

PARTIAL: (1) exact rational arithmetic stands in for IEEE doubles; (2) the centre of mass needs a hypothesis:
`C44_com_in_range_full` below is the statement as the property gives it and it is FALSE for the code
(Counterexamples/C44.lean: y = [0, 0] gives NaN); what is proved is `C44_com_in_range_partial`, together with
the exact characterisation `C44_com_nan_iff` of the failing inputs.
-/
import BlueskyVerif.Lemmas.C44Final

namespace BlueskyVerif.C44
open BlueskyVerif.PeakStats

/-- In the property's domain the computation is well defined: the two edge means of x differ, so the
    background slope does not divide by zero and statistics are produced. -/
theorem C44_bkg_well_defined (n : Nat) (x y : Vec) (ec : Option Nat)
    (hm : StrictMonotonic n x) (hv : ValidEdge n ec) : ∃ s, calcStats n x y ec = some s :=
  calcStats_isSome y hm hv

/-- max / min: `maxIdx` (`minIdx`) is the FIRST sample at which the ranked data is largest (smallest); the
    callback reports `(x[maxIdx], y_orig[maxIdx])`.  `mid` is the half-maximum level `(max + min) / 2`. -/
theorem C44_max_min (n : Nat) (x y : Vec) (ec : Option Nat) (s : Stats) (hn : 1 ≤ n)
    (h : calcStats n x y ec = some s) :
    (s.maxIdx < n ∧ (∀ j, j < n → ranked n x y ec j ≤ ranked n x y ec s.maxIdx) ∧
      (∀ j, j < s.maxIdx → ranked n x y ec j < ranked n x y ec s.maxIdx)) ∧
    (s.minIdx < n ∧ (∀ j, j < n → ranked n x y ec s.minIdx ≤ ranked n x y ec j) ∧
      (∀ j, j < s.minIdx → ranked n x y ec s.minIdx < ranked n x y ec j)) ∧
    s.mid = (ranked n x y ec s.maxIdx + ranked n x y ec s.minIdx) / 2 := by
  obtain ⟨bk, rfl⟩ := calcStats_some h
  exact ⟨argmax_spec n _ hn, argmin_spec n _ hn, rfl⟩

/-- Each reported crossing comes from a pair of ADJACENT samples `cr, cr+1` whose ranked values straddle the
    half-maximum, and it lies between the x of these two samples. -/
theorem C44_crossing_between_samples (n : Nat) (x y : Vec) (ec : Option Nat) (s : Stats)
    (hm : StrictMonotonic n x) (h : calcStats n x y ec = some s) :
    s.crossings.length = s.crossIdx.length ∧
    ∀ p ∈ s.crossIdx.zip s.crossings,
      p.1 + 1 < n ∧ Straddles (ranked n x y ec) s.mid p.1 ∧ Between (x p.1) (x (p.1 + 1)) p.2 := by
  obtain ⟨bk, rfl⟩ := calcStats_some h
  refine ⟨by simp [statsOf], ?_⟩
  intro p hp
  obtain ⟨hmem, heq⟩ := mem_zip_map_self _ _ p hp
  obtain ⟨h1, h2⟩ := mem_crossIdx.mp hmem
  refine ⟨h1, h2, ?_⟩
  rw [heq]
  exact crossAt_between x _ _ p.1 (adjacent_ne hm h1) h2

/-- No crossing is missed: every adjacent pair that straddles the half-maximum is reported, in order of
    position; and there is at least one crossing exactly when the ranked data is not constant. -/
theorem C44_crossings_complete (n : Nat) (x y : Vec) (ec : Option Nat) (s : Stats) (hn : 1 ≤ n)
    (h : calcStats n x y ec = some s) :
    (∀ i, i + 1 < n → Straddles (ranked n x y ec) s.mid i → i ∈ s.crossIdx) ∧
    s.crossIdx.Pairwise (· < ·) ∧
    (s.crossings ≠ [] ↔ ∃ i j, i < n ∧ j < n ∧ ranked n x y ec i ≠ ranked n x y ec j) := by
  obtain ⟨bk, rfl⟩ := calcStats_some h
  refine ⟨fun i h1 h2 => mem_crossIdx.mpr ⟨h1, h2⟩, crossIdx_sorted _ _ _, ?_⟩
  rw [← crossIdx_ne_nil_iff n _ hn]
  simp [statsOf]

/-- fwhm: with fewer than two crossings it stays None; otherwise it is |last - first| and every crossing lies
    between the first and the last one, i.e. it is the distance between the OUTERMOST crossings. -/
theorem C44_fwhm (n : Nat) (x y : Vec) (ec : Option Nat) (s : Stats)
    (hm : StrictMonotonic n x) (h : calcStats n x y ec = some s) :
    (s.crossings.length < 2 → s.fwhm = none) ∧
    (2 ≤ s.crossings.length →
      s.fwhm = some (absQ (s.crossings.getLastD 0 - s.crossings.headD 0)) ∧
      ∀ c ∈ s.crossings, Between (s.crossings.headD 0) (s.crossings.getLastD 0) c) := by
  obtain ⟨bk, rfl⟩ := calcStats_some h
  constructor
  · intro hl
    simp only [statsOf] at hl ⊢
    split
    · omega
    · rfl
  · intro hl
    refine ⟨?_, crossings_outermost _ _ hm⟩
    simp only [statsOf] at hl ⊢
    rw [if_pos hl]

/-- cen (the mean of the crossings) stays None without crossings and otherwise lies within the x range. -/
theorem C44_cen_in_range (n : Nat) (x y : Vec) (ec : Option Nat) (s : Stats) (hn : 1 ≤ n)
    (hm : StrictMonotonic n x) (h : calcStats n x y ec = some s) :
    (s.crossings = [] → s.cen = none) ∧
    (s.crossings ≠ [] → ∃ c, s.cen = some c ∧ xLo n x ≤ c ∧ c ≤ xHi n x) := by
  obtain ⟨bk, rfl⟩ := calcStats_some h
  constructor
  · intro he
    simp only [statsOf] at he
    simp [statsOf, he]
  · intro hne
    simp only [statsOf] at hne ⊢
    rw [if_neg (by simpa [List.isEmpty_iff] using hne)]
    exact ⟨_, rfl, mean_in_range _ _ _ hne (crossing_in_range _ _ hm hn)⟩

/-- The statement as the property gives it: the centre of mass always lies within the x range.
    FALSE for the code as it is (F20): see Counterexamples/C44.lean. -/
def C44_com_in_range_full : Prop :=
  ∀ (n : Nat) (x y : Vec) (ec : Option Nat) (s : Stats), 1 ≤ n → StrictMonotonic n x → ValidEdge n ec →
    calcStats n x y ec = some s → ∃ c, s.com = some c ∧ xLo n x ≤ c ∧ c ≤ xHi n x

/-- The centre of mass is NaN exactly when there are at least two points and both `sum(y)` and `sum(i*y)` of
    the ranked data vanish (0/0 in `center_of_mass`).  With `sum(y) = 0 ≠ sum(i*y)` the quotient is +-inf and
    `np.interp` clamps it to an end point. -/
theorem C44_com_nan_iff (n : Nat) (x y : Vec) (ec : Option Nat) (s : Stats)
    (h : calcStats n x y ec = some s) :
    s.com = none ↔ n ≠ 1 ∧ sumFrom (ranked n x y ec) 0 n = 0 ∧ sumFrom (weighted (ranked n x y ec)) 0 n = 0 := by
  obtain ⟨bk, rfl⟩ := calcStats_some h
  exact com_eq_none_iff n x _

/-- PARTIAL (hypothesis forced by the code): unless both sums vanish, the centre of mass is a number within
    the x range. -/
theorem C44_com_in_range_partial (n : Nat) (x y : Vec) (ec : Option Nat) (s : Stats) (hn : 1 ≤ n)
    (hm : StrictMonotonic n x) (h : calcStats n x y ec = some s)
    (hsum : n = 1 ∨ sumFrom (ranked n x y ec) 0 n ≠ 0 ∨ sumFrom (weighted (ranked n x y ec)) 0 n ≠ 0) :
    ∃ c, s.com = some c ∧ xLo n x ≤ c ∧ c ≤ xHi n x := by
  have hnan := C44_com_nan_iff n x y ec s h
  obtain ⟨bk, rfl⟩ := calcStats_some h
  cases hc : (statsOf n x (ranked n x y ec) bk).com with
  | none =>
    obtain ⟨h1, h2, h3⟩ := hnan.mp hc
    rcases hsum with e | e | e
    · exact absurd e h1
    · exact absurd h2 e
    · exact absurd h3 e
  | some c => exact ⟨c, rfl, com_in_range hm hn (by simpa [statsOf] using hc)⟩

/-! Non-vacuity: the hypotheses are satisfiable and the statistics are non-trivial. -/
def exX : Vec := fun i => (i : Rat)
def exY : Vec := fun i => if i = 2 then 4 else if i = 1 ∨ i = 3 then 1 else 0

example : StrictMonotonic 5 exX := Or.inl (fun i j hij _ => by simp only [exX]; exact_mod_cast hij)
example : ValidEdge 5 (some 2) := ⟨by decide, by decide⟩
example : (statsOf 5 exX exY none).maxIdx = 2 := by decide
example : Straddles exY 2 1 := by simp [Straddles, exY]; norm_num
example : sumFrom exY 0 5 ≠ 0 := by simp [sumFrom, exY]; norm_num

end BlueskyVerif.C44
