/-
C38 -- truncate_json_overflow maps any nested structure of mappings, sequences and Python or numpy
numbers to one of the same shape in which every integral value lies within +-(2**53 - 1) and every
float is finite or NaN, leaving values already in range unchanged.

`truncLeaf` (with `cond1/ret1/cond2/ret2`, `floatLit0`, `intGuard1/2`) is GENERATED from
src/bluesky/utils/__init__.py on every run (Pure/TruncateGenerated.lean); `trunc` is the hand-written
recursion over the three container branches (Pure/Truncate.lean).  `Val` covers mappings, list / tuple /
n-d array sequences, 0-d arrays and scalar leaves (str, None, int, bool, numpy ints, numpy.bool_, float,
float16/32/64 with +-inf and NaN).  All theorems quantify over ALL such values (structural induction).

Reading for non-finite inputs (coordinator ruling, see ASSUMPTIONS in harness/props/C38.py): the float clause
governs them (+-inf becomes the finite float +-1.7976e308); the integer bound is demanded of int-typed leaves
and of integral-valued floats that come from finite inputs -- this is `leafOK inp out`.

`ieeeLike` (a finite float of magnitude >= 2**53 is integral) is a fact about binary16/32/64 that the
exact-rational float model cannot know; it excludes only values no float has.
-/
import BlueskyVerif.Lemmas.C38

namespace BlueskyVerif.C38
open BlueskyVerif.Truncate

/-- Same shape: mappings keep their keys (and order), sequences keep their length, leaves stay leaves. -/
theorem C38_shape (v : Val) : shapeOf (trunc v) = shapeOf v := shape_trunc v

/-- The output's leaves are, position by position, the numeric chain applied to the input's leaves
    (a 0-d array counting as the Python scalar it holds). -/
theorem C38_leaves (v : Val) : leaves (trunc v) = (leaves v).map truncLeaf := leaves_trunc v

/-- In range: for every input leaf / output leaf pair (same position): an int-typed output lies within
    +-(2**53-1); a float output is finite or NaN; an integral-valued float output lies within +-(2**53-1)
    unless the input leaf was +-inf. -/
theorem C38_in_range (v : Val) (hv : ∀ d ∈ leaves v, ieeeLike d = true) :
    ∀ p ∈ (leaves v).zip (leaves (trunc v)), leafOK p.1 p.2 = true := by
  rw [C38_leaves]
  intro p hp
  obtain ⟨hmem, heq⟩ := mem_zip_map_self truncLeaf (leaves v) p hp
  rw [heq]
  exact leaf_ok p.1 (hv p.1 hmem)

/-- The float clause needs no hypothesis at all: no leaf of the output is +inf or -inf, for every input. -/
theorem C38_no_infinite_output (v : Val) : ∀ d ∈ leaves (trunc v), isInfinite d = false := by
  rw [C38_leaves]
  intro d hd
  obtain ⟨a, _, rfl⟩ := List.mem_map.mp hd
  exact truncLeaf_not_infinite a

/-- Safe values are unchanged: if every leaf is in range, the result is the input itself at the JSON level
    (`normalize`: tuples / arrays become lists, a 0-d array becomes the Python scalar of `.item()`);
    leaf types and values are untouched. -/
theorem C38_safe_unchanged (v : Val)
    (hs : ∀ d ∈ leaves v, leafInRange d = true ∧ ieeeLike d = true) : trunc v = normalize v :=
  trunc_eq_normalize v fun d hd => leaf_safe d (hs d hd).1 (hs d hd).2

/-- `int(data)` (which raises on inf, NaN and non-numbers) is evaluated only after tests that exclude
    those inputs; the second numeric branch never calls it. -/
theorem C38_int_conversion_guarded (d : Scalar) :
    (intGuard1 d = true → intRaises d = false) ∧ intGuard2 d = false :=
  ⟨int_guard d, rfl⟩

/-! Non-vacuity: the hypotheses are satisfiable on non-trivial inputs and truncation really happens. -/
example : truncLeaf (.int (.np .u64) (2 ^ 64 - 1)) = pyI (2 ^ 53 - 1) := by
  rw [truncLeaf_int]; decide
example : truncLeaf (.flt .f32 (.fin (2 ^ 53 : Int))) = pyI (2 ^ 53 - 1) := by
  rw [truncLeaf_fin_int .f32 _ (2 ^ 53) rfl]; decide
example : truncLeaf (.flt .f16 .negInf) = pyF (-floatLit0) := truncLeaf_negInf _
example : ieeeLike (.flt .f64 (.fin (2 ^ 60 : Int))) = true := by decide
example : ieeeLike (.flt .f64 (.fin (1 / 2))) = true := by
  simp only [ieeeLike, Bool.or_eq_true, Bool.and_eq_true, decide_eq_true_eq]; right; norm_num
example : leaves (.seq .tuple [.leaf (.int .py 5), .map [("a", .arr0 (.int (.np .i8) 7))]])
    = [.int .py 5, .int .py 7] := by decide
example : (∀ d ∈ leaves (.seq .tuple [.leaf (.int .py 5), .map [("a", .arr0 (.int (.np .i8) 7))]]),
    leafInRange d = true ∧ ieeeLike d = true) := by decide

end BlueskyVerif.C38
