/-
C14 -- concurrent runs with different run keys stay independent.

On the shared engine model (Engine/Model.lean, Sim.lean).  `runKey m` is the key of a message (`""` = None),
`getBundler s m` the bundler registered under it.  Helper lemmas: Lemmas/C14.lean and the C01 invariant
(Lemmas/C01*.lean).  The pure model of `set_run_key_wrapper` is Pure/RunKey.lean (guard generated from the source).
-/
import BlueskyVerif.Lemmas.C14
import BlueskyVerif.Pure.RunKey

namespace BlueskyVerif.C14
open BlueskyVerif.Engine

/-! ## routing: a message is applied to the run with its key, the other runs are not touched -/

/-- create / read / drop: every bundler under another key is literally unchanged, nothing is emitted -/
theorem C14_routing_create (s : EState) (m : Msg) (k : String) (hk : k ≠ runKey m) :
    assocGet k (cmdCreate s m).1.bundlers = assocGet k s.bundlers ∧ (cmdCreate s m).1.docs = s.docs :=
  ⟨(route_cmdCreate s m).1 k hk, (route_cmdCreate s m).2⟩

theorem C14_routing_read (s : EState) (m : Msg) (k : String) (hk : k ≠ runKey m) :
    assocGet k (cmdRead s m).1.bundlers = assocGet k s.bundlers ∧ (cmdRead s m).1.docs = s.docs :=
  ⟨(route_cmdRead s m).1 k hk, (route_cmdRead s m).2⟩

theorem C14_routing_drop (s : EState) (m : Msg) (k : String) (hk : k ≠ runKey m) :
    assocGet k (cmdDrop s m).1.bundlers = assocGet k s.bundlers ∧ (cmdDrop s m).1.docs = s.docs :=
  ⟨(route_cmdDrop s m).1 k hk, (route_cmdDrop s m).2⟩

/-- save: the other bundlers are literally unchanged and every emitted document (descriptor, event) carries
    the run index of the bundler registered under the key of the message -/
theorem C14_routing_save (s : EState) (m : Msg) (b : Bundler) (hb : getBundler s m = some b) (k : String) (hk : k ≠ runKey m) :
    assocGet k (cmdSave s m).1.bundlers = assocGet k s.bundlers ∧
    ∃ new, (cmdSave s m).1.docs = s.docs ++ new ∧ ∀ d ∈ new, d.run = b.runId :=
  ⟨(route_cmdSave s m b hb).1 k hk, (route_cmdSave s m b hb).2⟩

/-- monitor / unmonitor / close_run are implicit checkpoints of the whole engine: the other bundlers are
    unchanged or had `reset_checkpoint_state` applied (a copy of their sequence counters, nothing else) -/
theorem C14_routing_monitor (s : EState) (m : Msg) (b : Bundler) (hb : getBundler s m = some b) (k : String) (hk : k ≠ runKey m) :
    (assocGet k (cmdMonitor s m).1.bundlers = assocGet k s.bundlers ∨
      assocGet k (cmdMonitor s m).1.bundlers = (assocGet k s.bundlers).map Bundler.resetCheckpoint) ∧
    ∃ new, (cmdMonitor s m).1.docs = s.docs ++ new ∧ ∀ d ∈ new, d.run = b.runId :=
  ⟨(route_cmdMonitor s m b hb).1 k hk, (route_cmdMonitor s m b hb).2⟩

theorem C14_routing_unmonitor (s : EState) (m : Msg) (b : Bundler) (hb : getBundler s m = some b) (k : String) (hk : k ≠ runKey m) :
    (assocGet k (cmdUnmonitor s m).1.bundlers = assocGet k s.bundlers ∨
      assocGet k (cmdUnmonitor s m).1.bundlers = (assocGet k s.bundlers).map Bundler.resetCheckpoint) ∧
    (cmdUnmonitor s m).1.docs = s.docs :=
  ⟨(route_cmdUnmonitor s m b hb).1 k hk, (route_cmdUnmonitor s m b hb).2⟩

theorem C14_routing_close_run (s : EState) (m : Msg) (b : Bundler) (hb : getBundler s m = some b) (k : String) (hk : k ≠ runKey m) :
    (assocGet k (cmdCloseRun s m).1.bundlers = assocGet k s.bundlers ∨
      assocGet k (cmdCloseRun s m).1.bundlers = (assocGet k s.bundlers).map Bundler.resetCheckpoint) ∧
    ∃ new, (cmdCloseRun s m).1.docs = s.docs ++ new ∧ ∀ d ∈ new, d.run = b.runId :=
  ⟨(route_cmdCloseRun s m b hb).1 k hk, (route_cmdCloseRun s m b hb).2⟩

/-- the checkpoint reset that the three commands above may apply to the other bundlers changes nothing that
    documents depend on: same run, same openness, same descriptors, same monitors, same counters -/
theorem C14_checkpoint_reset_is_harmless (b : Bundler) :
    b.resetCheckpoint.runId = b.runId ∧ b.resetCheckpoint.runOpen = b.runOpen ∧ b.resetCheckpoint.seq = b.seq ∧
    b.resetCheckpoint.descriptors = b.descriptors ∧ b.resetCheckpoint.monitors = b.monitors ∧
    b.resetCheckpoint.bundling = b.bundling ∧ b.resetCheckpoint.readCache = b.readCache :=
  ⟨rfl, rfl, rfl, rfl, rfl, rfl, rfl⟩

/-- open_run (accepted or not) leaves every bundler under another key alone -/
theorem C14_routing_open_run (s : EState) (m : Msg) (k : String) (hk : k ≠ runKey m) :
    assocGet k (cmdOpenRun s m).1.bundlers = assocGet k s.bundlers := route_cmdOpenRun s m k hk

/-! ## a second open on an open key -/

/-- opening a run whose key is already open is rejected with IllegalMessageSequence and changes NOTHING -/
theorem C14_reopen_rejected (s : EState) (m : Msg) (b : Bundler) (h : getBundler s m = some b) :
    cmdOpenRun s m = (s, .raised .illegalSeq) :=
  cmdOpenRun_rejected s m (by rw [h]; rfl)

/-- ... also through the dispatcher: the message only goes through the bookkeeping of `noteMsg` -/
theorem C14_reopen_rejected_runCommand (s : EState) (m : Msg) (b : Bundler) (hc : m.cmd = "open_run")
    (h : getBundler s m = some b) : runCommand s m = (s, .raised .illegalSeq) := by
  unfold runCommand
  simp only [hc]
  exact C14_reopen_rejected s m b h

/-- a bundle-level message whose key names no open run is refused with IllegalMessageSequence and changes
    NOTHING -- it is never applied to a run registered under another key -/
theorem C14_unknown_key_rejected (s : EState) (m : Msg) (h : getBundler s m = none) :
    cmdCreate s m = (s, .raised .illegalSeq) ∧ cmdSave s m = (s, .raised .illegalSeq) ∧
    cmdDrop s m = (s, .raised .illegalSeq) ∧ cmdMonitor s m = (s, .raised .illegalSeq) ∧
    cmdUnmonitor s m = (s, .raised .illegalSeq) ∧ cmdCloseRun s m = (s, .raised .illegalSeq) := by
  refine ⟨?_, ?_, ?_, ?_, ?_, ?_⟩
  · unfold cmdCreate; simp only [h]
  · unfold cmdSave; simp only [h]
  · unfold cmdDrop; simp only [h]
  · unfold cmdMonitor; simp only [h]
  · unfold cmdUnmonitor; simp only [h]
  · unfold cmdCloseRun; simp only [h]

/-- the registered keys stay pairwise distinct (so a key names at most one open run), for every plan / script -/
theorem C14_keys_distinct (maxArr : Nat) (sc : Script) (fuel : Nat) (s0 : EState) (plan : Gen) (h0 : Inv s0) :
    (keysOf (schedule maxArr sc fuel (startCall s0 plan))).Pairwise (· ≠ ·) ∧
    ((bvs (schedule maxArr sc fuel (startCall s0 plan))).map (·.runId)).Pairwise (· ≠ ·) := by
  have hr := (schedule_res maxArr sc fuel _ (startCall_res s0 plan h0)).1
  exact ⟨hr.2.2, hr.1.distinct⟩

/-! ## each run by itself -/

/-- MAIN.  For every plan, script, arrival bound and fuel, and every run index `r`: the documents of run `r`
    taken by themselves form a well-formed stream (first its RunStart, exactly one; at most one RunStop and
    nothing after it; every event after a descriptor of the same run and stream) -- no clause needs, or refers
    to, a document of another run. -/
theorem C14_per_run (maxArr : Nat) (sc : Script) (fuel : Nat) (s0 : EState) (plan : Gen) (h0 : Inv s0) (r : Nat) :
    wfDocs (ofRun r (schedule maxArr sc fuel (startCall s0 plan)).docs) := by
  have hr := (schedule_res maxArr sc fuel _ (startCall_res s0 plan h0)).1
  exact wfDocs_of_WF (hr.1.wf.ofRun r)

theorem C14_per_run_simulate (sc : Scenario) (r : Nat) : wfDocs (ofRun r (simulate sc).1.docs) :=
  wfDocs_of_WF ((simulate_res sc).1.1.wf.ofRun r)

/-- when the task is over, each run by itself ends with exactly one RunStop -/
theorem C14_per_run_closed (sc : Scenario) (r : Nat) (hfin : (simulate sc).1.pc = .finished)
    (hs : started (simulate sc).1.docs r) :
    (ofRun r (simulate sc).1.docs).countP (isStopOf r) = 1 := by
  have hr := simulate_res sc
  have hb := hr.2 hfin
  have h0 : DocInv (simulate sc).1.docs (simulate sc).1.nextRun (subsOf (simulate sc).1) [] := by
    have := hr.1.1
    unfold dv bvs at this
    simpa [hb] using this
  have h1 : stopped (ofRun r (simulate sc).1.docs) r := (stopped_ofRun r _).mpr (h0.all_stopped r hs)
  have h2 := (h0.wf.ofRun r).stops_le_one r
  have h3 := stopped_countP h1
  omega

/-! ## set_run_key_wrapper only fills unset keys (pure model, guard generated from the source) -/

open BlueskyVerif.RunKey in
/-- message by message: the same number of messages, every field except `run` unchanged, a set key is kept,
    an unset key becomes the wrapper's key -/
theorem C14_set_run_key_only_fills_unset (key : String) (msgs : List Msg) :
    (wrap key msgs).length = msgs.length ∧
    ∀ i (h : i < msgs.length) (h' : i < (wrap key msgs).length),
      ((wrap key msgs)[i]'h').cmd = msgs[i].cmd ∧ ((wrap key msgs)[i]'h').obj = msgs[i].obj ∧
      ((wrap key msgs)[i]'h').iargs = msgs[i].iargs ∧ ((wrap key msgs)[i]'h').name = msgs[i].name ∧
      ((wrap key msgs)[i]'h').flag = msgs[i].flag ∧ ((wrap key msgs)[i]'h').mid = msgs[i].mid ∧
      (msgs[i].run = none → ((wrap key msgs)[i]'h').run = some key) ∧
      (msgs[i].run ≠ none → ((wrap key msgs)[i]'h').run = msgs[i].run) := by
  have hg : RunKeySrc.guardIsRunIsNone = true := rfl
  refine ⟨by simp [wrap], ?_⟩
  intro i h h'
  simp only [wrap, List.getElem_map, setRunKey, hg, if_true]
  cases hrun : msgs[i].run with
  | none => simp
  | some k => simp [hrun]

open BlueskyVerif.RunKey in
/-- nested wrappers: the inner key wins, and wrapping twice with the same key is the same as once -/
theorem C14_set_run_key_inner_wins (k1 k2 : String) (msgs : List Msg) : wrap k1 (wrap k2 msgs) = wrap k2 msgs := by
  have hg : RunKeySrc.guardIsRunIsNone = true := rfl
  simp only [wrap, List.map_map]
  apply List.map_congr_left
  intro m _
  simp only [Function.comp, setRunKey, hg, if_true]
  cases hrun : m.run <;> simp [hrun]

/-! ## non-vacuity -/

private def mA : Msg := { cmd := "open_run", run := some "a" }
private def mB : Msg := { cmd := "open_run", run := some "b" }
private def s2 : EState := (cmdOpenRun (cmdOpenRun {} mA).1 mB).1

/-- two runs open under different keys: the hypotheses of the routing theorems are satisfiable ... -/
example : (getBundler s2 mA).map (·.runId) = some 0 ∧ (getBundler s2 mB).map (·.runId) = some 1 := by decide

/-- ... and a third open on key "a" is rejected -/
example : (cmdOpenRun s2 mA).2 matches .raised .illegalSeq := by
  have h : (getBundler s2 mA).isSome = true := by decide
  rw [cmdOpenRun_rejected s2 mA h]

example : (RunKey.wrap "k" [{ cmd := "create" }, { cmd := "create", run := some "a" }]).map (·.run) = [some "k", some "a"] := by
  decide

end BlueskyVerif.C14
