/-
C22 -- Cleanup wrappers run their cleanup exactly once on every exit path.

`tryWrap cfg plan` (Gen/Wrappers.lean) is the phase machine transcribing `finalize_wrapper`,
`contingency_wrapper` and `finalize_decorator` (three configurations `finalizeWrapper`,
`contingencyWrapper`, `finalizeDecorator`; which `except` clauses each has is extracted from the
source).  `st cfg plan hist` is the machine's state after ANY input history `hist` (sends and
throws of any exceptions, any length); the wrapped plan, the final / except / else plans and
`pause()` are ANY behaviours.  `log` records, in order, `bodyEnd o` (the wrapped plan ended with
`o`), `pauseStart/End`, `exceptStart e / exceptEnd`, `elseStart/End`, `finalStart/End`; it is
appended to exactly where the machine starts (`yfStart`) a sub-plan or sees it end.

What "the wrapped plan is closed" means: a GeneratorExit comes out of `yield from plan`
(`dispatch .. e = .closed`) -- thrown in by `close()` / `throw(GeneratorExit)` and let through by
the plan, or raised by the plan itself.  A plan that answers `close()` with a yield makes
`yield from` raise RuntimeError instead; that is an ordinary exception (cleanup runs), exactly as
for a Python try/finally.
-/
import BlueskyVerif.Lemmas.C22
import BlueskyVerif.Gen.Ast

namespace BlueskyVerif.C22
open BlueskyVerif.Gen

section
variable {M R V E : Type} [Inhabited R] [DecidableEq R] [Inhabited V] [PyExc E]

/-- state of the wrapper after the input history `hist` -/
def st (cfg : TryCfg M R V E) (plan : Beh M R V E) (hist : List (Inp R E)) : TrySt M R V E :=
  Machine.state (tryStep cfg plan) ⟨.init, []⟩ hist

def isFinalStart : Ev V E → Bool
  | .finalStart => true
  | _ => false
def isElseStart : Ev V E → Bool
  | .elseStart => true
  | _ => false
def isExceptStart : Ev V E → Bool
  | .exceptStart _ => true
  | _ => false
def isPauseStart : Ev V E → Bool
  | .pauseStart => true
  | _ => false
def isBodyEnd : Ev V E → Bool
  | .bodyEnd _ => true
  | _ => false

/-- The log always has the shape of a Python try statement: it is exactly the log of the path
    recorded in the state (`TryInv`, Lemmas/C22.lean), and that path is possible for `cfg`. -/
theorem C22_log_like_python (cfg : TryCfg M R V E) (plan : Beh M R V E) (hist : List (Inp R E)) :
    TryInv cfg (st cfg plan hist) := tryInv_state cfg plan hist

/-- how often each piece was started, as a function of the log shape -/
private theorem counts (cfg : TryCfg M R V E) (s : TrySt M R V E) (h : TryInv cfg s) :
    s.log.countP isFinalStart ≤ 1 ∧ s.log.countP isElseStart ≤ 1 ∧
    s.log.countP isExceptStart ≤ 1 ∧ s.log.countP isPauseStart ≤ 1 ∧
    s.log.countP isBodyEnd ≤ 1 := by
  obtain ⟨ph, log⟩ := s
  cases ph with
  | init => simp [TryInv] at h; simp [h]
  | body p => simp [TryInv] at h; simp [h]
  | pause e p =>
    simp [TryInv] at h
    simp [h.1, isFinalStart, isElseStart, isExceptStart, isPauseStart, isBodyEnd]
  | exc e pz p =>
    simp [TryInv] at h
    rcases pz with _ | o <;>
      simp [h.1, pzLog, isFinalStart, isElseStart, isExceptStart, isPauseStart, isBodyEnd]
  | els v p =>
    simp [TryInv] at h
    simp [h.1, isFinalStart, isElseStart, isExceptStart, isPauseStart, isBodyEnd]
  | fin path p =>
    simp [TryInv] at h
    rcases path with v | ⟨v, o⟩ | e | ⟨e, _ | pz, _ | ex⟩ <;>
      simp [h.1, Path.log, pzLog, exLog, isFinalStart, isElseStart, isExceptStart, isPauseStart,
        isBodyEnd]
  | done d =>
    simp [TryInv] at h
    rcases d with e | path | ⟨path, o⟩
    · simp [h.1, DoneInfo.log, isFinalStart, isElseStart, isExceptStart, isPauseStart, isBodyEnd]
    · rcases path with v | ⟨v, o⟩ | e | ⟨e, _ | pz, _ | ex⟩ <;>
        simp [h.1, DoneInfo.log, Path.log, pzLog, exLog, isFinalStart, isElseStart, isExceptStart,
          isPauseStart, isBodyEnd]
    · rcases path with v | ⟨v, o⟩ | e | ⟨e, _ | pz, _ | ex⟩ <;>
        simp [h.1, DoneInfo.log, Path.log, pzLog, exLog, isFinalStart, isElseStart, isExceptStart,
          isPauseStart, isBodyEnd]

/-- **The final plan runs exactly once on every exit path.**  After any history: it has been
started at most once; never before the wrapped plan ended, and never when that end was a
GeneratorExit; and whenever the wrapper has finished (returned or raised) after the wrapped plan
ended in any other way -- return, exception, RequestStop/RequestAbort, an exception raised by
pause / except / else plans on the way -- it has been started exactly once (given there is one). -/
theorem C22_final_once (cfg : TryCfg M R V E) (plan : Beh M R V E) (hist : List (Inp R E)) :
    let s := st cfg plan hist
    s.log.countP isFinalStart ≤ 1 ∧
    (Ev.finalStart ∈ s.log →
      ∃ o, s.log.head? = some (.bodyEnd o) ∧ ∀ e, o = .exc e → dispatch cfg.clauses e ≠ .closed) ∧
    (∀ d, s.ph = .done d → (∀ e, d ≠ .closed e) → cfg.finalPlan.isSome →
      s.log.countP isFinalStart = 1) := by
  intro s
  have h := C22_log_like_python cfg plan hist
  refine ⟨(counts cfg s h).1, ?_, ?_⟩
  · intro hm
    change TryInv cfg s at h
    obtain ⟨ph, log⟩ := s
    cases ph with
    | init => simp [TryInv] at h; simp [h] at hm
    | body p => simp [TryInv] at h; simp [h] at hm
    | pause e p => simp [TryInv] at h; simp [h.1] at hm
    | exc e pz p => simp [TryInv] at h; rcases pz with _ | o <;> simp [h.1, pzLog] at hm
    | els v p => simp [TryInv] at h; simp [h.1] at hm
    | fin path p =>
      simp [TryInv] at h
      rcases path with v | ⟨v, o⟩ | e | ⟨e, pz, ex⟩ <;>
        simp [h.1, Path.log, Path.ok] at h ⊢ <;> simp [h]
    | done d =>
      simp [TryInv] at h
      rcases d with e | path | ⟨path, o⟩
      · simp [h.1, DoneInfo.log] at hm
      · rcases path with v | ⟨v, o⟩ | e | ⟨e, pz, ex⟩ <;>
          simp [h.1, DoneInfo.log, DoneInfo.ok, Path.log, Path.ok] at h ⊢ <;> simp [h]
      · rcases path with v | ⟨v, o⟩ | e | ⟨e, pz, ex⟩ <;>
          simp [h.1, DoneInfo.log, DoneInfo.ok, Path.log, Path.ok] at h ⊢ <;> simp [h]
  · intro d hd hnc hf
    change TryInv cfg s at h
    obtain ⟨ph, log⟩ := s
    simp only at hd
    subst hd
    simp [TryInv] at h
    rcases d with e | path | ⟨path, o⟩
    · exact absurd rfl (hnc e)
    · simp [DoneInfo.ok] at h; simp [h.2.2] at hf
    · rcases path with v | ⟨v, o⟩ | e | ⟨e, _ | pz, _ | ex⟩ <;>
        simp [h.1, DoneInfo.log, Path.log, pzLog, exLog, isFinalStart]

end
end BlueskyVerif.C22
