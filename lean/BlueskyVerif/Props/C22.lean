/-
C22 -- Cleanup wrappers run their cleanup exactly once on every exit path.

`tryWrap cfg plan` (Gen/Wrappers.lean) is the phase machine transcribing `finalize_wrapper`,
`contingency_wrapper` and `finalize_decorator` (three configurations `finalizeWrapper`,
`contingencyWrapper`, `finalizeDecorator`; which `except` clauses each has is extracted from the
source).  `st cfg plan hist` is the machine's state after ANY input history `hist` (sends and
throws of any exceptions, any length); the wrapped plan, the final / except / else plans and
`pause()` are ANY behaviours.  `log` records, in order, `bodyEnd o` (the wrapped plan ended with
`o`), `pauseStart/End`, `exceptStart e / exceptEnd`, `elseStart/End`, `finalStart/End`; it is
appended to exactly where the machine starts (`yfStart`) a sub-plan or sees it end.

What "the wrapped plan is closed" means: a GeneratorExit comes out of `yield from plan`
(`dispatch .. e = .closed`) -- thrown in by `close()` / `throw(GeneratorExit)` and let through by
the plan, or raised by the plan itself.  A plan that answers `close()` with a yield makes
`yield from` raise RuntimeError instead; that is an ordinary exception (cleanup runs), exactly as
for a Python try/finally.
-/
import BlueskyVerif.Lemmas.C22
import BlueskyVerif.Gen.Ast

namespace BlueskyVerif.C22
open BlueskyVerif.Gen
set_option linter.unusedSectionVars false

section
variable {M R V E : Type} [Inhabited R] [DecidableEq R] [Inhabited V] [PyExc E]

/-- state of the wrapper after the input history `hist` -/
def st (cfg : TryCfg M R V E) (plan : Beh M R V E) (hist : List (Inp R E)) : TrySt M R V E :=
  Machine.state (tryStep cfg plan) ⟨.init, []⟩ hist

/-- The log always has the shape of a Python try statement: it is exactly the log of the path
    recorded in the state (`TryInv`, Lemmas/C22.lean), and that path is possible for `cfg`. -/
theorem C22_log_like_python (cfg : TryCfg M R V E) (plan : Beh M R V E) (hist : List (Inp R E)) :
    TryInv cfg (st cfg plan hist) := tryInv_state cfg plan hist

/-- **The final plan runs exactly once on every exit path.**  After any history: it has been
started at most once; never before the wrapped plan ended, and never when that end was a
GeneratorExit; and whenever the wrapper has finished (returned or raised) after the wrapped plan
ended in any other way -- return, exception, RequestStop/RequestAbort, an exception raised by
pause / except / else plans on the way -- it has been started exactly once (given there is one). -/
theorem C22_final_once (cfg : TryCfg M R V E) (plan : Beh M R V E) (hist : List (Inp R E)) :
    let s := st cfg plan hist
    s.log.countP isFinalStart ≤ 1 ∧
    (Ev.finalStart ∈ s.log →
      ∃ o, s.log.head? = some (.bodyEnd o) ∧ ∀ e, o = .exc e → dispatch cfg.clauses e ≠ .closed) ∧
    (∀ d, s.ph = .done d → (∀ e, d ≠ .closed e) → cfg.finalPlan.isSome →
      s.log.countP isFinalStart = 1) := by
  intro s
  have h := C22_log_like_python cfg plan hist
  refine ⟨(tryInv_counts cfg s h).1, ?_, ?_⟩
  · intro hm
    change TryInv cfg s at h
    obtain ⟨ph, log⟩ := s
    cases ph with
    | init => simp [TryInv] at h; simp [h] at hm
    | body p => simp [TryInv] at h; simp [h] at hm
    | pause e p => simp [TryInv] at h; simp [h.1] at hm
    | exc e pz p => simp [TryInv] at h; rcases pz with _ | o <;> simp [h.1, pzLog] at hm
    | els v p => simp [TryInv] at h; simp [h.1] at hm
    | fin path p =>
      simp [TryInv] at h
      rcases path with v | ⟨v, o⟩ | e | ⟨e, pz, ex⟩ <;>
        simp [h.1, Path.log, Path.ok] at h ⊢ <;> simp [h]
    | done d =>
      simp [TryInv] at h
      rcases d with e | path | ⟨path, o⟩
      · simp [h.1, DoneInfo.log] at hm
      · rcases path with v | ⟨v, o⟩ | e | ⟨e, pz, ex⟩ <;>
          simp [h.1, DoneInfo.log, DoneInfo.ok, Path.log, Path.ok] at h ⊢ <;> simp [h]
      · rcases path with v | ⟨v, o⟩ | e | ⟨e, pz, ex⟩ <;>
          simp [h.1, DoneInfo.log, DoneInfo.ok, Path.log, Path.ok] at h ⊢ <;> simp [h]
  · intro d hd hnc hf
    change TryInv cfg s at h
    obtain ⟨ph, log⟩ := s
    simp only at hd
    subst hd
    simp [TryInv] at h
    rcases d with e | path | ⟨path, o⟩
    · exact absurd rfl (hnc e)
    · simp [DoneInfo.ok] at h; simp [h.2.2] at hf
    · rcases path with v | ⟨v, o⟩ | e | ⟨e, _ | pz, _ | ex⟩ <;>
        simp [h.1, DoneInfo.log, Path.log, pzLog, exLog, isFinalStart, List.countP_cons]

/-- **Not when the plan is closed.**  (a) While the wrapped plan runs, a GeneratorExit `e` thrown
into the wrapper (by `close()` or `throw`) that the plan lets through (`p.close()` returns) ends
the wrapper at once with `e`: nothing else is started; for `close()` the caller sees a normal
return.  (b) After any history, if the wrapped plan ended with an exception that the
GeneratorExit clause takes (thrown in or raised by the plan itself), the log is just that one
event and the wrapper is finished: no final / except / else plan ever ran. -/
theorem C22_not_on_close (cfg : TryCfg M R V E) (plan : Beh M R V E) :
    (∀ (p : Pos M R V E) (log : List (Ev V E)) (e : E), isGenExit e = true → p.close.1 = none →
      dispatch cfg.clauses e = .closed →
      tryStep cfg plan ⟨.body p, log⟩ (.throw e)
        = (.raise e, ⟨.done (.closed e), log ++ [.bodyEnd (.exc e)]⟩) ∧
      closeObs (tryStep cfg plan ⟨.body p, log⟩ (.throw e)).1 = none) ∧
    (∀ (hist : List (Inp R E)) (e : E),
      (st cfg plan hist).log.head? = some (.bodyEnd (.exc e)) → dispatch cfg.clauses e = .closed →
      (st cfg plan hist).log = [.bodyEnd (.exc e)] ∧ (st cfg plan hist).ph = .done (.closed e)) := by
  constructor
  · intro p log e he hc hd
    have h1 : yfStep p (.throw e) = .raised e := by
      simp only [yfStep, he, ↓reduceIte]
      cases hcl : p.close with
      | mk o p' => rw [hcl] at hc; simp only at hc; subst hc; rfl
    have h2 : tryStep cfg plan ⟨.body p, log⟩ (.throw e)
        = (.raise e, ⟨.done (.closed e), log ++ [.bodyEnd (.exc e)]⟩) := by
      simp [tryStep, h1, onBody, hd, tryFinish, DoneInfo.result, Pending.toOut]
    exact ⟨h2, by rw [h2]; simp [closeObs, he]⟩
  · intro hist e hh hd
    have h := C22_log_like_python cfg plan hist
    generalize st cfg plan hist = s at *
    obtain ⟨ph, log⟩ := s
    cases ph with
    | init => simp [TryInv] at h; simp [h] at hh
    | body p => simp [TryInv] at h; simp [h] at hh
    | pause e' p => simp [TryInv] at h; simp [h.1] at hh; subst hh; simp [hd] at h
    | exc e' pz p => simp [TryInv] at h; simp [h.1] at hh; subst hh; simp [hd] at h
    | els v p => simp [TryInv] at h; simp [h.1] at hh
    | fin path p =>
      simp [TryInv] at h
      rcases path with v | ⟨v, o⟩ | e' | ⟨e', pz, ex⟩ <;>
        simp [h.1, Path.log, Path.ok] at h hh <;> subst hh <;> simp [hd] at h
    | done d =>
      simp [TryInv] at h
      rcases d with e' | path | ⟨path, o⟩
      · simp [h.1, DoneInfo.log] at hh ⊢; subst hh; simp [DoneInfo.log]
      · rcases path with v | ⟨v, o⟩ | e' | ⟨e', pz, ex⟩ <;>
          simp [h.1, DoneInfo.log, DoneInfo.ok, Path.log, Path.ok] at h hh <;> subst hh <;>
          simp [hd] at h
      · rcases path with v | ⟨v, o⟩ | e' | ⟨e', pz, ex⟩ <;>
          simp [h.1, DoneInfo.log, DoneInfo.ok, Path.log, Path.ok] at h hh <;> subst hh <;>
          simp [hd] at h

/-- The `except` clauses of the three wrappers (extracted from the source): all three treat every
GeneratorExit (incl. PlanHalt) as "closed"; finalize_wrapper's handler (pause_for_debug, re-raise)
takes everything else; contingency_wrapper's handler takes exactly the `Exception`s (so also
RequestStop / RequestAbort) and lets other BaseExceptions go straight to `finally`;
finalize_decorator has no handler. -/
theorem C22_dispatch_wrappers (e : E) :
    (isGenExit e = true → dispatch Generated.fwClauses e = .closed ∧
      dispatch Generated.cwClauses e = .closed ∧ dispatch Generated.fdClauses e = .closed) ∧
    (isGenExit e = false → dispatch Generated.fwClauses e = .handled ∧
      dispatch Generated.fdClauses e = .uncaught ∧
      (isException e = true → dispatch Generated.cwClauses e = .handled) ∧
      (isException e = false → dispatch Generated.cwClauses e = .uncaught)) := by
  constructor
  · intro h
    simp [dispatch, firstMatch, Generated.fwClauses, Generated.cwClauses, Generated.fdClauses,
      Clause.matches, h]
  · intro h
    refine ⟨?_, ?_, ?_, ?_⟩ <;> (try intro h') <;>
      simp [dispatch, firstMatch, Generated.fwClauses, Generated.cwClauses, Generated.fdClauses,
        Clause.matches, *]

/-- **except / else plans run exactly when Python would run them.**  After any history: the else
plan has started only if the wrapped plan returned, `except_plan(e)` only if the wrapped plan
raised that very `e` and the handler clause catches it; never both; each at most once; and they HAVE
started as soon as the wrapped plan has returned (else) / raised a caught exception and `pause()`,
if any, has ended normally (except). -/
theorem C22_except_else_like_python (cfg : TryCfg M R V E) (plan : Beh M R V E)
    (hist : List (Inp R E)) :
    let s := st cfg plan hist
    (Ev.elseStart ∈ s.log → (∃ v, s.log.head? = some (.bodyEnd (.ret v))) ∧
      s.log.countP isExceptStart = 0) ∧
    (∀ e, Ev.exceptStart e ∈ s.log → s.log.head? = some (.bodyEnd (.exc e)) ∧
      dispatch cfg.clauses e = .handled ∧ Ev.elseStart ∉ s.log) ∧
    s.log.countP isElseStart ≤ 1 ∧ s.log.countP isExceptStart ≤ 1 ∧
    (∀ v, s.log.head? = some (.bodyEnd (.ret v)) → cfg.elsePlan.isSome → Ev.elseStart ∈ s.log) ∧
    (∀ e, s.log.head? = some (.bodyEnd (.exc e)) → dispatch cfg.clauses e = .handled →
      cfg.exceptPlan.isSome → (cfg.pausePlan.isNone ∨ ∃ u, Ev.pauseEnd (.ret u) ∈ s.log) →
      Ev.exceptStart e ∈ s.log) := by
  intro s
  have h : TryInv cfg s := C22_log_like_python cfg plan hist
  have hc := tryInv_counts cfg s h
  refine ⟨?_, ?_, hc.2.1, hc.2.2.1, ?_, ?_⟩
  all_goals
    clear hc
    obtain ⟨ph, log⟩ := s
    cases hpp : cfg.pausePlan <;> cases hxp : cfg.exceptPlan <;> cases hep : cfg.elsePlan <;>
    cases ph with
    | init => simp [TryInv] at h; simp [h]
    | body p => simp [TryInv] at h; simp [h]
    | pause e p => simp [TryInv, hpp] at h <;> simp_all
    | exc e pz p =>
      rcases pz with _ | u | x <;> simp [TryInv, hpp, hxp, pzLog, pzOk] at h <;>
        simp_all [isExceptStart, List.countP_cons]
    | els v p => simp [TryInv, hep] at h <;> simp_all [isExceptStart, List.countP_cons]
    | fin path p =>
      rcases path with v | ⟨v, o⟩ | e | ⟨e, _ | u | x, _ | ex⟩ <;>
        simp [TryInv, Path.log, Path.ok, pzLog, exLog, pzOk, hpp, hxp, hep] at h <;>
        simp_all [isExceptStart, List.countP_cons]
    | done d =>
      rcases d with e | path | ⟨path, o⟩
      · simp [TryInv, DoneInfo.log, DoneInfo.ok] at h <;> simp_all [isExceptStart, List.countP_cons]
      · rcases path with v | ⟨v, o⟩ | e | ⟨e, _ | u | x, _ | ex⟩ <;>
          simp [TryInv, DoneInfo.log, DoneInfo.ok, Path.log, Path.ok, pzLog, exLog, pzOk, hpp, hxp,
            hep] at h <;>
          simp_all [isExceptStart, List.countP_cons]
      · rcases path with v | ⟨v, o⟩ | e | ⟨e, _ | u | x, _ | ex⟩ <;>
          simp [TryInv, DoneInfo.log, DoneInfo.ok, Path.log, Path.ok, pzLog, exLog, pzOk, hpp, hxp,
            hep] at h <;>
          simp_all [isExceptStart, List.countP_cons]

/-- **The return value or exception is preserved.**  After any history, whatever the caller does
next to a wrapper that has not finished: either the wrapper yields, or it finishes, and then what
it returns / raises is `DoneInfo.result` of the path it took -- Python's rule for a try statement
(`C22_result_cases` spells it out) -- and its log is the complete log of that path. -/
theorem C22_result_preserved (cfg : TryCfg M R V E) (plan : Beh M R V E) (hist : List (Inp R E))
    (i : Inp R E) (hnd : (st cfg plan hist).isDone = false) :
    let r := tryStep cfg plan (st cfg plan hist) i
    (∀ d, r.2.ph = .done d →
      r.1 = (d.result cfg.autoRaise).toOut ∧ r.2.log = d.log ∧ d.ok cfg) ∧
    (r.2.isDone = false → r.1.isYld = true) := by
  intro r
  have h := tryStep_ok cfg plan _ i (C22_log_like_python cfg plan hist) hnd
  change ResOk cfg r at h
  obtain ⟨h1, h2⟩ := h
  generalize r = r' at *
  obtain ⟨out, ph, log⟩ := r'
  cases ph <;> simp_all [TryInv, TrySt.isDone]

/-- Python's rule, path by path (`ar` = auto_raise; `u`, `u'` are the values the final / else /
pause plans return, which are discarded):
1. an exception raised by the final plan replaces everything;
2. the wrapped plan returned `v` (else plan, if any, completed): the wrapper returns `v`;
3. the else plan raised `x`: `x`;
4. the wrapped plan raised `e`, no clause handles it, or there is no except plan: `e` is re-raised;
5. `except_plan(e)` returned `w`: `e` is re-raised when auto_raise, else the wrapper RETURNS `w`;
6. `except_plan(e)` raised `x`: `x`;   7. `pause()` raised `x`: `x`;
8. closed: the GeneratorExit itself. -/
theorem C22_result_cases (ar : Bool) (v u u' w : V) (e x : E) (path : Path V E)
    (pz : Option (Pending V E)) (hpz : pzOk pz = true) :
    (DoneInfo.final path (.exc x)).result ar = .exc x ∧
    (DoneInfo.final (.ret v : Path V E) (.ret u)).result ar = .ret v ∧
    (DoneInfo.noFinal (.ret v : Path V E)).result ar = (.ret v : Pending V E) ∧
    (DoneInfo.final (.retElse v (.ret u') : Path V E) (.ret u)).result ar = .ret v ∧
    (DoneInfo.final (.retElse v (.exc x)) (.ret u)).result ar = .exc x ∧
    (DoneInfo.final (.uncaught e) (.ret u)).result ar = .exc e ∧
    (DoneInfo.final (.handled e pz none) (.ret u)).result ar = .exc e ∧
    (DoneInfo.final (.handled e pz (some (.ret w))) (.ret u)).result ar
      = (if ar then .exc e else .ret w) ∧
    (DoneInfo.final (.handled e pz (some (.exc x))) (.ret u)).result ar = .exc x ∧
    (DoneInfo.final (.handled e (some (.exc x)) none) (.ret u)).result ar = .exc x ∧
    (DoneInfo.closed e : DoneInfo V E).result ar = .exc e := by
  rcases pz with _ | u'' | x' <;> simp [pzOk] at hpz <;>
    simp [DoneInfo.result, Path.pending]

end

/-! ### Non-vacuity: the machine on concrete plans (from the AST grammar)

```
def plan():      r = yield Msg('null', 1); raise E1(2)
def cleanup():   yield Msg('null', 30)
def on_error():  r = yield Msg('null', 40); return r
```
-/

def planA : Stmt := .seq (.yield 1 true) (.raise .exc1 2)
def cleanupA : Stmt := .yield 30 false
def onErrorA : Stmt := .seq (.yield 40 true) (.ret .var)

/-- pause() -/
def pauseB : Beh Msg Val Val Exc := Beh.single ⟨[6], 777⟩

def cfgA (autoRaise : Bool) : TryCfg Msg Val Val Exc :=
  { clauses := Generated.cwClauses, pausePlan := none,
    exceptPlan := some (fun _ => interp [4] onErrorA), autoRaise := autoRaise, elsePlan := none,
    finalPlan := some (interp [3] cleanupA) }

def payloads (t : List (Obs Msg Val Exc)) : List (Obs Nat Val Exc) :=
  t.map fun o => match o with
    | .yld m => .yld m.payload
    | .ret v => .ret v
    | .raise e => .raise e
    | .closed => .closed

/-- auto_raise=False: the except plan's value is returned, after the cleanup ran once -/
example : payloads (run (tryWrap (cfgA false) (interp [0] planA))
      [.send none, .send (some 7), .send (some 8), .send (some 9)])
    = [.yld 1, .yld 40, .yld 30, .ret (some 8)] := by decide

/-- auto_raise=True: the original exception is re-raised, after the cleanup ran once -/
example : payloads (run (tryWrap (cfgA true) (interp [0] planA))
      [.send none, .send (some 7), .send (some 8), .send (some 9)])
    = [.yld 1, .yld 40, .yld 30, .raise ⟨.exc1, 2⟩] := by decide

/-- RequestStop thrown in while the wrapped plan runs: except plan, cleanup, re-raise -/
example : payloads (run (tryWrap (cfgA true) (interp [0] planA))
      [.send none, .throw ⟨.requestStop, 6⟩, .send none, .send none])
    = [.yld 1, .yld 40, .yld 30, .raise ⟨.requestStop, 6⟩] := by decide

/-- closed while the wrapped plan runs: no cleanup -/
example : payloads (run (tryWrap (cfgA true) (interp [0] planA)) [.send none, .close])
    = [.yld 1, .closed] := by decide

/-- the log of the first run -/
example : (st (cfgA false) (interp [0] planA)
      [.send none, .send (some 7), .send (some 8), .send (some 9)]).log
    = [.bodyEnd (.exc ⟨.exc1, 2⟩), .exceptStart ⟨.exc1, 2⟩, .exceptEnd (.ret (some 8)),
       .finalStart, .finalEnd (.ret none)] := by decide

/-- finalize_wrapper with pause_for_debug: pause, then cleanup, then the exception -/
example : payloads (run (finalizeWrapper pauseB true (interp [3] cleanupA) (interp [0] planA))
      [.send none, .send (some 7), .send none, .send none])
    = [.yld 1, .yld 777, .yld 30, .raise ⟨.exc1, 2⟩] := by decide

end BlueskyVerif.C22
