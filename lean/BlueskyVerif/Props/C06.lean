/-
C06 -- devices are always left cleaned up when the RunEngine goes idle.

Model: Engine/Model.lean (`cmdSet`, `cmdStage`, `stopMovables`, `cleanupBody` / `cleanup` = the outer
`finally` of RunEngine._run).  Which steps that `finally` performs is GENERATED from the source
(`Src.finallyStopsMovables`, `Src.finallyClearsMonitors`, `Src.finallyUnstages`): the lemmas
`finally_stops_movables`, `finally_clears_monitors`, `finally_unstages` (`by decide`) stop checking
when one of the steps disappears from run_engine.py, and `C06_clean_at_idle` with them.

PARTIAL: flyers (kickoff / collect / backstop_collect) and the dispatcher's per-call subscriptions are
not part of the engine model (the latter is checked on the implementation only).
-/
import BlueskyVerif.Lemmas.C06Good

namespace BlueskyVerif.C06
open BlueskyVerif.Engine

/-! ## motion -/

/-- `_stop_movable_objects` calls `stop()` exactly once on every member of `_movable_objs_touched`, in
    order, after everything logged before -- whatever the devices answer (a raising `stop()` is logged
    by the engine and the loop goes on): for ALL device specifications. -/
theorem stop_movables_stops_every_moved_device (s : EState) :
    (stopMovables s).calls = s.calls ++ s.moved.map stopCall ∧
    (stopMovables s).moved = s.moved ∧ (stopMovables s).staged = s.staged := by
  have h := dv_stopMovables s
  exact ⟨stopMovables_calls s, congrArg Dv.moved h, congrArg Dv.staged h⟩

/-- `set` registers the device in `_movable_objs_touched` whether or not `obj.set()` raises (the add
    comes first), never removes anything from it, logs exactly one `set`, leaves `_staged` alone. -/
theorem set_registers_device_before_calling (s : EState) (m : Msg) :
    (m.obj.getD "") ∈ (cmdSet s m).1.moved ∧ (∀ x ∈ s.moved, x ∈ (cmdSet s m).1.moved) ∧
    (∃ c, (cmdSet s m).1.calls = s.calls ++ [c] ∧ c.dev = m.obj.getD "" ∧ c.op = "set") ∧
    (cmdSet s m).1.staged = s.staged := cmdSet_spec s m

/-! ## staging -/

/-- `stage` / `unstage` update `_staged` exactly like the specification `stagedStep` (insert on a
    successful stage, erase on a successful unstage, unchanged when the device raises), log exactly
    one call and leave `_movable_objs_touched` alone. -/
theorem stage_unstage_follow_spec (s : EState) (m : Msg) (op : String) :
    (cmdStage s m op).1.staged = stagedStep s.staged op (m.obj.getD "") ((nextMode s (m.obj.getD "") op).1 != "raise") ∧
    (cmdStage s m op).1.calls = s.calls ++ [{ dev := m.obj.getD "", op := op }] ∧
    (cmdStage s m op).1.moved = s.moved := cmdStage_spec s m op

/-- no other command touches `_staged`, `_movable_objs_touched` or writes a set / stage / unstage
    entry into the ledger -/
theorem other_commands_leave_staging_and_motion_alone (s : EState) (m : Msg)
    (h1 : m.cmd ≠ "set") (h2 : m.cmd ≠ "stage") (h3 : m.cmd ≠ "unstage") :
    (runCommand s m).1.staged = s.staged ∧ (runCommand s m).1.moved = s.moved ∧
    (runCommand s m).1.calls.filter keyOp = s.calls.filter keyOp := by
  have h := runCommand_dv s m h1 h2 h3
  exact ⟨congrArg Dv.staged h, congrArg Dv.moved h, congrArg Dv.keyCalls h⟩

/-- `MovedInv` (every `set` entry of the ledger belongs to a device in `_movable_objs_touched`) is an
    invariant of command execution: for EVERY message -/
theorem movedInv_runCommand (s : EState) (m : Msg) (hi : MovedInv s) : MovedInv (runCommand s m).1 :=
  Engine.movedInv_runCommand s m hi

/-! ## the outer `finally` of `_run` -/

/-- what the cleanup appends to the device ledger, in order: a stop for every moved device, quiet
    entries (clear_sub of the monitors), an unstage for every member of `_staged` -- each of them, even if
    some raise --, quiet entries (clear_sub of the runs being closed).  `_staged` ends up empty, the
    bundler table too, `_movable_objs_touched` is kept. -/
theorem cleanup_ledger (s : EState) :
    (∃ mid tail, (cleanup s).calls = s.calls ++ s.moved.map stopCall ++ mid ++ s.staged.map unstageCall ++ tail ∧
      (∀ c ∈ mid, keyOp c = false) ∧ (∀ c ∈ tail, keyOp c = false)) ∧
    (cleanup s).staged = [] ∧ (cleanup s).bundlers = [] := by
  refine ⟨?_, cleanup_staged s, cleanup_bundlers s⟩
  rw [cleanup_calls]; exact cleanupBody_calls s

/-- MAIN.  Whenever `_run` ends (every exit of the loop goes through the outer `finally` = `cleanup`:
    completion, failure, abort, stop, halt, failed pause), for every engine state `s` at that point:
    after everything logged so far the ledger gets a `stop` for every device in
    `_movable_objs_touched` and an `unstage` for every device in `_staged`, and no further `set` or
    `stage`; `_staged` and the bundler table are empty; no registration of a monitor of any run that
    was still around is left on its signal. -/
theorem C06_clean_at_idle (s : EState) :
    (∃ ext, (cleanup s).calls = s.calls ++ ext ∧
      (∀ n ∈ s.moved, stopCall n ∈ ext) ∧ (∀ n ∈ s.staged, unstageCall n ∈ ext) ∧
      (∀ c ∈ ext, c.op ≠ "set" ∧ c.op ≠ "stage")) ∧
    (cleanup s).staged = [] ∧ (cleanup s).bundlers = [] ∧
    (∀ kb ∈ s.bundlers, ∀ ms ∈ kb.2.monitors, (kb.2.runId, ms.2) ∉ subsOf (cleanup s) ms.1) := by
  refine ⟨cleanup_ext s, cleanup_staged s, cleanup_bundlers s, ?_⟩
  intro kb hkb ms hms
  rw [cleanup_subsOf]
  exact cleanupBody_no_monitor_subs s kb hkb ms hms

/-- hence: every `set` ever logged is followed, later in the ledger, by a `stop` of that device (given
    the invariant `MovedInv`, kept by every command: `movedInv_runCommand`) -/
theorem every_set_is_followed_by_a_stop (s : EState) (hi : MovedInv s) (pre post : List Call) (c : Call)
    (hsplit : (cleanup s).calls = pre ++ c :: post) (hop : c.op = "set") : stopCall c.dev ∈ post :=
  cleanup_allSetsStopped s hi pre c post hsplit hop

/-- every device that is still staged gets its `unstage` after everything logged before, in
    particular after its last `stage` -/
theorem every_staged_device_is_unstaged (s : EState) (n : String) (hn : n ∈ s.staged) :
    ∃ pre post, (cleanup s).calls = s.calls ++ pre ++ unstageCall n :: post ∧
      ∀ c ∈ post, c.op ≠ "stage" := by
  obtain ⟨⟨ext, hc, _, hst, hno⟩, _⟩ := C06_clean_at_idle s
  obtain ⟨pre, post, hsplit⟩ := List.append_of_mem (hst n hn)
  refine ⟨pre, post, by rw [hc, hsplit, List.append_assoc], ?_⟩
  intro c hcm
  exact (hno c (by rw [hsplit]; simp [hcm])).2

/-! ## lifted to whole calls -/

/-- `MovedInv` holds along every execution: any plan (any generator behaviour), any device
    specifications, any environment script, arrival bound and fuel -/
theorem C06_invariant_along_call (maxArr : Nat) (sc : Script) (fuel : Nat) (s0 : EState) (plan : Gen) (h0 : s0.calls = []) :
    MovedInv (schedule maxArr sc fuel (startCall s0 plan)) := by
  apply schedule_mi
  intro c hc; simp [startCall, h0] at hc

/-- MAIN (end to end).  Whenever `RE(plan)` hands control back to its caller with the `_run` task
    over (completion, failure, abort, stop, halt, failed pause -- every exit goes through the outer
    finally), every `set` in the device ledger is followed by a `stop` of that device, `_staged` is
    empty and no bundler is left: for every plan, device behaviour, script, arrival bound and fuel. -/
theorem C06_call_returns_clean (maxArr : Nat) (sc : Script) (fuel : Nat) (s0 : EState) (plan : Gen) (h0 : s0.calls = []) :
    RetGood (schedule maxArr sc fuel (startCall s0 plan)) := by
  apply schedule_good
  · intro c hc; simp [startCall, h0] at hc
  · exact retGood_of_nobe rfl

/-- the same for `RE.resume()` and for abort() / stop() / halt() issued while paused -/
theorem C06_resume_returns_clean (maxArr : Nat) (sc : Script) (fuel : Nat) (s : EState) (hi : MovedInv s) :
    RetGood (schedule maxArr sc fuel (startResume s)) :=
  schedule_good maxArr sc fuel _ (movedInv_of_dv (startResume_dv s) hi) (retGood_of_nobe rfl)

theorem C06_terminate_returns_clean (maxArr : Nat) (sc : Script) (fuel : Nat) (s : EState) (kind : String) (hi : MovedInv s) :
    RetGood (schedule maxArr sc fuel (startTerminate s kind)) :=
  schedule_good maxArr sc fuel _ (movedInv_of_dv (startTerminate_dv s kind) hi) (retGood_of_nobe rfl)

/-! Non-vacuity: a state with a moved motor, a staged detector and the corresponding ledger. -/
def demo : EState :=
  { moved := ["m1"], staged := ["d1"],
    calls := [{ dev := "d1", op := "stage" }, { dev := "m1", op := "set", arg := some 3 }] }

example : MovedInv demo := by
  intro c hc hop
  simp [demo] at hc
  rcases hc with rfl | rfl
  · simp at hop
  · simp [demo]

end BlueskyVerif.C06
