/-
C21 -- plan_mutator inserts head/tail messages exactly as documented.

Everything here is about `pmIter` (one iteration of plan_mutator's `while True:` loop, transcribed
in Gen/Mutators.lean) for ARBITRARY generator behaviours: the plan that yields the message (the
"host": any generator on top of the stack, at any depth), the head and the tail.  `PmPath n s io s'`
(Lemmas/C21.lean) says: from the loop-top state `s` the wrapper yields the messages of `io`, in
this order, each answered with the paired response, with `n` non-yielding iterations in between,
and is then at the loop top in state `s'`.  `C21_path_adequate` connects paths to the fuel-indexed
generator `planMutator fuel` (fuel-monotone semantics: any fuel > n works), `C21_reachable_fresh`
shows that the side condition `FreshIds` holds whenever the real generator is suspended.

`Runs p r io v`: the generator object `p`, resumed with `r`, yields the messages of `io`, receives
the paired responses and then returns `v` -- the termination hypothesis on head and tail.
`Quiet key proc seen m`: the processor leaves `m` alone (its object has been seen, or the processor
answers `(None, None)`).  This hypothesis on the messages of head and tail is forced by finding F9:
the full statement "inserted messages are not themselves re-processed" (`C21_full`) is FALSE for
fresh message objects -- see Counterexamples/C21.lean; what holds is
`C21_original_not_reprocessed`.
-/
import BlueskyVerif.Lemmas.C21
import BlueskyVerif.Gen.Ast

namespace BlueskyVerif.C21
open BlueskyVerif.Gen
set_option linter.unusedSectionVars false

section
variable {M ι R V E : Type} [Inhabited R] [DecidableEq R] [Inhabited V] [PyExc E] [DecidableEq ι]

/-- the situation in which the processor inserts something: the generator `q` on top of the stack
    is resumed with `r`, yields a message `msg` whose object has not been seen, and the processor
    answers `(hd, tl)`, not both None; `h` is the head actually run (`single_gen(msg)` for
    `(None, tail)`), `q1` is the host suspended at this ("the original") yield -/
structure Insertion (key : M → ι) (proc : Proc M R V E) (s : PM M ι R V E) (g : Nat)
    (q q1 : Pos M R V E) (rest : List (GenObj M R V E)) (r : R) (rs0 : List R) (msg : M)
    (hd tl : Option (Beh M R V E)) (h : Beh M R V E) : Prop where
  fresh : FreshIds s
  noExc : s.exception = none
  stack : s.planStack = (g, q) :: rest
  results : s.resultStack = r :: rs0
  yields : q.resume (.send r) = (.yld msg, q1)
  unseen : s.msgsSeen.contains (key msg) = false
  answer : proc s.procLog msg = (hd, tl)
  head : effHead msg (hd, tl) = some h

/-- **The host receives the response to head's last message.**  Processor answers `(head, None)`;
the head yields `m1 .. mk` (k ≥ 0), is answered `r1 .. rk` and returns.  Then the wrapper emits
exactly `m1 .. mk`, and afterwards the host -- suspended at the original yield -- is resumed by
`send(rk)` (`send(None)` if k = 0): the next iteration IS `host.send(rk)`. -/
theorem C21_head_response (key : M → ι) (proc : Proc M R V E) (s : PM M ι R V E) (g : Nat)
    (q q1 : Pos M R V E) (rest : List (GenObj M R V E)) (r : R) (rs0 : List R) (msg : M)
    (hd : Option (Beh M R V E)) (h : Beh M R V E)
    (ins : Insertion key proc s g q q1 rest r rs0 msg hd none h)
    (hio : List (M × R)) (hv : V) (hrun : Runs (Pos.new h) default hio hv)
    (hq : ∀ mr ∈ hio, Quiet key proc (key msg :: s.msgsSeen) mr.1) :
    ∃ n s_end, n ≤ 3 ∧ PmPath key proc n s hio s_end ∧
      pmIter key proc s_end
        = pmOnSend key proc { s_end with resultStack := rs0, ret := lastResp default hio } g rest
            (q1.resume (.send (lastResp default hio))) := by
  obtain ⟨n, s_end, hn, hp, e1, e2, e3, _⟩ := sandwich key proc s g q q1 rest r rs0 msg hd none h
    ins.fresh ins.noExc ins.stack ins.results ins.yields ins.unseen ins.answer ins.head hio hv hrun
    [] rfl (by simpa using hq)
  exact ⟨n, s_end, hn, by simpa using hp, send_iter key proc s_end g q1 rest _ rs0 e1 e2 e3⟩

/-- `(None, tail)`: the ORIGINAL message passes through first (`single_gen(msg)` re-yields the very
    object, which the processor is not applied to again), the host gets ITS response after the tail. -/
theorem C21_tail_only_original_first (key : M → ι) (proc : Proc M R V E) (s : PM M ι R V E) (g : Nat)
    (q q1 : Pos M R V E) (rest : List (GenObj M R V E)) (r r1 : R) (rs0 : List R) (msg : M)
    (t : Beh M R V E)
    (ins : Insertion key proc s g q q1 rest r rs0 msg none (some t)
      (Beh.singleWith (fun _ => default) msg))
    (tio : List (M × R)) (tv : V) (htrun : Runs (Pos.new t) default tio tv)
    (hq : ∀ mr ∈ tio, Quiet key proc (key msg :: s.msgsSeen) mr.1) :
    ∃ n s_end, n ≤ 3 ∧ PmPath key proc n s ((msg, r1) :: tio) s_end ∧
      pmIter key proc s_end
        = pmOnSend key proc { s_end with resultStack := rs0, ret := r1 } g rest
            (q1.resume (.send r1)) := by
  have hrun := runs_single (V := V) (E := E) msg r1
  obtain ⟨n, s_end, hn, hp, e1, e2, e3, _⟩ := sandwich key proc s g q q1 rest r rs0 msg none (some t)
    _ ins.fresh ins.noExc ins.stack ins.results ins.yields ins.unseen ins.answer ins.head
    [(msg, r1)] default hrun tio ⟨tv, htrun⟩
    (by
      intro mr hmr
      simp only [List.cons_append, List.nil_append, List.mem_cons] at hmr
      rcases hmr with rfl | hmr
      · exact .inl (by simp)
      · exact hq mr hmr)
  exact ⟨n, s_end, hn, by simpa using hp,
    by simpa [lastResp] using send_iter key proc s_end g q1 rest _ rs0 e1 e2 e3⟩

/-- **Tail's messages run immediately after head with their responses swallowed.**  Processor
answers `(head, tail)`.  The wrapper emits head's messages, then -- with nothing in between, the
host is not resumed -- tail's messages `n1 .. nj`; the responses `u1 .. uj` are fed to the tail
(that is what `Runs .. tio` being followed means) and to nobody else: the host is then resumed with
the response to HEAD's last message, whatever the tail was answered and whatever it returned. -/
theorem C21_tail_after_head_swallowed (key : M → ι) (proc : Proc M R V E) (s : PM M ι R V E)
    (g : Nat) (q q1 : Pos M R V E) (rest : List (GenObj M R V E)) (r : R) (rs0 : List R) (msg : M)
    (hd : Option (Beh M R V E)) (t h : Beh M R V E)
    (ins : Insertion key proc s g q q1 rest r rs0 msg hd (some t) h)
    (hio : List (M × R)) (hv : V) (hrun : Runs (Pos.new h) default hio hv)
    (tio : List (M × R)) (tv : V) (htrun : Runs (Pos.new t) default tio tv)
    (hq : ∀ mr ∈ hio ++ tio, Quiet key proc (key msg :: s.msgsSeen) mr.1) :
    ∃ n s_end, n ≤ 3 ∧ PmPath key proc n s (hio ++ tio) s_end ∧
      pmIter key proc s_end
        = pmOnSend key proc { s_end with resultStack := rs0, ret := lastResp default hio } g rest
            (q1.resume (.send (lastResp default hio))) := by
  obtain ⟨n, s_end, hn, hp, e1, e2, e3, _⟩ := sandwich key proc s g q q1 rest r rs0 msg hd (some t) h
    ins.fresh ins.noExc ins.stack ins.results ins.yields ins.unseen ins.answer ins.head hio hv hrun
    tio ⟨tv, htrun⟩ hq
  exact ⟨n, s_end, hn, hp, send_iter key proc s_end g q1 rest _ rs0 e1 e2 e3⟩

/-- **Exceptions raised while running head or tail propagate to the host at the original yield.**
`p` is an inserted generator (head or tail, at any point of its run) on top of the host `q`, which
is suspended at the original yield.  (a) resumed with a response it raises an Exception `x`;
(b) ... and its tail is still waiting in tail_cache (a head): the tail never runs; (c) an exception
`e0` thrown in from outside is being delivered to it and `x` comes out.  In each case one or two
iterations later the loop does `host.throw(x)`. -/
theorem C21_exceptions_to_host (key : M → ι) (proc : Proc M R V E) (s : PM M ι R V E) (gid g : Nat)
    (p p' q : Pos M R V E) (rest : List (GenObj M R V E)) (x : E) (hx : isException x = true)
    (hps : s.planStack = (gid, p) :: (g, q) :: rest) :
    (∀ r rs0, s.exception = none → s.resultStack = r :: rs0 →
      p.resume (.send r) = (.raise x, p') →
      (dictGet s.tailCache gid = none ∨ dictGet s.tailCache gid = some none) →
      ∃ s', PmPath key proc 1 s [] s' ∧
        pmIter key proc s' = pmOnThrow key proc s' g rest (q.resume (.throw x))) ∧
    (∀ r rs0 tid (t : Beh M R V E), s.exception = none → s.resultStack = r :: rs0 →
      p.resume (.send r) = (.raise x, p') →
      dictGet s.tailCache gid = some (some (tid, Pos.new t)) →
      ∃ s', PmPath key proc 2 s [] s' ∧
        pmIter key proc s' = pmOnThrow key proc s' g rest (q.resume (.throw x))) ∧
    (∀ e0, s.exception = some e0 → p.resume (.throw e0) = (.raise x, p') →
      ∃ s', PmPath key proc 1 s [] s' ∧
        pmIter key proc s' = pmOnThrow key proc s' g rest (q.resume (.throw x))) := by
  refine ⟨?_, ?_, ?_⟩
  · intro r rs0 hex hrs hres htc
    obtain ⟨s', h1, h2, h3⟩ := raise_on_send_iter key proc s gid p p' (g, q) rest r rs0 x hex hps hrs
      hres hx htc
    exact ⟨s', .silent h1 (.nil _), stashed_iter key proc s' g q rest x h3 h2⟩
  · intro r rs0 tid t hex hrs hres htc
    obtain ⟨s1, s', h1, h1', h2, h3⟩ := raise_on_send_tail_iter key proc s gid p p' (g, q) rest r rs0
      x tid t hex hps hrs hres hx htc
    exact ⟨s', .silent h1 (.silent h1' (.nil _)), stashed_iter key proc s' g q rest x h3 h2⟩
  · intro e0 hex hres
    obtain ⟨s', h1, h2, h3⟩ := raise_on_throw_iter key proc s gid p p' (g, q) rest e0 x hex hps hres hx
    exact ⟨s', .silent h1 (.nil _), stashed_iter key proc s' g q rest x h3 h2⟩

/-- **A message object is never processed twice.**  Once a message has gone through the
processor (here: the insertion for `msg`), then at any later point of the run (any path from the
state after the insertion), a message with the same object identity -- `single_gen(msg)`,
`pchain(..., single_gen(msg))` re-yielding the original -- goes out as it is: the processor is not
called (`procLog` unchanged), nothing is pushed. -/
theorem C21_original_not_reprocessed (key : M → ι) (proc : Proc M R V E) (s : PM M ι R V E) (g : Nat)
    (q1 : Pos M R V E) (rest : List (GenObj M R V E)) (r : R) (rs0 : List R) (msg : M)
    (h : Beh M R V E) (tl : Option (Beh M R V E)) (n : Nat) (io : List (M × R))
    (s' : PM M ι R V E) (hp : PmPath key proc n (inserted key s g q1 rest rs0 r msg h tl) io s')
    (m' : M) (hk : key m' = key msg) :
    pmProcess key proc s' m' = .yield m' s' :=
  pmProcess_seen key proc s' m' (hp.keeps _ (by simp [inserted, hk]))

/-- ... and every message that reaches the processing step is marked seen by it. -/
theorem C21_processing_marks_seen (key : M → ι) (proc : Proc M R V E) (s s' : PM M ι R V E) (m : M)
    (h : pmProcess key proc s m = .cont s' ∨ ∃ m', pmProcess key proc s m = .yield m' s') :
    key m ∈ s'.msgsSeen := by
  unfold pmProcess at h
  by_cases hs : s.msgsSeen.contains (key m) = true
  · simp only [hs, ↓reduceIte] at h
    rcases h with h | ⟨m', h⟩
    · cases h
    · cases h; simpa using hs
  · simp only [hs] at h
    generalize proc s.procLog m = pr at h
    obtain ⟨hd, tl⟩ := pr
    cases hd <;> cases tl <;> simp at h <;>
      (first
        | (rcases h with h | ⟨m', h⟩ <;> (try cases h) <;> simp)
        | (subst h; simp)
        | (obtain ⟨m', h⟩ := h; cases h; simp))

/-- **Fuel-monotone semantics.**  A path with `n` non-yielding iterations is what the generator
`planMutator fuel ..` does for every `fuel > n`: starting in the loop with at least `n + 1` units
left it yields the messages of the path one by one when fed the responses, and arrives at the
loop top of the final state with fuel left. -/
theorem C21_path_adequate (key : M → ι) (proc : Proc M R V E) (n : Nat) (s s' : PM M ι R V E)
    (io : List (M × R)) (hp : PmPath key proc n s io s') (plan : Beh M R V E) (fuel f0 : Nat)
    (h1 : n < f0) (h2 : f0 ≤ fuel) :
    ∃ f1, f0 - n ≤ f1 ∧ f1 ≤ fuel ∧
      Follows fuel key proc plan (pmLoop key proc f0 s) io (pmLoop key proc f1 s') :=
  hp.adequate plan fuel (by omega) f0 h1 h2

/-- The fresh-id side condition of the theorems holds whenever the generator
    `plan_mutator(plan, proc)` is suspended at its yield, after any input history. -/
theorem C21_reachable_fresh (fuel : Nat) (key : M → ι) (proc : Proc M R V E) (plan : Beh M R V E)
    (hist : List (Inp R E)) (s : PM M ι R V E)
    (h : Machine.state (pmStep fuel key proc plan) .init hist = .atYield s) : FreshIds s := by
  have := planMutator_fresh fuel key proc plan hist
  rw [h] at this; exact this

end

/-- THE FULL CLAIM of the statement's third clause -- "inserted messages are not themselves
re-processed": whenever a generator made by the processor (id ≠ 0; 0 is the plan given to
plan_mutator) yields a message, that message goes out without the processor being applied to it.
FALSE (finding F9): `Counterexamples/C21.lean`.  What is true is the same with the extra hypothesis
`key m ∈ s.msgsSeen` (`C21_original_not_reprocessed`). -/
def C21_full : Prop :=
  ∀ (M ι R V E : Type) [Inhabited R] [DecidableEq R] [Inhabited V] [PyExc E] [DecidableEq ι]
    (key : M → ι) (proc : Proc M R V E) (s : PM M ι R V E) (gid : Nat) (p p' : Pos M R V E)
    (rest : List (GenObj M R V E)) (r : R) (rs0 : List R) (m : M),
    gid ≠ 0 → s.exception = none → s.planStack = (gid, p) :: rest → s.resultStack = r :: rs0 →
    p.resume (.send r) = (.yld m, p') →
    ∃ s', pmIter key proc s = .yield m s' ∧ s'.procLog = s.procLog

/-- the part of `C21_full` that holds -/
theorem C21_not_reprocessed_partial (M ι R V E : Type) [Inhabited R] [DecidableEq R] [Inhabited V]
    [PyExc E] [DecidableEq ι] (key : M → ι) (proc : Proc M R V E) (s : PM M ι R V E) (gid : Nat)
    (p p' : Pos M R V E) (rest : List (GenObj M R V E)) (r : R) (rs0 : List R) (m : M)
    (hex : s.exception = none) (hps : s.planStack = (gid, p) :: rest)
    (hrs : s.resultStack = r :: rs0) (hres : p.resume (.send r) = (.yld m, p'))
    (hseen : key m ∈ s.msgsSeen) :
    ∃ s', pmIter key proc s = .yield m s' ∧ s'.procLog = s.procLog := by
  have h1 := send_iter key proc s gid p rest r rs0 hex hps hrs
  rw [hres] at h1
  simp only [pmOnSend] at h1
  rw [pmProcess_seen key proc _ m (by exact hseen)] at h1
  exact ⟨_, h1, rfl⟩

/-! ### Non-vacuity: a concrete insertion (AST grammar)

host:  `r = yield Msg('null', 1); return r`;  the processor replaces message 1 by the head
`yield 100; yield 101` and the tail `yield 200`, and leaves everything else alone. -/

def hostA : Stmt := .seq (.yield 1 true) (.ret .var)
def headA : Stmt := .seq (.yield 100 true) (.yield 101 true)
def tailA : Stmt := .yield 200 true

def procA : Proc Msg Val Val Exc := fun log m =>
  if m.payload = 1 then (some (interp [1, log.length, 0] headA), some (interp [1, log.length, 1] tailA))
  else (none, none)

def payloads (t : List (Obs Msg Val Exc)) : List (Obs Nat Val Exc) :=
  t.map fun o => match o with
    | .yld m => .yld m.payload
    | .ret v => .ret v
    | .raise e => .raise e
    | .closed => .closed

/-- head's 100, 101, then tail's 200; the host gets 8 (the answer to 101), not 9 (tail's) -/
example : payloads (run (planMutator 10 Msg.ident procA (interp [0] hostA))
      [.send none, .send (some 7), .send (some 8), .send (some 9)])
    = [.yld 100, .yld 101, .yld 200, .ret (some 8)] := by decide

/-- an exception thrown while the head runs reaches the host at its yield (here it kills it) -/
example : payloads (run (planMutator 10 Msg.ident procA (interp [0] hostA))
      [.send none, .throw ⟨.exc1, 5⟩])
    = [.yld 100, .raise ⟨.exc1, 5⟩] := by decide

/-- the hypotheses of the head theorem are satisfiable: the head of `procA` runs -/
example : ∃ m1 m2 : Msg, Runs (Pos.new (interp [1, 0, 0] headA)) none
    [(m1, some 7), (m2, some 8)] none :=
  ⟨_, _, .step (p' := ⟨_, _, _⟩) rfl (.step (p' := ⟨_, _, _⟩) rfl (.done (p' := ⟨_, _, _⟩) rfl))⟩

end BlueskyVerif.C21
