/-
C25 -- Step scans visit exactly the documented trajectory.

Model: Pure/StepScan.lean (scan / inner_product_scan, list_scan, grid_scan, list_grid_scan, scan_nd,
x2x_scan, log_scan with the default per-step hooks `one_nd_step` = `move_per_step` (+ `pos_cache`) +
`trigger_and_read`), Pure/Linspace.lean (numpy.linspace over ℚ), and the C26 model of `snake_cyclers`
for the outer products.  `snapshots p0 msgs` replays the `set` messages on the motors (starting
anywhere, `p0`) and records the positions in force at every `save`; `Matches snaps traj` says: one
snapshot per trajectory point, and at the k-th save every motor of the k-th point is where that point
says.  All statements hold for ANY number of motors, points and detectors.
-/
import BlueskyVerif.Lemmas.C25Plans
import BlueskyVerif.Lemmas.C25Bounds

namespace BlueskyVerif.C25
open BlueskyVerif.Pure BlueskyVerif.Pure.Snake BlueskyVerif.Pure.Patterns BlueskyVerif.Pure.StepScan

/-! ### linspace -/

/-- `linspace(start, stop, num)` has `num` entries, the k-th is `start + k·(stop−start)/(num−1)`, the
    first is `start` (so `num = 1` gives `[start]`) and for `num ≥ 2` the last is `stop`. -/
theorem C25_linspace (a b : Rat) (n : Nat) :
    (linspace a b n).length = n ∧
    (∀ k, k < n → (linspace a b n)[k]? = some (a + (k : Rat) * ((b - a) / ((n : Rat) - 1)))) ∧
    (0 < n → (linspace a b n)[0]? = some a) ∧
    (2 ≤ n → (linspace a b n)[n - 1]? = some b) :=
  ⟨length_linspace a b n, fun k hk => getElem?_linspace a b n k hk, linspace_first a b n, linspace_last a b n⟩

/-! ### positions -/

/-- **The position cache never makes a motor miss a point** (`scan_nd` + `one_nd_step` +
    `move_per_step`): for every trajectory (any number of points, any motors, repeated positions
    allowed, motors starting anywhere) the positions in force at the successive `save`s are exactly the
    trajectory points, although a motor is only set when its target differs from `pos_cache`. -/
theorem C25_positions (dets : List Dev) (trig : Dev → Bool) (motors : List Nat) (traj : List Step)
    (p0 : Pos) (hkeys : ∀ s ∈ traj, (s.map (·.1)).Nodup) :
    Matches (snapshots p0 (scanNd dets trig motors traj)) traj :=
  snapshots_scanNd dets trig motors traj p0 hkeys

/-- `scan` / `inner_product_scan`: motor `j` is at `start_j + k·(stop_j − start_j)/(num − 1)` at the
    k-th reading, for every number of motors and every `num ≥ 1`; `num_points = num`. -/
theorem C25_scan_positions (dets : List Dev) (trig : Dev → Bool) (args : List (Rat × Rat)) (num : Nat)
    (hnum : 0 < num) (hne : args ≠ []) (p0 : Pos) :
    ∃ plan, scan dets trig args num = .ok plan ∧
      Matches (snapshots p0 plan.msgs)
        ((List.range num).map fun (k : Nat) =>
          args.zipIdx.map fun x => (x.2, x.1.1 + (k : Rat) * ((x.1.2 - x.1.1) / ((num : Rat) - 1)))) ∧
      plan.md.numPoints = num ∧ plan.md.numIntervals = (num : Int) - 1 := by
  refine ⟨_, scan_ok dets trig args num hnum hne, ?_, rfl, rfl⟩
  apply snapshots_scanNd
  intro s hs
  simp only [List.mem_map, List.mem_range] at hs
  obtain ⟨k, _, rfl⟩ := hs
  exact nodup_keys_zipIdx_map args _

/-- `scan` rejects `num = 0` and a call without motors. -/
theorem C25_scan_errors (dets : List Dev) (trig : Dev → Bool) (args : List (Rat × Rat)) (num : Nat) :
    scan dets trig args 0 = .valueError ∧ (0 < num → scan dets trig [] num = .typeError) := by
  constructor
  · simp [scan]
  · intro h; simp [scan, Nat.ne_of_gt h, innerProduct, innerZip]

/-- `list_scan`: motor `j` is at `list_j[k]` at the k-th reading; `num_points` = the common length. -/
theorem C25_list_scan_positions (dets : List Dev) (trig : Dev → Bool) (lists : List (List Rat)) (N : Nat)
    (hne : lists ≠ []) (hlen : ∀ l ∈ lists, l.length = N) (p0 : Pos) :
    ∃ plan, listScan dets trig lists = .ok plan ∧
      Matches (snapshots p0 plan.msgs)
        ((List.range N).map fun k => lists.zipIdx.flatMap fun x => ((x.1[k]?).map fun v => (x.2, v)).toList) ∧
      plan.md.numPoints = N ∧ plan.md.numIntervals = (N : Int) - 1 := by
  refine ⟨_, listScan_ok dets trig lists N hne hlen, ?_, rfl, rfl⟩
  apply snapshots_scanNd
  intro s hs
  simp only [List.mem_map, List.mem_range] at hs
  obtain ⟨k, _, rfl⟩ := hs
  exact nodup_keys_flatMap lists.zipIdx (fun x => x.1[k]?) (nodup_snd_zipIdx lists)

/-- `grid_scan`: the positions at the successive readings are the outer-product trajectory
    `outerTraj` of the per-axis linspaces with the flags derived from the snaking request ... -/
theorem C25_grid_scan_positions (dets : List Dev) (trig : Dev → Bool) (axes : List (Rat × Rat × Nat))
    (req : SnakeReq) (flags : List Bool) (hne : axes ≠ []) (hf : gridFlags axes.length req = some flags)
    (p0 : Pos) :
    ∃ plan, gridScan dets trig axes req = .ok plan ∧
      Matches (snapshots p0 plan.msgs) (outerTraj (gridCols axes) flags) := by
  refine ⟨_, gridScan_ok dets trig axes req flags hne hf, ?_⟩
  exact snapshots_scanNd _ _ _ _ p0 (nodup_keys_toSteps _)

/-- ... whose point at flat position `p` puts motor `i` at
    `start_i + idx·(stop_i − start_i)/(num_i − 1)` with `idx = idxAt num_i R_i snaked_i p`, the C26 index:
    row-major digit `p / R_i % num_i`, mirrored iff axis `i` is snaked and `p / (num_i·R_i)` is odd
    (`R_i` = product of the faster `num`s). -/
theorem C25_grid_scan_point (axes : List (Rat × Rat × Nat)) (flags : List Bool)
    (hlen : flags.length = axes.length) (p : Nat) (hp : p < prod (axes.map (·.2.2)))
    (i : Nat) (a : Rat × Rat × Nat) (s : Bool) (hi : axes[i]? = some a) (hs : flags[i]? = some s) :
    ∃ step, (outerTraj (gridCols axes) flags)[p]? = some step ∧
      step[i]? = some (i, a.1 + ((idxAt a.2.2 (prod ((axes.drop (i + 1)).map (·.2.2))) s p : Nat) : Rat)
        * ((a.2.1 - a.1) / ((a.2.2 : Rat) - 1))) :=
  gridPoint axes flags hlen p hp i a s hi hs

/-- `list_grid_scan`: positions at the successive readings are the outer product of the position
    lists with the flags of `outer_list_product` ... -/
theorem C25_list_grid_scan_positions (dets : List Dev) (trig : Dev → Bool) (lists : List (List Rat))
    (sa : SnakeAxes) (hne : lists ≠ []) (p0 : Pos) :
    ∃ plan, listGridScan dets trig lists sa = .ok plan ∧
      Matches (snapshots p0 plan.msgs) (outerTraj lists (outerListFlags lists.length sa)) := by
  refine ⟨_, listGridScan_ok dets trig lists sa hne, ?_⟩
  exact snapshots_scanNd _ _ _ _ p0 (nodup_keys_toSteps _)

/-- ... whose point at flat position `p` puts motor `i` at `list_i[idxAt L_i R_i snaked_i p]`. -/
theorem C25_outer_point (cols : List (List Rat)) (flags : List Bool) (hlen : flags.length = cols.length)
    (p : Nat) (hp : p < prod (cols.map List.length)) (i : Nat) (c : List Rat) (s : Bool)
    (hi : cols[i]? = some c) (hs : flags[i]? = some s) :
    ∃ step x, (outerTraj cols flags)[p]? = some step ∧
      c[idxAt c.length (prod ((cols.drop (i + 1)).map List.length)) s p]? = some x ∧
      step[i]? = some (i, x) :=
  outerPoint cols flags hlen p hp i c s hi hs

/-- `x2x_scan`: at the k-th reading motor 0 is at `init0 + start + k·(stop−start)/(num−1)` and motor 1
    at `init1 + start/2 + k·(stop/2−start/2)/(num−1)`; afterwards both motors are back where they were. -/
theorem C25_x2x_positions (dets : List Dev) (trig : Dev → Bool) (init0 init1 start stop : Rat) (num : Nat)
    (hnum : 0 < num) (p0 : Pos) :
    ∃ plan, x2xScan dets trig init0 init1 start stop num = .ok plan ∧
      Matches (snapshots p0 plan.msgs) (x2xTraj init0 init1 start stop num) ∧
      finalPos p0 plan.msgs 0 = some init0 ∧ finalPos p0 plan.msgs 1 = some init1 ∧
      plan.md.numPoints = num := by
  refine ⟨_, x2xScan_ok dets trig init0 init1 start stop num hnum, ?_, ?_, ?_, rfl⟩
  · simp only [snapshots_append]
    have : snapshots (finalPos p0 (scanNd dets trig [0, 1] (x2xTraj init0 init1 start stop num)))
        [Msg.set 0 init0 .reset, Msg.set 1 init1 .reset, Msg.wait .reset] = [] := by simp [snapshots]
    rw [this, List.append_nil]
    apply snapshots_scanNd
    intro s hs
    simp only [x2xTraj, List.mem_map, List.mem_range] at hs
    obtain ⟨k, _, rfl⟩ := hs
    simp
  · simp [finalPos_append, finalPos]
  · simp [finalPos_append, finalPos]

/-- what is NOT proved for log_scan: that the positions are `10 ^ linspace(start, stop, num)`
    (`pow10` stands for real exponentiation, which the rational model cannot express). -/
def C25_log_scan_full (pow10 : Rat → Rat) : Prop :=
  ∀ (dets : List Dev) (trig : Dev → Bool) (start stop : Rat) (num : Nat) (p0 : Pos),
    ∃ steps, steps = (linspace start stop num).map pow10 ∧
      Matches (snapshots p0 (logScan dets trig steps num).msgs) (steps.map fun x => [(0, x)])

/-- `log_scan`, STRUCTURE ONLY (PARTIAL): whatever list `steps` numpy.logspace returned, the motor is at
    `steps[k]` at the k-th reading (it is set at every point: `one_1d_step` has no cache), every block
    has the per-point shape, and `num_points = num`.  Missing: `steps` itself is a parameter. -/
theorem C25_log_scan_partial (dets : List Dev) (trig : Dev → Bool) (steps : List Rat) (num : Nat) (p0 : Pos) :
    Matches (snapshots p0 (logScan dets trig steps num).msgs) (steps.map fun x => [(0, x)]) ∧
    (∀ b ∈ steps.map (one1dStep dets trig), isPointBlock b = true) ∧
    (logScan dets trig steps num).md.numPoints = num := by
  refine ⟨?_, ?_, rfl⟩
  · have h1 : ∀ m ∈ (dets ++ [Dev.mot 0]).map Msg.stage ++ [Msg.openRun], m.inert = true := by
      intro m hm
      simp only [List.mem_append, List.mem_map, List.mem_singleton] at hm
      rcases hm with ⟨d, _, rfl⟩ | rfl <;> rfl
    have h2 : ∀ m ∈ [Msg.closeRun] ++ (dets ++ [Dev.mot 0]).reverse.map Msg.unstage, m.inert = true := by
      intro m hm
      simp only [List.mem_append, List.mem_map, List.mem_singleton] at hm
      rcases hm with rfl | ⟨d, _, rfl⟩ <;> rfl
    simp only [logScan, List.append_assoc] at h1 h2 ⊢
    rw [← List.append_assoc, snapshots_append, snapshots_inert _ _ h1, finalPos_inert _ _ h1,
      List.nil_append, snapshots_append, snapshots_inert _ _ h2, List.append_nil]
    exact snapshots_logBlocks dets trig steps p0
  · intro b hb
    simp only [List.mem_map] at hb
    obtain ⟨x, _, rfl⟩ := hb
    exact isPointBlock_one1dStep dets trig x

/-! ### one checkpointed reading per point -/

/-- **One checkpointed reading per point**: between `open_run` and `close_run` the plan consists of
    exactly one block per trajectory point, and every block is accepted by `isPointBlock`, the recogniser of
    `checkpoint, set*, wait(sets), trigger*, [wait(triggers)], create, read*, save`
    (it starts with the only checkpoint, the wait covers the sets, exactly one create … save bundle
    closes it).  The whole plan contains exactly one `save` per point. -/
theorem C25_one_checkpointed_reading_per_point (dets : List Dev) (trig : Dev → Bool) (motors : List Nat)
    (traj : List Step) :
    ∃ blocks : List (List Msg),
      scanNd dets trig motors traj =
        (dets ++ motors.map Dev.mot).map Msg.stage ++ [Msg.openRun] ++ blocks.flatten ++ [Msg.closeRun]
          ++ (dets ++ motors.map Dev.mot).reverse.map Msg.unstage ∧
      blocks.length = traj.length ∧ (∀ b ∈ blocks, isPointBlock b = true) ∧
      (scanNd dets trig motors traj).count Msg.save = traj.length := by
  refine ⟨perSteps dets trig traj Cache.empty, rfl, length_perSteps _ _ _ _,
    mem_perSteps_isPointBlock _ _ _ _, ?_⟩
  -- every step of a cycler has distinct keys in the real code; for the count we do not need that:
  -- count via the blocks
  have hcount : ∀ (tr : List Step) (c : Cache),
      (perSteps dets trig tr c).flatten.count Msg.save = tr.length := by
    intro tr
    induction tr with
    | nil => intro c; simp [perSteps]
    | cons s rest ih =>
      intro c
      simp only [perSteps, List.flatten_cons, List.count_append, ih, List.length_cons]
      have : (oneNdStep dets trig s c).1.count Msg.save = 1 := by
        have := (snapshots_oneNdStep dets trig s c (fun _ => none)).1
        rw [← length_snapshots (fun _ => none), this]; rfl
      omega
  have hmap : ∀ {α : Type} (f : α → Msg) (l : List α), (∀ x, f x ≠ Msg.save) →
      (l.map f).count Msg.save = 0 := by
    intro α f l hf
    rw [List.count_eq_zero]
    intro hm
    obtain ⟨x, _, hx⟩ := List.mem_map.mp hm
    exact hf x hx
  simp only [scanNd, List.count_append, hcount, hmap Msg.stage _ (by intro x h; cases h),
    hmap Msg.unstage _ (by intro x h; cases h), List.count_cons, List.count_nil]
  simp

/-! ### metadata -/

/-- `grid_scan` metadata: `num_points` = the number of readings taken = `prod shape`; `shape` = the
    `num`s; `snaking` = the derived flags, never snaking the first axis; `extents[i] = (start_i, stop_i)`,
    which is attained (`start_i` is the first, and for `num_i ≥ 2` `stop_i` the last entry of the axis'
    positions) and bounds every position the axis visits. -/
theorem C25_metadata_grid_scan (dets : List Dev) (trig : Dev → Bool) (axes : List (Rat × Rat × Nat))
    (req : SnakeReq) (flags : List Bool) (hne : axes ≠ []) (hf : gridFlags axes.length req = some flags) :
    ∃ plan, gridScan dets trig axes req = .ok plan ∧
      plan.md.numPoints = prod (axes.map (·.2.2)) ∧
      (∀ p0, (snapshots p0 plan.msgs).length = plan.md.numPoints) ∧
      plan.md.shape = some (axes.map (·.2.2)) ∧
      plan.md.snaking = some flags ∧ flags[0]? = some false ∧ flags.length = axes.length ∧
      plan.md.extents = some (axes.map fun a => (a.1, a.2.1)) ∧
      (∀ a ∈ axes, (0 < a.2.2 → (linspace a.1 a.2.1 a.2.2)[0]? = some a.1) ∧
                   (2 ≤ a.2.2 → (linspace a.1 a.2.1 a.2.2)[a.2.2 - 1]? = some a.2.1) ∧
                   ∀ x ∈ linspace a.1 a.2.1 a.2.2, min a.1 a.2.1 ≤ x ∧ x ≤ max a.1 a.2.1) := by
  have hlen := length_gridFlags _ _ _ hf
  refine ⟨_, gridScan_ok dets trig axes req flags hne hf, rfl, ?_, rfl, rfl,
    head_gridFlags _ _ _ hf (List.length_pos_iff.mpr hne), hlen, rfl, ?_⟩
  · intro p0
    have hm := snapshots_scanNd dets trig (List.range axes.length) (outerTraj (gridCols axes) flags) p0
      (nodup_keys_toSteps _)
    rw [hm.length_eq, length_outerTraj _ _ (by simp [gridCols, hlen]), gridCols_lengths]
  · intro a _
    exact ⟨linspace_first _ _ _, linspace_last _ _ _, fun x hx => linspace_bounds _ _ _ x hx⟩

/-- every position a grid_scan axis visits is an entry of that axis' linspace (hence within the
    recorded extents by `C25_metadata_grid_scan`). -/
theorem C25_grid_scan_visits_axis_positions (axes : List (Rat × Rat × Nat)) (flags : List Bool)
    (hlen : flags.length = axes.length) (p : Nat) (hp : p < prod (axes.map (·.2.2)))
    (i : Nat) (a : Rat × Rat × Nat) (hi : axes[i]? = some a) :
    ∃ step x, (outerTraj (gridCols axes) flags)[p]? = some step ∧ step[i]? = some (i, x) ∧
      x ∈ linspace a.1 a.2.1 a.2.2 ∧ min a.1 a.2.1 ≤ x ∧ x ≤ max a.1 a.2.1 := by
  have hil : i < axes.length := by
    rcases Nat.lt_or_ge i axes.length with h | h
    · exact h
    · simp [List.getElem?_eq_none h] at hi
  have hs : flags[i]? = some flags[i] := List.getElem?_eq_getElem (by omega)
  have hcol : (gridCols axes)[i]? = some (linspace a.1 a.2.1 a.2.2) := by simp [gridCols, hi]
  obtain ⟨step, x, h1, h2, h3⟩ := outerPoint (gridCols axes) flags (by simp [gridCols, hlen]) p
    (by rw [gridCols_lengths]; exact hp) i _ _ hcol hs
  have hx : x ∈ linspace a.1 a.2.1 a.2.2 := List.mem_of_getElem? h2
  exact ⟨step, x, h1, h3, hx, linspace_bounds _ _ _ x hx⟩

/-- `list_grid_scan` metadata: `num_points` = number of readings = `prod shape`, `shape` = the list
    lengths, `extents[i] = (min list_i, max list_i)`: both are entries of the list and bound all of them. -/
theorem C25_metadata_list_grid_scan (dets : List Dev) (trig : Dev → Bool) (lists : List (List Rat))
    (sa : SnakeAxes) (hne : lists ≠ []) :
    ∃ plan, listGridScan dets trig lists sa = .ok plan ∧
      plan.md.numPoints = prod (lists.map List.length) ∧
      (∀ p0, (snapshots p0 plan.msgs).length = plan.md.numPoints) ∧
      plan.md.shape = some (lists.map List.length) ∧
      plan.md.extents = some (lists.map fun l => (listMin l, listMax l)) ∧
      (∀ l ∈ lists, l ≠ [] →
        (∀ x ∈ l, listMin l ≤ x ∧ x ≤ listMax l) ∧ listMin l ∈ l ∧ listMax l ∈ l) := by
  have hlen := length_outerListFlags lists.length sa
  refine ⟨_, listGridScan_ok dets trig lists sa hne, rfl, ?_, rfl, rfl, ?_⟩
  · intro p0
    have hm := snapshots_scanNd dets trig (List.range lists.length)
      (outerTraj lists (outerListFlags lists.length sa)) p0 (nodup_keys_toSteps _)
    rw [hm.length_eq, length_outerTraj _ _ hlen]
  · intro l _ hl
    exact listMin_listMax l hl

/-- `scan_nd` metadata: `num_points = len(cycler)` = the number of readings, `num_intervals` one less. -/
theorem C25_metadata_scan_nd (dets : List Dev) (trig : Dev → Bool) (motors : List Nat) (traj : List Step)
    (p0 : Pos) (hkeys : ∀ s ∈ traj, (s.map (·.1)).Nodup) :
    (ndMeta traj).numPoints = (snapshots p0 (scanNd dets trig motors traj)).length ∧
    (ndMeta traj).numIntervals = ((ndMeta traj).numPoints : Int) - 1 := by
  refine ⟨?_, rfl⟩
  rw [(snapshots_scanNd dets trig motors traj p0 hkeys).length_eq]; rfl

/-! ### non-vacuity -/

example : ∃ plan, scan [.det 0] (fun _ => true) [(0, 1), (4, 4)] 3 = .ok plan ∧
    (snapshots (fun _ => none) plan.msgs).map (fun q => (q 0, q 1)) =
      [(some 0, some 4), (some (1/2 : Rat), some 4), (some 1, some 4)] ∧
    plan.msgs.count (Msg.set 1 4 .sets) = 1 := by
  refine ⟨_, rfl, ?_, ?_⟩ <;> decide +kernel

example : gridFlags 3 (.axes (.these [2])) = some [false, false, true] := by decide

example : (outerTraj (gridCols [(0, 1, 2), (0, 2, 3)]) [false, true]).map (fun s => s.map (·.2)) =
    [[0, 0], [0, 1], [0, 2], [1, 2], [1, 1], [1, 0]] := by decide +kernel

/-- the hypotheses of the positions theorems are satisfiable -/
example := C25_scan_positions [.det 0] (fun _ => true) [(0, 1), (4, 4)] 3 (by decide) (by simp) (fun _ => none)
example := C25_grid_scan_positions [.det 0] (fun _ => true) [(0, 1, 2), (0, 2, 3)] (.axes .all) [false, true]
  (by simp) (by decide) (fun _ => none)
example := C25_grid_scan_point [(0, 1, 2), (0, 2, 3)] [false, true] rfl 4 (by decide) 1 (0, 2, 3) true rfl rfl

end BlueskyVerif.C25
