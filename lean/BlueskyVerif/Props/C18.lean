/-
C18 -- Subscriptions live exactly as long as they were asked to.

Implementation side: `Engine.run` (Disp/PerCall.lean) runs a history of
  RE.subscribe / RE.unsubscribe / RE(plan, subs) / in-plan subscribe + unsubscribe / emitted documents
on the transcription of CallbackRegistry (private cids, func->cid de-duplication), Dispatcher (public
tokens, token -> [cid], the still-in-use rule of `unsubscribe` as read from the source into
Disp/Generated.lean) and the RunEngine's `_temp_callback_ids` bookkeeping.
Specification side: `Spec` (Disp/Spec.lean): the live subscriptions token -> (callable, name, scope).

Every theorem quantifies over ALL histories (lists of operations of any length, any callables --
also the same callable subscribed several times, permanently and per call -- any names, stale or
never-issued tokens) and all callback behaviours.  Out of the model: callables being garbage
collected (the registry's weak references), re-entrant subscribe/unsubscribe from inside a callback.
-/
import BlueskyVerif.Lemmas.C19Run

namespace BlueskyVerif.C18
open BlueskyVerif.Disp

/-- a fresh RunEngine with `ignore_callback_exceptions = ig` -/
def fresh (ig : Bool) : Engine := { disp := { reg := { ignoreExceptions := ig } } }

/-- the model of the implementation after a history (callbacks behave as `beh`) -/
def implAfter (beh : Beh) (ig : Bool) (ops : List Op) : Engine := (Engine.run beh (fresh ig) [] ops).1

/-- the invocation log of the implementation model over a history -/
def implLog (beh : Beh) (ig : Bool) (ops : List Op) : Log := (Engine.run beh (fresh ig) [] ops).2.1

/-- the abstract specification after a history -/
def specAfter (ops : List Op) : Spec := ops.foldl Spec.step {}

/-- the refinement, for every history: implementation model and specification are related by `RelE`
    and produce the same invocation log -/
theorem refinement (beh : Beh) (ig : Bool) (ops : List Op) :
    RelE ig (implAfter beh ig ops) (specAfter ops) ∧
    implLog beh ig ops = (Spec.run beh ig {} [] ops).2 := by
  have := run_rel beh ops (relE_init ig) []
  rw [Spec.run_fst] at this
  exact this

/-- **Lifetime.**  After ANY history, the callables that `process` walks for a document of kind `k`
    are exactly the callables having at least one live token that covers `k`. -/
theorem C18_lifetime (beh : Beh) (ig : Bool) (ops : List Op) (k : Sig) (f : Callable) :
    f ∈ (implAfter beh ig ops).disp.reg.callees k ↔
      ∃ sub ∈ (specAfter ops).live, sub.f = f ∧ sub.name.covers k = true := by
  obtain ⟨h, _⟩ := refinement beh ig ops
  simp only [Registry.callees, Generated.processForward, if_true]
  rw [h.rel.order k, h.rel.sinv k f, liveFor_iff]
  simp only [Name.covers_iff]

/-- ... and each such callable is walked once, however many live tokens it has. -/
theorem C18_each_callable_once (beh : Beh) (ig : Bool) (ops : List Op) (k : Sig) :
    ((implAfter beh ig ops).disp.reg.callees k).Nodup := by
  obtain ⟨h, _⟩ := refinement beh ig ops
  simp only [Registry.callees, Generated.processForward, if_true]
  exact h.rel.wf.fnNodup k

/-- With callbacks that do not raise: the document emitted after ANY history is delivered to `f`
    iff `f` has a live token covering its kind. -/
theorem C18_next_document_goes_to_live_callables (ig : Bool) (ops : List Op) (k : Sig) (doc : Doc) (f : Callable) :
    let quiet : Beh := fun _ _ _ _ => false
    (∃ newCalls, implLog quiet ig (ops ++ [.emit k doc]) = implLog quiet ig ops ++ newCalls ∧
      ((f, k, doc) ∈ newCalls ↔ ∃ sub ∈ (specAfter ops).live, sub.f = f ∧ sub.name.covers k = true)) := by
  intro quiet
  refine ⟨callsOf ((implAfter quiet ig ops).disp.reg.callees k) k doc, ?_, ?_⟩
  · have := (Engine.run_append quiet (fresh ig) [] ops [.emit k doc]).2.1
    simp only [implLog, this]
    simp only [Engine.run, Engine.step, Dispatcher.process, Registry.process]
    rw [runCbs_quiet quiet _ k doc _ _ _ (fun _ _ => rfl)]
    rfl
  · rw [← C18_lifetime quiet ig ops k f]
    simp [callsOf]

/-- **Subscribing** (valid name) issues the next token, which no live or earlier subscription carries,
    and adds exactly one permanent subscription; nothing else changes. -/
theorem C18_subscribe (beh : Beh) (ig : Bool) (ops : List Op) (f : Callable) (name : Name) (hv : name.valid = true) :
    (Engine.step beh (implAfter beh ig ops) (implLog beh ig ops) (.subscribe f name)).2.2 = .token (some (specAfter ops).next) ∧
    (specAfter (ops ++ [.subscribe f name])).live =
      (specAfter ops).live ++ [{ tok := (specAfter ops).next, f := f, name := name, temp := false }] ∧
    (∀ sub ∈ (specAfter ops).live, sub.tok < (specAfter ops).next) := by
  obtain ⟨h, _⟩ := refinement beh ig ops
  refine ⟨?_, ?_, h.rel.fresh⟩
  · have := (add_perm_rel h f name hv).1
    simp only [Engine.step]
    rw [this]
  · simp only [specAfter, List.foldl_append, List.foldl_cons, List.foldl_nil, Spec.step, hv, if_true]
    rfl

/-- In-plan and per-call subscriptions are recorded as temporary. -/
theorem C18_plan_subscribe (ops : List Op) (f : Callable) (name : Name) (hv : name.valid = true) :
    (specAfter (ops ++ [.planSubscribe f name])).live =
      (specAfter ops).live ++ [{ tok := (specAfter ops).next, f := f, name := name, temp := true }] := by
  simp only [specAfter, List.foldl_append, List.foldl_cons, List.foldl_nil, Spec.step, hv, if_true]
  rfl

/-- **Survival.**  A live subscription stays live through any further history that contains neither
    an unsubscription of ITS OWN token nor -- if it is a per-call / in-plan subscription -- the start
    of another call.  In particular a permanent subscription survives any number of calls. -/
theorem C18_survives (ops1 ops2 : List Op) (sub : Sub) (h : sub ∈ (specAfter ops1).live)
    (h1 : ∀ op ∈ ops2, op ≠ .unsubscribe sub.tok ∧ op ≠ .planUnsubscribe sub.tok)
    (h2 : sub.temp = true → ∀ op ∈ ops2, ∀ subs, op ≠ .callStart subs) :
    sub ∈ (specAfter (ops1 ++ ops2)).live := by
  have key : ∀ (ops : List Op) (s : Spec), sub ∈ s.live →
      (∀ op ∈ ops, op ≠ .unsubscribe sub.tok ∧ op ≠ .planUnsubscribe sub.tok) →
      (sub.temp = true → ∀ op ∈ ops, ∀ subs, op ≠ .callStart subs) →
      sub ∈ (ops.foldl Spec.step s).live := by
    intro ops
    induction ops with
    | nil => intro s hs _ _; exact hs
    | cons op ops ih =>
      intro s hs a b
      simp only [List.foldl_cons]
      apply ih
      · exact Spec.mem_step hs op (a op (by simp)).1 (a op (by simp)).2 (fun ht => b ht op (by simp))
      · intro o ho; exact a o (List.mem_cons_of_mem _ ho)
      · intro ht o ho; exact b ht o (List.mem_cons_of_mem _ ho)
  simp only [specAfter, List.foldl_append]
  exact key ops2 _ h h1 h2

/-- **Removing one subscription never silences a different one**, even when the same callable is
    subscribed more than once: if after a history some OTHER token of `f` covering `k` is live,
    `f` is still walked for kind `k` after `unsubscribe tok` (from outside or from the plan). -/
theorem C18_removal_is_local (beh : Beh) (ig : Bool) (ops : List Op) (tok : Token) (inPlan : Bool) (sub : Sub) (k : Sig)
    (h : sub ∈ (specAfter ops).live) (hne : sub.tok ≠ tok) (hk : sub.name.covers k = true) :
    sub.f ∈ (implAfter beh ig (ops ++ [if inPlan then .planUnsubscribe tok else .unsubscribe tok])).disp.reg.callees k := by
  rw [C18_lifetime]
  refine ⟨sub, ?_, rfl, hk⟩
  apply C18_survives ops _ sub h
  · intro op hop
    have : op = (if inPlan then Op.planUnsubscribe tok else Op.unsubscribe tok) := by simpa using hop
    subst this
    cases inPlan <;> simp <;> exact fun e => hne e.symm
  · intro _ op hop subs
    have : op = (if inPlan then Op.planUnsubscribe tok else Op.unsubscribe tok) := by simpa using hop
    subst this
    cases inPlan <;> simp

/-- **Unsubscribing** a token removes it for good: no later subscription ever carries it again. -/
theorem C18_unsubscribed_gone (ops1 ops2 : List Op) (tok : Token) (inPlan : Bool)
    (hissued : tok < (specAfter ops1).next) :
    ∀ sub ∈ (specAfter (ops1 ++ (if inPlan then .planUnsubscribe tok else .unsubscribe tok) :: ops2)).live,
      sub.tok ≠ tok := by
  have habs : ((specAfter ops1).step (if inPlan then .planUnsubscribe tok else .unsubscribe tok)).Absent tok := by
    refine ⟨by cases inPlan <;> exact hissued, ?_⟩
    intro sub hs
    have : sub ∈ ((specAfter ops1).remove tok).live := by cases inPlan <;> exact hs
    have := (List.mem_filter.1 this).2
    simpa using this
  have := (Spec.absent_run (fun _ _ _ _ => false) false ops2 habs []).2
  rw [Spec.run_fst] at this
  simpa only [specAfter, List.foldl_append, List.foldl_cons] using this

/-- **The start of the next call** (`RE(plan, subs)`): of the subscriptions that existed before,
    exactly the permanent ones are still live; every subscription made by the call itself is
    temporary. -/
theorem C18_next_call_drops_temporary (ops : List Op) (subs : List (Name × Callable)) :
    let before := specAfter ops
    let after := specAfter (ops ++ [.callStart subs])
    (∀ sub, sub ∈ after.live ∧ sub.tok < before.next ↔ sub ∈ before.live ∧ sub.temp = false) := by
  intro before after sub
  have hfresh : before.Fresh := by
    have := Spec.fresh_run (fun _ _ _ _ => false) false ops Spec.fresh_init []
    rw [Spec.run_fst] at this
    exact this
  have hafter : after = before.dropTemp.addPerCall subs := by
    simp only [after, before, specAfter, List.foldl_append, List.foldl_cons, List.foldl_nil, Spec.step]
  rw [hafter]
  constructor
  · rintro ⟨hm, hlt⟩
    have := Spec.addPerCall_old subs (s := before.dropTemp) before.next (Nat.le_refl _) sub hm hlt
    have := List.mem_filter.1 this
    exact ⟨this.1, by simpa using this.2⟩
  · rintro ⟨hm, ht⟩
    refine ⟨Spec.mem_addPerCall subs (List.mem_filter.2 ⟨hm, by simp [ht]⟩), hfresh.lt sub hm⟩

/-- ... and a temporary subscription (per-call or in-plan) never comes back: after the next call has
    started, no live subscription carries its token, whatever happens later. -/
theorem C18_temporary_gone_after_next_call (ops1 ops2 : List Op) (subs : List (Name × Callable)) (sub : Sub)
    (h : sub ∈ (specAfter ops1).live) (ht : sub.temp = true) :
    ∀ x ∈ (specAfter (ops1 ++ .callStart subs :: ops2)).live, x.tok ≠ sub.tok := by
  have hfresh : (specAfter ops1).Fresh := by
    have := Spec.fresh_run (fun _ _ _ _ => false) false ops1 Spec.fresh_init []
    rw [Spec.run_fst] at this
    exact this
  have habs : ((specAfter ops1).step (.callStart subs)).Absent sub.tok := by
    apply Spec.absent_addPerCall
    refine ⟨hfresh.lt sub h, ?_⟩
    intro x hx e
    have hx' := List.mem_filter.1 hx
    have hxt : x.temp = false := by simpa using hx'.2
    -- x and sub carry the same token and are both live, so they are the same subscription
    have hnd := hfresh.nodup
    have : x = sub := by
      generalize (specAfter ops1).live = l at hx' h hnd
      induction l with
      | nil => simp at h
      | cons a r ih =>
        simp only [List.map_cons, List.nodup_cons] at hnd
        rcases List.mem_cons.1 hx'.1 with e1 | m1 <;> rcases List.mem_cons.1 h with e2 | m2
        · rw [e1, e2]
        · exact absurd (List.mem_map.2 ⟨sub, m2, by rw [← e, e1]⟩) hnd.1
        · exact absurd (List.mem_map.2 ⟨x, m1, by rw [e, e2]⟩) hnd.1
        · exact ih ⟨m1, hx'.2⟩ m2 hnd.2
    rw [this, ht] at hxt
    exact absurd hxt (by simp)
  have := (Spec.absent_run (fun _ _ _ _ => false) false ops2 habs []).2
  rw [Spec.run_fst] at this
  simpa only [specAfter, List.foldl_append, List.foldl_cons] using this

/-! ### `Dispatcher.unsubscribe_all` -/

theorem foldl_del_keys {β : Type} (ks : List Nat) (m : List (Nat × β)) (h : ∀ p ∈ m, p.1 ∈ ks) :
    ks.foldl OD.del m = [] := by
  induction ks generalizing m with
  | nil =>
    apply List.eq_nil_iff_forall_not_mem.2
    intro p hp
    exact absurd (h p hp) (by simp)
  | cons k ks ih =>
    rw [List.foldl_cons]
    apply ih
    intro p hp
    unfold OD.del at hp
    obtain ⟨hm, hne⟩ := List.mem_filter.1 hp
    rcases List.mem_cons.1 (h p hm) with e | e
    · rw [e] at hne; simp at hne
    · exact e

theorem run_unsubscribes (beh : Beh) (e : Engine) (log : Log) (ts : List Token) :
    ((Engine.run beh e log (ts.map Op.unsubscribe)).1).disp.tokenMap = ts.foldl OD.del e.disp.tokenMap ∧
    ((Engine.run beh e log (ts.map Op.unsubscribe)).1).disp.counter = e.disp.counter ∧
    ((Engine.run beh e log (ts.map Op.unsubscribe)).1).temp = e.temp := by
  induction ts generalizing e log with
  | nil => exact ⟨rfl, rfl, rfl⟩
  | cons t ts ih =>
    simp only [List.map_cons, Engine.run, Engine.step, List.foldl_cons]
    obtain ⟨h1, h2, h3⟩ := ih { e with disp := e.disp.unsubscribe t } log
    exact ⟨h1, h2, h3⟩

/-- **unsubscribe_all.**  From EVERY state (so after any history), `RE.dispatcher.unsubscribe_all()` -- by the GENERATED
    fact the loop `for t in list(token_mapping.keys()): unsubscribe(t)` -- leaves no public token mapped, and it touches
    neither the token counter (tokens are never reissued: the next `subscribe` returns a token that was never handed out)
    nor `_temp_callback_ids`. -/
theorem C18_unsubscribe_all (beh : Beh) (e : Engine) (log : Log) :
    ((Engine.run beh e log (Engine.unsubscribeAllOps e)).1).disp.tokenMap = [] ∧
    ((Engine.run beh e log (Engine.unsubscribeAllOps e)).1).disp.counter = e.disp.counter ∧
    ((Engine.run beh e log (Engine.unsubscribeAllOps e)).1).temp = e.temp := by
  have hops : Engine.unsubscribeAllOps e = (e.disp.tokenMap.map (·.1)).map Op.unsubscribe := by
    simp only [Engine.unsubscribeAllOps, Generated.unsubAllIsLoop, if_true, List.map_map]
    rfl
  rw [hops]
  obtain ⟨h1, h2, h3⟩ := run_unsubscribes beh e log (e.disp.tokenMap.map (·.1))
  refine ⟨?_, h2, h3⟩
  rw [h1]
  exact foldl_del_keys _ _ (fun p hp => List.mem_map.2 ⟨p, hp, rfl⟩)

/-- ... hence, after `unsubscribe_all`, no callable is walked for any kind that a history subscribed (consequence of
    `C18_lifetime` applied to the history extended by those unsubscribes), and the token of the next subscription is the
    counter, which `unsubscribe_all` did not move. -/
theorem C18_subscribe_after_unsubscribe_all (beh : Beh) (e : Engine) (log : Log) (f : Callable) :
    (((Engine.run beh e log (Engine.unsubscribeAllOps e)).1).disp.subscribe f .all).2 = some e.disp.counter := by
  have h := (C18_unsubscribe_all beh e log).2.1
  simp only [Dispatcher.subscribe]
  rw [h]

/-! Non-vacuity: the scenario of the repaired defect.  `f = 7` is subscribed permanently (token 0)
    and again for one call (token 1); when the next call starts the per-call token is dropped and the
    permanent subscription still receives the start document (kind 1). -/
example : (implAfter (fun _ _ _ _ => false) false
    [.subscribe 7 .all, .callStart [(.all, 7)], .emit 1 0, .callStart [], .emit 1 1]).disp.reg.callees 1 = [7] := by decide +kernel
example : implLog (fun _ _ _ _ => false) false
    [.subscribe 7 .all, .callStart [(.all, 7)], .emit 1 0, .callStart [], .emit 1 1] = [(7, 1, 0), (7, 1, 1)] := by decide +kernel
example : ((specAfter [.subscribe 7 .all, .callStart [(.all, 7)], .emit 1 0, .callStart []]).live.map Sub.tok) = [0] := by decide
example : (Name.one 3).valid = true := by decide
example : (Engine.unsubscribeAllOps (implAfter (fun _ _ _ _ => false) false [.subscribe 7 .all, .subscribe 8 (.one 1)])).length = 2 := by decide +kernel

end BlueskyVerif.C18
