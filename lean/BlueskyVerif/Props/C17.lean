/-
C17 -- RunStart metadata merges its sources with the documented precedence; scan_id; validator.

Model: Pure/Metadata.lean (`openRun` = `RunEngine._open_run`).  Read from the source on every run
(Pure/MetadataGenerated.lean): the order of the ChainMap's mappings, the place of
`self.md["scan_id"] = scan_id`, the plan-identity keys, and `default_scan_id_source`.
The dictionaries of the four sources, the validator (any predicate) and the normalizer (any partial
function) are arbitrary in every theorem.

Domain (coordinator ruling, see harness/props/C17.py): metadata that event_model cannot compose into
a RunStart (keys 'uid'/'time', keys with '.' or '/', schema-invalid values) is not valid RunStart
metadata; `Outcome.composeError` marks such an attempt and the scan_id clause is stated for histories
without it.
-/
import BlueskyVerif.Lemmas.C17Hist

namespace BlueskyVerif.C17
open BlueskyVerif.Metadata

/-- the plan-identity mapping `{"plan_type": ..., "plan_name": ...}` -/
def planIdentity (a : Attempt) : Dict := [("plan_type", .str a.planType), ("plan_name", .str a.planName)]

/-- **Precedence.**  For arbitrary dictionaries and every key, the value the validator, the
    normalizer and hence the RunStart see is the one of the highest-precedence source that has the
    key: RE(...) keywords, then the open_run metadata, then the plan identity, then the new scan_id,
    then the persistent metadata RE.md. -/
theorem C17_precedence (a : Attempt) (sid : Int) (persistent : Dict) (k : String) :
    get? (merged a sid persistent) k =
      (get? a.callKw k).or ((get? a.openKw k).or ((get? (planIdentity a) k).or
        ((get? [("scan_id", .int sid)] k).or (get? persistent k)))) := by
  unfold merged
  rw [get?_flatten]
  simp only [Generated.chainOrder, List.map, chainGet_cons, sourceDict, Generated.planIdentityKeys,
    Generated.scanIdKey, List.zip_cons_cons, List.zip_nil_right, planIdentity]
  simp [chainGet]

/-- "Later sources win", source by source. -/
theorem C17_later_sources_win (a : Attempt) (sid : Int) (persistent : Dict) (k : String) (v : Val) :
    (get? a.callKw k = some v → get? (merged a sid persistent) k = some v) ∧
    (get? a.callKw k = none → get? a.openKw k = some v → get? (merged a sid persistent) k = some v) ∧
    (get? a.callKw k = none → get? a.openKw k = none → get? (planIdentity a) k = some v →
      get? (merged a sid persistent) k = some v) ∧
    (get? a.callKw k = none → get? a.openKw k = none → get? (planIdentity a) k = none →
      get? [("scan_id", .int sid)] k = none → get? (merged a sid persistent) k = get? persistent k) := by
  rw [C17_precedence]
  refine ⟨?_, ?_, ?_, ?_⟩ <;> intros <;> simp_all

/-- the persistent metadata is contained in the merged metadata: nothing is lost, only overlaid -/
theorem C17_nothing_lost (a : Attempt) (sid : Int) (persistent : Dict) (k : String) (v : Val)
    (h : get? persistent k = some v) : ∃ w, get? (merged a sid persistent) k = some w := by
  rw [C17_precedence]
  cases get? a.callKw k <;> cases get? a.openKw k <;> cases get? (planIdentity a) k <;>
    cases get? [("scan_id", Val.int sid)] k <;> simp [h]

/-- the plan identity and the new scan_id are in the merged metadata unless overridden from above -/
theorem C17_plan_identity_and_scan_id (a : Attempt) (sid : Int) (persistent : Dict) :
    (get? a.callKw "plan_name" = none → get? a.openKw "plan_name" = none →
      get? (merged a sid persistent) "plan_name" = some (.str a.planName)) ∧
    (get? a.callKw "plan_type" = none → get? a.openKw "plan_type" = none →
      get? (merged a sid persistent) "plan_type" = some (.str a.planType)) ∧
    (get? a.callKw "scan_id" = none → get? a.openKw "scan_id" = none →
      get? (merged a sid persistent) "scan_id" = some (.int sid)) := by
  refine ⟨?_, ?_, ?_⟩ <;> intro h1 h2 <;> rw [C17_precedence, h1, h2] <;> simp [planIdentity, get?]

/-- **Normalizer applied.**  A RunStart is emitted only with the metadata the normalizer returned
    for the merged metadata, which the validator accepted; the number comes from the scan_id source
    applied to the persistent metadata as it was before. -/
theorem C17_normalizer_applied (st st' : St) (a : Attempt) (sid : Int) (doc : Dict)
    (h : openRun st a = (st', .started sid doc)) :
    defaultScanIdSource st.md = some sid ∧
    a.validator (merged a sid st.md) = true ∧
    a.normalizer (merged a sid st.md) = some doc := by
  rcases openRun_cases st a with ⟨_, e⟩ | ⟨_, _, e⟩ | ⟨sid', _, hsid, hc⟩
  · rw [e] at h; cases h
  · rw [e] at h; cases h
  · rcases hc with ⟨_, e⟩ | ⟨_, _, e⟩ | ⟨doc', hv, hn, ⟨_, e⟩ | ⟨_, e⟩⟩
    · rw [e] at h; cases h
    · rw [e] at h; cases h
    · rw [e] at h
      injection h with h1 h2
      injection h2 with h3 h4
      subst h3; subst h4
      exact ⟨hsid, hv, hn⟩
    · rw [e] at h; cases h

/-- **A rejecting validator blocks the run**: no RunStart (the outcome is `rejected`), no bundler
    (`registered` stays false) and the engine state -- in particular RE.md and its scan_id -- is
    exactly what it was. -/
theorem C17_validator_blocks (st : St) (a : Attempt) (sid : Int) (hreg : st.registered = false)
    (hs : defaultScanIdSource st.md = some sid) (hv : a.validator (merged a sid st.md) = false) :
    openRun st a = (st, .rejected) := openRun_rejected st a sid hreg hs hv

/-- the same for a normalizer that raises -/
theorem C17_normalizer_blocks (st : St) (a : Attempt) (sid : Int) (hreg : st.registered = false)
    (hs : defaultScanIdSource st.md = some sid) (hv : a.validator (merged a sid st.md) = true)
    (hn : a.normalizer (merged a sid st.md) = none) :
    openRun st a = (st, .normalizerError) := openRun_normalizerError st a sid hreg hs hv hn

/-- **scan_id kept in RE.md.**  When a run is started its number is `RE.md.get('scan_id', 0) + 1` and
    is stored under 'scan_id' in the persistent metadata; nothing else of RE.md changes. -/
theorem C17_scan_id_kept (st st' : St) (a : Attempt) (sid : Int) (doc : Dict) (hnum : NumericScanId st.md)
    (h : openRun st a = (st', .started sid doc)) :
    sid = cur st.md + 1 ∧ st'.md = set st.md "scan_id" (.int sid) ∧
    (∀ k, k ≠ "scan_id" → get? st'.md k = get? st.md k) ∧ get? st'.md "scan_id" = some (.int sid) := by
  obtain ⟨hsid, hv, hn⟩ := C17_normalizer_applied st st' a sid doc h
  have hreg : st.registered = false := by
    cases hr : st.registered with
    | false => rfl
    | true => rw [openRun_registered st a hr] at h; cases h
  have hc : composes doc = true := by
    cases hc : composes doc with
    | true => rfl
    | false => rw [openRun_composeError st a sid doc hreg hsid hv hn hc] at h; cases h
  rw [openRun_started st a sid doc hreg hsid hv hn hc] at h
  have hst : st' = { store st sid with registered := true } := (Prod.mk.inj h).1.symm
  have h1 : sid = cur st.md + 1 := by
    rw [defaultScanIdSource_numeric st.md hnum] at hsid
    exact (Option.some.inj hsid).symm
  subst hst
  refine ⟨h1, rfl, ?_, ?_⟩
  · intro k hk
    show get? (set st.md Generated.scanIdKey _) k = _
    rw [get?_set]
    simp [Generated.scanIdKey, Ne.symm hk]
  · show get? (set st.md Generated.scanIdKey _) "scan_id" = _
    rw [get?_set]; simp [Generated.scanIdKey]

/-- **scan_id increases by exactly one per opened run.**  Over ANY history of calls and open_run
    attempts -- accepted, rejected by the validator, rejected by the normalizer, refused for a missing
    close_run, in any mixture and with any metadata (also metadata that overrides 'scan_id' in the
    RunStart) -- the numbers the default source hands to the runs that are started are
    s+1, s+2, s+3, ... where s is the initial `RE.md.get('scan_id', 0)`; afterwards RE.md holds
    s + (number of started runs); and when no run was started RE.md is untouched. -/
theorem C17_scan_id_step (st : St) (calls : List (List Attempt)) (hnum : NumericScanId st.md)
    (hdom : ∀ o ∈ (runHistory st calls).2, o ≠ .composeError) :
    (∀ i (hi : i < (startedSids (runHistory st calls).2).length),
        (startedSids (runHistory st calls).2)[i] = cur st.md + 1 + i) ∧
    cur (runHistory st calls).1.md = cur st.md + (startedSids (runHistory st calls).2).length ∧
    NumericScanId (runHistory st calls).1.md ∧
    (startedSids (runHistory st calls).2 = [] → (runHistory st calls).1.md = st.md) := by
  obtain ⟨a, b, c, d⟩ := runHistory_step st calls hnum hdom
  exact ⟨consec_get _ _ a, b, c, d⟩

/-- A user-supplied 'scan_id' (RE(...) keyword or open_run metadata) overrides the number in the
    RunStart only: the persistent counter advances as if it had not been given. -/
theorem C17_override_does_not_disturb_counter (st st' : St) (a : Attempt) (sid : Int) (doc : Dict) (v : Val)
    (hnum : NumericScanId st.md) (h : openRun st a = (st', .started sid doc))
    (ho : get? a.callKw "scan_id" = some v ∨ (get? a.callKw "scan_id" = none ∧ get? a.openKw "scan_id" = some v)) :
    get? (merged a sid st.md) "scan_id" = some v ∧ get? st'.md "scan_id" = some (.int (cur st.md + 1)) := by
  obtain ⟨h1, _, _, h4⟩ := C17_scan_id_kept st st' a sid doc hnum h
  refine ⟨?_, by rw [h4, h1]⟩
  rw [C17_precedence]
  rcases ho with ho | ⟨ho1, ho2⟩
  · simp [ho]
  · simp [ho1, ho2]

/-! Non-vacuity: two calls on a fresh engine (RE.md = {owner: 'me'}); the validator rejects metadata
    that has the key 'bad'; the second attempt is rejected, so the numbers are 1, 2. -/
private def ex (openKw : Dict) : Attempt :=
  { callKw := [("k", .int 1)], openKw := openKw, planType := "generator", planName := "count",
    validator := fun m => (get? m "bad").isNone, normalizer := some }

example : startedSids (runHistory { md := [("owner", .str "me")] } [[ex [], ex [("bad", .int 0)]], [ex [("k", .int 5)]]]).2 = [1, 2] := by
  decide +kernel
example : (runHistory { md := [("owner", .str "me")] } [[ex [], ex [("bad", .int 0)]], [ex [("k", .int 5)]]]).1.md
    = [("owner", .str "me"), ("scan_id", .int 2)] := by decide +kernel
example : get? (merged (ex [("k", .int 5)]) 3 [("k", .int 9), ("owner", .str "me")]) "k" = some (.int 1) := by decide +kernel
example : ∀ o ∈ (runHistory { md := [] } [[ex [], ex [("bad", .int 0)]]]).2, o ≠ .composeError := by decide +kernel

end BlueskyVerif.C17
