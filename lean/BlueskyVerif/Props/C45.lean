/-
C45 -- Collected stream assets line up with the stream's event numbering.

Model: `collect` / `_pack_external_assets` / `_pack_seq_nums_into_stream_datum` of Bundler/Model.lean for
pre-declared streams and detectors implementing WritesStreamAssets.  The DEVICE CONTRACT is the fake
detector `detCollect` (= harness/bundler_fakes.py::Det) with no scripted misbehaviour (`mis = []`):
`get_index()` is monotone (frames are only ever added: `Op.advance`), and
`collect_asset_docs(index)` yields its stream_resources once and then one stream_datum per data key
with `indices = [last reported index, index)`, empty `descriptor` and `seq_nums`.
Histories are arbitrary engine-admissible lists of bundler operations (see Props/C05.lean).
-/
import BlueskyVerif.Lemmas.C45
import BlueskyVerif.Props.C05

namespace BlueskyVerif.C45
open BlueskyVerif.Bundler BlueskyVerif.Bundler.Generated BlueskyVerif.C05
open KeepsCtrRef (ctrOf)

/-- **seq_num ranges: contiguous, starting at 1.**  After ANY admissible history in which stream `n`
    received no bundle event (a collect-only stream; monitor / interruption streams qualify too), a
    `collect` that does not raise and goes to stream `n` stamps every stream datum it emits with
    `seq_nums = [c, c + width of its indices)` where `c = 1 +` the total width of everything handed out
    in the stream so far (`widthSum` of the log: the previous collects' widths) -- so the first collect
    starts at 1 and each one starts where the previous ended, rewinds in between notwithstanding --
    and afterwards the counter is `c + d`, `d` being the (common) width of this collect. -/
theorem C45_contiguous_from_one (w : World) (cfg : BCfg) (env : List (Obj × Config)) (pre : List Op)
    (h : Adm w cfg env pre) (objs : List Obj) (nm : Option Name) (mis : List Mis)
    (hok : (collect w (reach w cfg env pre) objs nm mis).err = none) :
    ∃ (n : Name) (c d : Nat) (dsc : Desc), aget (reach w cfg env pre).seq n = some c ∧
      aget (collect w (reach w cfg env pre) objs nm mis).st.seq n = some (c + d) ∧
      (noRep (reach w cfg env pre).log n → c = 1 + widthSum (reach w cfg env pre).log n) ∧
      ∀ doc ∈ docsSince (reach w cfg env pre) (collect w (reach w cfg env pre) objs nm mis).st,
        (doc.kind = .streamDatum ∨ doc.kind = .streamResource) ∧
        (doc.kind = .streamDatum → doc.stream = some n ∧ doc.descriptor = some dsc.uid ∧
          ∃ a b, doc.idxRange = some (a, b) ∧ doc.seqRange = some (c, c + (b - a)) ∧ (b - a = 0 ∨ b - a = d)) := by
  have hinv := refInv_run w _ pre (openRun_refInv cfg 0 env) h
  generalize hs : reach w cfg env pre = s at *
  have hs' : runState w (openRun cfg 0 env) pre = s := hs
  rw [hs'] at hinv
  obtain ⟨n, c, d, dsc, assets, hc, _, hc', _, docs, hout, hdok, hkind, _⟩ :=
    collect_ok w s objs nm mis hinv.sub.nds hok
  refine ⟨n, c, d, dsc, hc, hc', fun hno => ?_, fun doc hd => ?_⟩
  · have := (runP_unrep_stream ({}, none) _ s.log hinv.run Ctr.wf_empty n hno
      (fun _ => by simp [Ctr.floor, Ctr.cur])).1
    have h0 : ((({} : Ctr), (none : Option Name)).1).cur n = 1 := rfl
    have hcur : (ctrOf s).cur n = c := by simp [Ctr.cur, ctrOf, hc]
    rw [h0, hcur] at this
    exact this
  · rw [docsSince_of_append _ _ _ hout] at hd
    refine ⟨hkind doc hd, fun hk => ?_⟩
    obtain ⟨k1, k2, a, b, k3, k4, k5, _⟩ := hdok doc hd hk
    exact ⟨k1, k2, a, b, k3, k4, k5⟩

/-- **Detectors collected together advance to the same minimum index.**  For EVERY state, when
    several contract-obeying detectors are collected together and the collect does not raise, every
    stream datum emitted has `indices.stop = m` where `m` is the minimum of the detectors' current
    indices: `m ≤` every detector's `get_index()` and `m` is one of them. -/
theorem C45_same_min_index (w : World) (s : BState) (hnd : (akeys s.seq).Nodup) (objs : List Obj) (nm : Option Name)
    (hmany : objs.length > 1) (hok : (collect w s objs nm []).err = none) :
    ∃ m, (∀ o ∈ objs, m ≤ ((aget s.dets o).getD {}).index) ∧ (∃ o ∈ objs, m = ((aget s.dets o).getD {}).index) ∧
      ∀ doc ∈ docsSince s (collect w s objs nm []).st, doc.kind = .streamDatum →
        ∃ a, doc.idxRange = some (a, m) := by
  obtain ⟨n, c, d, dsc, assets, _, _, _, _, docs, hout, hdok, _, hassets⟩ := collect_ok w s objs nm [] hnd hok
  have hne : objs.map (fun o => ((aget s.dets o).getD {}).index) ≠ [] := by
    cases objs with
    | nil => simp at hmany
    | cons a t => simp
  obtain ⟨hle, hmem⟩ := aggIndex_min _ hne
  refine ⟨aggIndex (objs.map fun o => ((aget s.dets o).getD {}).index), fun o ho => ?_, ?_, fun doc hd hk => ?_⟩
  · exact hle _ (List.mem_map.2 ⟨o, ho, rfl⟩)
  · obtain ⟨o, ho, he⟩ := List.mem_map.1 hmem
    exact ⟨o, ho, he.symm⟩
  · rw [docsSince_of_append _ _ _ hout] at hd
    obtain ⟨_, _, a, b, k3, _, _, uid, res, hin⟩ := hdok doc hd hk
    rw [hassets] at hin
    have hidx : collectIndex { s with uncollected := s.uncollected.filter fun o => !objs.contains o } objs =
        some (aggIndex (objs.map fun o => ((aget s.dets o).getD {}).index)) := by
      unfold collectIndex; simp [hmany]
    rw [hidx] at hin
    obtain ⟨hb, _, _⟩ := gatherAssets_contract w _ objs _ _ hin uid res false a b false rfl
    exact ⟨a, by rw [k3, hb]⟩

/-- the contract keeps each detector's index ranges contiguous from 0: a datum starts at the index
    reported by the previous `collect_asset_docs` (0 initially), which then becomes the index asked for -/
theorem C45_indices_contiguous (name : Obj) (keys : List Key) (d : DetSt) (index : Nat) (hadv : d.last < index) :
    (∀ a ∈ (detCollect name keys d (some index) {}).1, ∀ uid res df st sp sf, a = Asset.datum uid res df st sp sf →
      st = d.last ∧ sp = index) ∧
    (detCollect name keys d (some index) {}).2.last = index ∧ ({} : DetSt).last = 0 := by
  refine ⟨fun a ha uid res df st sp sf he => ?_, ?_, rfl⟩
  · obtain ⟨h1, h2, _, _⟩ := detCollect_contract name keys d index a ha uid res df st sp sf he
    exact ⟨h2, h1⟩
  · unfold detCollect
    simp only [Option.getD_some, decide_eq_true hadv, Bool.true_or, if_true]
    omega

/-- **num_events = frames declared.**  After ANY admissible history in which stream `n` received no
    bundle event, closing the run reports `num_events[n] =` the total width of what was handed out in the
    stream (`widthSum`): the sum over the collects of the number of frames each declared. -/
theorem C45_num_events_equals_frames (w : World) (cfg : BCfg) (env : List (Obj × Config)) (ops : List Op)
    (h : Adm w cfg env ops) (e r : Option String) (n : Name) (v : Nat)
    (hok : (step w (reach w cfg env ops) (.closeRun e r)).err = none)
    (hv : aget (reach w cfg env ops).seq n = some v) (hno : noRep (reach w cfg env ops).log n) :
    ∃ stop, docsSince (reach w cfg env ops) (step w (reach w cfg env ops) (.closeRun e r)).st = [stop] ∧
      stop.kind = .stop ∧ (n, widthSum (reach w cfg env ops).log n) ∈ stop.numEvents := by
  obtain ⟨⟨stop, h1, h2, h3⟩, _⟩ := C05_num_events w cfg env ops h e r hok
  refine ⟨stop, h1, h2, ?_⟩
  obtain ⟨hrun, _⟩ := C05_SeqInv w cfg env ops h
  have := (runP_unrep_stream ({}, none) _ _ hrun Ctr.wf_empty n hno (fun _ => by simp [Ctr.floor, Ctr.cur])).1
  have h0 : ((({} : Ctr), (none : Option Name)).1).cur n = 1 := rfl
  have hcur : (ctrOf (reach w cfg env ops)).cur n = v := by simp [Ctr.cur, ctrOf, hv]
  rw [h0, hcur] at this
  rw [h3]
  refine List.mem_map.2 ⟨(n, v), aget_mem _ _ _ hv, ?_⟩
  simp only [Prod.mk.injEq, true_and]
  omega

/-! ### Non-vacuity: two detectors, three collects with different index progressions -/

def wEx : World := [{ name := "x", keys := ["x1"], configurable := false, isDet := true },
                    { name := "y", keys := ["y1"], configurable := false, isDet := true }]
def hEx : List Op :=
  [.declareStream "fly" ["x", "y"] true, .advance "x" 3, .advance "y" 2, .collect ["x", "y"] (some "fly") [],
   .advance "x" 1, .advance "y" 4, .collect ["x", "y"] (some "fly") [], .collect ["x", "y"] (some "fly") []]

/-- seq ranges [1,3), [3,5) for both detectors (min index 2, then 4); the third collect adds nothing -/
example : ((reach wEx {} [] hEx).out.filterMap fun d => if d.kind = .streamDatum then some (d.seqRange, d.idxRange) else none) =
    [(some (1, 3), some (0, 2)), (some (1, 3), some (0, 2)), (some (3, 5), some (2, 4)), (some (3, 5), some (2, 4))] := by
  decide
example : admissibleFrom wEx (openRun {} 0 []) hEx = true := by decide
example : (step wEx (reach wEx {} [] hEx) (.closeRun none none)).err = none ∧
    aget (reach wEx {} [] hEx).seq "fly" = some 5 := by decide

end BlueskyVerif.C45
