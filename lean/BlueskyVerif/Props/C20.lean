/-
C20 -- Message mutators are transparent when they change nothing.

`msgMutator` / `planMutator` (Gen/Mutators.lean) transcribe `bluesky.preprocessors.msg_mutator` /
`plan_mutator` as generators; `run b script` is what a caller observes when it drives the
generator `b` with `script` (messages yielded, in order; StopIteration value; exception raised;
result of `close()`), the responses / exceptions of the script being delivered to it.

The plan `p` is ANY behaviour (any generator, finite or not, well-behaved or not), the script any
list of `send r` / `throw e` optionally ended by `close()`, of any length.  `f + 1` is the fuel of
the wrappers' inner loops; with a processor that changes nothing one iteration per resume is
enough, so no termination hypothesis is needed.

Domain (stated, not hidden):
* messages are `Msg` objects (a plan yielding `None` to msg_mutator is outside the protocol);
* exceptions THROWN by the caller: for `msg_mutator` anything but a GeneratorExit; for
  `plan_mutator` subclasses of `Exception` (this includes RequestStop / RequestAbort).
  GeneratorExit thrown in (not via `close()`) and, for plan_mutator, BaseExceptions that are not
  Exceptions are NOT transparent in general; `C20_genexit_contract` and
  `C20_plan_mutator_base_exception` say exactly what the wrappers do then, and
  `C20_genexit_transparent_*` gives transparency for plans that let GeneratorExit through.
  `close()` at the end of the script is always transparent.
-/
import BlueskyVerif.Lemmas.C20
import BlueskyVerif.Gen.Ast

namespace BlueskyVerif.C20
open BlueskyVerif.Gen

section
variable {M ι R V E : Type} [Inhabited R] [DecidableEq R] [Inhabited V] [PyExc E] [DecidableEq ι]

/-- msg_mutator with the identity processor is observationally the wrapped plan. -/
theorem C20_msg_mutator_id (f : Nat) (p : Beh M R V E) (ins : List (Inp R E)) (closeAtEnd : Bool)
    (hthrow : ∀ e, Inp.throw e ∈ ins → isGenExit e = false) :
    run (msgMutator (f + 1) (some : M → Option M) p) (script ins closeAtEnd)
      = run p (script ins closeAtEnd) :=
  sim_run_eq (mm_simulates f p) ins closeAtEnd hthrow

/-- plan_mutator with the processor returning `(None, None)` is observationally the wrapped plan. -/
theorem C20_plan_mutator_id (f : Nat) (key : M → ι) (p : Beh M R V E) (ins : List (Inp R E))
    (closeAtEnd : Bool) (hthrow : ∀ e, Inp.throw e ∈ ins → isException e = true) :
    run (planMutator (f + 1) key Proc.nothing p) (script ins closeAtEnd)
      = run p (script ins closeAtEnd) :=
  sim_run_eq (pm_simulates f key p) ins closeAtEnd hthrow

/-- **GeneratorExit contract.**  When a GeneratorExit `e` is thrown into either wrapper while it
holds the wrapped generator `q`, the wrapper calls `q.close()` and answers with
`genExitAnswer q e`: the exception `close()` raised (RuntimeError if `q` yielded) or else `e`
itself.  So the answer equals the bare plan's answer `q.throw(e)` exactly when the bare plan's
answer is that same exception -- a plan that yields on GeneratorExit (bare: yields; wrapped:
RuntimeError), returns (bare: StopIteration; wrapped: `e`) or converts `e` into another
GeneratorExit differs, and only such a plan. -/
theorem C20_genexit_contract (f : Nat) (key : M → ι) (p : Beh M R V E) (q : Pos M R V E) (e : E)
    (he : isGenExit e = true) :
    (mmStep (f + 1) (some : M → Option M) p (.atYield q) (.throw e)).1 = genExitAnswer q e ∧
    (∀ s : PMSt M ι R V E, pmT s q →
      (pmStep (f + 1) key Proc.nothing p s (.throw e)).1 = genExitAnswer q e) ∧
    ((mmStep (f + 1) (some : M → Option M) p (.atYield q) (.throw e)).1 = (q.resume (.throw e)).1
      ↔ (q.resume (.throw e)).1 = genExitAnswer q e) :=
  ⟨mm_genexit f p q e he, fun s hT => pm_genexit f key p s q hT e he,
   by rw [mm_genexit f p q e he]; exact eq_comm⟩

/-- For a plan that lets GeneratorExit through unchanged, msg_mutator is transparent for every
    script of sends and throws of ANY exception, optionally ended by `close()`. -/
theorem C20_genexit_transparent_msg_mutator (f : Nat) (p : Beh M R V E)
    (hp : GenExitTransparent p) (ins : List (Inp R E)) (closeAtEnd : Bool) :
    run (msgMutator (f + 1) (some : M → Option M) p) (script ins closeAtEnd)
      = run p (script ins closeAtEnd) := by
  refine sim_run_eq ((mm_simulates f p).extend (fun e => isGenExit e = true) ?_) ins closeAtEnd ?_
  · intro s q e hT hq hb he _
    cases hT
    obtain ⟨h1, h2⟩ := transparent_answers p hp q hq hb e he
    exact ⟨by rw [mm_genexit f p q e he, h1], h2⟩
  · intro e _
    cases h : isGenExit e <;> simp

/-- ... and plan_mutator for every script of sends and throws of Exceptions or GeneratorExits. -/
theorem C20_genexit_transparent_plan_mutator (f : Nat) (key : M → ι) (p : Beh M R V E)
    (hp : GenExitTransparent p) (ins : List (Inp R E)) (closeAtEnd : Bool)
    (hthrow : ∀ e, Inp.throw e ∈ ins → isException e = true ∨ isGenExit e = true) :
    run (planMutator (f + 1) key Proc.nothing p) (script ins closeAtEnd)
      = run p (script ins closeAtEnd) := by
  refine sim_run_eq ((pm_simulates f key p).extend (fun e => isGenExit e = true) ?_)
    ins closeAtEnd hthrow
  intro s q e hT hq hb he _
  obtain ⟨h1, h2⟩ := transparent_answers p hp q hq hb e he
  exact ⟨by rw [pm_genexit f key p s q hT e he, h1], h2⟩

/-- A thrown exception that is neither an `Exception` nor a GeneratorExit (KeyboardInterrupt,
    SystemExit, ...) is NOT passed to the wrapped plan by plan_mutator: it leaves the wrapper at
    once, whatever the plan would have done with it (msg_mutator does pass it on). -/
theorem C20_plan_mutator_base_exception (f : Nat) (key : M → ι) (p : Beh M R V E)
    (pm : PM M ι R V E) (e : E) (h1 : isException e = false) (h2 : isGenExit e = false) :
    (pmStep (f + 1) key Proc.nothing p (.atYield pm) (.throw e)).1 = .raise e := by
  simp [pmStep, pmResume, pmYield_other e h1 h2]

end

/-! ### The hypotheses are satisfiable / the statements are not vacuous

A concrete plan from the AST grammar that catches an exception and yields in the handler, yields
in `finally`, and returns the last response:
```
def plan():
    try:
        r = yield Msg('null', 1)
        r = yield Msg('null', 2)
    except Exception:
        r = yield Msg('null', 3)
    finally:
        yield Msg('null', 4)
    return r
```
-/

def demoPlan : Stmt :=
  .seq (.tryS (.seq (.yield 1 true) (.yield 2 true)) .exception (.yield 3 true) .pass (.yield 4 false))
       (.ret .var)

/-- observations with messages reduced to their payload -/
def view (t : List (Obs Msg Val Exc)) : List (Obs Nat Val Exc) :=
  t.map fun o => match o with
    | .yld m => .yld m.payload
    | .ret v => .ret v
    | .raise e => .raise e
    | .closed => .closed

def demoIns : List (Inp Val Exc) :=
  [.send none, .send (some 7), .throw ⟨.exc1, 5⟩, .send (some 8), .send (some 9)]

/-- what the bare plan does on the script (messages 1, 2, then the handler's 3, then 4 from the
    `finally`, then `return 8`, then `close()` on the finished generator) -/
example : view (run (interp [0] demoPlan) (script demoIns true))
    = [.yld 1, .yld 2, .yld 3, .yld 4, .ret (some 8), .closed] := by decide

example : ∀ e : Exc, Inp.throw e ∈ demoIns → isException e = true :=
  fun e h => by simp [demoIns] at h; subst h; rfl

/-- the two theorems instantiated on it -/
example : run (planMutator 1 Msg.ident Proc.nothing (interp [0] demoPlan)) (script demoIns true)
    = run (interp [0] demoPlan) (script demoIns true) :=
  C20_plan_mutator_id 0 Msg.ident _ demoIns true (fun e h => by simp [demoIns] at h; subst h; rfl)

example : run (msgMutator 1 some (interp [0] demoPlan)) (script demoIns true)
    = run (interp [0] demoPlan) (script demoIns true) :=
  C20_msg_mutator_id 0 _ demoIns true (fun e h => by simp [demoIns] at h; subst h; rfl)

/-- a plan that yields when it is closed: the wrapper answers a thrown GeneratorExit with
    RuntimeError where the bare plan yields (the contract's exclusion is real) -/
def stubborn : Stmt := .tryS (.yield 1 false) .genExit (.yield 2 false) .pass .pass

example : view (run (interp [0] stubborn) [.send none, .throw ⟨.genExit, 0⟩])
    = [.yld 1, .yld 2] := by decide

example : view (run (planMutator 1 Msg.ident Proc.nothing (interp [0] stubborn))
      [.send none, .throw ⟨.genExit, 0⟩])
    = [.yld 1, .raise ⟨.runtimeError, tagCloseIgnored⟩] := by decide

end BlueskyVerif.C20
