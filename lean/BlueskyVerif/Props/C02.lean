/-
C02 -- exit status, reason and raised exception reflect how the run ended.

Model: Engine/Model.lean + Engine/Sim.lean (the `_run` coroutine as a program-counter machine, the
request coroutines, the scheduler that plays ANY environment script).  The except ladder of `_run`
(`Src.exitOn*`), the `exception_map` of the CancelledError handler (`Src.cancelMap`) and what
abort()/stop()/halt() store (`Src.*SetsExit`, `Src.*Exc`, `Src.*State`) are GENERATED from
run_engine.py on every run; every theorem below is stated with those names AND with today's concrete
values, so a change of a constant in the source breaks the build.
-/
import BlueskyVerif.Lemmas.C02Req

namespace BlueskyVerif.C02
open BlueskyVerif.Engine

/-! ## 1. the ladder -/

/-- Leaving the loop of `_run` with exception `e` stores exactly the status of the generated ladder,
    remembers `e`, and sets the exit reason to the exception (text) for the classes that fail; with the
    current source the ladder is the documented mapping. -/
theorem C02_ladder (s : EState) (e : Exc) :
    (leaveLoop s e).exitStatus = ladderStatus e ∧ (leaveLoop s e).exitExc = some e ∧
    (leaveLoop s e).exitReason =
      (if e.sleeper then s.exitReason else if e = .genExit then "genexit" else e.name) ∧
    ((leaveLoop s e).pc = .exitSleep ↔ e.sleeper = true) ∧
    ladderStatus e = (match e with
      | .stopIteration | .requestStop => ExitStatus.success
      | .failedPause | .requestAbort | .cancelled | .planHalt => ExitStatus.abort
      | _ => ExitStatus.fail) := by
  cases e <;> exact ⟨rfl, rfl, rfl, by simp [leaveLoop, Exc.sleeper], rfl⟩

/-- the classes that end with 'fail' are exactly those whose handler re-raises (no exit sleep) -/
theorem C02_fail_iff_reraised (e : Exc) : ladderStatus e = .fail ↔ e.sleeper = false := by
  cases e <;> simp [ladderStatus, Exc.sleeper, Src.exitOnStopIteration, Src.exitOnRequestStop, Src.exitOnAbortLike,
    Src.exitOnGeneratorExit, Src.exitOnException]

/-! ## 2. the RunStop documents written by the engine itself -/

/-- The outer `finally` of `_run`, for ANY state (any number of open / closed runs, any monitors,
    staged devices, plan stack): it emits exactly one RunStop per run that is still open, in the order
    the runs were opened, nothing else; each carries the stored exit status and the reason "exception
    text if one left the loop, else the abort reason"; afterwards no run is left. -/
theorem C02_engine_closed_status (s : EState) :
    ∃ ds, (finishTask (cleanup s)).docs = s.docs ++ ds ∧
      (∀ d ∈ ds, d.kind = "stop" ∧ d.exit = s.exitStatus.name ∧
        d.reason = (if s.exitReason == "" then s.reason else s.exitReason)) ∧
      ds.map (·.run) = openIds s.bundlers ∧ (finishTask (cleanup s)).bundlers = [] := by
  obtain ⟨ds, h1, h2, h3⟩ := cleanupBody_docs s rfl
  exact ⟨ds, (cleanup_docs s).trans h1, h2, h3, finish_bundlers s⟩

/-! ## 3. what the requests store and what they leave for `_run` -/

/-- RE.abort(reason), accepted: status 'abort' and the reason are stored by the request itself, the
    state becomes 'aborting', `_interrupted` is set; when paused RequestAbort is left in `_exception`,
    otherwise the task is cancelled. -/
theorem C02_abort_request (s : EState) (r : String) (hi : s.state ≠ .idle)
    (ht : (Src.transitions s.state).contains .aborting = true) :
    (requestTerminate s "abort" r).state = .aborting ∧ (requestTerminate s "abort" r).interrupted = true ∧
    (requestTerminate s "abort" r).reason = r ∧ (requestTerminate s "abort" r).exitStatus = .abort ∧
    (s.state = .paused → (requestTerminate s "abort" r).exceptionSlot = some .requestAbort ∧
        (requestTerminate s "abort" r).cancelPending = s.cancelPending) ∧
    (s.state ≠ .paused → (requestTerminate s "abort" r).cancelPending = true ∧
        (requestTerminate s "abort" r).exceptionSlot = s.exceptionSlot) := by
  obtain ⟨h1, h2, h3, h4, h5, h6⟩ := requestTerminate_accepted s "abort" r hi ht
  exact ⟨h1, h2, h3, h4, h5, h6⟩

/-- RE.stop(), accepted: the stored status is NOT touched (the ladder maps RequestStop to 'success') -/
theorem C02_stop_request (s : EState) (r : String) (hi : s.state ≠ .idle)
    (ht : (Src.transitions s.state).contains .stopping = true) :
    (requestTerminate s "stop" r).state = .stopping ∧ (requestTerminate s "stop" r).interrupted = true ∧
    (requestTerminate s "stop" r).reason = s.reason ∧ (requestTerminate s "stop" r).exitStatus = s.exitStatus ∧
    (s.state = .paused → (requestTerminate s "stop" r).exceptionSlot = some .requestStop ∧
        (requestTerminate s "stop" r).cancelPending = s.cancelPending) ∧
    (s.state ≠ .paused → (requestTerminate s "stop" r).cancelPending = true ∧
        (requestTerminate s "stop" r).exceptionSlot = s.exceptionSlot) := by
  obtain ⟨h1, h2, h3, h4, h5, h6⟩ := requestTerminate_accepted s "stop" r hi ht
  refine ⟨h1, h2, h3, ?_, h5, h6⟩
  rw [h4]; simp

/-- RE.halt(), accepted: 'abort' is stored by the request only when the engine is paused; otherwise the
    status is left to the ladder (PlanHalt -> 'abort'). -/
theorem C02_halt_request (s : EState) (r : String) (hi : s.state ≠ .idle)
    (ht : (Src.transitions s.state).contains .halting = true) :
    (requestTerminate s "halt" r).state = .halting ∧ (requestTerminate s "halt" r).interrupted = true ∧
    (requestTerminate s "halt" r).reason = s.reason ∧
    (requestTerminate s "halt" r).exitStatus = (if s.state = .paused then .abort else s.exitStatus) ∧
    (s.state = .paused → (requestTerminate s "halt" r).exceptionSlot = some .planHalt ∧
        (requestTerminate s "halt" r).cancelPending = s.cancelPending) ∧
    (s.state ≠ .paused → (requestTerminate s "halt" r).cancelPending = true ∧
        (requestTerminate s "halt" r).exceptionSlot = s.exceptionSlot) := by
  obtain ⟨h1, h2, h3, h4, h5, h6⟩ := requestTerminate_accepted s "halt" r hi ht
  refine ⟨h1, h2, h3, ?_, h5, h6⟩
  rw [h4]
  by_cases hp : s.state = .paused
  · simp [hp]; rfl
  · simp [hp]

/-- The cancellation of a running task is turned into the control exception of the generated
    `exception_map` by the CancelledError handler (when nothing is being propagated already); with the
    current source: aborting -> RequestAbort, stopping -> RequestStop, halting -> PlanHalt. -/
theorem C02_cancellation_becomes_control_exception (s : EState) (r : Resp) (e : Exc)
    (h : Src.cancelMap s.state = some e) (hs : s.stashed = none) :
    hCancel s r = .loopTop (fin { s with stashed := some e } r) ∧
    (s.state = .aborting → e = .requestAbort) ∧ (s.state = .stopping → e = .requestStop) ∧
    (s.state = .halting → e = .planHalt) := by
  refine ⟨hCancel_control s r e h hs, ?_, ?_, ?_⟩ <;> intro hst <;> rw [hst] at h <;> cases h <;> rfl

/-! ## 4. what the call raises -/

/-- `RE(...)` / `RE.resume()` raise RunEngineInterrupted iff `_interrupted` is set and the task did
    not raise (an exception of the task is re-raised by `_resume_task` first). -/
theorem C02_call_outcome (op : String) (s : EState) :
    (outcomeOf op s).result = "raise:RunEngineInterrupted" ↔
      (s.interrupted = true ∧ ¬ (s.pc = .finished ∧ ∃ e, s.taskResult = .raised e)) := by
  have hne : ∀ e : Exc, ("raise:" ++ e.name) ≠ "raise:RunEngineInterrupted" := by
    intro e; cases e <;> simp [Exc.name] <;> decide
  unfold outcomeOf
  simp only []
  by_cases hf : s.pc = .finished
  · have hf' : (s.pc == PC.finished) = true := by simpa using hf
    simp only [hf', if_true]
    cases hr : s.taskResult with
    | raised e => simp [hne e, hf]
    | pending => by_cases hi : s.interrupted = true <;> simp [hi, hf]
    | returned => by_cases hi : s.interrupted = true <;> simp [hi, hf]
    | cancelled => by_cases hi : s.interrupted = true <;> simp [hi, hf]
  · have hf' : (s.pc == PC.finished) = false := by simpa using hf
    simp only [hf', Bool.false_eq_true, if_false]
    by_cases hi : s.interrupted = true <;> simp [hi, hf]

/-- The task (`_run`) returns for the classes the ladder swallows and re-raises the exception that left
    the loop itself for exactly the classes that give 'fail' (GeneratorExit is re-raised as ValueError);
    the outer `finally` does not change which exception that is. -/
theorem C02_task_reraises (x : EState) (e : Exc) (hc : (cleanup x).cleanupExc = none) (he : x.exitExc = some e)
    (hs : x.stashed ≠ some .cancelled) :
    (finishTask (cleanup x)).taskResult =
      (if e = .genExit then .raised .valueError else if ladderStatus e = .fail then .raised e else .returned) := by
  obtain ⟨k1, k2, _, _⟩ := cleanup_keep x
  rw [finishTask_result (cleanup x) e hc (k1.trans he) (by rw [k2]; exact hs)]
  by_cases hg : e = .genExit
  · simp [hg]
  · simp only [hg, if_false]
    by_cases hl : ladderStatus e = .fail
    · simp [hl, (C02_fail_iff_reraised e).mp hl]
    · have : e.sleeper = true := by
        cases hsl : e.sleeper
        · exact absurd ((C02_fail_iff_reraised e).mpr hsl) hl
        · rfl
      simp [hl, this]

/-! ## 5. GLOBAL: the status in force whenever the engine closes runs -/

/-- with today's constants a status stored by a request is 'abort' -/
theorem reqStored_iff (st : ExitStatus) : ReqStored st ↔ st = .abort := by
  unfold ReqStored
  constructor
  · intro h; rcases h with h | h <;> cases h <;> rfl
  · intro h; subst h; exact Or.inl rfl

/-- MAIN.  For every plan (any generator behaviour), every device specification, every environment
    script (requests / completions / monitor updates at any suspension point of `_run`), every arrival
    bound and fuel: if the task started by `RE(plan)` has ended when the call hands control back, then
    the outer `finally` ran on a state `x` in which the stored exit status is the ladder value of the
    exception `e` that left the loop -- or 'abort', stored by an abort() (or halt()-from-paused)
    request made after that (the only writers besides the ladder) -- and that status is on every
    RunStop the engine wrote for the runs that were still open (one each, nothing else), and no run is
    left.  (`e` is `x.exitExc`, except when the exit `sleep(0)` itself was cancelled: the model then
    records CancelledError as the task's outcome and `e` is one of the classes whose handler sleeps.) -/
theorem C02_status_when_cleanup_runs (maxArr : Nat) (sc : Script) (fuel : Nat) (s0 : EState) (plan : Gen)
    (h0 : s0.state = .idle) (hf : (schedule maxArr sc fuel (startCall s0 plan)).pc = .finished) :
    ∃ (x : EState) (e : Exc) (ds : List Doc),
      (x.exitStatus = ladderStatus e ∨ x.exitStatus = .abort) ∧
      (x.exitExc = some e ∨ (x.exitExc = some .cancelled ∧ x.stashed = some .cancelled ∧ e.sleeper = true)) ∧
      (e = .stopIteration → x.planDone = true) ∧
      (schedule maxArr sc fuel (startCall s0 plan)).docs = x.docs ++ ds ∧
      (∀ d ∈ ds, d.kind = "stop" ∧ d.exit = x.exitStatus.name ∧
        d.reason = (if x.exitReason == "" then x.reason else x.exitReason)) ∧
      ds.map (·.run) = openIds x.bundlers ∧
      (schedule maxArr sc fuel (startCall s0 plan)).bundlers = [] := by
  have hres := schedule_res maxArr sc fuel _ (startCall_res s0 plan h0)
  obtain ⟨x, l, hx, e, a1, a2, a3⟩ := hres.2.2.1 hf
  obtain ⟨ds, d1, d2, d3, d4⟩ := C02_engine_closed_status x
  refine ⟨x, e, ds, ?_, a3, a2, ?_, d2, d3, ?_⟩
  · rcases a1 with a1 | a1
    · exact Or.inl a1
    · exact Or.inr ((reqStored_iff _).mp a1)
  · rw [hx]; exact d1
  · rw [hx]; exact d4

/-- the same for `RE.resume()` and for abort()/stop()/halt() issued while paused -/
theorem C02_status_when_cleanup_runs_resume (maxArr : Nat) (sc : Script) (fuel : Nat) (s : EState)
    (hs : s.state = .paused) (hp : s.pc = .pausedWait)
    (hf : (schedule maxArr sc fuel (startResume s)).pc = .finished) :
    ∃ (x : EState) (e : Exc), (schedule maxArr sc fuel (startResume s)) = { finishTask (cleanup x) with
        refused := (schedule maxArr sc fuel (startResume s)).refused } ∧
      (x.exitStatus = ladderStatus e ∨ x.exitStatus = .abort) ∧
      (x.exitExc = some e ∨ (x.exitExc = some .cancelled ∧ x.stashed = some .cancelled ∧ e.sleeper = true)) := by
  have hres := schedule_res maxArr sc fuel _ (startResume_res s hs hp)
  obtain ⟨x, l, hx, e, a1, _, a3⟩ := hres.2.2.1 hf
  refine ⟨x, e, ?_, ?_, a3⟩
  · rw [hx]
  · rcases a1 with a1 | a1
    · exact Or.inl a1
    · exact Or.inr ((reqStored_iff _).mp a1)

theorem C02_status_when_cleanup_runs_terminate (maxArr : Nat) (sc : Script) (fuel : Nat) (s : EState) (kind : String)
    (hs : s.state = .paused) (hp : s.pc = .pausedWait)
    (hf : (schedule maxArr sc fuel (startTerminate s kind)).pc = .finished) :
    ∃ (x : EState) (e : Exc), (schedule maxArr sc fuel (startTerminate s kind)) = { finishTask (cleanup x) with
        refused := (schedule maxArr sc fuel (startTerminate s kind)).refused } ∧
      (x.exitStatus = ladderStatus e ∨ x.exitStatus = .abort) ∧
      (x.exitExc = some e ∨ (x.exitExc = some .cancelled ∧ x.stashed = some .cancelled ∧ e.sleeper = true)) := by
  have hres := schedule_res maxArr sc fuel _ (startTerminate_res s kind hs hp)
  obtain ⟨x, l, hx, e, a1, _, a3⟩ := hres.2.2.1 hf
  refine ⟨x, e, ?_, ?_, a3⟩
  · rw [hx]
  · rcases a1 with a1 | a1
    · exact Or.inl a1
    · exact Or.inr ((reqStored_iff _).mp a1)

/-! Non-vacuity: the hypotheses of the request theorems are satisfiable. -/
example : (Src.transitions .running).contains .aborting = true := by decide
example : (Src.transitions .paused).contains .halting = true := by decide
example : Src.cancelMap .stopping = some .requestStop := rfl

end BlueskyVerif.C02
