/-
C35 -- Document normalization never alters its inputs and loses nothing; conditional backup.

  * `Normalizer.generatedTable` (copy function of every RunNormalizer handler, every mutating statement
    with its path, cache stores), the index arithmetic (`framelessRange`, `seqNumsOf`, ...) and
    `Backup.callBody` are GENERATED from src/bluesky/callbacks/tiled_writer.py on every run.
  * IO/Normalizer.lean  : heap model with object identities, handlers interpreted from that table.
  * IO/NormalizerFlow.lean : which documents are emitted (hand transcription, tied by correspondence runs).
  * IO/Backup.lean : interpreter of the generated `_ConditionalBackup.__call__` body.

Schema validity of the emitted documents is NOT proved here: the harness validates every document the
real normalizer emits with event_model's schema validators (a test).
-/
import BlueskyVerif.Lemmas.C35Inv
import BlueskyVerif.Lemmas.C35Events
import BlueskyVerif.Lemmas.C35Backup

namespace BlueskyVerif.C35
open BlueskyVerif.Normalizer BlueskyVerif.NormFlow

/-! ## 1. the normalizer never modifies the documents it receives -/

/-- For EVERY table that passes the decidable safety check (each mutation happens on a deep copy, or on
    the freshly copied top-level object), every caller heap, every sequence of handler calls on any
    documents and every schedule of the handlers' mutating statements: no object of the caller's heap
    changes. -/
theorem C35_safe_table_never_mutates_inputs (T : Table) (hT : T.safe = true) (h0 : Heap) (cs : List Call) :
    ∀ r, r < h0.length → (Normalizer.run T { heap := h0 } cs).heap[r]? = h0[r]? :=
  frame_of_safe T hT h0 cs

/-- The table extracted from the CURRENT source is safe (fails to build if a handler that mutates nested
    state goes back to `copy.copy`), hence RunNormalizer leaves every object of the caller's heap as it was. -/
theorem C35_inputs_unchanged (h0 : Heap) (cs : List Call) :
    ∀ r, r < h0.length → (Normalizer.run generatedTable { heap := h0 } cs).heap[r]? = h0[r]? :=
  frame_of_safe generatedTable (by decide) h0 cs

/-- ... in particular every object REACHABLE from an input document (nested dictionaries and lists at any
    depth) is unchanged, whichever later call might have touched it (e.g. `stop` flushing cached datums). -/
theorem C35_reachable_unchanged (h0 : Heap)
    (hclosed : ∀ r, r < h0.length → ∀ r' ∈ refsOf (hget h0 r), r' < h0.length)
    (cs : List Call) (doc : Nat) (hdoc : doc < h0.length) (r : Nat) (hr : Reach h0 doc r) :
    hget (Normalizer.run generatedTable { heap := h0 } cs).heap r = hget h0 r := by
  have hlt := reach_lt h0 hclosed doc hdoc r hr
  simp only [hget, List.getD_eq_getElem?_getD, C35_inputs_unchanged h0 cs r hlt]

/-! ## 2. every internal event value is kept -/

/-- An event that follows a descriptor declaring `k` as an internal data key is re-emitted with the value of
    `k` (under `_time` / `_seq_num` for the reserved names), and the emitted event contains nothing that was
    not in the input event. -/
theorem C35_event_values_kept (pre post : List Doc) (e : EventIn) (d : Descriptor)
    (hd : Doc.descriptor d ∈ pre) (hok : (NormFlow.run (pre ++ Doc.event e :: post)).err = none)
    (k : String) (v : DVal) (hk : k ∈ d.intKeys) (hkv : (k, v) ∈ e.data)
    (hf : filledGet (renameAll e.filled) (rename k) true = true) :
    ∃ data, Out.event e.desc e.seq data ∈ (NormFlow.run (pre ++ Doc.event e :: post)).outs ∧
      (rename k, v) ∈ data ∧ ∀ kv ∈ data, ∃ k0, (k0, kv.2) ∈ e.data ∧ kv.1 = rename k0 :=
  event_kept_run pre post e d hd hok k v hk hkv hf

/-- the same for ANY state the handler is called in (covers events inside event pages) -/
theorem C35_event_values_kept_step (st : St) (e : EventIn) (k : String) (v : DVal) (hkv : (k, v) ∈ e.data)
    (hk : rename k ∈ st.intKeys) (hf : filledGet (renameAll e.filled) (rename k) true = true) :
    (∃ rest, (handleEvent st e).outs = Out.event e.desc e.seq (emittedData st e) :: rest) ∧
      (rename k, v) ∈ emittedData st e :=
  ⟨handleEvent_outs st e, (event_kept_step st e k v hkv hk hf).1⟩

/-- Every input event (event pages unpacked) is re-emitted exactly once and in order: the (descriptor,
    seq_num) sequence of the emitted event documents equals that of the input events, for any run that
    does not raise. -/
theorem C35_events_once_in_order (ds : List Doc) (hok : (NormFlow.run ds).err = none) :
    (NormFlow.run ds).outs.flatMap eventOf = ds.flatMap (docLab (fun d s => [(d, s)])) :=
  events_in_order ds hok

/-! ## 3. every referenced datum becomes exactly one stream datum -/

/-- A complete run (`body` without a stop document, then `stop`) that does not raise: the stream datums
    converted from datums correspond one-to-one to the references to external data in the events -- as
    multisets, for ANY order of datum and event documents (datums that arrive after their event are
    converted at `stop`). -/
theorem C35_one_stream_datum_per_reference (body : List Doc) (hns : ∀ d ∈ body, d ≠ Doc.stop)
    (hok : (NormFlow.run (body ++ [Doc.stop])).err = none) :
    (srcs (NormFlow.run (body ++ [Doc.stop])).outs).Perm (refsFrom {} body) ∧
      ∀ r, (srcs (NormFlow.run (body ++ [Doc.stop])).outs).count r = (refsFrom {} body).count r := by
  obtain ⟨imm, defer, hs, hi, _, _⟩ := run_split body hns hok
  have hp : (srcs (NormFlow.run (body ++ [Doc.stop])).outs).Perm (refsFrom {} body) := by
    rw [hs]; exact hi.perm.symm
  exact ⟨hp, fun r => hp.count_eq r⟩

/-- Every converted stream datum, in any run: uid = the datum id, descriptor = the referencing event's,
    `seq_nums = indices + 1`; without a `frame` the indices are `[seq_num - 1, seq_num)` of the event;
    with a frame `≥ -1` the range is not inverted. -/
theorem C35_stream_datum_ranges (ds : List Doc) (hok : (NormFlow.run ds).err = none) :
    ∀ sd g, Out.streamDatum sd (some g) ∈ (NormFlow.run ds).outs →
      sd.uid = uidOf g.src.datumId ∧ sd.desc = g.src.desc ∧ sd.s0 = sd.i0 + 1 ∧ sd.s1 = sd.i1 + 1 ∧
      (g.frame = none → sd.i0 = g.src.seq - 1 ∧ sd.i1 = g.src.seq) ∧
      (∀ f, g.frame = some f → -1 ≤ f → sd.i0 ≤ sd.i1) :=
  fun sd g h => all_good ds hok _ h

/-- Frame-based ranges of one stream / data key tile `[0, N)` in the order the datums are CONVERTED
    (the `_next_frame_index` carry logic), in any run. -/
theorem C35_frame_ranges_tile (nk : String × String) (ds : List Doc) (hok : (NormFlow.run ds).err = none) :
    tile 0 (framed nk (NormFlow.run ds).outs) :=
  framed_tile nk ds hok

/-- the first datum converted for a stream / data key covers `[0, frame + 1)` -/
theorem C35_first_frame_range {st : St} {d : Datum} {ref : ExtRef} {st' : St} {i0 i1 : Int} {name : String} {f : Int}
    (h : convert st d ref = .ok (st', i0, i1, name)) (hf : d.frame = some f) (h0 : 0 ≤ f)
    (hnew : st.nextFrame.lookup (name, ref.key) = none) : i0 = 0 ∧ i1 = f + 1 :=
  first_frame_range h hf h0 hnew

/-- FULL statement "the range of a converted stream datum is never empty" (an event references at least
    one frame).  FALSE for the code as it is when two consecutively converted datums of one stream / data key
    carry the same frame number (Counterexamples/C35.lean; the restart test is `index_stop < index_start`). -/
def C35_ranges_nonempty_full : Prop :=
  ∀ (ds : List Doc), (NormFlow.run ds).err = none →
    ∀ sd g, Out.streamDatum sd (some g) ∈ (NormFlow.run ds).outs → (∀ f, g.frame = some f → 0 ≤ f) → sd.i0 < sd.i1

/-- PARTIAL: one conversion, any state: the frame-based range is non-empty unless the datum repeats the frame
    number the counter of its stream / data key already stands at (`index = frame + 1`).  (Frameless ranges
    `[seq_num - 1, seq_num)` are non-empty by `C35_stream_datum_ranges`.) -/
theorem C35_frame_range_nonempty_partial {st : St} {d : Datum} {ref : ExtRef} {st' : St} {i0 i1 : Int}
    {name : String} {f : Int} (h : convert st d ref = .ok (st', i0, i1, name)) (hf : d.frame = some f) (h0 : 0 ≤ f)
    (hne : ((st.nextFrame.lookup (name, ref.key)).getD Normalizer.frameCounterInit).2 ≠ f + 1) : i0 < i1 :=
  frame_range_nonempty h hf h0 hne

/-- FULL statement for the frame-based ranges ("match the event"): the datums are converted in the order
    of the events that reference them, so that the tiling of `C35_frame_ranges_tile` is a tiling in EVENT
    order.  This is FALSE for the code as it is (Counterexamples/C35.lean, known finding): a datum of an
    earlier event that arrives late is converted after a later event's datum. -/
def C35_conversion_in_event_order_full : Prop :=
  ∀ (body : List Doc), (∀ d ∈ body, d ≠ Doc.stop) → (NormFlow.run (body ++ [Doc.stop])).err = none →
    srcs (NormFlow.run (body ++ [Doc.stop])).outs = refsFrom {} body

/-- PARTIAL: what is proved of it.  In general the conversion order is: the references resolved at their
    event (event order) followed by the deferred ones (event order) -- an order-preserving split of the
    references.  Hence conversion order = event order whenever no reference was deferred (every datum
    arrived before its event) or none was resolved immediately (all datums arrived late). -/
theorem C35_conversion_in_event_order_partial (body : List Doc) (hns : ∀ d ∈ body, d ≠ Doc.stop)
    (hok : (NormFlow.run (body ++ [Doc.stop])).err = none) :
    (∃ imm defer, srcs (NormFlow.run (body ++ [Doc.stop])).outs = imm ++ defer ∧
        Interleave (refsFrom {} body) imm defer ∧ imm = srcs (runFrom {} body).outs ∧
        defer = (runFrom {} body).st.extRefs) ∧
    (((runFrom {} body).st.extRefs = [] ∨ srcs (runFrom {} body).outs = []) →
        srcs (NormFlow.run (body ++ [Doc.stop])).outs = refsFrom {} body) := by
  obtain ⟨imm, defer, hs, hi, himm, hdef⟩ := run_split body hns hok
  refine ⟨⟨imm, defer, hs, hi, himm, hdef⟩, ?_⟩
  intro h
  rcases h with h | h
  · have hd : defer = [] := by rw [hdef, h]
    rw [hs, hd, List.append_nil]
    exact (hi.right_nil hd).symm
  · have hd : imm = [] := by rw [himm, h]
    rw [hs, hd, List.nil_append]
    exact (hi.left_nil hd).symm

/-! ## 4. `_ConditionalBackup` -/
open BlueskyVerif.Backup

/-- every run in which the primary fails has a first failure -/
theorem C35_backup_first_failure {α : Type} (xs : List (α × Bool)) (h : ∃ x ∈ xs, x.2 = true) :
    ∃ p d rest, xs = p ++ (d, true) :: rest ∧ ∀ x ∈ p, x.2 = false := by
  induction xs with
  | nil => simp at h
  | cons x xs ih =>
    obtain ⟨a, b⟩ := x
    cases b with
    | true => exact ⟨[], a, xs, rfl, by simp⟩
    | false =>
      obtain ⟨y, hy, hy2⟩ := h
      have : ∃ x ∈ xs, x.2 = true := by
        rcases List.mem_cons.mp hy with h1 | h1
        · subst h1; simp at hy2
        · exact ⟨y, h1, hy2⟩
      obtain ⟨p, d, rest, h1, h2⟩ := ih this
      refine ⟨(a, false) :: p, d, rest, by rw [h1]; rfl, ?_⟩
      intro z hz
      rcases List.mem_cons.mp hz with h3 | h3
      · subst h3; rfl
      · exact h2 z h3

/-- Once the primary fails (first at document `d`, after `p` successful ones) and the buffer did not
    overflow before (`p.length + 1 ≤ maxlen`): at the end of the run the backup writers have received EVERY
    document of the run exactly once and in order -- whatever the primary does afterwards. -/
theorem C35_backup_exactly_once_in_order {α : Type} (maxlen : Nat) (p : List (α × Bool)) (d : α)
    (rest : List (α × Bool)) (hp : ∀ x ∈ p, x.2 = false) (hlen : p.length + 1 ≤ maxlen) :
    (runAll maxlen (p ++ (d, true) :: rest)).log = (p ++ (d, true) :: rest).map (·.1) := by
  rw [log_after_failure maxlen (by omega) p d rest hp, lastN_of_le maxlen _ (by simpa using hlen)]
  simp

/-- while the primary never fails nothing is written to the backup -/
theorem C35_backup_silent_without_failure {α : Type} (maxlen : Nat) (p : List (α × Bool))
    (hp : ∀ x ∈ p, x.2 = false) : (runAll maxlen p).log = [] :=
  log_without_failure maxlen p hp

/-- beyond `maxlen` (examined, not part of the statement): the `deque(maxlen=...)` silently drops the oldest
    documents, so the backup starts `p.length + 1 - maxlen` documents late -- the RunStart is the first to go. -/
theorem C35_backup_overflow {α : Type} (maxlen : Nat) (hm : 1 ≤ maxlen) (p : List (α × Bool)) (d : α)
    (rest : List (α × Bool)) (hp : ∀ x ∈ p, x.2 = false) :
    (runAll maxlen (p ++ (d, true) :: rest)).log =
      ((p ++ (d, true) :: rest).map (·.1)).drop (p.length + 1 - maxlen) := by
  rw [log_after_failure maxlen hm p d rest hp]
  simp only [lastN, List.map_append, List.map_cons, List.length_append, List.length_map, List.length_cons,
    List.length_nil]
  have : p.length + 1 - maxlen ≤ (p.map (·.1) ++ [d]).length := by simp
  rw [show p.map (·.1) ++ d :: rest.map (·.1) = (p.map (·.1) ++ [d]) ++ rest.map (·.1) by simp]
  rw [List.drop_append_of_le_length this]

/-! ## non-vacuity -/

def exDocs : List Doc :=
  [.start, .descriptor ⟨"d1", "primary", ["x", "time"], ["img"]⟩, .resource "r" true,
   .datum ⟨"r/0", "r", some 0⟩,
   .event ⟨"d1", 1, [("x", .num 5), ("time", .num 9), ("img", .str "r/0")], []⟩,
   .event ⟨"d1", 2, [("x", .num 6), ("time", .num 9), ("img", .str "r/1")], []⟩,
   .datum ⟨"r/1", "r", some 1⟩]

example : (NormFlow.run (exDocs ++ [Doc.stop])).err = none := by decide
example : ∀ d ∈ exDocs, d ≠ Doc.stop := by
  intro d hd h; subst h; simp [exDocs] at hd
example : refsFrom {} exDocs = [⟨.str "r/0", "img", "d1", 1⟩, ⟨.str "r/1", "img", "d1", 2⟩] := by decide
example : (runFrom {} exDocs).st.extRefs = [⟨.str "r/1", "img", "d1", 2⟩] := by decide   -- one late datum
example : framed ("primary", "img") (NormFlow.run (exDocs ++ [Doc.stop])).outs = [(0, 1), (1, 2)] := by decide
example : Out.event "d1" 1 [("x", .num 5), ("_time", .num 9)] ∈ (NormFlow.run (exDocs ++ [Doc.stop])).outs := by decide
example : (NormFlow.run (exDocs ++ [Doc.stop])).outs.flatMap eventOf = [("d1", 1), ("d1", 2)] := by decide
example : (runAll 3 [((0 : Nat), false), (1, false), (2, true), (3, false), (4, true)]).log = [0, 1, 2, 3, 4] := by decide
example : (runAll 2 [((0 : Nat), false), (1, false), (2, true), (3, false)]).log = [1, 2, 3] := by decide

end BlueskyVerif.C35
