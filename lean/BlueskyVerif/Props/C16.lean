/-
C16 -- Descriptors carry the device configuration current when they were made.

Model: Bundler/Model.lean.  The devices' configuration is part of the model's environment
(`BState.envCfg`, what `read_configuration()` would return right now).  The explicit assumption of the
property -- *configuration changes only through `configure` messages* -- is the shape of the
histories: a list of `SyncOp` units, each either one arbitrary bundler operation other than the bare
environment change `setCfg`, or `reconfigure o c` = "the device is configured to `c` and the bundler's
`configure(o)` runs" (exactly what `RunEngine._configure` does).  A history containing a bare `setCfg`
(a device poked behind the engine's back) is outside the theorems: the configuration cache is filled
once per run per object and the next descriptor would record the stale value (`C16_poke_is_stale`
below exhibits it; the correspondence run exercises it against the real code).
-/
import BlueskyVerif.Lemmas.C16

namespace BlueskyVerif.C16
open BlueskyVerif.Bundler BlueskyVerif.Bundler.Generated
open KeepsCfgDocs (reported CacheCur DocCfgOK)
open KeepsRefs (UidInv RefOK)

/-- **Every descriptor records the configuration current when it was made.**  In ANY history in
    which configuration changes only through `configure`, every descriptor document that
    `_prepare_stream` emits during ANY unit `u` records, for every object of its stream, exactly the
    configuration the device reports at that moment, and lists exactly the stream's objects. -/
theorem C16_descriptor_records_current_config (w : World) (cfg : BCfg) (env : List (Obj × Config))
    (us : List SyncOp) (u : SyncOp) (hus : ∀ v ∈ us, v.ok = true) (hu : u.ok = true) :
    ∀ doc ∈ docsSince (afterU w cfg env us) (runUnit w (afterU w cfg env us) u),
      doc.kind = .descriptor → doc.src = .prepare →
        (∀ ob ∈ doc.config, ob.2.data = reported w (runUnit w (afterU w cfg env us) u).envCfg ob.1) ∧
        doc.config.map Prod.fst = doc.objKeys.map Prod.fst := by
  obtain ⟨_, new, h2, h3⟩ := unit_cfg w _ u hu (inv_after w cfg env us hus).cache
  intro doc hd hk hs
  rw [docsSince_of_append _ _ _ h2] at hd
  exact h3 doc hd hk hs

/-- **configure re-describes every stream containing the object.**  After ANY synchronised history,
    when the device `o` is configured to `c` and `configure(o)` completes, every stream `n` whose
    descriptor `d0` contains `o` holds a NEW descriptor `d'` (uid not below the next free uid before
    the configure, hence different from every descriptor made before, `d0` included) with the same
    data keys and objects; a descriptor document for it was emitted during the configure and it
    records `c` as the configuration of `o`.  Streams not containing `o` keep their descriptor. -/
theorem C16_reconfigure (w : World) (cfg : BCfg) (env : List (Obj × Config)) (us : List SyncOp)
    (hus : ∀ v ∈ us, v.ok = true) (o : Obj) (c : Config) (hconf : (w.spec o).configurable = true)
    (hok : (step w (step w (afterU w cfg env us) (.setCfg o c)).st (.configure o)).err = none) :
    ∀ n d0, aget (afterU w cfg env us).descriptors n = some d0 →
      d0.uid < (afterU w cfg env us).nextUid ∧
      (ahas d0.objs o = false →
        aget (runUnit w (afterU w cfg env us) (.reconfigure o c)).descriptors n = some d0) ∧
      (ahas d0.objs o = true →
        ∃ d', aget (runUnit w (afterU w cfg env us) (.reconfigure o c)).descriptors n = some d' ∧
          (afterU w cfg env us).nextUid ≤ d'.uid ∧ d'.keys = d0.keys ∧ d'.objs = d0.objs ∧
          ∃ doc ∈ docsSince (afterU w cfg env us) (runUnit w (afterU w cfg env us) (.reconfigure o c)),
            doc.kind = .descriptor ∧ doc.uid = d'.uid ∧ doc.stream = some n ∧ doc.keys = d0.keys ∧
            ∃ blk, (o, blk) ∈ doc.config ∧ blk.data = c) := by
  generalize hs : afterU w cfg env us = s at *
  have hinv : Inv w s := hs ▸ inv_after w cfg env us hus
  intro n d0 hd0
  have hlt : d0.uid < s.nextUid := hinv.uid (n, d0) (aget_mem _ _ _ hd0)
  -- unfold the unit: the environment change, the cache refresh, the loop
  have hunit : runUnit w s (.reconfigure o c) =
      (reprepareAll w (cacheReadConfig w { s with envCfg := aset s.envCfg o c } o).st o).st := by
    simp only [runUnit, SyncOp.ops, runState, step, Res.ok_st, configure]
    rw [Res.andThen_st_ok _ _ (by unfold cacheReadConfig; split <;> rfl)]
  have herr : (reprepareAll w (cacheReadConfig w { s with envCfg := aset s.envCfg o c } o).st o).err = none := by
    simp only [step, Res.ok_st, configure] at hok
    rw [Res.andThen_err_ok _ _ (by unfold cacheReadConfig; split <;> rfl)] at hok
    exact hok
  generalize hs2 : (cacheReadConfig w { s with envCfg := aset s.envCfg o c } o).st = s2 at *
  have h2d : s2.descriptors = s.descriptors ∧ s2.nextUid = s.nextUid ∧ s2.out = s.out := by
    subst hs2; unfold cacheReadConfig; split <;> exact ⟨rfl, rfl, rfl⟩
  have hfold := repFold_ok w o (akeys s2.descriptors) (by rw [h2d.1]; exact hinv.nodup) (Res.ok s2) rfl herr
  simp only [Res.ok_st] at hfold
  have hfold' : s2.nextUid ≤ (reprepareAll w s2 o).st.nextUid ∧ _ := hfold
  obtain ⟨_, _, f3⟩ := hfold
  have hmem : n ∈ akeys s2.descriptors := by
    rw [h2d.1]
    by_cases hc : n ∈ akeys s.descriptors
    · exact hc
    · rw [(aget_none_iff_not_mem_keys _ _).2 hc] at hd0; cases hd0
  have hspec := f3 n hmem d0 (by rw [h2d.1]; exact hd0)
  refine ⟨hlt, fun hno => ?_, fun hyes => ?_⟩
  · rw [hunit]; simp only [hno, Bool.false_eq_true, if_false] at hspec; exact hspec
  · simp only [hyes, if_true] at hspec
    obtain ⟨d', e1, e2, e3, e4⟩ := hspec
    have hkeys : d'.keys = d0.keys := by
      rw [e3]; exact (hinv.wf (n, d0) (aget_mem _ _ _ hd0)).symm
    rw [hunit]
    refine ⟨d', e1, by rw [← h2d.2.1]; exact e2, hkeys, e4, ?_⟩
    -- the document: `d'` is not an old descriptor, so it was documented during the unit
    obtain ⟨new, ho, hdoc⟩ := docs_run w s (SyncOp.reconfigure o c).ops
    have hmem' : (n, d') ∈ (runUnit w s (.reconfigure o c)).descriptors := by
      rw [hunit]; exact aget_mem _ _ _ e1
    have hnew : KeepsDocs.Documented new n d' := by
      rcases hdoc (n, d') hmem' with h | h
      · exfalso
        have := hinv.uid (n, d') h
        rw [← h2d.2.1] at this
        exact Nat.lt_irrefl _ (Nat.lt_of_lt_of_le this e2)
      · exact h
    obtain ⟨doc, hm, k1, k2, k3, k4, _, k6, k7, k8⟩ := hnew
    have hds : docsSince s (runUnit w s (.reconfigure o c)) = new := docsSince_of_append _ _ _ ho
    rw [← hunit, hds]
    refine ⟨doc, hm, k1, k2, k3, by rw [k4, hkeys], ?_⟩
    -- its configuration block for `o` is what the device reports now, i.e. `c`
    obtain ⟨_, new', ho', hcfg⟩ := unit_cfg w s (.reconfigure o c) rfl hinv.cache
    have : new' = new := List.append_cancel_left (ho'.symm.trans ho)
    subst this
    obtain ⟨hdata, hobjs⟩ := hcfg doc hm k1 k8
    have hoin : o ∈ doc.config.map Prod.fst := by
      rw [hobjs, k7, e4]
      obtain ⟨v, hv⟩ := (ahas_iff _ _).1 hyes
      exact List.mem_map.2 ⟨(o, v), aget_mem _ _ _ hv, rfl⟩
    obtain ⟨ob, hob, hob1⟩ := List.mem_map.1 hoin
    refine ⟨ob.2, by rw [← hob1]; exact hob, ?_⟩
    rw [hdata ob hob, hob1]
    have henv : (runUnit w s (.reconfigure o c)).envCfg = aset s.envCfg o c := by
      have h1 := (KeepsCfgDocs.keeps_reprepareAll w s2 o).1
      rw [hunit, h1, ← hs2]
      unfold cacheReadConfig; split <;> rfl
    rw [henv]; simp [reported, hconf]

/-- **Later events reference the new descriptor.**  After the configure of `C16_reconfigure`, let
    `U` be the next free uid before it (every descriptor made before has a uid below `U`).  Then in
    ANY continuation `post` (arbitrary operations) every event (bundle event or monitor update) and
    every stream datum of a stream `n` that contained `o` references a descriptor with uid ≥ `U`:
    never the old descriptor, always one made with the new configuration or later. -/
theorem C16_later_events_reference_new (w : World) (cfg : BCfg) (env : List (Obj × Config)) (us : List SyncOp)
    (hus : ∀ v ∈ us, v.ok = true) (o : Obj) (c : Config) (hconf : (w.spec o).configurable = true)
    (hok : (step w (step w (afterU w cfg env us) (.setCfg o c)).st (.configure o)).err = none)
    (n : Name) (d0 : Desc) (hd0 : aget (afterU w cfg env us).descriptors n = some d0)
    (hyes : ahas d0.objs o = true) (post : List Op) :
    ∀ e ∈ docsSince (runUnit w (afterU w cfg env us) (.reconfigure o c))
          (runState w (runUnit w (afterU w cfg env us) (.reconfigure o c)) post),
      (e.kind = .event ∨ e.kind = .streamDatum) → e.src ≠ .interruption → e.stream = some n →
        ∃ u, e.descriptor = some u ∧ (afterU w cfg env us).nextUid ≤ u ∧ d0.uid < u := by
  obtain ⟨hlt, _, hnew⟩ := C16_reconfigure w cfg env us hus o c hconf hok n d0 hd0
  obtain ⟨d', e1, e2, _, _, _⟩ := hnew hyes
  have hinv : Inv w (afterU w cfg env us) := inv_after w cfg env us hus
  have hinv' : Inv w (runUnit w (afterU w cfg env us) (.reconfigure o c)) := inv_unit w _ _ rfl hinv
  generalize hs : afterU w cfg env us = s at *
  generalize hs' : runUnit w s (.reconfigure o c) = s' at *
  obtain ⟨hmono, hk⟩ := refs_run w s' post
  obtain ⟨_, _, new, ho, href⟩ := hk hinv'.uid
  have hs_le : s.nextUid ≤ s'.nextUid := by rw [← hs']; exact (refs_run w s _).1
  intro e he hk hsrc hst
  rw [docsSince_of_append _ _ _ ho] at he
  obtain ⟨u, m, hu, hm, hd⟩ := href e he hk hsrc
  rw [hst] at hm; cases hm
  refine ⟨u, hu, ?_⟩
  have hge : s.nextUid ≤ u := by
    rcases hd with ⟨d, hdm, hdu⟩ | hge
    · have : aget s'.descriptors n = some d := aget_of_mem_nodup _ _ _ hinv'.nodup hdm
      rw [e1] at this; cases this
      rw [← hdu]; exact e2
    · exact Nat.le_trans hs_le hge
  exact ⟨hge, Nat.lt_of_lt_of_le hlt hge⟩

/-! ### the assumption is needed: a poked device leaves a stale configuration in the next descriptor -/

def wEx : World := [{ name := "a", keys := ["a1"] }]
def envEx : List (Obj × Config) := [("a", [("c", 1)])]

/-- device poked (bare `setCfg`) after its configuration was cached: the next descriptor of a stream
    containing it records the OLD value 1, the device reports 2 -/
theorem C16_poke_is_stale :
    let s := runState wEx (openRun {} 0 envEx)
      [.create (some "p"), .read "a" [("a1", 0)], .save, .setCfg "a" [("c", 2)], .monitor "a" "m"]
    (s.out.getLast?.map (·.config)) = some [("a", { data := [("c", 1)], dataKeys := ["c"] })] ∧
    aget s.envCfg "a" = some [("c", 2)] := by decide

/-! ### Non-vacuity -/

def usEx : List SyncOp :=
  [.plain (.create (some "p")), .plain (.read "a" [("a1", 0)]), .plain .save, .plain (.monitor "a" "m")]

example : (usEx.all SyncOp.ok) = true := by decide
example : (step wEx (step wEx (afterU wEx {} envEx usEx) (.setCfg "a" [("c", 2)])).st (.configure "a")).err = none := by
  decide
/-- both streams (`p` from the bundle, `m` from the monitor) get a new descriptor recording c = 2 -/
example : ((docsSince (afterU wEx {} envEx usEx) (runUnit wEx (afterU wEx {} envEx usEx) (.reconfigure "a" [("c", 2)]))).map
    fun d => (d.stream, d.config.map fun ob => ob.2.data)) =
    [(some "p", [[("c", 2)]]), (some "m", [[("c", 2)]])] := by decide
/-- and a monitor update after the configure references the new descriptor of `m` (uid 5, not the original 3) -/
example : ((docsSince (runUnit wEx (afterU wEx {} envEx usEx) (.reconfigure "a" [("c", 2)]))
    (runState wEx (runUnit wEx (afterU wEx {} envEx usEx) (.reconfigure "a" [("c", 2)])) [.monitorUpdate "a" [("a1", 5)]])).map
    (·.descriptor)) = [some 5] := by decide

end BlueskyVerif.C16
