/-
C03 -- pause/resume and suspend/release do not change the recorded data.

PURE PART ("Lemma B", Engine/Replay.lean): positions + sequence counters, messages `set | bundle | other`;
for ALL message lists, states and interruption schedules.
ENGINE PART: the shared engine model's command handlers project onto the small model (set, read, save,
Bundler.rewind / resetCheckpoint, _rewind / resume() / _start_suspender, the message cache), the handlers
run over a message list SIMULATE the small model, and `C03_data_preserved_partial` is the replay theorem for
the engine model's own handlers.  What is NOT proved is "Lemma A" (the `_run` machine under the scheduler
executes `cache, then the rest of the plan` at every suspension point = C04): see `C03_full`.
-/
import BlueskyVerif.Lemmas.C03Main
import BlueskyVerif.Engine.Sim

namespace BlueskyVerif.C03
open BlueskyVerif.Engine BlueskyVerif.Replay BlueskyVerif.Engine.C03

/-! ## the pure replay lemma -/

/-- LEMMA B.  K: the messages cached since the last checkpoint.  Executing K from the positions at the
    interruption `posT` with the counters rolled back to the checkpoint values `seqC` emits exactly the events
    of executing K from the checkpoint state, ends with the same counters, and with the same position of every
    device that K sets or that had not moved -- provided `ReplaySafe K posT posC`. -/
theorem C03_replay_same_events (D : Devices) (hD : D.Sound) (K : List RMsg) (posT posC : Pos) (seqC : Seq)
    (h : ReplaySafe D K posT posC) :
    (exec D { pos := posT, seq := seqC } K).2 = (exec D { pos := posC, seq := seqC } K).2 ∧
    (exec D { pos := posT, seq := seqC } K).1.seq = (exec D { pos := posC, seq := seqC } K).1.seq ∧
    ∀ d, (d ∈ setsOf K ∨ posT d = posC d) →
      (exec D { pos := posT, seq := seqC } K).1.pos d = (exec D { pos := posC, seq := seqC } K).1.pos d :=
  ⟨(exec_agree D hD K posT posC seqC h).1, (exec_agree D hD K posT posC seqC h).2,
   fun d hd => exec_pos_agree D K posT posC seqC seqC d hd⟩

/-- a prefix K1 of K1 ++ K2 is executed, the interruption lands, counters are rolled back, K1 ++ K2 runs
    (replay of the cache, then the rest of the plan): the final state is the state of the uninterrupted run
    and for every (stream, seq_num) the LAST event carries the same data -- nothing lost, nothing duplicated
    under a new seq_num, the interrupted points are re-taken. -/
theorem C03_interrupted_prefix (D : Devices) (hD : D.Sound) (K1 K2 : List RMsg) (posC : Pos) (seqC : Seq)
    (hs : ReplaySafe D K1 (exec D { pos := posC, seq := seqC } K1).1.pos posC) :
    (exec D { pos := (exec D { pos := posC, seq := seqC } K1).1.pos, seq := seqC } (K1 ++ K2)).1 =
      (exec D { pos := posC, seq := seqC } (K1 ++ K2)).1 ∧
    ∀ st n, lastFor ((exec D { pos := posC, seq := seqC } K1).2 ++
        (exec D { pos := (exec D { pos := posC, seq := seqC } K1).1.pos, seq := seqC } (K1 ++ K2)).2) st n =
      lastFor (exec D { pos := posC, seq := seqC } (K1 ++ K2)).2 st n :=
  interrupted_prefix D hD K1 K2 posC seqC hs

/-- ANY number of interruptions, each after any prefix of K (also inside the replay of an earlier one) -/
theorem C03_repeat (D : Devices) (hD : D.Sound) (K : List RMsg) (posC : Pos) (seqC : Seq) (ns : List Nat)
    (h : RepeatSafe D K posC seqC posC ns) :
    (execInterrupted D K seqC posC ns).1 = (exec D { pos := posC, seq := seqC } K).1 ∧
    ∀ st n, lastFor (execInterrupted D K seqC posC ns).2 st n = lastFor (exec D { pos := posC, seq := seqC } K).2 st n :=
  have r := repeat_core D hD K posC seqC ns posC (fun _ _ => rfl) h
  ⟨RState.ext' r.1 r.2.1, r.2.2.2⟩

/-- every event an interrupted execution emits is an event of the uninterrupted one (same stream, seq_num, data) -/
theorem C03_no_foreign_events (D : Devices) (hD : D.Sound) (K : List RMsg) (posC : Pos) (seqC : Seq) (ns : List Nat)
    (h : RepeatSafe D K posC seqC posC ns) :
    ∀ e ∈ (execInterrupted D K seqC posC ns).2, e ∈ (exec D { pos := posC, seq := seqC } K).2 :=
  (repeat_core D hD K posC seqC ns posC (fun _ _ => rfl) h).2.2.1

/-- STEP PLANS SATISFY THE HYPOTHESIS: a point whose moves all come before its bundles (one_shot, one_1d_step,
    one_nd_step: checkpoint, moves, wait, trigger, wait, create/read/save) is ReplaySafe at every interruption
    point of every schedule, whatever the devices -/
theorem C03_step_plans_satisfy_H (D : Devices) (K : List RMsg) (hK : IsPoint K) (posC : Pos) (seqC : Seq) (ns : List Nat) :
    RepeatSafe D K posC seqC posC ns :=
  isPoint_repeatSafe D hK posC seqC ns posC (fun _ _ => rfl)

/-- hence a whole step plan (any list of such points, each with its own interruption schedule) records the
    same final data and ends in the same state as the uninterrupted plan (induction over the point list) -/
theorem C03_step_plans_same_data (D : Devices) (hD : D.Sound) (pts : List (List RMsg × List Nat))
    (hpts : ∀ p ∈ pts, IsPoint p.1) (s : RState) :
    (execPoints D s pts).1 = (exec D s (pts.map (·.1)).flatten).1 ∧
    ∀ st n, lastFor (execPoints D s pts).2 st n = lastFor (exec D s (pts.map (·.1)).flatten).2 st n := by
  have h := execPoints_same D hD pts
    (fun s p hp => isPoint_repeatSafe D (hpts p hp) s.pos s.seq p.2 s.pos (fun _ _ => rfl)) s
  have hu := execPoints_uninterrupted D (pts.map (·.1)) s
  have e : (pts.map (·.1)).map (fun K => (K, ([] : List Nat))) = pts.map (fun p => (p.1, [])) := by
    simp [List.map_map]
  rw [e] at hu
  rw [hu] at h
  exact h

/-- the Boolean hypothesis evaluated on traces implies the hypothesis of the theorems -/
theorem C03_replaySafeB_sound (D : Devices) (posT posC : Pos) (K : List RMsg)
    (h : replaySafeB D posT posC [] K = true) : ReplaySafe D K posT posC :=
  replaySafe_of_B D posT posC K h

/-! ## the engine model projects onto the small model -/

/-- `set`: the object's position becomes the value (`set d v`); bundlers, documents, cache untouched -/
theorem C03_set_projects (s : EState) (m : Msg) (hn : NoModes s) :
    posOf (cmdSet s m).1 = setPos (posOf s) (m.obj.getD "") (m.iargs.headD 0) ∧
    (cmdSet s m).1.bundlers = s.bundlers ∧ (cmdSet s m).1.docs = s.docs :=
  ⟨(cmdSet_spec s m hn).2, congrArg DView.bundlers (cmdSet_spec s m hn).1, congrArg DView.docs (cmdSet_spec s m hn).1⟩

/-- the engine's `readingOf` IS the small model's `reading` of the positions -/
theorem C03_reading_projects (s : EState) (n : String)
    (hk : ∀ sp, specOf s n = some sp → (sp.kind == "sig") = false) :
    readingOf s n = (engDevices s.devSpecs).reading (posOf s) n ∧ (engDevices s.devSpecs).Sound :=
  ⟨readingOf_eq s n hk, engDevices_sound _⟩

/-- `save`: ONE event, seq_num = the stream's counter, data = the cached readings; the counter advances by one -/
theorem C03_save_projects (s : EState) (m : Msg) (b : Bundler) (hb : getBundler s m = some b) (hbu : b.bundling = true)
    (hne : b.objsRead ≠ []) (hd : ∀ objs, assocGet b.bundleName b.descriptors = some objs → objs = b.objsRead) :
    eventsOf (cmdSave s m).1.docs =
      eventsOf s.docs ++ [{ stream := b.bundleName, seq := b.counter b.bundleName, data := b.readCache }] ∧
    (cmdSave s m).1.bundlers = assocSet (runKey m) (savedBundler b) s.bundlers ∧
    (savedBundler b).counter b.bundleName = b.counter b.bundleName + 1 ∧
    posOf (cmdSave s m).1 = posOf s := by
  have h := cmdSave_spec s m b hb hbu hne hd
  refine ⟨h.2.1, h.1, ?_, h.2.2.2.2.2⟩
  rw [savedBundler_counter]; simp

/-- `RunBundler.rewind`: every counter is back at its snapshot, the open bundle is cancelled -/
theorem C03_rewind_restores_counters (b : Bundler) (st : String) :
    b.rewind.counter st = copyOf b st ∧ copyOf b.rewind st = copyOf b st ∧ b.rewind.bundling = false :=
  ⟨rewind_counter b st, rewind_copyOf b st, rfl⟩

/-- `RunBundler.reset_checkpoint_state`: the snapshot of a stream is its counter -/
theorem C03_checkpoint_snapshots (b : Bundler) (hn : KeysNodup b.seq) (st : String) (v : Nat)
    (hv : assocGet st b.seq = some v) : copyOf b.resetCheckpoint st = b.counter st :=
  resetCheckpoint_snapshot b hn st v hv

/-- `_rewind` hands back exactly the cache and empties it; `resume()` pushes it as the next plan; the replay
    plan yields exactly those messages in order; `_start_suspender`'s helper plan ends with it -/
theorem C03_rewind_replays_cache (s : EState) :
    (rewindPlan s).1 = s.msgCache.getD [] ∧ (rewindPlan s).2.msgCache = some [] ∧
    (startResume s).planStack = Gen.list (s.msgCache.getD []) :: s.planStack ∧
    (∀ (m : Msg) (ms : List Msg) (r : Resp), (Gen.list (m :: ms)).resume (.send r) = (.yld m, Gen.list ms)) :=
  ⟨(rewindPlan_spec s).1, (rewindPlan_spec s).2.1, startResume_replays_cache s, fun m ms r => replay_plan_yields m ms r⟩

theorem C03_suspender_replays_cache (s : EState) (m : Msg) (rq : SuspReq)
    (hrq : s.suspReqs[(m.iargs.headD 0).toNat]? = some rq) (hp : ∀ sp ∈ s.devSpecs, sp.pausable = false) :
    ∃ first mid, (cmdStartSuspender s m).1.planStack =
      Gen.chain first (mid ++ [Gen.list (s.msgCache.getD [])]) :: s.planStack :=
  startSuspender_replays_cache s m rq hrq hp

/-- the engine's command handlers run over a well-formed segment SIMULATE the small model: positions,
    counters, snapshot, open bundle, emitted events; and the cache collects exactly the segment -/
theorem C03_engine_simulates (specs : List DevSpec) (rk : String) (T : String → List String) (K : List Msg)
    (s : EState) (cur : Cur) (a : RState) (seqC : Seq) (h : Sim specs rk T s cur a seqC) (hwf : WF specs rk T cur K) :
    Sim specs rk T (runCmds s K) (absMsgs cur K).1 (exec (engDevices specs) a (absMsgs cur K).2).1 seqC ∧
    eventsOf (runCmds s K).docs = eventsOf s.docs ++ (exec (engDevices specs) a (absMsgs cur K).2).2 ∧
    (∀ c, s.msgCache = some c → s.rewindable = true → (runCmds s K).msgCache = some (c ++ K)) :=
  ⟨(sim_run K h hwf).1, (sim_run K h hwf).2.1, (sim_run K h hwf).2.2.2⟩

/-- MAIN (PARTIAL).  For the engine model's own command handlers.  Hypotheses H, all explicit:
    * `hS`: `sC` is the state right after a checkpoint -- the run `rk` is open, nothing is being bundled, the
      snapshot equals the counters (what `_reset_checkpoint_state` establishes), statuses complete immediately
      (`NoModes`), and `hcache`/`hrw`: the cache exists and is empty, the engine is rewindable;
    * `hWF`: since that checkpoint the plan sends K1 ++ K2 = moves, waits, triggers, sleeps, nulls and
      create/read…/save bundles of run `rk` reading the stream's objects -- in particular NO run is opened or
      closed, nothing is staged/monitored (those are checkpoints of their own) and the messages are fixed
      (the plan does not branch on a response: F6 is excluded);
    * `hsafe`: ReplaySafe -- the cache contains the last move of every device read since the checkpoint.
    The interruption lands after K1 (anywhere, also inside a bundle).  Then `_rewind` returns exactly K1 and
    replaying it followed by K2 gives, for every stream and seq_num, the same final reading, and the same
    counters (hence RunStop.num_events) and positions as the uninterrupted execution. -/
theorem C03_data_preserved_partial (specs : List DevSpec) (rk : String) (T : String → List String) (sC : EState)
    (aC : RState) (K1 K2 : List Msg)
    (hS : Sim specs rk T sC none aC aC.seq) (hcache : sC.msgCache = some []) (hrw : sC.rewindable = true)
    (hWF : WF specs rk T none (K1 ++ K2))
    (hsafe : ReplaySafe (engDevices specs) (absMsgs none K1).2 (posOf (runCmds sC K1)) aC.pos) :
    (rewindPlan (runCmds sC K1)).1 = K1 ∧
    (∀ st n, lastFor (eventsOf (runCmds (rewindPlan (runCmds sC K1)).2 ((rewindPlan (runCmds sC K1)).1 ++ K2)).docs) st n =
             lastFor (eventsOf (runCmds sC (K1 ++ K2)).docs) st n) ∧
    posOf (runCmds (rewindPlan (runCmds sC K1)).2 ((rewindPlan (runCmds sC K1)).1 ++ K2)) = posOf (runCmds sC (K1 ++ K2)) ∧
    (∃ bF bB, assocGet rk (runCmds (rewindPlan (runCmds sC K1)).2 ((rewindPlan (runCmds sC K1)).1 ++ K2)).bundlers = some bF ∧
       assocGet rk (runCmds sC (K1 ++ K2)).bundlers = some bB ∧ ∀ st, bF.counter st = bB.counter st) :=
  engine_replay specs rk T sC aC K1 K2 hS hcache hrw hWF hsafe

/-! ## the full statement (NOT proved) -/

/-- the last event data per (run, stream ≠ interruptions, seq_num) and the stop documents of a document list -/
def lastEventOf : List Doc → Nat → String → Nat → Option (List (String × Int))
  | [], _, _, _ => none
  | d :: ds, run, st, n =>
    match lastEventOf ds run st n with
    | some x => some x
    | none => if d.kind = "event" ∧ d.run = run ∧ d.stream = st ∧ d.seq = n then some d.data else none

def sameData (a b : List Doc) : Prop :=
  (∀ run st n, st ≠ "interruptions" → lastEventOf a run st n = lastEventOf b run st n) ∧
  (a.filter (·.kind = "stop")).map (fun d => (d.run, d.exit, d.numEvents.filter (·.1 ≠ "interruptions"))) =
    (b.filter (·.kind = "stop")).map (fun d => (d.run, d.exit, d.numEvents.filter (·.1 ≠ "interruptions")))

def onlyInterruptions (sc : Script) : Prop :=
  ∀ p ∈ sc, ∀ a ∈ p.2, match a with
    | .pause _ | .suspend _ _ _ _ | .release _ => True
    | _ => False

/-- a step plan at message level: open_run, then points (checkpoint followed by a well-formed segment whose
    moves precede its bundles), then close_run -/
def stepPlanMsgs (run : Option String) (points : List (List Msg)) : List Msg :=
  ({ cmd := "open_run", run := run } : Msg) :: (points.flatMap (fun K => ({ cmd := "checkpoint" } : Msg) :: K)) ++
    [({ cmd := "close_run", run := run } : Msg)]

/-- C03 at full strength on the engine model: for every step plan (any number of points, any well-formed
    segments with moves before bundles), deterministic immediately-completing devices, EVERY script made of
    pause / suspend / release requests only at any arrivals (all decisions `resume`, arrival bound and fuel not
    exhausted), the documents of the whole simulated run carry the same data as those of the run with the
    empty script and the engine ends idle.
    MISSING for this: "Lemma A" -- that `schedule`/`advance` (the `_run` machine with a cancellation delivered
    at ANY suspension point, `startResume`, the suspender helper plan with its pre/post plans and `wait_for`)
    executes exactly `the cache again, then the plan's own continuation`, with nothing else touching positions,
    counters or event documents (C04's theorem plus frame lemmas through `advance`), that implicit
    checkpoints (open_run/close_run/stage...) commit, and the lifting of `C03_data_preserved_partial` from one
    interruption per checkpoint interval / one run key to the schedules of `C03_repeat` and several bundlers.
    It is validated on every run instead: every arrival index of generated plans and of the real built-in
    plans, model and implementation (harness/props/C03.py). -/
def C03_full : Prop :=
  ∀ (scn : Scenario) (run : Option String) (T : String → List String) (points : List (List Msg)),
    (∀ sp ∈ scn.devSpecs, sp.modes = [] ∧ sp.pausable = false) →
    scn.plan = Gen.list (stepPlanMsgs run points) →
    (∀ K ∈ points, WF scn.devSpecs (run.getD "") T none K ∧ (absMsgs none K).1 = none ∧ IsPoint (absMsgs none K).2) →
    onlyInterruptions scn.script → (∀ d ∈ scn.decisions, d = "resume") →
    (simulate scn).1.arrivals.length < scn.maxArrivals → (simulate scn).1.refused = [] →
    sameData (simulate scn).1.docs (simulate { scn with script := [] }).1.docs ∧
    (simulate scn).1.state = .idle

/-! ## non-vacuity -/

def exDevices : Devices := fakeDevices [{ name := "m1", kind := "motor" }, { name := "m2", kind := "motor" }, { name := "d1", kind := "det", offset := 1 }]
def exPoint : List RMsg := [.set "m1" 3, .other, .bundle "primary" ["d1", "m1"]]

example : IsPoint exPoint := ⟨[.set "m1" 3, .other], [.bundle "primary" ["d1", "m1"]], rfl, by decide, by decide⟩

/-- an interrupted run really emits more events than the uninterrupted one, yet the last one per seq_num agrees -/
example : ((execInterrupted exDevices exPoint (fun _ => 1) (fun _ => 0) [3, 1]).2.length,
           (exec exDevices { pos := fun _ => 0, seq := fun _ => 1 } exPoint).2.length) = (2, 1) := by decide

example : lastFor (execInterrupted exDevices exPoint (fun _ => 1) (fun _ => 0) [3, 1]).2 "primary" 1 = some [("d1", 31), ("m1", 3)] := by
  decide

/-- ReplaySafe is a real restriction: reading before moving back is NOT safe once the motor moved -/
example : replaySafeB exDevices (fun d => if d = "m1" then 9 else 0) (fun _ => 0) [] [.bundle "primary" ["d1"], .set "m1" 9] = false := by
  decide

/-- ... and the data really differs there: the conclusion of Lemma B fails without the hypothesis -/
example : (exec exDevices { pos := fun d => if d = "m1" then 9 else 0, seq := fun _ => 1 } [.bundle "primary" ["d1"], .set "m1" 9]).2 ≠
          (exec exDevices { pos := fun _ => 0, seq := fun _ => 1 } [.bundle "primary" ["d1"], .set "m1" 9]).2 := by
  decide

/-- the hypotheses of the engine-level theorem are satisfiable: a concrete engine state right after a
    checkpoint with run "" open, and a concrete segment -/
def exSpecs : List DevSpec := [{ name := "m1", kind := "motor" }, { name := "d1", kind := "det", offset := 1 }]
def exState : EState := { devSpecs := exSpecs, bundlers := [("", { runId := 0 })], msgCache := some [] }
def exSeg : List Msg :=
  [{ cmd := "set", obj := some "m1", iargs := [3] }, { cmd := "wait" }, { cmd := "create", name := some "primary" },
   { cmd := "read", obj := some "d1" }, { cmd := "save" }]

example : Sim exSpecs "" (fun _ => ["d1"]) exState none { pos := fun _ => 0, seq := fun _ => 1 } (fun _ => 1) :=
  { specs_eq := rfl
    noModes := by intro sp hsp; simp [exState, exSpecs] at hsp; rcases hsp with h | h <;> subst h <;> rfl
    pos := rfl
    bundler := ⟨{ runId := 0 }, rfl,
      { counter := fun _ => rfl, copy := fun _ => rfl, fresh := fun _ _ => rfl,
        descs := fun st objs h => by simp [assocGet] at h, open_ := rfl }⟩ }

example : WF exSpecs "" (fun _ => ["d1"]) none exSeg := by
  refine ⟨Or.inl ⟨rfl, rfl⟩, Or.inr (Or.inr (Or.inr (Or.inr (by decide)))), Or.inr (Or.inl ⟨rfl, rfl, rfl, rfl⟩),
    Or.inr (Or.inr (Or.inl ⟨rfl, rfl, "primary", [], rfl, rfl, ?_⟩)),
    Or.inr (Or.inr (Or.inr (Or.inl ⟨rfl, rfl, "primary", ["d1"], rfl, rfl, by decide⟩))), trivial⟩
  intro sp h
  simp [exSpecs] at h
  subst h; rfl

end BlueskyVerif.C03
