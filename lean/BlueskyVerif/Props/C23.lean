/-
C23 -- Paired-action wrappers always undo what they did.

Models (Gen/Paired.lean): each wrapper is the composition the source uses -- `Beh.bind` (`yield
from`), `contingencyWrapper` / `finalizeWrapper` (the C22 phase machine), `planMutator` (the shared
stack machine) and straight-line inner generators -- parametrised by the facts extracted from the
current source (Gen/GeneratedPaired.lean).

`drive c b ins` (Lemmas/C23Drive.lean) is what a caller observes when it creates the generator `b`,
calls `next`, resumes it with the inputs `ins` (`send r` / `throw e`) while it keeps yielding and
finally, if `c`, calls `close()`: the messages yielded (`msgs`) and how the generator stands
(`alive`, `closed r`, or `ended o rest`: returned / raised `o` leaving the inputs `rest`).
`d.bind c k` = "`d` is a delegated sub-generator; when it ends with `o` the delegating code goes on as
`k c o rest`" (with Python's rules for `close()` built in); `bindH` additionally hands the
continuation the inputs the sub-generator consumed (closure variables).

The wrapped plan is ANY behaviour (any generator, finite or not, well behaved or not); the script
ANY list of sends / throws of exceptions that are not GeneratorExits (`NoGenExit`; a GeneratorExit
reaches a plan through `close()`, which is covered by `c = true`).  The `*_trace` theorems are exact
equations: every message of the wrapper and its outcome, on every exit path.
-/
import BlueskyVerif.Lemmas.C23Wrappers
import BlueskyVerif.Lemmas.C23Lazy
import BlueskyVerif.Lemmas.C23During
import BlueskyVerif.Gen.Ast

namespace BlueskyVerif.C23
open BlueskyVerif.Gen
set_option linter.unusedSectionVars false

section
variable {R E : Type} [Inhabited R] [DecidableEq R] [PyExc E]

/-! ## run_wrapper -/

/-- **run_wrapper, exact trace.**  First `open_run`.  If it is answered by an exception, that
exception ends the wrapper (no run was opened, no `close_run`).  If it is answered with `uid`:
the wrapped plan's own messages, driven with the following inputs; when the plan ends with `o`,
`runAfter`: the single message `runClose info o` (if any) and then the outcome -- `uid` after a
return, the plan's exception otherwise, or the exception thrown at the `close_run`. -/
theorem C23_run_wrapper_trace (info : ExcInfo E) (md : Option Int) (plan : PBeh R E) (c : Bool)
    (ins : List (Inp R E)) (hn : NoGenExit ins) :
    drive c (runWrapper info md plan) ins
      = msgThen c (openRunMsg md) ins fun uid rest =>
          (drive c plan rest).bind c (runAfter info uid) :=
  drive_runWrapper info md plan c ins hn

/-- **The status matches the outcome** (`runClose`, with the extracted `close_run(...)` calls):
return -> plain `close_run`; RequestStop / RequestAbort (any RunEngineControlException) -> its
`exit_status`, no reason; any other `Exception` -> `'fail'` with `reason=str(e)`; GeneratorExit
(the plan was closed) -> NO `close_run`; a BaseException that is not an `Exception`
(KeyboardInterrupt ...) -> no `close_run` either (contingency_wrapper only handles `Exception`). -/
theorem C23_run_close_status (info : ExcInfo E) (v : R) (e : E) :
    runClose info (.ret v : Pending R E) = some (closeRunMsg none none) ∧
    (isControl e = true →
      runClose info (.exc e : Pending R E) = some (closeRunMsg (some (info.exitStatus e)) none)) ∧
    (isException e = true → isControl e = false →
      runClose info (.exc e : Pending R E) = some (closeRunMsg (some .fail) (some (info.text e)))) ∧
    (isGenExit e = true → runClose info (.exc e : Pending R E) = none) ∧
    (isException e = false → runClose info (.exc e : Pending R E) = none) := by
  refine ⟨rfl, ?_, ?_, ?_, ?_⟩
  · intro hc
    have hx := PyExc.control_isException e hc
    have hg := PyExc.exception_not_genExit e hx
    simp [runClose, hc, hx, hg, Generated.rwControlClose, CloseArgs.msg]
  · intro hx hc
    have hg := PyExc.exception_not_genExit e hx
    simp [runClose, hc, hx, hg, Generated.rwOtherClose, CloseArgs.msg]
  · intro hg; simp [runClose, hg]
  · intro hx
    by_cases hg : isGenExit e = true <;> simp [runClose, hg, hx]

/-- **Exactly one close_run for the open_run.**  A complete run without `close()`: `open_run`
answered with `uid`, the plan yields `pm` and ends with `o`.  Then the wrapper's messages are
`open_run`, `pm`, and the ONE message `runClose info o` -- nothing else -- and (the `close_run`
being answered) it returns `uid` if the plan returned, else re-raises the plan's exception; with
no `close_run` (`runClose = none`) the plan's exception leaves at once. -/
theorem C23_run_wrapper_one_close (info : ExcInfo E) (md : Option Int) (plan : PBeh R E) (uid : R)
    (rest rest' : List (Inp R E)) (pm : List PMsg) (o : Pending R E)
    (hn : NoGenExit (.send uid :: rest))
    (hplan : drive false plan rest = ⟨pm, .ended o rest'⟩) :
    (∀ m r rest'', runClose info o = some m → rest' = .send r :: rest'' →
      drive false (runWrapper info md plan) (.send uid :: rest)
        = ⟨openRunMsg md :: pm ++ [m],
           .ended (match o with | .ret _ => .ret uid | .exc e => .exc e) rest''⟩) ∧
    (runClose info o = none →
      drive false (runWrapper info md plan) (.send uid :: rest) = ⟨openRunMsg md :: pm, .ended o rest'⟩) := by
  rw [drive_runWrapper info md plan false _ hn]
  simp only [msgThen, hplan]
  constructor
  · intro m r rest'' hm hr
    subst hr
    simp only [Drv.bind, runAfter, hm, msgThen, Drv.pre, Drv.cons, Drv.done]
    cases o <;> rfl
  · intro hm
    simp [Drv.bind, runAfter, hm, Drv.pre, Drv.cons, Drv.done]

/-! ## stage_wrapper -/

/-- **stage_wrapper, exact trace.**  `stage_all` of the roots (`startThen`: if a `stage` is
answered by an exception the plan never starts), then the plan; when this wrapped part ends with
`o`: nothing more if `o` is a GeneratorExit (the plan was closed), otherwise `unstage_all` of the
SAME roots in the extracted (reversed) order -- all of them, whether or not staging got that
far -- and then `o` (or the exception raised while unstaging). -/
theorem C23_stage_wrapper_trace (view : RespView R) (t : DevTree) (devices : List Dev)
    (plan : PBeh R E) (c : Bool) (ins : List (Inp R E)) (hn : NoGenExit ins) :
    drive c (stageWrapper view t devices plan) ins
      = (startThen (stageAllProg view .stage 0 (Generated.swStageOrder.apply (stageRoots t devices)) false)
            plan c ins).bind c
          (finallyK (fun _ => stageAllProg view .unstage 1
            (Generated.swUnstageOrder.apply (stageRoots t devices)) false) []) :=
  drive_stageWrapper view t devices plan c ins hn

/-- **What "the devices they staged" are, with shared ancestors**: the root ancestor of every
given device, each once (devices sharing an ancestor are staged through it), in order of first
occurrence; all of them are roots. -/
theorem C23_stage_roots (t : DevTree) (ht : TreeOK t) (devices : List Dev) :
    stageRoots t devices = dedupFirst (devices.map (rootAncestor t)) ∧
    (stageRoots t devices).Nodup ∧
    (∀ r, r ∈ stageRoots t devices ↔ ∃ d ∈ devices, rootAncestor t d = r) ∧
    (∀ r ∈ stageRoots t devices, t.parent r = none) :=
  stageRoots_spec t ht devices

/-- **Every staged device is unstaged exactly once, in reverse order.**  Undisturbed run: the
`stage` messages are answered (`rs`, no Status objects), the plan yields `pm` and ends with `o`
(return, any exception but GeneratorExit -- failure, RequestStop, RequestAbort), the `unstage`
messages are answered (`us`).  Then the wrapper's trace is exactly: `stage r` for the roots in
order, `pm`, `unstage r` for the roots in REVERSE order; and it ends with `o`. -/
theorem C23_stage_unstage_once_reverse (view : RespView R) (t : DevTree) (devices : List Dev)
    (plan : PBeh R E) (rs us : List R) (rest rest'' : List (Inp R E)) (pm : List PMsg)
    (o : Pending R E) (hn : NoGenExit (rs.map .send ++ rest))
    (hrs : rs.length = (stageRoots t devices).length) (hrs' : ∀ r ∈ rs, view.isStatus r = false)
    (hplan : drive false plan rest = ⟨pm, .ended o (us.map .send ++ rest'')⟩)
    (ho : ∀ e, o = .exc e → isGenExit e = false)
    (hus : us.length = (stageRoots t devices).length) (hus' : ∀ u ∈ us, view.isStatus u = false) :
    drive false (stageWrapper view t devices plan) (rs.map .send ++ rest)
      = ⟨(stageRoots t devices).map (devMsg .stage · (some 0)) ++ pm ++
           (stageRoots t devices).reverse.map (devMsg .unstage · (some 1)),
         .ended o rest''⟩ := by
  rw [drive_stageWrapper view t devices plan false _ hn]
  simp only [Generated.swStageOrder, Generated.swUnstageOrder, Order.apply, startThen]
  rw [stageAll_drive_sends view .stage 0 false rest _ rs hrs hrs']
  have hfin : ∀ o', finallyK (fun _ : List (Inp R E) => (stageAllProg view .unstage 1
        (stageRoots t devices).reverse false : Prog PMsg R R E)) [] false o
          (us.map .send ++ rest'') = o' → (∀ e, o = .exc e → isGenExit e = false) →
      o' = Drv.pre ((stageRoots t devices).reverse.map (devMsg .unstage · (some 1)))
            (Drv.done o rest'') := by
    intro o' h _
    rw [← h]
    have hd := stageAll_drive_sends (E := E) view .unstage 1 false rest'' (stageRoots t devices).reverse us
      (by simpa using hus) hus'
    cases o with
    | ret v => simp [finallyK, cleanupThen, hd, Drv.bind, Drv.pre, Drv.done]
    | exc e => simp [finallyK, cleanupThen, hd, Drv.bind, Drv.pre, Drv.done, ho e rfl]
  simp only [Drv.bind, Drv.pre, Drv.done, hplan, List.append_nil]
  rw [hfin _ rfl ho]
  simp [Drv.pre, Drv.done]

/-! ## suspend_wrapper, subs_wrapper -/

/-- **suspend_wrapper, exact trace.**  `install_suspender` for every suspender (in order), the
plan; when the wrapped part ends other than by GeneratorExit: `remove_suspender` for EVERY
suspender of the list (a superset of those installed if installing failed half way), then the
outcome. -/
theorem C23_suspenders_removed (suspenders : List Nat) (plan : PBeh R E) (c : Bool)
    (ins : List (Inp R E)) (hn : NoGenExit ins) :
    drive c (suspendWrapper suspenders plan) ins
      = (startThen (Prog.msgs (suspenders.map (suspenderMsg .installSuspender)) (.ret default))
            plan c ins).bind c
          (finallyK (fun _ => Prog.msgs (suspenders.map (suspenderMsg .removeSuspender)) (.ret default))
            []) :=
  drive_suspendWrapper suspenders plan c ins hn

/-- **subs_wrapper, exact trace.**  `subscribe` for every (name, func) pair, the plan; when the
wrapped part ends other than by GeneratorExit: one `unsubscribe` for every token received so far
(`subsTokens`: the responses to the `subscribe` messages that were answered, without repetition --
exactly what was installed, also when subscribing failed half way), then the outcome. -/
theorem C23_subs_removed (view : RespView R) (subs : List (Nat × Nat)) (plan : PBeh R E) (c : Bool)
    (ins : List (Inp R E)) (hn : NoGenExit ins) :
    drive c (subsWrapper view subs plan) ins
      = (startThen (subscribeProg subs) plan c ins).bindH c [] ins
          (finallyK fun used =>
            Prog.msgs ((subsTokens subs.length used []).map fun tk => unsubscribeMsg (view.asInt tk))
              (.ret default)) :=
  drive_subsWrapper view subs plan c ins hn

/-! ## lazily_stage_wrapper -/

/-- **lazily_stage_wrapper, exact trace.**  `lazyBody` is the mutated plan: every message of the
plan goes out unchanged, preceded by a `stage` query when `C23_lazy_stage_when` says so; responses
and thrown Exceptions go to the plan (an Exception thrown at a `stage` reaches the plan at the
message that needed the device).  When this ends other than by GeneratorExit, `unstage` is issued
for `devices_staged` (`lazyStaged`: the concatenation of the `stage` responses) in reverse. -/
theorem C23_lazy_stage_trace (f : Nat) (view : RespView R) (t : DevTree) (plan : PBeh R E) (c : Bool)
    (ins : List (Inp R E)) (hn : NoGenExit ins) :
    drive c (lazilyStageWrapper (f + 3) view t plan) ins
      = ((lazyBody view t plan c ins).map Prod.fst).bindH c [] ins
          (finallyK fun used => stageAllProg view .unstage 1
            (Generated.lsUnstageOrder.apply (lazyStaged (f + 3) view t plan used)) false) ∧
    ∀ used, NoGenExit used →
      lazyStaged (f + 3) view t plan used
        = emEnvOut (lazySpec view t) PMsg.ident [] [] ((Pos.new plan).resume (.send default)) used :=
  ⟨drive_lazilyStageWrapper f view t plan c ins hn, fun used hu => lazyStaged_eq f view t plan used hu⟩

/-- **Only devices actually touched are staged, right before their first message, and a root is
not staged again once it is listed in `devices_staged`.**  The decision taken when the plan yields
`m` (`staged` = `devices_staged` now): either `m` goes out as it is, or -- exactly when `m` is a new
message object, its command is in COMMANDS, its device `d` is not in `staged` and the root ancestor
of `d` is not in `staged` -- `stage (root d)` goes out first, its response is appended to
`devices_staged` and then `m` follows (`query m` mode of `emGo`). -/
theorem C23_lazy_stage_when (view : RespView R) (t : DevTree) (seen : List (List Nat))
    (staged : List Dev) (m : PMsg) :
    (emDecide (lazySpec view t) PMsg.ident seen staged m).2.1 = staged ∧
    (((emDecide (lazySpec view t) PMsg.ident seen staged m).2.2.2 = m ∧
        (∀ m', (emDecide (lazySpec view t) PMsg.ident seen staged m).2.2.1 ≠ .query m')) ∨
      (∃ d, m.obj = some d ∧ Generated.lsCommands.contains m.cmd = true ∧ d ∉ staged ∧
        rootAncestor t d ∉ staged ∧ seen.contains m.ident = false ∧
        (emDecide (lazySpec view t) PMsg.ident seen staged m).2.2.2 = devMsg .stage (rootAncestor t d) ∧
        (emDecide (lazySpec view t) PMsg.ident seen staged m).2.2.1 = .query m)) :=
  lazy_decide view t seen staged m

/-- **Each device is unstaged exactly once**: when `stage root` answers list the root itself and
devices of its tree without repetition (`StageRespOK`; None counts as `[root]`), `devices_staged`
never contains a device twice -- for every plan and script -- so the `unstage` list of
`C23_lazy_stage_trace` (its reverse) names every staged device once.  In particular a root is
staged at most once: a second `stage root` would require `root ∉ devices_staged`
(`C23_lazy_stage_when`) although the first answer put it there. -/
theorem C23_lazy_unstaged_once (f : Nat) (view : RespView R) (t : DevTree) (ht : TreeOK t)
    (hv : StageRespOK view t) (plan : PBeh R E) (used : List (Inp R E)) (hn : NoGenExit used) :
    (lazyStaged (f + 3) view t plan used).Nodup ∧
    (Generated.lsUnstageOrder.apply (lazyStaged (f + 3) view t plan used)
      = (lazyStaged (f + 3) view t plan used).reverse) :=
  ⟨lazyStaged_nodup f view t ht hv plan used hn, rfl⟩

/-! ## not when the plan is closed -/

/-- **No undo on close.**  If the wrapped part ends with a GeneratorExit `e` (it was closed, or
thrown a GeneratorExit it let through), `finallyK` -- the cleanup of stage / lazily_stage / subs /
suspend wrappers -- and `runAfter` emit nothing: the wrapper ends with `e` at once.  And when the
script ends with `close()` while the wrapped part is running and that closes quietly
(`closed none`), the wrapper's `close()` returns normally too, with no further message. -/
theorem C23_not_on_close (info : ExcInfo E) (uid : R) (cl : List (Inp R E) → Prog PMsg R R E)
    (used rest : List (Inp R E)) (c : Bool) (e : E) (he : isGenExit e = true)
    (d : Drv PMsg R R E) (hd : d.stand = .closed none) (pre ins : List (Inp R E)) :
    finallyK cl used c (.exc e) rest = Drv.done (.exc e) rest ∧
    runAfter info uid c (.exc e) rest = Drv.done (.exc e) rest ∧
    d.bindH true pre ins (finallyK cl) = ⟨d.msgs, .closed none⟩ ∧
    d.bind true (runAfter info uid) = ⟨d.msgs, .closed none⟩ := by
  refine ⟨by simp [finallyK, he], by simp [runAfter, runClose, he], ?_, ?_⟩
  · simp [Drv.bindH, hd, finallyK, PyExc.genExit_isGenExit, closeOf, Drv.done]
  · simp [Drv.bind, hd, runAfter, runClose, PyExc.genExit_isGenExit, closeOf, Drv.done]

/-! ## monitor_during_wrapper / fly_during_wrapper  (PARTIAL) -/

/-- The full statement for the two `*_during` wrappers (NOT proved): for every plan and script, in
the trace of the wrapper every `open_run` of the plan that is answered is followed by the
`after` messages and every `close_run` of the plan is immediately preceded by the `before`
messages, all answered -- including nested runs, exceptions thrown at inserted messages and the
interplay of the two nested mutators. -/
def C23_during_full : Prop :=
  ∀ (fuel : Nat) (after before : List InsertPart) (devs : List Dev) (plan : PBeh R E)
    (ins : List (Inp R E)), NoGenExit ins → 3 ≤ fuel →
    let ms := (drive false (duringWrapper fuel after before devs plan) ins).msgs
    ∀ k m, ms[k]? = some m → m.cmd = .closeRun → m.ident.head? ≠ some 9 →
      (ms.take k).drop (k - (before.flatMap (partMsgs devs)).length) = before.flatMap (partMsgs devs)

/-- **monitor_during / fly_during, one splice, undisturbed (PARTIAL).**  What each of the two
nested plan_mutators does when the generator below it yields a new `open_run` / `close_run`
message and that message and the inserted ones are answered (`PmPath`: plan_mutator yields exactly
these messages, gets exactly these responses):
* `insert_after_open`: the `open_run` goes out first, then the extracted lists (monitor: one
  `monitor` per signal; fly: one `kickoff` per flyer and a `wait`), and the generator below is then
  resumed with the response of the `open_run`;
* `insert_before_close`: first the extracted lists (monitor: one `unmonitor` per signal; fly:
  `complete` per flyer, `wait`, then `collect` per flyer), only then the `close_run`; its response
  goes to the generator below.
Not proved: whole traces of the composed wrapper (`C23_during_full`), inserted messages answered
by exceptions. -/
theorem C23_during_partial (devs : List Dev) (s : PM PMsg (List Nat) R R E) (g : Nat)
    (q q1 : Pos PMsg R R E) (rest : List (GenObj PMsg R R E)) (r : R) (rs0 : List R) (msg : PMsg)
    (hfresh : FreshIds s) (hex : s.exception = none) (hps : s.planStack = (g, q) :: rest)
    (hrs : s.resultStack = r :: rs0) (hres : q.resume (.send r) = (.yld msg, q1))
    (hns : msg.ident ∉ s.msgsSeen) (r1 : R) (rs : List R) :
    -- monitor_during_wrapper
    (msg.cmd = .openRun → rs.length = devs.length →
      ∃ n s_end, n ≤ 3 ∧ PmPath PMsg.ident (afterOpenProc Generated.mdAfterOpen devs) n s
          ((msg, r1) :: (devs.map (devMsg .monitor)).zip rs) s_end ∧
        s_end.exception = none ∧ s_end.planStack = (g, q1) :: rest ∧ s_end.resultStack = r1 :: rs0) ∧
    (msg.cmd = .closeRun → rs.length = devs.length →
      ∃ n s_end, n ≤ 3 ∧ PmPath PMsg.ident (beforeCloseProc Generated.mdBeforeClose devs) n s
          ((devs.map (devMsg .unmonitor)).zip rs ++ [(msg, r1)]) s_end ∧
        s_end.exception = none ∧ s_end.planStack = (g, q1) :: rest ∧ s_end.resultStack = r1 :: rs0) ∧
    -- fly_during_wrapper
    (msg.cmd = .openRun → rs.length = (partMsgs devs .kickoff).length →
      ∃ n s_end, n ≤ 3 ∧ PmPath PMsg.ident (afterOpenProc Generated.fdAfterOpen devs) n s
          ((msg, r1) :: (partMsgs devs .kickoff).zip rs) s_end ∧
        s_end.exception = none ∧ s_end.planStack = (g, q1) :: rest ∧ s_end.resultStack = r1 :: rs0) ∧
    (msg.cmd = .closeRun → rs.length = (partMsgs devs .complete ++ partMsgs devs .collect).length →
      ∃ n s_end, n ≤ 3 ∧ PmPath PMsg.ident (beforeCloseProc Generated.fdBeforeClose devs) n s
          ((partMsgs devs .complete ++ partMsgs devs .collect).zip rs ++ [(msg, r1)]) s_end ∧
        s_end.exception = none ∧ s_end.planStack = (g, q1) :: rest ∧ s_end.resultStack = r1 :: rs0) := by
  refine ⟨?_, ?_, ?_, ?_⟩
  · intro hc hl
    have := during_after_open Generated.mdAfterOpen devs s g q q1 rest r rs0 msg hfresh hex hps hrs
      hres hns hc r1 rs (by simpa [Generated.mdAfterOpen, partMsgs] using hl)
    simpa [Generated.mdAfterOpen, partMsgs] using this
  · intro hc hl
    have := during_before_close Generated.mdBeforeClose devs s g q q1 rest r rs0 msg hfresh hex hps
      hrs hres hns hc r1 rs (by simpa [Generated.mdBeforeClose, partMsgs] using hl)
    simpa [Generated.mdBeforeClose, partMsgs] using this
  · intro hc hl
    have := during_after_open Generated.fdAfterOpen devs s g q q1 rest r rs0 msg hfresh hex hps hrs
      hres hns hc r1 rs (by simpa [Generated.fdAfterOpen] using hl)
    simpa [Generated.fdAfterOpen] using this
  · intro hc hl
    have := during_before_close Generated.fdBeforeClose devs s g q q1 rest r rs0 msg hfresh hex hps
      hrs hres hns hc r1 rs (by simpa [Generated.fdBeforeClose] using hl)
    simpa [Generated.fdBeforeClose] using this

/-- the message lists of fly_during_wrapper, spelled out: kickoff per flyer (group 0) + `wait`;
    complete per flyer (group 1) + `wait`; collect per flyer -- the `wait`s only if there are flyers -/
theorem C23_fly_lists (devs : List Dev) :
    partMsgs devs .kickoff = devs.map (devMsg .kickoff · (some 0)) ++ (if devs.isEmpty then [] else [waitMsg 0]) ∧
    partMsgs devs .complete = devs.map (devMsg .complete · (some 1)) ++ (if devs.isEmpty then [] else [waitMsg 1]) ∧
    partMsgs devs .collect = devs.map (devMsg .collect) :=
  ⟨rfl, rfl, rfl⟩

/-- `finalizeClosure` (the closure-reading variant used by subs / lazily_stage wrappers) with a
    final plan that does not read the closure IS `finalize_wrapper` of the C22 model. -/
theorem C23_closure_is_finalize_wrapper (pause f plan : PBeh R E) :
    finalizeClosure (fun _ => f) plan = finalizeWrapper pause false f plan :=
  finalizeClosure_const pause f plan

end

/-! ## Non-vacuity: the models on concrete plans of the AST grammar -/

def info : ExcInfo Exc where
  exitStatus := fun e =>
    match e.cls with
    | .requestStop => .success
    | .requestAbort => .abort
    | _ => .fail
  text := fun e => e.tag

def view : RespView Val where
  asDevs := fun d r => r.map fun k => if k = 7 then [d, d + 1] else [d]
  isStatus := fun _ => false
  asInt := id

/-- dev1.parent = dev0 -/
def tree : DevTree where
  parent := fun d => if d = 1 then some 0 else none
  depth := 4

/-- `yield Msg('read', dev1); yield Msg('read', dev1)` (two message objects) -/
def planRead : PBeh Val Exc :=
  (Prog.msgs [{ ident := [0, 0], cmd := .read, obj := some 1 }, { ident := [0, 1], cmd := .read, obj := some 1 }]
    (.ret none)).beh

def cmds (d : Drv PMsg Val Val Exc) : List (Command × Option Dev) := d.msgs.map fun m => (m.cmd, m.obj)

/-- run_wrapper around it, RequestStop thrown at the second read: one close_run('success') -/
example : (drive false (runWrapper info (some 3) planRead)
      [.send (some 11), .send none, .throw ⟨.requestStop, 4⟩, .send none]).msgs.map (fun m => (m.cmd, m.status))
    = [(.openRun, none), (.read, none), (.read, none), (.closeRun, some .success)] := by decide

/-- the corpus case of the repaired defect: stage dev0 answered `[dev0]` (8), two reads of its
    component dev1: ONE stage, and unstage dev0 once at the end -/
example : cmds (drive false (lazilyStageWrapper 3 view tree planRead)
      [.send (some 8), .send none, .send none, .send none])
    = [(.stage, some 0), (.read, some 1), (.read, some 1), (.unstage, some 0)] := by decide

/-- stage_wrapper on [dev1, dev0, dev2] (dev1's root is dev0): stage dev0, dev2; plan; unstage dev2, dev0 -/
example : cmds (drive false (stageWrapper view tree [1, 0, 2] planRead)
      [.send none, .send none, .send none, .send none, .send none, .send none])
    = [(.stage, some 0), (.stage, some 2), (.read, some 1), (.read, some 1), (.unstage, some 2),
       (.unstage, some 0)] := by decide

example : TreeOK tree := by
  intro d
  simp only [tree, rootAncestor, ancestry]
  by_cases h : d = 1 <;> simp [ancestryAux, h]

end BlueskyVerif.C23
