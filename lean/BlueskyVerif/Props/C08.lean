/-
C08 -- RunEngineInterrupted means paused unless the plan was terminated.

Model: Engine/Model.lean + Engine/Sim.lean; the invariant `Res` (Lemmas/C02Run.lean) is carried through
every block of `_run`, every request and the scheduler (Lemmas/C02Sched.lean).  `Src.transitions` is
GENERATED from RunEngineStateMachine on every run.

PARTIAL: the full statement `C08_full` is false on the unchanged tree (finding F4, see
Counterexamples/C08.lean): a pause request that lands in the exit `sleep(0)` of `_run` sets
`_interrupted` although the plan has completed and the engine goes idle.
-/
import BlueskyVerif.Lemmas.C08HistSched

namespace BlueskyVerif.C08
open BlueskyVerif.Engine

/-- the documented reading of C08 on the model: a call that raises RunEngineInterrupted leaves the engine
    paused at the pause point, or idle with every run closed AND a terminating transition (abort / stop /
    halt request or FailedPause: the state went through aborting, stopping or halting) happened during the
    call; a call that returns normally leaves the engine idle with the plan exhausted. -/
def C08_full : Prop :=
  ∀ (maxArr : Nat) (sc : Script) (fuel : Nat) (s0 : EState) (plan : Gen), s0.state = .idle →
    (schedule maxArr sc fuel (startCall s0 plan)).blockingEvent = true →
    ((outcomeOf "call" (schedule maxArr sc fuel (startCall s0 plan))).result = "raise:RunEngineInterrupted" →
      ((schedule maxArr sc fuel (startCall s0 plan)).state = .paused ∧
        (schedule maxArr sc fuel (startCall s0 plan)).pc = .pausedWait) ∨
      ((schedule maxArr sc fuel (startCall s0 plan)).state = .idle ∧
        (schedule maxArr sc fuel (startCall s0 plan)).bundlers = [] ∧
        ∃ p ∈ (schedule maxArr sc fuel (startCall s0 plan)).trans.drop s0.trans.length,
          p.2 = .aborting ∨ p.2 = .stopping ∨ p.2 = .halting)) ∧
    ((outcomeOf "call" (schedule maxArr sc fuel (startCall s0 plan))).result = "return" →
      (schedule maxArr sc fuel (startCall s0 plan)).state = .idle ∧
      (schedule maxArr sc fuel (startCall s0 plan)).planDone = true)

/-- MAIN (partial).  For every plan (any generator behaviour), device specification, environment script,
    arrival bound and fuel: when `RE(plan)` hands control back with the blocking event set, then
    * either `_run` is suspended at its pause point, the state is 'paused' and `_interrupted` is set
      (the call raises RunEngineInterrupted, see `interrupted_paused_raises`, and is resumable, see
      `paused_is_resumable`),
    * or the task has ended, the state is 'idle' (or the final 'idle' assignment itself was refused,
      excluded by C07.cleanup_reaches_idle) and no run is left open.
    What is missing w.r.t. `C08_full`: when the task has ended with `_interrupted` set, that a terminating
    transition happened (false: F4). -/
theorem C08_interrupted_partial (maxArr : Nat) (sc : Script) (fuel : Nat) (s0 : EState) (plan : Gen)
    (h0 : s0.state = .idle) (hb : (schedule maxArr sc fuel (startCall s0 plan)).blockingEvent = true) :
    Returned (schedule maxArr sc fuel (startCall s0 plan)) :=
  (schedule_res maxArr sc fuel _ (startCall_res s0 plan h0)).returned hb

/-- the same for `RE.resume()` ... -/
theorem C08_interrupted_partial_resume (maxArr : Nat) (sc : Script) (fuel : Nat) (s : EState)
    (hs : s.state = .paused) (hp : s.pc = .pausedWait)
    (hb : (schedule maxArr sc fuel (startResume s)).blockingEvent = true) :
    Returned (schedule maxArr sc fuel (startResume s)) :=
  (schedule_res maxArr sc fuel _ (startResume_res s hs hp)).returned hb

/-- ... and for abort()/stop()/halt() issued while paused -/
theorem C08_interrupted_partial_terminate (maxArr : Nat) (sc : Script) (fuel : Nat) (s : EState) (kind : String)
    (hs : s.state = .paused) (hp : s.pc = .pausedWait)
    (hb : (schedule maxArr sc fuel (startTerminate s kind)).blockingEvent = true) :
    Returned (schedule maxArr sc fuel (startTerminate s kind)) :=
  (schedule_res maxArr sc fuel _ (startTerminate_res s kind hs hp)).returned hb

/-- HISTORY (the true partial statement).  For every plan, device specification, environment script,
    arrival bound and fuel: if `RE(plan)` ends with `_interrupted` set and the engine idle -- i.e. it raises
    RunEngineInterrupted without being paused -- then the call's own transition / refusal logs show why:
    * a transition into aborting, stopping or halting happened during the call (an abort / stop / halt
      request was accepted, or a pause / suspension hit a non-resumable section: FailedPause), or
    * the transition pausing -> idle happened: the engine went idle while a pause was pending -- the
      pause request landed after the plan's last message (open finding F4), or
    * some request was refused during the call (abort/stop/halt record nothing when refused -- fix 7236275 --
      but `_request_suspend` in a non-resumable section still stores `_interrupted` before a state assignment
      that can raise TransitionError; that is only possible in aborting/stopping/halting). -/
theorem C08_interrupted_idle_explained (maxArr : Nat) (sc : Script) (fuel : Nat) (s0 : EState) (plan : Gen)
    (h0 : s0.state = .idle)
    (hi : (schedule maxArr sc fuel (startCall s0 plan)).interrupted = true)
    (hs : (schedule maxArr sc fuel (startCall s0 plan)).state = .idle) :
    TermSeen s0.trans (schedule maxArr sc fuel (startCall s0 plan)) ∨
    PISeen s0.trans (schedule maxArr sc fuel (startCall s0 plan)) ∨
    Refd s0.refused.length (schedule maxArr sc fuel (startCall s0 plan)) := by
  have hj := schedule_J maxArr sc fuel _ (startCall_J s0 plan h0)
  rcases hj.2.2.2 hi with he | hp | ⟨hp, _⟩
  · exact he
  · rw [hs] at hp; cases hp
  · rw [hs] at hp; cases hp

/-- C08 with the two forced hypotheses that exclude the open findings: if the engine never went
    pausing -> idle during the call (no pause request after the plan's last message) and no request was
    refused, then RunEngineInterrupted with the engine idle means that the plan was terminated
    (a transition into aborting / stopping / halting happened) -- and by `C08_interrupted_partial` every
    run is closed. -/
theorem C08_partial (maxArr : Nat) (sc : Script) (fuel : Nat) (s0 : EState) (plan : Gen) (h0 : s0.state = .idle)
    (hi : (schedule maxArr sc fuel (startCall s0 plan)).interrupted = true)
    (hs : (schedule maxArr sc fuel (startCall s0 plan)).state = .idle)
    (hF4 : ¬ PISeen s0.trans (schedule maxArr sc fuel (startCall s0 plan)))
    (hRef : (schedule maxArr sc fuel (startCall s0 plan)).refused.length ≤ s0.refused.length) :
    TermSeen s0.trans (schedule maxArr sc fuel (startCall s0 plan)) := by
  rcases C08_interrupted_idle_explained maxArr sc fuel s0 plan h0 hi hs with h | h | h
  · exact h
  · exact absurd h hF4
  · exact absurd h (Nat.not_lt.mpr hRef)

/-- the same for `RE.resume()` -/
theorem C08_interrupted_idle_explained_resume (maxArr : Nat) (sc : Script) (fuel : Nat) (s : EState)
    (hst : s.state = .paused) (hp : s.pc = .pausedWait)
    (hi : (schedule maxArr sc fuel (startResume s)).interrupted = true)
    (hs : (schedule maxArr sc fuel (startResume s)).state = .idle) :
    TermSeen s.trans (schedule maxArr sc fuel (startResume s)) ∨
    PISeen s.trans (schedule maxArr sc fuel (startResume s)) ∨
    Refd s.refused.length (schedule maxArr sc fuel (startResume s)) := by
  have hj := schedule_J maxArr sc fuel _ (startResume_J s hst hp)
  rcases hj.2.2.2 hi with he | hp' | ⟨hp', _⟩
  · exact he
  · rw [hs] at hp'; cases hp'
  · rw [hs] at hp'; cases hp'

/-- Who sets `_interrupted` (1): an environment action sets it only if it is a non-deferred pause
    request, an abort/stop/halt request (an ACCEPTED one: a refused request takes the first disjunct, see
    `refused_request_stores_nothing` in Counterexamples/C02.lean) or a suspension request while no checkpoint
    exists; no action resets it. -/
theorem C08_interrupt_sources (s : EState) (a : Action) :
    (applyAction s a).interrupted = s.interrupted ∨
    ((applyAction s a).interrupted = true ∧
      (a matches .pause false ∨ a matches .abort ∨ a matches .stop ∨ a matches .halt ∨
       (s.msgCache.isNone = true ∧ ∃ f pre post j, a = .suspend f pre post j))) :=
  applyAction_interrupted s a

/-- Who sets `_interrupted` (2): among the command handlers run by `_run` only `pause` touches it. -/
theorem C08_only_pause_command_interrupts (s : EState) (m : Msg) :
    (runCommand s m).1.interrupted = s.interrupted ∨ m.cmd = "pause" := runCommand_ir s m

/-- paused at the pause point with `_interrupted` set: the call raises RunEngineInterrupted -/
theorem interrupted_paused_raises (op : String) (s : EState) (hp : s.pc = .pausedWait) (hi : s.interrupted = true) :
    (outcomeOf op s).result = "raise:RunEngineInterrupted" := by
  unfold outcomeOf
  simp [hp, hi]

/-- 'paused' is resumable: the generated table allows paused -> running (what `_run` does when the
    run permit is set again), and also the three ways of terminating from paused -/
theorem paused_is_resumable (s : EState) (hs : s.state = .paused) :
    (∃ s', setState s .running = .ok s') ∧ (∃ s', setState s .aborting = .ok s') ∧
    (∃ s', setState s .stopping = .ok s') ∧ (∃ s', setState s .halting = .ok s') := by
  refine ⟨setState_ok_of ?_, setState_ok_of ?_, setState_ok_of ?_, setState_ok_of ?_⟩ <;> rw [hs] <;> decide

/-- whenever the task ends (the outer `finally` ran), for ANY state: no run is left open and the state
    is idle unless the final assignment was refused -/
theorem C08_idle_means_closed (s : EState) :
    (finishTask (cleanup s)).bundlers = [] ∧ (finishTask (cleanup s)).pc = .finished ∧
    ((finishTask (cleanup s)).state = .idle ∨ (finishTask (cleanup s)).cleanupExc.isSome) :=
  ⟨finish_bundlers s, rfl, cleanup_state s⟩

/-- A call that returns normally (partial): the task has ended, the state is idle, no run is open,
    `_interrupted` is not set and the task did not raise; if the task returned a value, the loop was left
    through one of the handlers that swallow the exception (StopIteration, RequestStop, FailedPause,
    RequestAbort, CancelledError, PlanHalt) and, when that was StopIteration, the whole plan stack was
    exhausted (`planDone`).  Missing w.r.t. `C08_full`: that it WAS StopIteration -- a plan (arbitrary
    generator) may raise a control exception class itself without any request. -/
theorem C08_normal_return_partial (maxArr : Nat) (sc : Script) (fuel : Nat) (s0 : EState) (plan : Gen)
    (h0 : s0.state = .idle) (hb : (schedule maxArr sc fuel (startCall s0 plan)).blockingEvent = true)
    (hr : (outcomeOf "call" (schedule maxArr sc fuel (startCall s0 plan))).result = "return") :
    (schedule maxArr sc fuel (startCall s0 plan)).pc = .finished ∧
    ((schedule maxArr sc fuel (startCall s0 plan)).state = .idle ∨
      (schedule maxArr sc fuel (startCall s0 plan)).cleanupExc.isSome) ∧
    (schedule maxArr sc fuel (startCall s0 plan)).bundlers = [] ∧
    (schedule maxArr sc fuel (startCall s0 plan)).interrupted = false ∧
    (∀ e, (schedule maxArr sc fuel (startCall s0 plan)).taskResult ≠ .raised e) ∧
    ((schedule maxArr sc fuel (startCall s0 plan)).taskResult = .returned →
      ∃ e, e.sleeper = true ∧
        ((schedule maxArr sc fuel (startCall s0 plan)).exitExc = some e ∨
         (schedule maxArr sc fuel (startCall s0 plan)).exitExc = some .cancelled) ∧
        (e = .stopIteration → (schedule maxArr sc fuel (startCall s0 plan)).planDone = true)) := by
  have hres := schedule_res maxArr sc fuel _ (startCall_res s0 plan h0)
  generalize schedule maxArr sc fuel (startCall s0 plan) = s' at *
  have hni : s'.interrupted = false := by
    cases hi : s'.interrupted
    · rfl
    · exfalso
      unfold outcomeOf at hr
      simp only [hi, if_true] at hr
      by_cases hf : s'.pc = .finished
      · have hf' : (s'.pc == PC.finished) = true := by simpa using hf
        simp only [hf', if_true] at hr
        cases ht : s'.taskResult <;> rw [ht] at hr <;> revert hr
        · decide
        · decide
        · rename_i e; cases e <;> simp [Exc.name] <;> decide
        · decide
      · have hf' : (s'.pc == PC.finished) = false := by simpa using hf
        simp only [hf', Bool.false_eq_true, if_false] at hr
        revert hr; decide
  have hfin : s'.pc = .finished := by
    rcases hres.returned hb with ⟨_, _, hi⟩ | ⟨hf, _⟩
    · rw [hni] at hi; cases hi
    · exact hf
  have hnr : ∀ e, s'.taskResult ≠ .raised e := by
    intro e ht
    unfold outcomeOf at hr
    have hf' : (s'.pc == PC.finished) = true := by simpa using hfin
    simp only [hf', if_true, ht] at hr
    revert hr
    cases e <;> simp [Exc.name] <;> decide
  rcases hres.returned hb with ⟨hp, _, _⟩ | ⟨_, hst, hbu⟩
  · rw [hfin] at hp; cases hp
  · refine ⟨hfin, hst, hbu, hni, hnr, ?_⟩
    intro hret
    obtain ⟨x, l, hx, e, _, a2, a3⟩ := hres.2.2.1 hfin
    have hpd : s'.planDone = x.planDone := by rw [hx]; exact cleanup_planDone x
    have hee : s'.exitExc = x.exitExc := by rw [hx]; exact (cleanup_keep x).1
    have htr : (finishTask (cleanup x)).taskResult = .returned := by rw [hx] at hret; exact hret
    rcases a3 with a3 | ⟨a3, _, a4⟩
    · have hsl := finishTask_swallowed (cleanup x) e ((cleanup_keep x).1.trans a3) htr
      exact ⟨e, hsl, Or.inl (hee.trans a3), fun he => hpd.trans (a2 he)⟩
    · exact ⟨e, a4, Or.inr (hee.trans a3), fun he => hpd.trans (a2 he)⟩

end BlueskyVerif.C08
