/-
C42 -- With tracing enabled, every opened run has one span that is ended exactly once and carries
that run's own exit status, including when several runs are open at once and when the engine closes
a run during cleanup.

Model: `Engine/Tracing.lean` (hand transcription of `_open_run`, `_close_run`, `_close_run_trace`,
`_destroy_open_run_tracing_spans`, `_abort_coro`, `_halt_coro`, the `finally` block of `_run`,
`_clear_call_cache`), instantiated with `facts` = `Engine/TracingGenerated.lean`, which is regenerated
from the current source on every check run.  Span n = the span started by the n-th `open_run`
message; run n = the run that message opened (if it was accepted).

The FULL statement `C42_full` (all histories) is FALSE for the current source (finding F18:
`Counterexamples/C42.lean` has `decide`-checked refutations -- non-LIFO close of interleaved run
keys, engine-closed run, rejected `open_run`, `close_run(exit_status=None)`, ...).  What is proved
here, for histories of ANY length: the statement holds for every *disciplined* history
(`disciplined`, `okOp` in Engine/Tracing.lean):
  * every `open_run` is accepted;
  * every `close_run` names a key that is not open, or the most recently opened open run (LIFO --
    this includes every single-run-key plan); while that run's span is still open the message gives
    a truthy `exit_status` (or omits the keyword while the engine status is "success"); if the span
    was already ended by abort/halt the run is closed as "abort";
  * when `_run` exits, the engine closes no run whose span is still open, and the runs it does close
    (their spans were ended by abort/halt) get an "abort" exit;
  * abort / halt / call boundaries are unrestricted, in any number and order.
-/
import BlueskyVerif.Lemmas.C42

namespace BlueskyVerif.C42
open BlueskyVerif.Engine.Tracing

/-- The property as a predicate on the engine state reached by a history. -/
structure Good (s : St) : Prop where
  /-- every opened run that is no longer open has had its span ended exactly once -/
  ended_once : ∀ r ∈ s.opened, r ∉ ids s.runs → endCount s r = 1
  /-- no run's span is ever ended twice (open runs included) -/
  ended_at_most_once : ∀ r ∈ s.opened, endCount s r ≤ 1
  /-- the status the span carried when it was ended is the run's RunStop exit status
      ("aborted" read as "abort") -/
  own_status : ∀ r st a, (r, st) ∈ s.stops → (r, a) ∈ s.ended → norm a = norm st
  /-- one span per run: every span that was started belongs to an opened run -/
  span_is_run : ∀ n, n < s.next → n ∈ s.opened

/-- FULL statement: after every history of engine operations.  FALSE on the current source. -/
def C42_full : Prop := ∀ h : List Op, Good (run facts h)

theorem good_of_inv {s : St} (h : Inv s) : Good s := by
  refine ⟨fun r hr hn => h.closed r ((h.opened r).mp hr) hn, ?_, h.own, fun n hn => (h.opened n).mpr hn⟩
  intro r hr
  by_cases hm : r ∈ ids s.runs
  · obtain ⟨P, hP, hPa⟩ := h.split
    rw [hP, List.mem_append] at hm
    rcases hm with hm | hm
    · rw [h.live r hm]; omega
    · rw [(hPa r hm).1]; omega
  · rw [h.closed r ((h.opened r).mp hr) hm]; omega

/-- PARTIAL (hypothesis: disciplined history; any length, any number of run keys, aborts, halts,
    calls).  Every opened run that has been closed has exactly one span, ended exactly once; no span
    is ended twice; no span exists without a run. -/
theorem C42_one_span_each_ended_once_partial (h : List Op) (hd : disciplined facts h = true) :
    let s := run facts h
    (∀ r ∈ s.opened, r ∉ ids s.runs → endCount s r = 1) ∧
    (∀ r ∈ s.opened, endCount s r ≤ 1) ∧
    (∀ n, n < s.next → n ∈ s.opened) := by
  have g := good_of_inv (inv_run factsOK_generated h hd)
  exact ⟨g.ended_once, g.ended_at_most_once, g.span_is_run⟩

/-- PARTIAL (same hypothesis).  Whenever run r has a RunStop with status `st` and span r was ended
    carrying `a`, then `a` is `st` (with "aborted" read as "abort"). -/
theorem C42_own_status_partial (h : List Op) (hd : disciplined facts h = true) :
    let s := run facts h
    ∀ r st a, (r, st) ∈ s.stops → (r, a) ∈ s.ended → norm a = norm st :=
  (good_of_inv (inv_run factsOK_generated h hd)).own_status

/-- PARTIAL (same hypothesis).  While runs are open: the span stack is exactly the open runs that
    were opened after the last abort/halt, most recent on top, none of them ended yet; the other
    open runs had their span ended exactly once, as "aborted". -/
theorem C42_open_runs_partial (h : List Op) (hd : disciplined facts h = true) :
    let s := run facts h
    ∃ P, ids s.runs = s.spans ++ P ∧ (∀ r ∈ s.spans, endCount s r = 0) ∧
      ∀ p ∈ P, endCount s p = 1 ∧ ∀ a, (p, a) ∈ s.ended → norm a = .abort := by
  have i := inv_run factsOK_generated h hd
  obtain ⟨P, hP, hPa⟩ := i.split
  exact ⟨P, hP, i.live, hPa⟩

/-- The three together: `Good` for every disciplined history. -/
theorem C42_good_partial (h : List Op) (hd : disciplined facts h = true) : Good (run facts h) :=
  good_of_inv (inv_run factsOK_generated h hd)

/-- A complete disciplined history (no run left open at the end, e.g. it ends with `callEnd`):
    EVERY opened run has exactly one end of its span. -/
theorem C42_complete_history_partial (h : List Op) (hd : disciplined facts h = true)
    (hc : (run facts h).runs = []) : ∀ r ∈ (run facts h).opened, endCount (run facts h) r = 1 := by
  intro r hr
  exact (C42_good_partial h hd).ended_once r hr (by simp [hc, ids])

/-! ### the hypothesis is satisfiable on non-trivial histories -/

/-- two run keys nested (LIFO), different explicit statuses, then a second call with one run -/
def exNested : List Op :=
  [.callBegin, .openRun 1 true, .openRun 2 true, .closeRun 2 (.given .fail), .closeRun 7 .absent,
   .closeRun 1 (.given .success), .callEnd .success,
   .callBegin, .openRun 1 true, .closeRun 1 .absent, .callEnd .success]

example : disciplined facts exNested = true := by decide
example : (run facts exNested).ended = [(2, .success), (0, .success), (1, .fail)] := by decide
example : (run facts exNested).stops = [(2, .success), (0, .success), (1, .fail)] := by decide

/-- pause + abort with two runs open: spans ended "aborted" by the engine, the plan closes the runs
    (LIFO) as "abort"; a run opened during the clean-up is closed normally; then `halt` with a run
    open that the engine closes itself -/
def exAbort : List Op :=
  [.callBegin, .openRun 1 true, .openRun 2 true, .abort, .openRun 3 true, .closeRun 3 (.given .success),
   .closeRun 2 (.given .abort), .closeRun 1 (.given .abort), .callEnd .abort,
   .callBegin, .openRun 0 true, .halt true, .callEnd .abort]

example : disciplined facts exAbort = true := by decide
example : (run facts exAbort).ended = [(3, .aborted), (2, .success), (0, .aborted), (1, .aborted)] := by decide
example : (run facts exAbort).stops = [(3, .abort), (0, .abort), (1, .abort), (2, .success)] := by decide

end BlueskyVerif.C42
