/-
C26 -- Snaked grids are a continuous back-and-forth ordering of the full grid.

`snakeCyclers` (Pure/Snake.lean) transcribes `bluesky.utils.snake_cyclers`: the product shortcut
`reduce(operator.mul, cyclers)` when nothing beyond the first axis is snaked, otherwise per axis
`tile(repeat(concatenate([v, v[::-1]]), num_repeats), num_tiles)[:total]` and the zip of the columns.
All theorems hold for ANY number of axes, ANY axis lengths and ANY flag vector (induction over the
axis list; no bound).  Axes are given slowest first as `(length, snaked)`;
`idxs axes p` is the index tuple at flat position `p`, `traj axes` the whole index trajectory.
-/
import BlueskyVerif.Lemmas.C26Arith
import BlueskyVerif.Pure.Patterns

namespace BlueskyVerif.C26
open BlueskyVerif.Pure.Snake BlueskyVerif.Pure.Patterns

variable {α : Type}

/-- **Closed form of what the code builds.**  For every non-empty list of cyclers (label lists of
    any lengths) and every flag vector of the same length, `snake_cyclers` returns -- on both of its
    code paths -- the points whose axis-`i` label sits at index `idxAt L_i R_i s_i p`
    (`R_i` = product of the faster lengths): the plain mixed-radix digit `p / R_i % L_i`, mirrored iff
    the axis is snaked and `p / (L_i * R_i)` is odd. -/
theorem C26_closed_form (cyclers : List (List α)) (flags : List Bool)
    (hlen : cyclers.length = flags.length) (hne : cyclers ≠ []) :
    snakeCyclers cyclers flags = .ok ((traj (axesOf cyclers flags)).map (pick cyclers)) :=
  snakeCyclers_closed_form cyclers flags hlen hne

/-- The only failures: unequal argument lengths raise ValueError, the empty call raises TypeError. -/
theorem C26_errors (cyclers : List (List α)) (flags : List Bool) :
    (cyclers.length ≠ flags.length → snakeCyclers cyclers flags = .valueError) ∧
    (snakeCyclers ([] : List (List α)) [] = .typeError) := by
  constructor
  · intro h; simp [snakeCyclers, h]
  · simp [snakeCyclers, reduce1, noSnaking]

/-- **The mirror condition is "an odd number of slower-axis advances so far".**  For axis `i` with
    `(L, s)`, at every position `p` of the trajectory the index is the product-order digit
    `p / R_i % L`, mirrored iff the axis is snaked and the number of earlier positions at which the
    coordinates of the slower axes (the first `i` coordinates) changed is odd: a snaked axis reverses
    direction each time any slower axis advances. -/
theorem C26_snaked_axis_reverses_on_each_slower_advance (axes : List (Nat × Bool)) (i L : Nat) (s : Bool)
    (p : Nat) (hi : axes[i]? = some (L, s)) (hp : p < prod (axes.map (·.1))) :
    (idxs axes p)[i]? =
      some (mirror L (s && slowerAdvances axes i p % 2 == 1)
        (p / prod ((axes.drop (i + 1)).map (·.1)) % L)) := by
  rw [getElem?_idxs axes i L s p hi, idxAt_eq_mirror, slowerAdvances_eq axes i p hp]
  have h1 : (axes.map (·.1))[i]? = some L := by simp [hi]
  have h2 := prod_drop (axes.map (·.1)) i L h1
  rw [List.map_drop, List.map_drop, h2]

/-- The first (slowest) axis is never reversed, whatever its flag says. -/
theorem C26_first_axis_never_reversed (L : Nat) (s : Bool) (rest : List (Nat × Bool)) (p : Nat)
    (hp : p < prod (((L, s) :: rest).map (·.1))) :
    (idxs ((L, s) :: rest) p)[0]? = some (p / prod (rest.map (·.1))) := by
  have hp' : p < L * prod (rest.map (·.1)) := by simpa [prod] using hp
  have hlt : p / prod (rest.map (·.1)) < L := by
    rcases Nat.eq_zero_or_pos (prod (rest.map (·.1))) with h0 | h0
    · rw [h0] at hp'; simp at hp'
    · exact (Nat.div_lt_iff_lt_mul h0).mpr hp'
  simp [idxs, idxAt_first _ _ _ _ hp', Nat.mod_eq_of_lt hlt]

/-- **Unsnaked axes follow plain product order**: the index of an unsnaked axis at position `p` is
    the row-major digit `p / R_i % L_i`, whatever the other axes do. -/
theorem C26_unsnaked_product_order (axes : List (Nat × Bool)) (i L : Nat) (p : Nat)
    (hi : axes[i]? = some (L, false)) :
    (idxs axes p)[i]? = some (p / prod ((axes.drop (i + 1)).map (·.1)) % L) := by
  rw [getElem?_idxs axes i L false p hi]; simp [idxAt]

/-- With no snaking beyond the first axis the result is exactly the row-major Cartesian product. -/
theorem C26_no_snaking_is_product (cyclers : List (List α)) (flags : List Bool)
    (hlen : cyclers.length = flags.length) (hne : cyclers ≠ [])
    (hno : ∀ b ∈ flags.drop 1, b = false) :
    snakeCyclers cyclers flags = .ok ((grid (cyclers.map List.length)).map (pick cyclers)) := by
  have h : noSnaking flags = true := by
    simp only [noSnaking, Gen.shortcutFlagsFrom, Bool.not_eq_eq_eq_not, Bool.not_true, List.any_eq_false]
    intro b hb; simp [hno b hb]
  unfold snakeCyclers
  rw [if_neg (by simp [hlen]), if_pos h, reduce1_mulC cyclers hne, prodPts_eq_grid]

/-- **Permutation of the full Cartesian product**: the index trajectory has `Π L_i` entries, no
    duplicates, and is a permutation of the full grid `Π [0, L_i)`. -/
theorem C26_permutation (axes : List (Nat × Bool)) :
    (traj axes).length = prod (axes.map (·.1)) ∧ (traj axes).Nodup ∧
      (traj axes).Perm (grid (axes.map (·.1))) :=
  ⟨length_traj axes, nodup_traj axes, traj_perm_grid axes⟩

/-- ... and so the points returned by `snake_cyclers` are a permutation of the points of the plain
    product of the same cyclers. -/
theorem C26_permutation_points (cyclers : List (List α)) (flags : List Bool)
    (hlen : cyclers.length = flags.length) (hne : cyclers ≠ []) :
    ∃ pts, snakeCyclers cyclers flags = .ok pts ∧
      pts.Perm ((grid (cyclers.map List.length)).map (pick cyclers)) ∧
      pts.length = prod (cyclers.map List.length) := by
  refine ⟨_, C26_closed_form cyclers flags hlen hne, ?_, ?_⟩
  · have := (traj_perm_grid (axesOf cyclers flags)).map (pick cyclers)
    rwa [axesOf_fst cyclers flags hlen] at this
  · rw [List.length_map, length_traj, axesOf_fst cyclers flags hlen]

/-- **Consecutive points** (any flags): between positions `p` and `p+1` exactly one axis `j` moves, by
    exactly one index step; every slower axis keeps its index; every faster axis wraps -- a snaked one
    keeps its index (it turns around), an unsnaked one jumps from `L-1` back to `0`. -/
theorem C26_adjacent (axes : List (Nat × Bool)) (p : Nat) (hp : p + 1 < prod (axes.map (·.1))) :
    AdjStep axes (idxs axes p) (idxs axes (p + 1)) := by
  apply adjStep_idxs axes (axes_pos_of_prod_pos (by omega)) p
  rw [Nat.mod_eq_of_lt hp]; omega

/-- **Continuity when everything beyond the first axis is snaked**: consecutive points differ in
    exactly one coordinate, by exactly one index step. -/
theorem C26_adjacent_when_all_snaked (axes : List (Nat × Bool)) (hs : ∀ x ∈ axes.drop 1, x.2 = true)
    (p : Nat) (hp : p + 1 < prod (axes.map (·.1))) :
    OneStep (idxs axes p) (idxs axes (p + 1)) :=
  oneStep_of_adjStep axes hs _ _ (C26_adjacent axes p hp)

/-- `outer_list_product(..., snake_axes=True)` and `outer_product` with every `snake` argument True
    hand `snake_cyclers` a flag vector whose entries beyond the first are all True, so their
    trajectories are continuous in the sense of `C26_adjacent_when_all_snaked`. -/
theorem C26_outer_products_all_snaked (lengths : List Nat) (snakes : List Bool)
    (hlen : snakes.length + 1 = lengths.length) (hall : ∀ b ∈ snakes, b = true) :
    (∀ x ∈ (lengths.zip (outerListFlags lengths.length .all)).drop 1, x.2 = true) ∧
    (∀ x ∈ (lengths.zip (outerProductFlags lengths.length (some snakes))).drop 1, x.2 = true) := by
  constructor
  · intro x hx
    rw [List.mem_iff_getElem?] at hx
    obtain ⟨k, hk⟩ := hx
    simp only [outerListFlags, List.getElem?_drop, List.getElem?_zip_eq_some, List.getElem?_map] at hk
    obtain ⟨_, h2⟩ := hk
    cases hr : (List.range lengths.length)[1 + k]? with
    | none => simp [hr] at h2
    | some v =>
      have : v = 1 + k := by
        have := List.getElem?_range (n := lengths.length) (i := 1 + k) (by
          rcases Nat.lt_or_ge (1 + k) lengths.length with h | h
          · exact h
          · simp [List.getElem?_eq_none (l := List.range lengths.length) (by simpa using h)] at hr)
        rw [this] at hr; exact (Option.some.inj hr).symm
      simp only [hr, Option.map_some, Option.some.injEq] at h2
      rw [← h2, this]; simp
  · intro x hx
    cases lengths with
    | nil => simp at hlen
    | cons L rest =>
      simp only [outerProductFlags, List.zip_cons_cons, List.drop_succ_cons, List.drop_zero] at hx
      exact hall x.2 (List.of_mem_zip hx).2

/-! ### The hypotheses are satisfiable / the statements are not vacuous -/

example : snakeCyclers [[10, 11], [20, 21], [30, 31, 32]] [false, true, true] =
    .ok [[10,20,30], [10,20,31], [10,20,32], [10,21,32], [10,21,31], [10,21,30],
         [11,21,30], [11,21,31], [11,21,32], [11,20,32], [11,20,31], [11,20,30]] := by
  decide

example : traj [(2, false), (2, false), (3, true)] =
    [[0,0,0],[0,0,1],[0,0,2],[0,1,2],[0,1,1],[0,1,0],[1,0,0],[1,0,1],[1,0,2],[1,1,2],[1,1,1],[1,1,0]] := by
  decide

example : slowerAdvances [(2, false), (2, false), (3, true)] 2 7 = 2 := by decide

example : OneStep (idxs [(2, false), (2, true), (3, true)] 5) (idxs [(2, false), (2, true), (3, true)] 6) := by
  simp [idxs, idxAt, prod, OneStep]

end BlueskyVerif.C26
