/-
C46 -- TiledWriter stores exactly the run it was given  (PARTIAL: batching logic proved, storage trusted).

`flushCond`, `eventClears`, `stopFlushesRows`, `stopClearsRows`, `stopFlushesExt`, `immediateCond`,
`extFlushCond` are GENERATED from `_RunWriter.event / .stop / .stream_datum` on every run; the model
(IO/TiledWriter.lean) is parametrised by them.

Full statement (kept visible): after the RunStop is written the Tiled container holds the start and stop
metadata, one row per event in each stream's internal table in seq_num order with the event's values, and
one array per external data key whose length matches the stream datums received.  What is PROVED is the
part that lives in bluesky: which rows / stream datums are handed to Tiled and the consolidators, in which
partitions and order.  That tiled + pyarrow + the HTTP layer store a partition as rows in that order, keep
the metadata, and that a consolidator's length is the sum of the widths it consumed, is TRUSTED and only
checked by the correspondence run against the real in-memory catalog.
-/
import BlueskyVerif.Lemmas.C46

namespace BlueskyVerif.C46
open BlueskyVerif.TiledWriter

/-- the part of the statement that is about storage: stated, not proved (see header) -/
def C46_full : Prop :=
  ∀ (α : Type) (batch : Int) (ops : List (Op α)) (s k : String),
    -- the table of stream `s` = concatenation of the partitions appended, the array of `k` has
    -- `totalWidth` of the stream datums consumed (TRUSTED link to the real catalog), and then:
    ((runOps batch ops).parts s).flatten = rowsOf s ops ∧
    totalWidth ((runOps batch ops).extW k) = totalWidth (sdatsOf k ops)

/-- For EVERY batch size (any integer, also 0 and negatives), every sequence of events of any number of
    streams interleaved with stream datums, and every stream: after `stop` the partitions appended to the
    stream's table, concatenated in order, are exactly the stream's rows in arrival order (= seq_num order);
    nothing is left in the cache; no partition is empty. -/
theorem C46_rows_in_order {α : Type} (batch : Int) (ops : List (Op α)) (s : String) :
    ((runOps batch ops).parts s).flatten = rowsOf s ops ∧ (runOps batch ops).rows s = [] := by
  unfold runOps
  obtain ⟨h1, h2⟩ := stop_rows (ops.foldl apply ({ batch := batch } : W α)) s
  refine ⟨?_, h2⟩
  rw [h1, foldl_rows]
  simp

/-- No empty partition is ever appended to a table (for any flush condition). -/
theorem C46_partitions_nonempty {α : Type} (batch : Int) (ops : List (Op α)) (s : String) :
    ∀ p ∈ (runOps batch ops).parts s, p ≠ [] := by
  unfold runOps
  have h := foldl_nonempty s ops ({ batch := batch } : W α) (by intro p hp; simp at hp)
  generalize ops.foldl apply ({ batch := batch } : W α) = w at h
  simp only [stop, stopFlushesRows, Bool.true_and]
  intro p hp
  cases hr : w.rows s with
  | nil => simp [hr] at hp; exact h p hp
  | cons x xs =>
    simp [hr] at hp
    rcases hp with hp | hp
    · exact h p hp
    · subst hp; simp

/-- For every batch size, every sequence and every stream resource: the widths (`stop - start`) of the stream
    datums handed to the consolidator add up to the widths of the stream datums received -- whether they were
    written immediately (`batch ≤ 1`), concatenated and flushed at the threshold, written separately after a
    failed concatenation (gap, other descriptor), or flushed at `stop`.  (The consolidator's array length is
    that sum: consolidators.py `_num_rows += stop - start`.) -/
theorem C46_array_length {α : Type} (batch : Int) (ops : List (Op α)) (k : String) :
    totalWidth ((runOps batch ops).extW k) = totalWidth (sdatsOf k ops) := by
  unfold runOps
  rw [stop_width, foldl_width]
  simp [totalWidth, cachedWidth]

/-- a concatenated stream datum covers exactly what its two parts cover -/
theorem C46_concat_width {c d m : SD} (h : concat2 c d = some m) : m.width = c.width + d.width :=
  concat2_width h

/-! ## non-vacuity -/
def exOps : List (Op Nat) :=
  [.event "primary" 1, .sdat ⟨"a/0", "a", "d", 0, 1, 1, 2⟩, .event "baseline" 10, .event "primary" 2,
   .sdat ⟨"a/1", "a", "d", 1, 3, 2, 4⟩, .event "primary" 3, .sdat ⟨"a/2", "a", "d", 5, 6, 6, 7⟩]

-- (the examples avoid facts that depend on the exact comparison operators, which the property does not prescribe)
example : ((runOps 2 exOps).parts "primary").flatten = [1, 2, 3] := by decide
example : (runOps 2 exOps).parts "baseline" = [[10]] := by decide
example : (runOps 0 exOps).parts "primary" = [[1], [2], [3]] := by decide
example : totalWidth ((runOps 2 exOps).extW "a") = 4 := by decide
example : totalWidth (sdatsOf "a" exOps) = 4 := by decide
example : ((runOps 100 exOps).extW "a").map (fun d => (d.i0, d.i1)) = [(0, 3), (5, 6)] := by decide  -- gap: two writes

end BlueskyVerif.C46
