/-
C13 -- each yield receives the response to its own message.

Model: Engine/Model.lean + Engine/Sim.lean (`_run` as a program-counter machine; the plan stack and the
response stack are the lists `planStack` / `respStack`, the popped response in flight is `resp`).
Helper lemmas: Lemmas/C13Stack.lean (data operations, command handlers), C13Blocks.lean (control blocks,
`advanceAt`), C13Sched.lean (API layer, scheduler), C13Resp.lean (what is pushed / delivered), C13Logs.lean (who
writes the message / yield logs), C13Uids.lean (`_run_start_uids` vs. the RunStart documents).

What is proved
* the stack discipline `assert len(self._response_stack) == len(self._plan_stack)` as a GLOBAL invariant of
  every call, for every plan (any generator behaviour), every script of requests and every fuel;
* delivery: what `afterSleep` sends into the top plan is the top of the response stack, and that slot was
  filled by `processMsg` with the outcome of the message this very plan yielded (value sent / exception thrown);
* the command-specific values (open_run uid, reading = cached event datum, status identity);
* `RE(...)` / `resume()` / `abort()`... return exactly the runs of the RunStart documents emitted since the call
  began, in order (a second global invariant, `C13_return_uids`);
* for commands that really suspend (`sleep`, `wait`, `wait_for`, deferred-pause `checkpoint`): resuming `_run`
  pushes `pushedAnswer`; WITHOUT a cancellation this is the command's own answer (`..._partial`).
The full statement `C13_full` is FALSE on the unchanged tree (finding F6, Counterexamples/C13.lean): a
cancellation delivered inside a command makes the inner `finally` answer the suspended message with `None`.
-/
import BlueskyVerif.Lemmas.C13Resp
import BlueskyVerif.Lemmas.C13Logs
import BlueskyVerif.Lemmas.C13Uids

namespace BlueskyVerif.C13
open BlueskyVerif.Engine

/-! ## 1. the stack discipline, globally -/

/-- For EVERY plan, script, arrival bound and fuel: when `RE(plan)` hands control back (paused, finished, or
    out of fuel), the response stack and the plan stack are in step -- counting the response that `_run`
    has popped into its local `resp` -- and a response is in flight only while `_run` is suspended inside
    a command (`sleep`, `wait`, `wait_for`, the deferred-pause sleep of `checkpoint`). -/
theorem C13_stack_inv (maxArr : Nat) (sc : Script) (fuel : Nat) (s0 : EState) (plan : Gen) (h0 : s0.resp = none) :
    StackInv (schedule maxArr sc fuel (startCall s0 plan)) ∧
    ((schedule maxArr sc fuel (startCall s0 plan)).resp.isSome = true →
      inCmd (schedule maxArr sc fuel (startCall s0 plan)).pc = true) :=
  schedule_pcinv maxArr sc fuel _ (startCall_pcinv s0 plan h0)

/-- the same for `RE.resume()` (which pushes the rewind plan together with a response slot) ... -/
theorem C13_stack_inv_resume (maxArr : Nat) (sc : Script) (fuel : Nat) (s : EState) (h : PcInv s) :
    PcInv (schedule maxArr sc fuel (startResume s)) :=
  schedule_pcinv maxArr sc fuel _ ((grow_startResume s).pcinv h)

/-- ... and for `abort()/stop()/halt()` issued while paused -/
theorem C13_stack_inv_terminate (maxArr : Nat) (sc : Script) (fuel : Nat) (s : EState) (kind : String) (h : PcInv s) :
    PcInv (schedule maxArr sc fuel (startTerminate s kind)) :=
  schedule_pcinv maxArr sc fuel _ ((grow_startTerminate s kind).pcinv h)

/-- hence at the three suspension points OUTSIDE a command (loop-top sleep(0), paused, not yet started) and
    after the task ended, nothing is in flight and the two stacks have literally the same length: the
    `assert` at the loop top of `_run` can never fail -/
theorem C13_assert_holds (s : EState) (h : PcInv s) (hpc : inCmd s.pc = false) :
    s.resp = none ∧ s.respStack.length = s.planStack.length := by
  have hb := pcinv_resp_none h hpc
  refine ⟨?_, by simpa using hb.2⟩
  cases hr : s.resp with
  | none => rfl
  | some x => have := hb.1; rw [hr] at this; cases this

/-- ... and inside a command exactly one response is in flight when the invariant's state was reached by
    `_run` itself suspending there (`afterCommand`): the slot of the suspended message -/
theorem C13_in_flight_inside_command (s : EState) (m : Msg) (pc : PC) (s1 : EState) (r0 : Resp)
    (hresp : s.resp = some r0) (hcmd : runCommand s m = (s1, .suspend pc)) (hnot : m.cmd ≠ "_start_suspender") :
    ∃ s2, afterCommand m (runCommand s m) = .stop s2 ∧ s2.pc = pc ∧ inCmd pc = true ∧ s2.resp = some r0 ∧
      s2.planStack = s.planStack ∧ s2.respStack = s.respStack := by
  have hstk : stk s1 = stk s := by
    have := runCommand_stk s m hnot
    rw [hcmd] at this; exact this
  refine ⟨{ s1 with pc := pc, curMsg := some m }, by rw [hcmd]; rfl, rfl,
    runCommand_suspend_pc s m pc s1 hcmd, ?_, ?_, ?_⟩
  · exact (congrArg Stk.resp hstk).trans hresp
  · exact congrArg Stk.plans hstk
  · exact congrArg Stk.resps hstk

/-- every command keeps the stacks in step; `_start_suspender` is the only one that touches them at all, and
    it pushes the helper plan together with one response slot -/
theorem C13_commands_keep_step (s : EState) (m : Msg) :
    (m.cmd ≠ "_start_suspender" → (runCommand s m).1.planStack = s.planStack ∧ (runCommand s m).1.respStack = s.respStack ∧
        (runCommand s m).1.resp = s.resp) ∧
    ∃ k, (runCommand s m).1.planStack.length = s.planStack.length + k ∧
      (runCommand s m).1.respStack.length = s.respStack.length + k := by
  refine ⟨fun h => ?_, (runCommand_grow s m).2.2⟩
  have := runCommand_stk s m h
  exact ⟨congrArg Stk.plans this, congrArg Stk.resps this, congrArg Stk.resp this⟩

/-! ## 2. the response slot holds the outcome of the pending message, and that is what the plan receives -/

/-- LOCAL DELIVERY THEOREM.  Plan `g` (top of the stack, its popped response in flight) has just yielded `m`.
    If the command completes with value `r` then `processMsg` puts `r` on top of the response stack (the slot of
    `g`), leaves the plan stack alone, and -- as long as nothing else is pushed and nothing is stashed or stored
    in `self._exception` -- the next `afterSleep` resumes THE SAME generator `g` with `send r`
    (and records `(mid, send r)` for the message `g` is suspended at). -/
theorem C13_response_is_for_pending_message (s : EState) (m : Msg) (g : Gen) (gs : List Gen) (r0 r : Resp) (s1 : EState)
    (hplan : s.planStack = g :: gs) (hresp : s.resp = some r0)
    (hreg : Src.registry.contains m.cmd = true) (hnot : m.cmd ≠ "_start_suspender")
    (hcmd : runCommand (noteMsg s m) m = (s1, .value r)) (hne : ∀ e, r = .exc e → e.isException = false) :
    ∃ s2, processMsg s m = .loopTop s2 ∧ s2.respStack = r :: s.respStack ∧ s2.planStack = g :: gs ∧ s2.resp = none ∧
      s2.msgs = s.msgs ++ [m] ∧
      ∀ s3 : EState, s3.respStack = s2.respStack → s3.planStack = s2.planStack →
        s3.exceptionSlot = none → s3.stashed = none →
        afterSleep s3 = afterResume (logYield { s3 with respStack := s.respStack, resp := some r } g (.send r)) gs none
          (g.resume (.send r)) ∧
        ∀ mid, g.pendingMid = some mid →
          (logYield { s3 with respStack := s.respStack, resp := some r } g (.send r)).yields = s3.yields ++ [(mid, .send r)] := by
  obtain ⟨hp, hq, hr, hv, _⟩ := processMsg_pushes s m r0 s1 (.value r) hresp hreg hnot hcmd
  refine ⟨_, hv r rfl, rfl, hp.trans hplan, rfl, ?_, ?_⟩
  · -- only `noteMsg` appends to the message log before the command runs; commands do not log messages
    show s1.msgs = s.msgs ++ [m]
    have h1 : (noteMsg s m).msgs = s.msgs ++ [m] := by unfold noteMsg; frame_be
    have h2 : (runCommand (noteMsg s m) m).1.msgs = (noteMsg s m).msgs := runCommand_msgs _ _
    rw [hcmd] at h2
    exact h2.trans h1
  · intro s3 h3r h3p hslot hst
    have h3r' : s3.respStack = r :: s.respStack := h3r
    have h3p' : s3.planStack = g :: gs := h3p.trans (hp.trans hplan)
    refine ⟨afterSleep_sends s3 r s.respStack g gs h3r' h3p' hslot hst hne, ?_⟩
    intro mid hmid
    exact logYield_yields _ g _ mid hmid

/-- ... and if the command RAISED `e` (an `Exception`), the slot holds that exception instance and the same
    generator gets `throw e` at that yield (this is the synchronous half of C12) -/
theorem C13_error_is_for_pending_message (s : EState) (m : Msg) (g : Gen) (gs : List Gen) (r0 : Resp) (e : Exc) (s1 : EState)
    (hplan : s.planStack = g :: gs) (hresp : s.resp = some r0)
    (hreg : Src.registry.contains m.cmd = true) (hnot : m.cmd ≠ "_start_suspender")
    (hcmd : runCommand (noteMsg s m) m = (s1, .raised e)) (he : e.isException = true) :
    ∃ s2, processMsg s m = .loopTop s2 ∧ s2.respStack = .exc e :: s.respStack ∧ s2.planStack = g :: gs ∧
      ∀ s3 : EState, s3.respStack = s2.respStack → s3.planStack = s2.planStack →
        s3.exceptionSlot = none → s3.stashed = none →
        afterSleep s3 = afterResume (logYield { s3 with respStack := s.respStack, resp := some (.exc e) } g (.throw e)) gs
          (some e) (g.resume (.throw e)) := by
  obtain ⟨hp, hq, hr, _, hx⟩ := processMsg_pushes s m r0 s1 (.raised e) hresp hreg hnot hcmd
  refine ⟨_, hx e rfl, rfl, hp.trans hplan, ?_⟩
  intro s3 h3r h3p hslot hst
  exact afterSleep_throws s3 e s.respStack g gs h3r (h3p.trans (hp.trans hplan)) hslot hst he

/-! ## 3. the values themselves -/

/-- open_run: the response is the uid (run index) of the RunStart document emitted by this very call, and it
    is appended to the list `RE(...)` returns -/
theorem C13_open_run_uid (s : EState) (m : Msg) (s' : EState) (r : Resp) (h : cmdOpenRun s m = (s', .value r)) :
    r = .run s.nextRun ∧ s'.runStartUids = s.runStartUids ++ [s.nextRun] ∧
    ∃ rest, s'.docs = s.docs ++ ({ kind := "start", run := s.nextRun, seq := s.scanId + 1 } :: rest) ∧
      ∀ d ∈ rest, d.kind = "descriptor" := cmdOpenRun_value s m s' r h

/-- read: the response is `{obj: v}` and, inside an open bundle, the same `v` is cached for the event ... -/
theorem C13_reading_value (s : EState) (m : Msg) (s' : EState) (r : Resp) (h : cmdRead s m = (s', .value r)) :
    ∃ v, r = .reading (m.obj.getD "") v ∧
      ∀ b, getBundler s m = some b → b.bundling = true →
        ∃ b', getBundler s' m = some b' ∧ b'.readCache = b.readCache ++ [(m.obj.getD "", v)] ∧
          b'.objsRead = b.objsRead ++ [m.obj.getD ""] := cmdRead_value s m s' r h

/-- ... and `save` emits an event whose data ARE the cached readings -/
theorem C13_saved_event_is_cache (s : EState) (m : Msg) (s' : EState) (r : Resp) (b : Bundler)
    (h : cmdSave s m = (s', .value r)) (hb : getBundler s m = some b) (hne : b.objsRead.isEmpty = false) :
    ∃ pre seq, s'.docs = s.docs ++ pre ++
      [{ kind := "event", run := b.runId, stream := b.bundleName, seq := seq, data := b.readCache }] :=
  cmdSave_emits_cache s m s' r b h hb hne

/-- set / trigger: the response is the status object created by this very call -/
theorem C13_status_identity (s : EState) (m : Msg) (s' : EState) (r : Resp) :
    (cmdSet s m = (s', .value r) → r = .status s.statuses.length ∧
      ∃ rec, s'.statuses = s.statuses ++ [rec] ∧ rec.dev = m.obj.getD "" ∧ rec.op = "set") ∧
    (cmdTrigger s m = (s', .value r) → r = .status s.statuses.length ∧
      ∃ rec, s'.statuses = s.statuses ++ [rec] ∧ rec.dev = m.obj.getD "" ∧ rec.op = "trigger") :=
  ⟨cmdSet_value s m s' r, cmdTrigger_value s m s' r⟩

/-! ## 4. commands that really suspend -/

/-- Resuming `_run` at a suspension point inside a command pushes `pushedAnswer` into the slot of the suspended
    message (top of the response stack, plan stack untouched) and continues with the loop. -/
theorem C13_resumed_command_pushes (fuel : Nat) (cancel : Bool) (s : EState) (r0 a : Resp)
    (hpc : inCmd s.pc = true) (hresp : s.resp = some r0) (ha : pushedAnswer cancel s = some a) :
    ∃ f : Flow, advanceAt fuel cancel s = contFlow fuel f ∧ f.st.respStack = a :: s.respStack ∧
      f.st.planStack = s.planStack ∧ f.st.resp = none :=
  advanceAt_pushes fuel cancel s r0 a hpc hresp ha

/-- THE FULL STATEMENT (for the suspending commands): whatever is pushed into the slot of the message at which
    `_run` is suspended is that command's own answer (`None` for sleep / checkpoint, `True` for wait, the list
    for wait_for, or the exception the command raised).  FALSE on the unchanged tree: finding F6. -/
def C13_full : Prop :=
  ∀ (cancel : Bool) (s : EState) (a : Resp),
    inCmd s.pc = true → s.resp.isSome = true → pushedAnswer cancel s = some a → ownAnswer s = some a

/-- PARTIAL: it holds when no cancellation is delivered at a command suspension point. -/
theorem C13_own_answer_partial (s : EState) (a : Resp) (h : pushedAnswer false s = some a) : ownAnswer s = some a := by
  simpa [pushedAnswer] using h

/-- ... and for `sleep` and the deferred-pause sleep of `checkpoint` even a cancellation does no harm as far as
    the VALUE is concerned (their own answer is `None` too) -/
theorem C13_sleep_answer_partial (cancel : Bool) (s : EState) (a : Resp) (hpc : s.pc = .inSleep)
    (h : pushedAnswer cancel s = some a) : ownAnswer s = some a := by
  cases cancel with
  | false => exact C13_own_answer_partial s a h
  | true =>
    simp only [pushedAnswer, ↓reduceIte, Option.some.injEq] at h
    subst h
    simp [ownAnswer, hpc]

/-! ## 5. `RE(...)` returns the uids of the runs it opened, in order -/

/-- For EVERY plan, script and fuel: when the call hands control back, the list it returns (`_run_start_uids`,
    emptied by `__call__`) is exactly the list of runs of the RunStart documents emitted since the call began
    (`startsOf s0.docs` are the start documents of earlier calls), in emission order. -/
theorem C13_return_uids (maxArr : Nat) (sc : Script) (fuel : Nat) (s0 : EState) (plan : Gen) :
    startsOf (schedule maxArr sc fuel (startCall s0 plan)).docs =
      startsOf s0.docs ++ (schedule maxArr sc fuel (startCall s0 plan)).runStartUids := by
  have h0 : UidsInv (startsOf s0.docs) (startCall s0 plan) := by
    show startsOf s0.docs = startsOf s0.docs ++ []
    simp
  exact (ext_schedule maxArr sc fuel _).uidsInv h0

/-- ... and `resume()` / `abort()` / `stop()` / `halt()` (which return the same list) keep it so -/
theorem C13_return_uids_resume (maxArr : Nat) (sc : Script) (fuel : Nat) (pre : List Nat) (s : EState) (kind : String)
    (h : UidsInv pre s) :
    UidsInv pre (schedule maxArr sc fuel (startResume s)) ∧ UidsInv pre (schedule maxArr sc fuel (startTerminate s kind)) :=
  ⟨((ext_startResume s).trans (ext_schedule maxArr sc fuel _)).uidsInv h,
   ((ext_startTerminate s kind).trans (ext_schedule maxArr sc fuel _)).uidsInv h⟩

/-! ## non-vacuity: concrete executions of the model (kernel evaluation) -/

section examples

def plan1 : Gen := Gen.list [
  { cmd := "open_run", mid := some 0 }, { cmd := "checkpoint", mid := some 1 },
  { cmd := "set", obj := some "m1", iargs := [3], name := some "g", mid := some 2 },
  { cmd := "wait", name := some "g", mid := some 3 },
  { cmd := "create", name := some "primary", mid := some 4 }, { cmd := "read", obj := some "d1", mid := some 5 },
  { cmd := "save", mid := some 6 }, { cmd := "close_run", mid := some 7 }]

def devs1 : EState :=
  { devSpecs := [{ name := "m1", kind := "motor", modes := [("set", ["pending"])] }, { name := "d1", kind := "det", offset := 1 }] }

/-- an uninterrupted call: the invariant's hypotheses are satisfiable, the call ends idle with equal stacks -/
example : (schedule 300 [] 1000 (startCall devs1 plan1)).state = .idle ∧
    (schedule 300 [] 1000 (startCall devs1 plan1)).runStartUids = [0] ∧
    (schedule 300 [] 1000 (startCall devs1 plan1)).respStack.length = (schedule 300 [] 1000 (startCall devs1 plan1)).planStack.length := by
  decide

/-- a paused call: invariant at `pausedWait` -/
example : (schedule 300 [(2, [Action.pause false])] 1000 (startCall devs1 plan1)).state = .paused ∧
    (schedule 300 [(2, [Action.pause false])] 1000 (startCall devs1 plan1)).resp = none := by
  decide

/-- the hypotheses of `C13_resumed_command_pushes` / `C13_own_answer_partial` are satisfiable -/
example : inCmd (PC.inWait "g") = true ∧
    pushedAnswer false ({ pc := .inWait "g", resp := some .none } : EState) = some (.bool true) := by decide

end examples

end BlueskyVerif.C13
