/-
C31 -- Installed suspenders gate plan start and removal releases waiters.

Model: Suspender/Gate.lean -- the suspender OBJECT (`install`, `remove`, `__call__`, `get_futures`, `__make_event`,
`__set_event` of SuspenderBase; the suspend/resume predicates are the ones GENERATED from suspenders.py for C30) and
the gate of `RunEngine.__call__` (`startCallGated`) on the shared engine model.  Helper lemmas: Lemmas/C31Gate.lean
and the wait lemmas of C11 (Lemmas/C11Wait.lean).  The real objects and the real RunEngine are run against this model
on generated histories by harness/props/C31.py.
-/
import BlueskyVerif.Lemmas.C31Gate
import BlueskyVerif.Suspender.GateGenerated

namespace BlueskyVerif.C31
open BlueskyVerif.Gate BlueskyVerif.Suspender BlueskyVerif.Engine

/-- the functions the model transcribes still have, in the CURRENT source, the statements it transcribes
    (regenerated on every run by harness/props/C31.py): `remove` = clear_sub; under the lock: set the event if RE is set,
    RE = None, _tripped = False.  `install` = RE = RE; subscribe(run=True).  `get_futures` = [] unless tripped, else the
    (made) event.  `__call__` returns at once when RE is None, tests suspend before resume, requests a suspension only
    while the engine is running; `__set_event` forgets the event.  `RE.__call__` collects the futures of its suspenders
    and pushes the `wait_for` on top of the plan; `RE.remove_suspender` calls `remove()` only for members. -/
theorem C31_source_shape :
    SrcGate.remove = true ∧ SrcGate.install = true ∧ SrcGate.getFutures = true ∧ SrcGate.callGuard = true ∧
    SrcGate.callSuspendFirst = true ∧ SrcGate.callRequestsOnlyWhenRunning = true ∧ SrcGate.setEventForgets = true ∧
    SrcGate.gateCollects = true ∧ SrcGate.gatePushedOnTopOfPlan = true ∧ SrcGate.reRemove = true ∧
    SrcGate.reInstall = true := by
  decide

/-- After ANY history of install / remove / signal changes / stale callbacks / get_futures on a fresh suspender (any
    class, any parameters): an event is held exactly while the flag is up; a suspender that is not installed is not
    tripped; the held event is one that was never set; every released or requested event exists. -/
theorem C31_history_invariant (h : List Op) (c : Cls) (p : Params) : Inv (run h (fresh c p)) :=
  inv_run h _ (inv_fresh c p)

/-- while installed, the flag follows the documented flag machine of C30 at every callback -/
theorem C31_flag_follows_C30 (r : Bool) (x : OW) (v : Int) (h : x.1.installed = true) :
    (call r x v).1.tripped = Suspender.step x.1.cls x.1.p x.1.tripped v :=
  call_tripped r x v h

/-- A suspender that is tripped when the plan starts contributes exactly the event it holds -- one that has not
    been set -- to the futures `RE.__call__` waits for; an untripped (or removed) one contributes nothing; and
    `get_futures` changes nothing.  (For every history.) -/
theorem C31_pretripped_future (h : List Op) (c : Cls) (p : Params) :
    let x := run h (fresh c p)
    (getFutures x).2 = x ∧
    (x.1.tripped = true → ∃ e, (getFutures x).1 = [e] ∧ x.1.ev = some e ∧ e ∉ x.2.released ∧ x.1.installed = true) ∧
    (x.1.tripped = false → (getFutures x).1 = []) := by
  intro x
  have hi : Inv x := C31_history_invariant h c p
  obtain ⟨h1, h2⟩ := getFutures_inv x hi
  refine ⟨h1, fun ht => ?_, fun ht => by rw [h2, ht]; rfl⟩
  have hev : x.1.ev.isSome = true := by rw [hi.evTripped, ht]
  obtain ⟨e, he⟩ := Option.isSome_iff_exists.mp hev
  refine ⟨e, by rw [h2, ht, he]; rfl, he, (hi.evFresh e he).2, ?_⟩
  cases hinst : x.1.installed with
  | true => rfl
  | false => have := hi.offClean hinst; rw [ht] at this; cases this

/-- PRE-TRIPPED START DELAYS THE PLAN.  For every idle engine state, every plan (ANY generator) and every non-empty
    list of futures of tripped suspenders (`F` = "all of them", not yet released): the first and only message executed
    is the `wait_for`; then `_run` is blocked, and through ANY number of event-loop turns with ANY environment actions
    that neither release `F` nor cancel the task it stays blocked, executes nothing, and the user's plan is still the
    untouched generator at the bottom of the stack; the caller's `RE(...)` has not returned. -/
theorem C31_pretripped_delays (n fuel : Nat) (s0 : EState) (plan : Gen) (futs : List Nat) (F : Nat)
    (hne : futs.isEmpty = false) (hidle : s0.state = .idle) (hF : s0.futs.contains F = false)
    (rounds : List (List Action))
    (hrel : ∀ as ∈ rounds, ∀ a ∈ as, a.releases F = false)
    (hq : Quiet fuel (advance (n + 1) (advance (n + 1) (startCallGated s0 plan futs F))) rounds) :
    let s2 := advance (n + 1) (advance (n + 1) (startCallGated s0 plan futs F))
    let s3 := rounds.foldl (envRound fuel) s2
    s2.planStack = [Gen.list [], plan] ∧ s2.blockingEvent = false ∧
    s3.pc = .inWaitFor F ∧ s3.msgs = s0.msgs ++ [mWaitFor F] := by
  intro s2 s3
  obtain ⟨hb, hm, hp, _⟩ := gated_start_blocks n s0 plan futs F hne hidle hF
  obtain ⟨r1, r2, _⟩ := rounds_blocked fuel F rounds s2 hb.pc hb.unreleased hrel hq
  exact ⟨hp, hb.callerBlocked, r1, r2.trans hm⟩

/-- ... and with no tripped suspender the call starts the plan directly -/
theorem C31_untripped_starts_at_once (s0 : EState) (plan : Gen) (F : Nat) :
    startCallGated s0 plan [] F = startCall s0 plan := rfl

/-- the composition releases the engine future exactly when every awaited event is set -/
theorem C31_gate_opens_when_all_set (released futs : List Nat) :
    allSet released futs = true ↔ ∀ e ∈ futs, e ∈ released := by
  unfold allSet
  simp [List.all_eq_true]

/-- REMOVAL RELEASES.  After any history: `remove()` sets the event the suspender holds (so every `wait_for` on it
    -- the gate of a pre-tripped start or the helper of a suspension -- completes), clears the flag, forgets the
    engine and drops the subscription; nothing that was released before is lost. -/
theorem C31_remove_releases (h : List Op) (c : Cls) (p : Params) :
    let x := run h (fresh c p)
    let y := remove x
    y.1.installed = false ∧ y.1.tripped = false ∧ y.1.ev = none ∧ y.1.subscribed = 0 ∧
    (∀ e, x.1.ev = some e → e ∈ y.2.released) ∧ (∃ more, y.2.released = x.2.released ++ more) ∧
    y.2.requests = x.2.requests := by
  intro x y
  have hi : Inv x := C31_history_invariant h c p
  show (remove x).1.installed = false ∧ (remove x).1.tripped = false ∧ (remove x).1.ev = none ∧ (remove x).1.subscribed = 0 ∧
    (∀ e, x.1.ev = some e → e ∈ (remove x).2.released) ∧ (∃ more, (remove x).2.released = x.2.released ++ more) ∧
    (remove x).2.requests = x.2.requests
  generalize x = z at hi
  obtain ⟨⟨c', p', inst, sub, trip, ev⟩, ⟨nx, rel, req⟩⟩ := z
  cases inst with
  | false =>
    have ht : trip = false := hi.offClean rfl
    have hev : ev = none := by
      have := hi.evTripped
      simp only [ht] at this
      cases ev <;> simp_all
    subst hev
    simp [remove]
  | true =>
    cases ev with
    | none => simp [remove, setEvent]
    | some e0 => simp [remove, setEvent]

/-- REMOVING AGAIN IS HARMLESS: for every state whatsoever -/
theorem C31_remove_idempotent (x : OW) : remove (remove x) = remove x := by
  obtain ⟨⟨c, p, inst, sub, trip, ev⟩, ⟨nx, rel, req⟩⟩ := x
  cases inst <;> cases ev <;> simp [remove, setEvent]

/-- A REMOVED SUSPENDER IGNORES THE SIGNAL: neither a signal change (it is no longer subscribed) nor a stale
    callback changes anything -- no flag, no event, no request to the engine -- for every later sequence of them -/
theorem C31_removed_ignores_signal (x : OW) (later : List Op)
    (hl : ∀ o ∈ later, (∃ v r, o = .put v r) ∨ (∃ v r, o = .callback v r) ∨ o = .getFutures) :
    run later (remove x) = remove x := by
  obtain ⟨hoff, hsub, htrip⟩ := remove_off x
  generalize remove x = y at hoff hsub htrip
  induction later with
  | nil => rfl
  | cons o later ih =>
    have hstep : step y o = y := by
      rcases hl o (List.mem_cons_self ..) with ⟨v, r, rfl⟩ | ⟨v, r, rfl⟩ | rfl
      · exact deliver_off r y v hsub
      · exact call_off r y v hoff
      · show (getFutures y).2 = y
        unfold getFutures; simp [htrip]
    show run later (step y o) = y
    rw [hstep]
    exact ih (fun o' ho' => hl o' (List.mem_cons_of_mem _ ho'))

/-! Non-vacuity: a SuspendFloor(2, resume 5) is installed on a low signal, a plan would be gated on event 0;
    the signal recovers -> the event is released; it trips again while running -> a request for event 1;
    it is removed -> event 1 released, later values are ignored. -/
def demoP : Params := { suspendThresh := 2, resumeThresh := 5 }
example : run [.install 1 false] (fresh .suspendFloor demoP) =
    ({ cls := .suspendFloor, p := demoP, installed := true, subscribed := 1, tripped := true, ev := some 0 },
     { nextEv := 1, released := [], requests := [] }) := by decide
example : (run [.install 1 false, .put 6 false, .put 0 true, .remove, .put 0 true, .callback 0 true]
    (fresh .suspendFloor demoP)) =
    ({ cls := .suspendFloor, p := demoP, installed := false, subscribed := 0, tripped := false, ev := none },
     { nextEv := 2, released := [0, 1], requests := [1] }) := by decide

end BlueskyVerif.C31
