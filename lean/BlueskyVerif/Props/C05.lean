/-
C05 -- seq_num and num_events account for every event exactly.

Model: Bundler/Model.lean.  A history is an arbitrary list of bundler operations after `open_run`
(including `rewind`, `resetCheckpoint`, `clearCheckpoint`, monitor updates, interruption records and
collects at arbitrary points).  ENGINE-ADMISSIBLE histories (`Adm`): every `rewind` is issued in a
state where the checkpoint copy has not been cleared and no stream's counter would be lost
(`rewindAdmissible`, Bundler/Guards.lean) -- this is how the RunEngine issues it (never after
`clear_checkpoint`; always after `record_interruption`); the correspondence run checks that every
history the real engine produces is admissible.

The ghost log `BState.log` records what happened to the two counter dictionaries.  `C05_SeqInv` is the
invariant: the log is a valid run of the abstract counter machine (Lemmas/C05Ctr.lean) from empty
counters to the state's counters -- so `seq = 1 + numbers handed out, minus what a rewind rolled back`,
made precise by the theorems below -- and the event documents emitted are, in order, the log's
`emit` entries.  `evItem d = (stream, seq_num, seq_num + 1, is-bundle-event)` for an event document.
-/
import BlueskyVerif.Lemmas.C05
import BlueskyVerif.Lemmas.C45

namespace BlueskyVerif.C05
open BlueskyVerif.Bundler BlueskyVerif.Bundler.Generated
open KeepsCtrRef (ctrOf)
open KeepsEvLog (evItem emitItem)

def reach (w : World) (cfg : BCfg) (env : List (Obj × Config)) (ops : List Op) : BState :=
  runState w (openRun cfg 0 env) ops

/-- engine-admissible history -/
def Adm (w : World) (cfg : BCfg) (env : List (Obj × Config)) (ops : List Op) : Prop :=
  admissibleFrom w (openRun cfg 0 env) ops = true

/-- **SeqInv.**  After ANY admissible history the ghost log is a valid run of the counter machine from
    empty dictionaries to the bundler's `_sequence_counters` / `_sequence_counters_copy`, nothing
    pending, and the event documents emitted are exactly (in order) the logged `emit`s. -/
theorem C05_SeqInv (w : World) (cfg : BCfg) (env : List (Obj × Config)) (ops : List Op) (h : Adm w cfg env ops) :
    runP ({}, none) (reach w cfg env ops).log = some (ctrOf (reach w cfg env ops), none) ∧
    (reach w cfg env ops).out.filterMap evItem = (reach w cfg env ops).log.filterMap emitItem :=
  let r := refInv_run w _ ops (openRun_refInv cfg 0 env) h
  ⟨r.run, r.evs⟩

theorem emitItem_item (e : CEv) (x : Name × Nat × Nat × Bool) (h : emitItem e = some x) : e.item = some x := by
  cases e <;> simp [emitItem] at h
  simp [CEv.item, h]

/-- the two-event decomposition of the output carried over to the log -/
theorem two_events_in_log (w : World) (cfg : BCfg) (env : List (Obj × Config)) (ops : List Op) (h : Adm w cfg env ops)
    (A B C : List (Name × Nat × Nat × Bool)) (x y : Name × Nat × Nat × Bool)
    (hev : (reach w cfg env ops).out.filterMap evItem = A ++ x :: (B ++ y :: C)) :
    ∃ L1 ex L2 ey L3 σ, (reach w cfg env ops).log = L1 ++ ex :: (L2 ++ ey :: L3) ∧ ex.item = some x ∧
      ey.item = some y ∧ runP ({}, none) (L1 ++ ex :: (L2 ++ [ey])) = some σ := by
  obtain ⟨hrun, hevs⟩ := C05_SeqInv w cfg env ops h
  rw [hevs] at hev
  obtain ⟨L1, ex, R, h1, hx, _, hR⟩ := filterMap_split emitItem _ A (B ++ y :: C) x hev
  obtain ⟨L2, ey, L3, h2, hy, _, _⟩ := filterMap_split emitItem R B C y hR
  have hlog : (reach w cfg env ops).log = (L1 ++ ex :: (L2 ++ [ey])) ++ L3 := by
    rw [h1, h2]; simp
  rw [hlog] at hrun
  obtain ⟨σ, hσ, _⟩ := runP_split _ _ _ _ hrun
  exact ⟨L1, ex, L2, ey, L3, σ, by rw [h1, h2], emitItem_item _ _ hx, emitItem_item _ _ hy, hσ⟩

/-- **Never-replayed events get fresh seq_nums that are never handed out again.**  In the sequence of
    event documents of ANY admissible history: after a monitor update / interruption record (an event
    that is not a bundle event) numbered `k` in stream `n`, every later event of stream `n` -- whatever
    happened in between, rewinds included -- has a seq_num greater than `k`.  (The proof uses that the
    monitor closure and `record_interruption` commit their counter: Generated.monitorCommits /
    interruptionCommits.) -/
theorem C05_fresh_for_unreplayed (w : World) (cfg : BCfg) (env : List (Obj × Config)) (ops : List Op)
    (h : Adm w cfg env ops) (A B C : List (Name × Nat × Nat × Bool)) (n : Name) (k k' hi' : Nat) (r' : Bool)
    (hev : (reach w cfg env ops).out.filterMap evItem = A ++ (n, k, k + 1, false) :: (B ++ (n, k', hi', r') :: C)) :
    k < k' := by
  obtain ⟨L1, ex, L2, ey, L3, σ, _, hx, hy, hσ⟩ := two_events_in_log w cfg env ops h A B C _ _ hev
  have := log_fresh ({}, none) σ L1 L2 ex ey Ctr.wf_empty hσ n k (k + 1) k' hi' r' hx (Nat.lt_succ_self k) hy
  omega

/-- **A seq_num is repeated only for a bundle event re-taken after a rewind.**  If a later event of a
    stream carries a seq_num not greater than an earlier one, then the earlier one is a bundle event
    and the log shows a `rewind` between the two emissions. -/
theorem C05_repeat_only_after_rewind (w : World) (cfg : BCfg) (env : List (Obj × Config)) (ops : List Op)
    (h : Adm w cfg env ops) (A B C : List (Name × Nat × Nat × Bool)) (n : Name) (k k' hi' : Nat) (r r' : Bool)
    (hev : (reach w cfg env ops).out.filterMap evItem = A ++ (n, k, k + 1, r) :: (B ++ (n, k', hi', r') :: C))
    (hrep : k' ≤ k) :
    r = true ∧ ∃ L1 ex L2 ey L3, (reach w cfg env ops).log = L1 ++ ex :: (L2 ++ ey :: L3) ∧
      ex.item = some (n, k, k + 1, r) ∧ ey.item = some (n, k', hi', r') ∧ ∃ ev ∈ L2, ev.isRewind = true := by
  constructor
  · cases r with
    | true => rfl
    | false => have := C05_fresh_for_unreplayed w cfg env ops h A B C n k k' hi' r' hev; omega
  · obtain ⟨L1, ex, L2, ey, L3, σ, hlog, hx, hy, hσ⟩ := two_events_in_log w cfg env ops h A B C _ _ hev
    exact ⟨L1, ex, L2, ey, L3, hlog, hx, hy,
      log_repeat ({}, none) σ L1 L2 ex ey Ctr.wf_empty hσ n k (k + 1) k' hi' r r' hx hy (by omega)⟩

/-- ... in particular: a history without `rewind` never repeats a seq_num within a stream -/
theorem C05_no_rewind_strictly_increasing (w : World) (cfg : BCfg) (env : List (Obj × Config)) (ops : List Op)
    (hno : ¬ Op.rewind ∈ ops) (A B C : List (Name × Nat × Nat × Bool)) (n : Name) (k k' hi' : Nat) (r r' : Bool)
    (hev : (reach w cfg env ops).out.filterMap evItem = A ++ (n, k, k + 1, r) :: (B ++ (n, k', hi', r') :: C)) :
    k < k' := by
  have hadm : Adm w cfg env ops := adm_of_no_rewind w _ ops hno
  apply Classical.byContradiction
  intro hlt
  obtain ⟨_, L1, ex, L2, ey, L3, hlog, _, _, ev, hev2, hrw⟩ :=
    C05_repeat_only_after_rewind w cfg env ops hadm A B C n k k' hi' r r' hev (by omega)
  obtain ⟨_, nl, _, hg, hnr⟩ := log_grows w (openRun cfg 0 env) ops
  have hmem : ev ∈ (reach w cfg env ops).log := by rw [hlog]; simp [hev2]
  have hol : ∀ e ∈ (openRun cfg 0 env).log, e.isRewind = false := by
    intro e he
    unfold openRun at he
    simp only [openRunResets, if_true, resetCp] at he
    split at he <;> simp at he <;> rcases he with rfl | rfl <;> rfl
  unfold reach at hmem
  rw [hg] at hmem
  rcases List.mem_append.1 hmem with hm | hm
  · rw [hol ev hm] at hrw; cases hrw
  · rw [hnr hno ev hm] at hrw; cases hrw

/-- **No gaps, first occurrences in order.**  Every event's seq_num is at least 1 and at most one more
    than the highest number handed out before it in its stream (`topBy qAll` over the log prefix:
    events and collected ranges), so the first occurrences of seq_nums in a stream are 1, 2, 3, ... -/
theorem C05_contiguous (w : World) (cfg : BCfg) (env : List (Obj × Config)) (ops : List Op) (h : Adm w cfg env ops)
    (A B : List (Name × Nat × Nat × Bool)) (n : Name) (k hi : Nat) (r : Bool)
    (hev : (reach w cfg env ops).out.filterMap evItem = A ++ (n, k, hi, r) :: B) :
    ∃ L1 e L2, (reach w cfg env ops).log = L1 ++ e :: L2 ∧ L1.filterMap emitItem = A ∧
      1 ≤ k ∧ k ≤ topBy qAll L1 n := by
  obtain ⟨hrun, hevs⟩ := C05_SeqInv w cfg env ops h
  rw [hevs] at hev
  obtain ⟨L1, e, L2, h1, hx, hA, _⟩ := filterMap_split emitItem _ A B _ hev
  refine ⟨L1, e, L2, h1, hA, ?_⟩
  rw [h1] at hrun
  obtain ⟨σ1, hσ1, hrest⟩ := runP_split _ _ _ _ hrun
  obtain ⟨σ2, hσ2, _⟩ := runP_cons _ _ _ _ hrest
  have w1 := runP_wf _ _ _ hσ1 Ctr.wf_empty
  obtain ⟨hlo, _, _, _⟩ := stepP_item _ _ _ hσ2 n k hi r (emitItem_item _ _ hx)
  have hb := runP_cur_le_top ({}, none) σ1 L1 hσ1 Ctr.wf_empty n
  have h1' : Ctr.cur ({} : Ctr) n = 1 := rfl
  have hp := topBy_pos qAll L1 n
  have hc := cur_pos σ1.1 w1 n
  simp only [h1'] at hb
  rw [hlo] at hb hc
  exact ⟨hc, by omega⟩

/-- the log has settled for stream `n`: no rewind at all, or after the last rewind the numbering has
    again reached at least the highest bundle-event number handed out before it (every data point
    rolled back has been re-taken) -/
def Settled (l : List CEv) (n : Name) : Prop :=
  (∀ ev ∈ l, ev.isRewind = false) ∨
  ∃ L1 d L2, l = L1 ++ .rewind d :: L2 ∧ (∀ ev ∈ L2, ev.isRewind = false) ∧ topBy qRep L1 n ≤ topBy qAll L2 n

/-- **num_events.**  After ANY admissible history, closing the run emits a stop document whose
    `num_events` is `counter - 1` for every stream; that counter never exceeds `1 +` the highest number
    handed out (`topBy qAll`), is never below a never-replayed number (`topBy qUnrep`), and equals
    `1 +` the highest number handed out as soon as the log has settled: then the seq_nums emitted in
    the stream are exactly `1 .. num_events` (with `C05_contiguous`). -/
theorem C05_num_events (w : World) (cfg : BCfg) (env : List (Obj × Config)) (ops : List Op) (h : Adm w cfg env ops)
    (e r : Option String) (hok : (step w (reach w cfg env ops) (.closeRun e r)).err = none) :
    (∃ stop, docsSince (reach w cfg env ops) (step w (reach w cfg env ops) (.closeRun e r)).st = [stop] ∧
      stop.kind = .stop ∧ stop.numEvents = (reach w cfg env ops).seq.map fun kv => (kv.1, kv.2 - 1)) ∧
    ∀ n v, aget (reach w cfg env ops).seq n = some v →
      v ≤ topBy qAll (reach w cfg env ops).log n ∧ topBy qUnrep (reach w cfg env ops).log n ≤ v ∧
      (Settled (reach w cfg env ops).log n → v = topBy qAll (reach w cfg env ops).log n) := by
  generalize hs : reach w cfg env ops = s at *
  obtain ⟨hrun, _⟩ := C05_SeqInv w cfg env ops h
  rw [hs] at hrun
  constructor
  · -- the stop document
    have hopen : s.runOpen = true := by
      cases ho : s.runOpen with
      | true => rfl
      | false => simp [step, closeRun, ho] at hok
    simp only [step, closeRun, hopen, Bool.not_true, Bool.false_eq_true, if_false] at hok ⊢
    have hd : (dropMonitors s).err = none := rfl
    rw [Res.andThen_err_ok _ _ hd] at hok
    rw [Res.andThen_st_ok _ _ hd]
    unfold closeRunTail at hok ⊢
    have hst : (dropMonitors s).st.stopped = false := by
      cases hh : (dropMonitors s).st.stopped with
      | false => rfl
      | true => simp [hh] at hok
    simp only [hst, Bool.false_eq_true, if_false, Res.ok_st, closeRunResets, if_true]
    refine ⟨?stop, docsSince_of_append s _ [?stop] ?h1, ?h2, ?h3⟩
    case h1 => simp only [resetCp, dropMonitors]; rfl
    case h2 => rfl
    case h3 => simp [dropMonitors, stopOffset]
  · intro n v hv
    have hcur : (ctrOf s).cur n = v := by simp [Ctr.cur, ctrOf, hv]
    have hb := runP_cur_le_top ({}, none) _ s.log hrun Ctr.wf_empty n
    have h1' : Ctr.cur ({} : Ctr) n = 1 := rfl
    have hp := topBy_pos qAll s.log n
    simp only [h1', hcur] at hb
    have hu := (runP_unrep_le_floor ({}, none) _ s.log hrun Ctr.wf_empty n 1
      (fun _ => by simp [Ctr.floor, Ctr.cur]) (by simp [Ctr.cur])).2
    simp only [hcur] at hu
    refine ⟨by omega, by omega, fun hset => ?_⟩
    apply Nat.le_antisymm (by omega)
    rcases hset with hno | ⟨L1, d, L2, hl, hno2, hle⟩
    · have := runP_top_le_cur ({}, none) _ s.log hrun Ctr.wf_empty hno n
      simp only [hcur] at this
      omega
    · rw [hl] at hrun ⊢
      obtain ⟨σ1, hσ1, hrest⟩ := runP_split _ _ _ _ hrun
      obtain ⟨σ2, hσ2, hσ3⟩ := runP_cons _ _ _ _ hrest
      have w1 := runP_wf _ _ _ hσ1 Ctr.wf_empty
      have w2 := stepP_wf _ _ _ hσ2 w1
      -- after the rewind the counter is the floor, which bounds the never-replayed numbers before it
      have hpend : σ1.2 = none := by
        rcases stepP_shape _ _ _ hσ2 with ⟨_, _, h0, _⟩ | ⟨_, h0, _⟩ | ⟨_, h0, _⟩ | ⟨_, h0, _⟩ | ⟨_, _, _, h0, _⟩ |
          ⟨_, _, _, h0, _⟩ | ⟨h0, _⟩ | ⟨_, _, hp, _⟩ | ⟨h0, _⟩ <;> first | exact hp | cases h0
      have hun := (runP_unrep_le_floor ({}, none) σ1 L1 hσ1 Ctr.wf_empty n 1
        (fun _ => by simp [Ctr.floor, Ctr.cur]) (by simp [Ctr.cur])).1 (by rw [hpend]; simp)
      have hrc := (stepP_rewind_cur σ1 σ2 d hσ2 w1 n).1
      have hfin := runP_top_le_cur σ2 _ L2 hσ3 w2 hno2 n
      simp only [hcur] at hfin
      have hsplit := topBy_all_split L1 n
      rw [topBy_append, show topBy qAll (CEv.rewind d :: L2) n = topBy qAll L2 n from by simp [topBy, CEv.item]]
      omega

/-- **Stream-datum seq_num ranges are contiguous with the event numbering.**  After ANY admissible
    history, a `collect` that does not raise goes to one stream `n` whose counter (the seq_num the next
    event would get) is `c`; every stream datum it emits carries `seq_nums = [c, c + width of its
    indices)` with width `0` or the collect's width `d`; the counter becomes `c + d`, and (log) the
    advance is committed at once when `d ≠ 0`, so that no later event or datum of the stream reuses
    these numbers (`C05_fresh_for_unreplayed` / `log_fresh`). -/
theorem C05_stream_datum_contiguous (w : World) (cfg : BCfg) (env : List (Obj × Config)) (pre : List Op)
    (h : Adm w cfg env pre) (objs : List Obj) (nm : Option Name) (mis : List Mis)
    (hok : (collect w (reach w cfg env pre) objs nm mis).err = none) :
    ∃ (n : Name) (c d : Nat), aget (reach w cfg env pre).seq n = some c ∧
      aget (collect w (reach w cfg env pre) objs nm mis).st.seq n = some (c + d) ∧
      (collect w (reach w cfg env pre) objs nm mis).st.log =
        (reach w cfg env pre).log ++ (CEv.bump n c d :: if d = 0 then [] else [CEv.commit n]) ∧
      ∀ doc ∈ docsSince (reach w cfg env pre) (collect w (reach w cfg env pre) objs nm mis).st,
        doc.kind = .streamDatum → doc.stream = some n ∧
          ∃ a b, doc.idxRange = some (a, b) ∧ doc.seqRange = some (c, c + (b - a)) ∧ (b - a = 0 ∨ b - a = d) := by
  have hinv := refInv_run w _ pre (openRun_refInv cfg 0 env) h
  generalize hs : reach w cfg env pre = s at *
  have hs' : runState w (openRun cfg 0 env) pre = s := hs
  rw [hs'] at hinv
  obtain ⟨n, c, d, dsc, assets, hc, _, hc', hlog, docs, hout, hdok, _, _⟩ :=
    collect_ok w s objs nm mis hinv.sub.nds hok
  refine ⟨n, c, d, hc, hc', hlog, fun doc hd hk => ?_⟩
  rw [docsSince_of_append _ _ _ hout] at hd
  obtain ⟨k1, _, a, b, k3, k4, k5, _⟩ := hdok doc hd hk
  exact ⟨k1, a, b, k3, k4, k5⟩

/-! ### Non-vacuity: a pause/resume-like history with a monitor and interruption records -/

def wEx : World := [{ name := "a", keys := ["a1"] }, { name := "m", keys := ["m1"] }]
def hEx : List Op :=
  [.monitor "m" "mon", .resetCheckpoint, .create (some "p"), .read "a" [("a1", 1)], .save,
   .monitorUpdate "m" [("m1", 5)], .recordInterruption "pause", .recordInterruption "resume", .rewind,
   .create (some "p"), .read "a" [("a1", 2)], .save, .monitorUpdate "m" [("m1", 6)]]

example : admissibleFrom wEx (openRun { recordInterruptions := true } 0 []) hEx = true := by decide
/-- bundle seq 1 is repeated after the rewind; monitor and interruption numbers stay fresh -/
example : (reach wEx { recordInterruptions := true } [] hEx).out.filterMap evItem =
    [("p", 1, 2, true), ("mon", 1, 2, false), ("interruptions", 1, 2, false), ("interruptions", 2, 3, false),
     ("p", 1, 2, true), ("mon", 2, 3, false)] := by decide

end BlueskyVerif.C05
