/-
C30 -- Suspenders trip and release exactly on their documented conditions.

The definitions `shouldSuspend`, `shouldResume`, `valid`, `ctorResumeThresh`, `ctorExpected`
are GENERATED from src/bluesky/suspenders.py on every run; `docSuspend/docResume` are the
documented conditions written down independently (Suspender/Model.lean).
-/
import BlueskyVerif.Suspender.Model

namespace BlueskyVerif.C30
open BlueskyVerif.Suspender

/-- The code's suspend predicate is the documented suspend condition, for every class. -/
theorem suspend_iff_doc (c : Cls) (p : Params) (v : Int) :
    shouldSuspend c p v = true ↔ docSuspend c p v := by
  cases c <;> simp [shouldSuspend, docSuspend] <;> omega

/-- The code's resume predicate is the documented resume condition (with the separate resume
    threshold for Floor/Ceil and `allow_resume` for WhenChanged). -/
theorem resume_iff_doc (c : Cls) (p : Params) (v : Int) :
    shouldResume c p v = true ↔ docResume c p v := by
  cases c <;> simp [shouldResume, docResume] <;> omega

/-- For every parameter set the constructor accepts, the two conditions are never true together. -/
theorem exclusive (c : Cls) (p : Params) (v : Int) (h : valid c p = true) :
    ¬ (shouldSuspend c p v = true ∧ shouldResume c p v = true) := by
  cases c <;> simp [shouldSuspend, shouldResume, valid] at * <;> omega

/-- a value is decisive when it makes the suspender change or confirm its decision -/
def decisive (c : Cls) (p : Params) (v : Int) : Bool := shouldSuspend c p v || shouldResume c p v

/-- the specification of the flag: look at the most recent decisive value -/
def specFrom (c : Cls) (p : Params) (t : Bool) (vs : List Int) : Bool :=
  match vs.reverse.find? (decisive c p) with
  | none => t
  | some v => shouldSuspend c p v

theorem specFrom_cons (c : Cls) (p : Params) (t : Bool) (v : Int) (vs : List Int) :
    specFrom c p t (v :: vs) = specFrom c p (step c p t v) vs := by
  unfold specFrom
  rw [List.reverse_cons, List.find?_append]
  cases h : vs.reverse.find? (decisive c p) with
  | some w => simp
  | none =>
    simp only [Option.none_or, List.find?_cons, List.find?_nil, step, decisive]
    cases hs : shouldSuspend c p v <;> cases hr : shouldResume c p v <;> simp [hs]

/-- After ANY history of values (any length), the tripped flag equals the suspend condition at
    the most recent value that was decisive; with no decisive value it keeps its initial state. -/
theorem tripped_iff_from (c : Cls) (p : Params) (t : Bool) (vs : List Int) :
    vs.foldl (step c p) t = specFrom c p t vs := by
  induction vs generalizing t with
  | nil => simp [specFrom]
  | cons v vs ih => rw [List.foldl_cons, ih, specFrom_cons]

theorem tripped_iff (c : Cls) (p : Params) (vs : List Int) :
    run c p vs = specFrom c p false vs := tripped_iff_from c p false vs

/-- ... and in terms of the documented conditions: tripped iff some value satisfied the documented
    suspend condition and no later value satisfied the documented suspend-or-resume condition
    other than by suspending. -/
theorem tripped_iff_doc (c : Cls) (p : Params) (vs : List Int) :
    run c p vs = true ↔
      ∃ v, vs.reverse.find? (decisive c p) = some v ∧ docSuspend c p v := by
  rw [tripped_iff]
  unfold specFrom
  cases h : vs.reverse.find? (decisive c p) with
  | none => simp
  | some w => simp [suspend_iff_doc]

/-- a freshly released suspender grants resumption only when the documented resume condition holds:
    the flag goes from tripped to untripped at `v` only if `docResume v`. -/
theorem release_only_on_resume (c : Cls) (p : Params) (v : Int)
    (h : step c p true v = false) : docResume c p v := by
  rw [← resume_iff_doc]
  unfold step at h
  cases hs : shouldSuspend c p v <;> cases hr : shouldResume c p v <;> simp [hs, hr] at h ⊢

/-- Every explicitly given threshold / expected value is stored as given, including falsy ones (0). -/
theorem explicit_values_honoured (a : Args) :
    (construct a).suspendThresh = a.suspend ∧
    (∀ r, a.resume = some r → (construct a).resumeThresh = r) ∧
    (∀ e, a.expected = some e → (construct a).expected = e) ∧
    (a.resume = none → (construct a).resumeThresh = a.suspend) ∧
    (a.expected = none → (construct a).expected = a.signal) := by
  refine ⟨rfl, ?_, ?_, ?_, ?_⟩
  · intro r h; simp [construct, ctorResumeThresh, h]
  · intro e h; simp [construct, ctorExpected, h]
  · intro h; simp [construct, ctorResumeThresh, h]
  · intro h; simp [construct, ctorExpected, h]

/-! Non-vacuity: the hypotheses are satisfiable and the flag really moves. -/
example : valid .suspendFloor { suspendThresh := 2, resumeThresh := 5 } = true := by decide
example : run .suspendFloor { suspendThresh := 2, resumeThresh := 5 } [3, 1, 4, 4] = true := by decide
example : run .suspendFloor { suspendThresh := 2, resumeThresh := 5 } [3, 1, 4, 5] = false := by decide
example : (construct { expected := some 0, signal := 7 }).expected = 0 := by decide

end BlueskyVerif.C30
