/-
C11 -- Suspension holds the plan until release, then runs the post-plan and rewinds.

Model: Engine/Model.lean (`cmdStartSuspender`, `cmdWaitFor`, `cmdResumeFromSuspender`, `advanceAt`, `hCancel`) and
Engine/Sim.lean (`requestSuspend`, `applyAction`).  The yield order of the helper plan, the statement order
of `_start_suspender` and the default justification are GENERATED from the current source
(Suspender/StartGenerated.lean, by harness/props/C11.py); the engine tables by harness/engine_extract.py.
Helper lemmas: Lemmas/C11{Frame,Helper,Start,Wait,Retrip,Release}.lean.

PARTIAL: the full statement for overlapping suspensions, `C11_overlapping_full`, is FALSE on the unchanged
tree (finding F5; refuted in the model in Counterexamples/C11.lean).  Proved here: everything about a single
suspension, and re-trips on the same future (`C11_overlapping_partial`).
-/
import BlueskyVerif.Lemmas.C11Release

namespace BlueskyVerif.C11
open BlueskyVerif.Engine BlueskyVerif.Suspender

/-! ### the tie to the source -/

/-- what `_start_suspender` / `request_suspend` look like in the CURRENT source (regenerated on every run):
    record the interruption, stop the movables, pause hooks, rewind, remember `rewindable`, push helper + None;
    the helper's yields; "suspended" as default justification; the request goes to `aborting` (not resumable)
    or `suspending` and cancels the task in both branches -/
theorem C11_source_shape :
    SrcStart.steps = ["record_interruption", "stop_movables", "pause_hooks:noreplay-resets", "rewind", "was",
                      "push_helper", "push_none"] ∧
    SrcStart.helperShape = ["rewindable:false", "pre", "wait_for", "_resume_from_suspender", "post",
                            "rewindable:was", "rewind"] ∧
    SrcStart.defaultJustification = "suspended" ∧
    SrcStart.requestStates = ["aborting", "suspending"] ∧ SrcStart.requestCancels = 2 := by
  decide

/-! ### (d) the order of the helper plan -/

/-- For every engine state, every request with list-like pre/post plans (or none) and every cache content:
    `_start_suspender` pushes, on top of the untouched plan stack and with response `None`, a generator that
    yields EXACTLY  rewindable(False), pre-plan, wait_for [fut], _resume_from_suspender, post-plan,
    rewindable(<old value>), the cached messages -- in the order read off the source -- and then returns,
    whatever it is sent. -/
theorem C11_helper_order (s : EState) (m : Msg) (fut : Nat) (just : Option String) (pre post : Option (List Msg))
    (h : s.suspReqs[(m.iargs.headD 0).toNat]? =
          some { fut := fut, pre := pre.map Gen.list, post := post.map Gen.list, just := just }) :
    ∃ helper was cache,
      (cmdStartSuspender s m).1.planStack = helper :: s.planStack ∧
      (cmdStartSuspender s m).1.respStack = .none :: s.respStack ∧
      (cmdStartSuspender s m).2 = .value .none ∧
      was = (cmdStartSuspender s m).1.rewindable ∧
      cache = (preRewind s (just.getD SrcStart.defaultJustification)).msgCache.getD [] ∧
      YieldsExactly helper (shapeMsgs fut was pre post cache SrcStart.helperShape) ∧
      shapeMsgs fut was pre post cache SrcStart.helperShape =
        [mRewindable false] ++ pre.getD [] ++ [mWaitFor fut, mResume] ++ post.getD [] ++ [mRewindable was] ++ cache := by
  have heq := cmdStartSuspender_eq s m _ h
  simp only [] at heq
  have hv : view (rewindPlan (preRewind s (just.getD "suspended"))).2 = { view s with cacheSome := true } := by
    rw [view_rewindPlan, view_preRewind]
  refine ⟨suspHelper { fut := fut, pre := pre.map Gen.list, post := post.map Gen.list, just := just }
      (rewindPlan (preRewind s (just.getD "suspended"))).2.rewindable (rewindPlan (preRewind s (just.getD "suspended"))).1,
    (rewindPlan (preRewind s (just.getD "suspended"))).2.rewindable, (rewindPlan (preRewind s (just.getD "suspended"))).1,
    ?_, ?_, ?_, ?_, ?_, suspHelper_yields fut just pre post _ _, ?_⟩
  · rw [heq]; show _ :: (rewindPlan _).2.planStack = _
    have := congrArg View.planStack hv; simp only [view] at this; rw [this]
  · rw [heq]; show _ :: (rewindPlan _).2.respStack = _
    have := congrArg View.respStack hv; simp only [view] at this; rw [this]
  · rw [heq]
  · rw [heq]
  · exact (rewindPlan_spec _).1
  · cases pre <;> cases post <;> simp [shapeMsgs, SrcStart.helperShape]

/-! ### (b),(f) what `_start_suspender` does at once -/

/-- For every engine state: `_start_suspender` (1) tells EVERY moved device to stop -- one `stop` per device of
    `moved`, in order, followed only by `pause` hooks; (2) writes one `interruptions` event with the
    justification (default "suspended") for every run that records interruptions, and no other document;
    (3) empties the message cache; (4) rewinds every bundler when there is something to replay;
    (5) pushes the helper and the response `None`. -/
theorem C11_stops_moved (s : EState) (m : Msg) (rq : SuspReq) (h : s.suspReqs[(m.iargs.headD 0).toNat]? = some rq) :
    let s' := (cmdStartSuspender s m).1
    let just := rq.just.getD SrcStart.defaultJustification
    (∃ more, s'.calls = s.calls ++ s.moved.map stopCall ++ more ∧ ∀ c ∈ more, c.op = "pause") ∧
    s'.docs = s.docs ++ (s.bundlers.filter (fun kb => kb.2.recordInt)).map (fun kb => intDoc just kb.2) ∧
    s'.msgCache = some [] ∧
    s'.bundlers = (if ((preRewind s just).msgCache.getD []).isEmpty then (preRewind s just).bundlers
                   else (preRewind s just).bundlers.map (fun kb => (kb.1, kb.2.rewind))) ∧
    (∃ helper, s'.planStack = helper :: s.planStack) ∧ s'.respStack = .none :: s.respStack := by
  intro s' just
  have heq := cmdStartSuspender_eq s m _ h
  simp only [] at heq
  have hs' : s' = _ := congrArg Prod.fst heq
  obtain ⟨_, r2, r3, r4, r5, _⟩ := rewindPlan_spec (preRewind s just)
  have hv : view (rewindPlan (preRewind s just)).2 = { view s with cacheSome := true } := by
    rw [view_rewindPlan, view_preRewind]
  -- the ledger and the documents up to the rewind
  let sA := forBundlers s (fun s b => recordInterruption s b just)
  have hA := devSide_forBundlers_ri s just
  have hAc : sA.calls = s.calls := congrArg (fun t => t.1) hA
  have hAm : sA.moved = s.moved := congrArg (fun t => t.2.1) hA
  have hAd : sA.docs = _ := forBundlers_ri_docs s just
  obtain ⟨hBc, hBd⟩ := stopMovables_calls sA
  obtain ⟨more, hCc, hCp, hCd⟩ := pauseHooks_ext (stopMovables sA)
  have hpre : preRewind s just = pauseHooks (stopMovables sA) := rfl
  refine ⟨⟨more, ?_, hCp⟩, ?_, ?_, ?_,
    ⟨suspHelper rq (rewindPlan (preRewind s just)).2.rewindable (rewindPlan (preRewind s just)).1, ?_⟩, ?_⟩
  · rw [hs']; show (rewindPlan (preRewind s just)).2.calls = _
    rw [r4, hpre, hCc, hBc, hAc, hAm]
  · rw [hs']; show (rewindPlan (preRewind s just)).2.docs = _
    rw [r5, hpre, hCd, hBd, hAd]
  · rw [hs']; exact r2
  · rw [hs']; exact r3
  · rw [hs']; show _ :: (rewindPlan (preRewind s just)).2.planStack = _
    have := congrArg View.planStack hv; simp only [view] at this; rw [this]; rfl
  · rw [hs']; show _ :: (rewindPlan (preRewind s just)).2.respStack = _
    have := congrArg View.respStack hv; simp only [view] at this; rw [this]

/-! ### (a),(c) the wait holds the plan -/

/-- `wait_for [f]` suspends `_run` at `.inWaitFor f` unless `f` is released; given the CPU there without a
    cancellation, `_run` does NOTHING (the whole engine state is unchanged) while `f` is unreleased, and
    completes the wait with its normal response once it is released. -/
theorem C11_wait_blocks (s : EState) (m : Msg) (fuel : Nat) :
    let f := (m.iargs.headD 0).toNat
    (s.futs.contains f = false → (cmdWaitFor s m).2 = .suspend (.inWaitFor f) ∧ (cmdWaitFor s m).1.msgs = s.msgs) ∧
    (s.futs.contains f = true → (cmdWaitFor s m).2 = .value .seq) ∧
    (∀ t : EState, t.pc = .inWaitFor f → t.futs.contains f = false → advanceAt fuel false t = t) ∧
    (∀ t : EState, t.pc = .inWaitFor f → t.futs.contains f = true → advanceAt fuel false t = runLoop fuel (fin t .seq)) := by
  intro f
  refine ⟨fun h => ?_, fun h => ?_, fun t h1 h2 => advanceAt_wait_stays fuel t f h1 h2,
    fun t h1 h2 => advanceAt_wait_released fuel t f h1 h2⟩
  · rw [cmdWaitFor_suspends s m h]; exact ⟨rfl, (noteFut_same s f).2.1⟩
  · rw [cmdWaitFor_completes s m h]

/-- SINGLE SUSPENSION.  From any state in which `_run` is blocked in `wait_for [f]` with `f` unreleased: through
    ANY number of turns of the event loop, each with ANY list of environment actions that do not release `f` and
    do not cancel the task (`Quiet`), `_run` stays blocked on `f`, `f` stays unreleased and NO message is executed
    (the message log is unchanged). -/
theorem C11_single (fuel : Nat) (f : Nat) (rounds : List (List Action)) (s : EState)
    (hpc : s.pc = .inWaitFor f) (hf : s.futs.contains f = false)
    (hrel : ∀ as ∈ rounds, ∀ a ∈ as, a.releases f = false) (hq : Quiet fuel s rounds) :
    (rounds.foldl (envRound fuel) s).pc = .inWaitFor f ∧ (rounds.foldl (envRound fuel) s).msgs = s.msgs ∧
    (rounds.foldl (envRound fuel) s).futs.contains f = false :=
  rounds_blocked fuel f rounds s hpc hf hrel hq

/-- ... in particular for every sequence of status completions, monitor updates, deferred pause requests and
    releases of OTHER futures (these never cancel the task) -/
theorem C11_single_benign (fuel : Nat) (f : Nat) (rounds : List (List Action)) (s : EState)
    (hpc : s.pc = .inWaitFor f) (hf : s.futs.contains f = false) (hc : s.cancelPending = false)
    (hrel : ∀ as ∈ rounds, ∀ a ∈ as, a.releases f = false) (hben : ∀ as ∈ rounds, ∀ a ∈ as, a.benign = true) :
    (rounds.foldl (envRound fuel) s).pc = .inWaitFor f ∧ (rounds.foldl (envRound fuel) s).msgs = s.msgs :=
  have h := rounds_blocked fuel f rounds s hpc hf hrel (benign_quiet fuel f rounds s hpc hf hc hrel hben)
  ⟨h.1, h.2.1⟩

/-- (d) after the release: the wait completes (no message in that turn), and the next message executed is the
    helper's `_resume_from_suspender` -- before anything else of the helper or the plan -/
theorem C11_release_then_resume (n : Nat) (s : EState) (f : Nat) (r0 : Resp) (rest : List Gen) (gs : List Gen)
    (hpc : s.pc = .inWaitFor f) (hf : s.futs.contains f = true) (hcp : s.cancelPending = false)
    (hst : s.state = .running) (hp : s.permit = true) (hs : s.stashed = none) (he : s.exceptionSlot = none)
    (hr : s.resp = some r0) (hP : s.planStack = .chain (.list [mResume]) rest :: gs) :
    (advance (n + 1) s).msgs = s.msgs ∧
    (advance (n + 1) (advance (n + 1) s)).msgs = s.msgs ++ [mResume] ∧
    (advance (n + 1) (advance (n + 1) s)).blockingEvent = s.blockingEvent := by
  have v1 := release_completes_wait n s f r0 hpc hf hcp hst hp hs hr
  have g1 : ∀ {α} (p : View → α), p (view (advance (n + 1) s)) = _ := fun p => congrArg p v1
  have v2 := resume_runs n (advance (n + 1) s) rest s.respStack gs (g1 View.pc) ((g1 View.cancelPending).trans hcp)
    ((g1 View.state).trans hst) ((g1 View.permit).trans hp) ((g1 View.stashed).trans hs)
    ((g1 View.exceptionSlot).trans he) (g1 View.respStack) ((g1 View.planStack).trans hP)
  have g2 : ∀ {α} (p : View → α), p (view (advance (n + 1) (advance (n + 1) s))) = _ := fun p => congrArg p v2
  refine ⟨g1 View.msgs, ?_, ?_⟩
  · have h2 : (advance (n + 1) (advance (n + 1) s)).msgs = (advance (n + 1) s).msgs ++ [mResume] := g2 View.msgs
    rw [h2, show (advance (n + 1) s).msgs = s.msgs from g1 View.msgs]
  · exact (g2 View.blockingEvent).trans (g1 View.blockingEvent)

/-! ### (e) control does not go back to the caller -/

/-- None of the steps of a suspension sets the blocking event (the caller's `RE(...)` does not return): not the
    request (any action, in fact), not `_start_suspender` (any command), not the turns in which `_run` stays
    blocked; and whenever `_run` does set it, the engine is `paused` or the task is over (`RetOK`). -/
theorem C11_no_return (s : EState) (a : Action) (m : Msg) (fuel : Nat) (f : Nat) :
    (applyAction s a).blockingEvent = s.blockingEvent ∧
    (runCommand s m).1.blockingEvent = s.blockingEvent ∧
    (s.pc = .inWaitFor f → s.futs.contains f = false → s.cancelPending = false → advance fuel s = s) ∧
    (s.blockingEvent = false → RetOK (advance fuel s)) :=
  ⟨applyAction_be s a, runCommand_be s m, fun h1 h2 h3 => advance_wait_stays fuel s f h1 h2 h3,
   fun h => advance_retok fuel s h⟩

/-! ### overlapping suspensions -/

/-- the environment only requests plain suspensions and releases futures -/
def plainScript (sc : Script) : Prop :=
  ∀ p ∈ sc, ∀ a ∈ p.2, (∃ f j, a = .suspend f none none j) ∨ (∃ f, a = .release f)

/-- FULL STATEMENT (false on the unchanged tree, finding F5): in every run in which the environment only requests
    suspensions (no pre/post plans) and releases futures, and the engine is never paused / aborted / stopped /
    halted: if the future of an executed `_start_suspender` is never released, every message executed after that
    `_start_suspender` is engine-made -- no message of the plan runs while the suspension is held, however many
    other suspensions come and go. -/
def C11_overlapping_full : Prop :=
  ∀ sc : Scenario, plainScript sc.script →
    (∀ t ∈ (simulate sc).1.trans, t.2 = .running ∨ t.2 = .suspending ∨ t.2 = .idle) →
    ∀ idx rq, (simulate sc).1.suspReqs[idx]? = some rq → (simulate sc).1.futs.contains rq.fut = false →
    ∀ l r, (simulate sc).1.msgs = l ++ startMsg idx :: r → ∀ m ∈ r, m.mid = none

/-- PARTIAL (what holds): from ANY state in which `_run` is blocked in the `wait_for [f]` of a suspension, ANY number
    of further suspension requests on the SAME future `f` (a re-tripping suspender; each followed by the four turns of
    `_run` it takes to get back to the wait) leaves `_run` blocked on `f` with `f` unreleased and the caller still
    blocked; the plans that were on the stack are still there, untouched, underneath; and every message executed
    meanwhile is engine-made.  Missing for the full statement: a second suspension on a DIFFERENT future (then the
    cancelled `wait_for [f]` counts as completed -- see Counterexamples/C11.lean); pre/post plans in the re-trip; the
    lifting from these turns to `schedule` (`C11_single` covers the quiet turns in between). -/
theorem C11_overlapping_partial (n : Nat) (f : Nat) (justs : List (Option String)) (s : EState) (hb : Blocked f s) :
    Blocked f (retrips n f justs s) ∧
    (∃ tops, (retrips n f justs s).planStack = tops ++ s.planStack) ∧
    (∃ extra, (retrips n f justs s).msgs = s.msgs ++ extra ∧ ∀ m ∈ extra, m.mid = none) :=
  retrips_blocked n f justs s hb

/-! ### non-vacuity: a concrete run with one suspension (checkpoint; suspend; release at quiescence by default) -/

def demoPlan : Gen := Gen.list [{ cmd := "checkpoint", mid := some 0 }, { cmd := "set", obj := some "m", iargs := [1], mid := some 1 },
                                { cmd := "null", mid := some 2 }]
def demoScript : Script := [(2, [.suspend 0 (some (Gen.list [{ cmd := "null", mid := some 10 }])) (some (Gen.list [{ cmd := "null", mid := some 11 }])) (some "beam")])]
def demo : Scenario := { devSpecs := [{ name := "m", kind := "motor" }], recordInterruptions := false, plan := demoPlan, script := demoScript, decisions := [] }

/-- the message trace of the demo: plan, `_start_suspender`, rewindable, pre-plan (10), wait_for,
    `_resume_from_suspender`, post-plan (11), rewindable, replay of `set` (1), then the plan goes on (2);
    the motor is stopped at the suspension (and again by the final cleanup); one call, which returns normally -/
example : (simulate demo).1.msgs.map (fun m => (m.cmd, m.mid)) =
    [("checkpoint", some 0), ("set", some 1), ("_start_suspender", none), ("rewindable", none), ("null", some 10),
     ("wait_for", none), ("_resume_from_suspender", none), ("null", some 11), ("rewindable", none), ("set", some 1),
     ("null", some 2)] ∧
    (simulate demo).1.calls.map (fun c => (c.dev, c.op)) = [("m", "set"), ("m", "stop"), ("m", "set"), ("m", "stop")] ∧
    (simulate demo).2.map (fun o => (o.op, o.result)) = [("call", "return")] := by
  decide

end BlueskyVerif.C11
