/-
C28 -- count and repeat run the plan exactly num times with the right delays.

`Repeat.run` (Pure/Repeat.lean) transcribes `bluesky.plan_stubs.repeat` statement by statement; the
comparison / arithmetic expressions (`num and num - 1 > num_delays`, `i + 1 == num`,
`d - (time.time() - now)`, `d > 0`) are regenerated from the current source (RepeatGenerated.lean).
`count` calls `repeat(partial(per_shot, detectors), num=num, delay=delay)` inside its run/stage
wrappers (checked syntactically by the extractor), so everything below is about both.

The specification side (`block`, `blocks`, `sleepOf`, `tickAt` in Lemmas/C28.lean) is written
independently of the loop: repetition `i` is `checkpoint, <inner plan's messages>, [sleep w]` where the
sleep is present iff a non-None delay `d` is available for it and `w = d - elapsed > 0`.

All theorems are for EVERY clock (any function `Nat → Rat`), EVERY inner plan (any message lists),
EVERY `num : Int` (also 0 / negative) or `None`, and EVERY delay specification (scalar, sized or
unsized finite iterable with None entries, endless iterator).
-/
import BlueskyVerif.Lemmas.C28

namespace BlueskyVerif.C28
open BlueskyVerif.Repeat

variable {M : Type}

/-- the delays suffice for `N` repetitions: the first `N - 1` calls of `next(delay)` succeed, and a
    delay object with a `len()` has at least `N - 1` entries -/
def DelaysSuffice (dl : Delay) (N : Nat) : Prop :=
  (∀ i, i + 1 < N → dl.nth i ≠ none) ∧ (∀ L, dl.sizedLen = some L → N ≤ L + 1)

/-- an iterable delay with fewer than `N - 1` entries -/
def TooFew (dl : Delay) (N : Nat) : Prop :=
  ∃ l, (dl = .sized l ∨ dl = .unsized l) ∧ l.length + 1 < N

theorem suffice_or_tooFew (dl : Delay) (N : Nat) : DelaysSuffice dl N ∨ TooFew dl N := by
  cases dl with
  | scalar d => left; exact ⟨by intro i _; simp [Delay.nth], by intro L h; simp [Delay.sizedLen] at h⟩
  | stream f => left; exact ⟨by intro i _; simp [Delay.nth], by intro L h; simp [Delay.sizedLen] at h⟩
  | sized l =>
    by_cases h : l.length + 1 < N
    · right; exact ⟨l, Or.inl rfl, h⟩
    · left
      refine ⟨?_, ?_⟩
      · intro i hi; simp only [Delay.nth, ne_eq, List.getElem?_eq_none_iff, Nat.not_le]; omega
      · intro L hL; simp only [Delay.sizedLen, Option.some.injEq] at hL; omega
  | unsized l =>
    by_cases h : l.length + 1 < N
    · right; exact ⟨l, Or.inr rfl, h⟩
    · left
      refine ⟨?_, ?_⟩
      · intro i hi; simp only [Delay.nth, ne_eq, List.getElem?_eq_none_iff, Nat.not_le]; omega
      · intro L hL; simp [Delay.sizedLen] at hL

theorem not_both (dl : Delay) (N : Nat) (h1 : DelaysSuffice dl N) (h2 : TooFew dl N) : False := by
  obtain ⟨l, hl, hlen⟩ := h2
  rcases hl with rfl | rfl
  · have := h1.2 l.length (by simp [Delay.sizedLen]); omega
  · have := h1.1 l.length (by omega)
    simp [Delay.nth] at this

/-- **Closed form when the delays suffice.**  `repeat(plan, num=n, delay)` yields exactly the
    repetitions `0 .. n-1` -- each one `checkpoint`, the inner plan's messages, and the sleep for the
    positive remainder of its delay -- and then returns. -/
theorem C28_closed_form (n : Int) (dl : Delay) (env : Env M) (f : Nat)
    (hs : DelaysSuffice dl n.toNat) :
    run (some n) dl env (n.toNat + 1 + f) = (blocks dl env 0 n.toNat, .returned) := by
  obtain ⟨hsuff, hsized⟩ := hs
  have htf : tooFew (some n) dl = false := by
    unfold tooFew
    cases hL : dl.sizedLen with
    | none => rfl
    | some L =>
      have := hsized L hL
      simp only [Gen.tooFewSized, Bool.and_eq_false_imp, bne_iff_ne, ne_eq, decide_eq_false_iff_not]
      intro _; omega
  rw [run_of_not_tooFew _ _ _ _ htf]
  cases hN : n.toNat with
  | zero =>
    have : iterExhausted (some n) 0 = true := by simp [iterExhausted]; omega
    rw [show 0 + 1 + f = f + 1 by omega, loop_exhausted _ _ _ _ _ _ this]
    simp [blocks_zero]
  | succ N =>
    -- the first N iterations are complete ones
    have hgood : ∀ j, j < N → iterExhausted (some n) j = false ∧ dl.nth j ≠ none := by
      intro j hj
      refine ⟨by simp [iterExhausted]; omega, hsuff j (by omega)⟩
    have e : N + 1 + 1 + f = N + (f + 2) := by omega
    rw [e, loop_run0 (some n) dl env N (f + 2) hgood]
    have hne : iterExhausted (some n) N = false := by simp [iterExhausted]; omega
    cases hx : dl.nth N with
    | none =>
      have hb : stopBreaks (some n) N = true := by
        simp [stopBreaks, Gen.isLast]; omega
      rw [show f + 2 = (f + 1) + 1 by omega, loop_stop _ _ _ _ _ _ hne hx]
      simp [hb, blocks_succ_right]
    | some x =>
      have hex : iterExhausted (some n) (N + 1) = true := by simp [iterExhausted]; omega
      rw [show f + 2 = (f + 1) + 1 by omega, loop_step _ _ _ _ _ x hne hx, loop_exhausted _ _ _ _ _ _ hex]
      simp [blocks_succ_right]

/-- **Exactly `num` repetitions.**  When the delays suffice, the inner plan is invoked exactly
    `num` times (0 times for `num <= 0`), for repetitions 0, 1, ..., num-1 in this order, and the
    plan then returns normally. -/
theorem C28_repetitions (n : Int) (dl : Delay) (env : Env M) (f : Nat)
    (hs : DelaysSuffice dl n.toNat) :
    callsOf (run (some n) dl env (n.toNat + 1 + f)).1 = List.range n.toNat ∧
    (run (some n) dl env (n.toNat + 1 + f)).2 = .returned := by
  rw [C28_closed_form n dl env f hs]
  simp [callsOf_blocks, List.range_eq_range']

/-- **A checkpoint before each repetition.**  For EVERY outcome (normal return, ValueError, or cut
    off after any number of steps) the trace is a whole number `k` of repetitions, so its
    checkpoint/invocation skeleton is `checkpoint, call 0, checkpoint, call 1, ...`: every invocation
    of the inner plan is immediately preceded by its own checkpoint, and there are no others. -/
theorem C28_checkpoint_before_each (num : Option Int) (dl : Delay) (env : Env M) (fuel : Nat) :
    ∃ k, (run num dl env fuel).1 = blocks dl env 0 k ∧
      skeleton (run num dl env fuel).1 = (List.range k).flatMap (fun j => [.checkpoint, .call j]) ∧
      callsOf (run num dl env fuel).1 = List.range k := by
  cases htf : tooFew num dl with
  | true =>
    rw [run_of_tooFew _ _ _ _ htf]
    exact ⟨0, by simp [blocks_zero], by simp [skeleton], by simp [callsOf]⟩
  | false =>
    rw [run_of_not_tooFew _ _ _ _ htf]
    obtain ⟨k, hk⟩ := loop_blocks0 num dl env fuel
    exact ⟨k, hk, by rw [hk, skeleton_blocks, List.range_eq_range'],
      by rw [hk, callsOf_blocks, List.range_eq_range']⟩

/-- **Sleep only for the positive remainder.**  In repetition `i` (of any run, see
    `C28_checkpoint_before_each` / `C28_closed_form`) a message `sleep w` is present iff a non-None
    delay `d` was available for that repetition, `w = d - (t_after - t_start)` for the two clock
    readings of that repetition, and `w > 0`; there is at most one, and it comes last. -/
theorem C28_sleep_positive_remainder (dl : Delay) (env : Env M) (i : Nat) (w : Rat) :
    (Ev.sleep w ∈ block dl env i ↔
      ∃ d, dl.nth i = some (some d) ∧
        w = d - (env.clock (tickAt dl i + 1) - env.clock (tickAt dl i)) ∧ w > 0) ∧
    (sleepsOf (block dl env i)).length ≤ 1 ∧
    ∃ s, block dl env i = .checkpoint :: .call i :: (env.inner i).map .msg ++ s ∧
      (s = [] ∨ ∃ w', s = [.sleep w']) := by
  refine ⟨?_, ?_, ?_⟩
  · simp only [block, sleepOf, List.mem_cons, List.mem_append, List.mem_map, reduceCtorEq, false_or,
      and_false, exists_false]
    cases hx : dl.nth i with
    | none => simp
    | some x =>
      cases x with
      | none => simp
      | some d =>
        simp only [Option.some.injEq, exists_eq_left']
        by_cases hw : d - (env.clock (tickAt dl i + 1) - env.clock (tickAt dl i)) > 0
        · simp only [hw, ↓reduceIte, List.mem_singleton, Ev.sleep.injEq]
          constructor
          · intro h; subst h; exact ⟨rfl, hw⟩
          · intro h; exact h.1
        · simp only [hw, ↓reduceIte, List.not_mem_nil, false_iff, not_and]
          intro h; rw [h]; exact hw
  · have hm : ∀ l : List M, sleepsOf (l.map Ev.msg ++ sleepOf dl env i) = sleepsOf (sleepOf dl env i) := by
      intro l; induction l with
      | nil => rfl
      | cons x l ih => simpa [sleepsOf] using ih
    simp only [block, sleepsOf, hm]
    unfold sleepOf
    split
    · dsimp only; split <;> simp [sleepsOf]
    · simp [sleepsOf]
  · refine ⟨sleepOf dl env i, by simp [block], ?_⟩
    unfold sleepOf
    split
    · dsimp only; split
      · right; exact ⟨_, rfl⟩
      · left; rfl
    · left; rfl

/-- **ValueError iff too few delays, and never more repetitions than the delays allow.**
    For `num = n`: the plan raises ValueError iff the delay is an iterable with fewer than `n - 1`
    entries.  With a `len()` the error comes before anything is yielded (0 repetitions); without,
    after exactly `len + 1` complete repetitions (what `len` delays allow). -/
theorem C28_value_error_iff (n : Int) (dl : Delay) (env : Env M) (f : Nat) :
    ((run (some n) dl env (n.toNat + 1 + f)).2 = .valueError ↔ TooFew dl n.toNat) ∧
    (∀ l, dl = .sized l → l.length + 1 < n.toNat →
      run (some n) dl env (n.toNat + 1 + f) = ([], .valueError)) ∧
    (∀ l, dl = .unsized l → l.length + 1 < n.toNat →
      run (some n) dl env (n.toNat + 1 + f) = (blocks dl env 0 (l.length + 1), .valueError)) := by
  have hsized : ∀ l, dl = .sized l → l.length + 1 < n.toNat →
      run (some n) dl env (n.toNat + 1 + f) = ([], .valueError) := by
    intro l hl hlen
    subst hl
    have : tooFew (some n) (.sized l) = true := by
      simp [tooFew, Delay.sizedLen, Gen.tooFewSized]; omega
    rw [run_of_tooFew _ _ _ _ this]
  have hunsized : ∀ l, dl = .unsized l → l.length + 1 < n.toNat →
      run (some n) dl env (n.toNat + 1 + f) = (blocks dl env 0 (l.length + 1), .valueError) := by
    intro l hl hlen
    subst hl
    have hgood : ∀ j, j < l.length →
        iterExhausted (some n) j = false ∧ (Delay.unsized l).nth j ≠ none := by
      intro j hj
      refine ⟨by simp [iterExhausted]; omega, ?_⟩
      simp only [Delay.nth, ne_eq, List.getElem?_eq_none_iff, Nat.not_le]; omega
    have e : n.toNat + 1 + f = l.length + ((n.toNat - l.length + f) + 1) := by omega
    rw [run_of_not_tooFew _ _ _ _ (by simp [tooFew, Delay.sizedLen]), e,
      loop_run0 (some n) _ env l.length _ hgood]
    have hne : iterExhausted (some n) l.length = false := by simp [iterExhausted]; omega
    have hx : (Delay.unsized l).nth l.length = none := by simp [Delay.nth]
    have hb : stopBreaks (some n) l.length = false := by
      simp [stopBreaks, Gen.isLast]; omega
    rw [loop_stop _ _ _ _ _ _ hne hx]
    simp [hb, blocks_succ_right]
  refine ⟨?_, hsized, hunsized⟩
  constructor
  · intro h
    rcases suffice_or_tooFew dl n.toNat with hs | ht
    · rw [C28_closed_form n dl env f hs] at h; simp at h
    · exact ht
  · rintro ⟨l, hl | hl, hlen⟩
    · rw [hsized l hl hlen]
    · rw [hunsized l hl hlen]

/-- **num=None with a scalar (or endless) delay: repeats until the consumer stops.**  After any
    number `k` of loop iterations the consumer has received exactly the repetitions `0 .. k-1`, each
    with its checkpoint and positive-remainder sleep, and the generator is still going: the plan
    never ends on its own and every finite prefix has the documented shape. -/
theorem C28_none_unbounded (dl : Delay) (env : Env M) (k : Nat) (h : ∀ i, dl.nth i ≠ none) :
    run none dl env k = (blocks dl env 0 k, .running) := by
  have hgood : ∀ j, j < k → iterExhausted none j = false ∧ dl.nth j ≠ none :=
    fun j _ => ⟨rfl, h j⟩
  have := loop_run0 none dl env k 0 hgood
  rw [run_of_not_tooFew _ _ _ _ (by simp [tooFew])]
  rw [show k = k + 0 by omega, this]
  simp [loop]

/-- num=None with a finite iterable of `len` delays: `len + 1` repetitions, then a normal return
    (the StopIteration handler's `elif num is None: break`). -/
theorem C28_none_finite (l : List (Option Rat)) (dl : Delay) (env : Env M) (f : Nat)
    (hl : dl = .sized l ∨ dl = .unsized l) :
    run none dl env (l.length + 1 + f) = (blocks dl env 0 (l.length + 1), .returned) := by
  have hnth : ∀ j, dl.nth j = l[j]? := by
    intro j; rcases hl with rfl | rfl <;> rfl
  have hgood : ∀ j, j < l.length → iterExhausted none j = false ∧ dl.nth j ≠ none := by
    intro j hj
    refine ⟨rfl, ?_⟩
    rw [hnth]; simp only [ne_eq, List.getElem?_eq_none_iff, Nat.not_le]; omega
  rw [run_of_not_tooFew _ _ _ _ (by simp [tooFew]), show l.length + 1 + f = l.length + (f + 1) by omega,
    loop_run0 none dl env l.length (f + 1) hgood]
  have hx : dl.nth l.length = none := by rw [hnth]; simp
  rw [loop_stop _ _ _ _ _ _ rfl hx]
  simp [stopBreaks, Gen.noneBreaks, blocks_succ_right]

/-! ### Non-vacuity -/

def demoEnv : Env String :=
  { clock := fun k => [0, 1, 10, (25 : Rat) / 2, 20, 21].getD k 99, inner := fun i => [s!"shot{i}"] }

-- num = 3, scalar delay 2: elapsed 1 -> sleep 1; elapsed 5/2 -> no sleep; elapsed 1 -> sleep 1 (after the last one too)
example : run (some 3) (.scalar (some 2)) demoEnv 10 =
    ([.checkpoint, .call 0, .msg "shot0", .sleep 1, .checkpoint, .call 1, .msg "shot1",
      .checkpoint, .call 2, .msg "shot2", .sleep 1], .returned) := by decide +kernel
-- two delays suffice for three repetitions; one does not: generator -> error after 2 repetitions, list -> at once
example : DelaysSuffice (.sized [some 2, none]) (3 : Int).toNat := by
  refine ⟨?_, ?_⟩
  · intro i hi; have : i = 0 ∨ i = 1 := by simp at hi; omega
    rcases this with rfl | rfl <;> simp [Delay.nth]
  · intro L hL; simp [Delay.sizedLen] at hL; subst hL; decide
example : (run (some 3) (.unsized [some 2]) demoEnv 10).2 = .valueError := by decide +kernel
example : callsOf (run (some 3) (.unsized [some 2]) demoEnv 10).1 = [0, 1] := by decide +kernel
example : run (some 3) (.sized [some 2]) demoEnv 10 = ([], .valueError) := by decide +kernel

end BlueskyVerif.C28
