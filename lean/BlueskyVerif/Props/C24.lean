/-
C24 -- Relative moves are offsets from the start and are undone at the end.

Models (Gen/Relative.lean): `relative_set_wrapper` = `msg_mutator(plan_mutator(plan, insert_reads),
rewrite_pos)`, `reset_positions_wrapper` = `finalize_wrapper(plan_mutator(plan, insert_reads),
reset())`, `rel_set`, `mvr` and the `rel_*` scans are compositions of these -- built from the shared
`msgMutator`, `pmStep` (plan_mutator, with the closure variable `initial_positions` threaded
alongside: `envMutatorA`) and the finalize machine, parametrised by the facts extracted from the
current source (Gen/GeneratedRelative.lean).  Positions are integers; pseudo-positioners are out of
the model.

`drive c b ins` / `bindH` / `finallyK` are as in Props/C23.lean.  `relBody .. c ins` is the drive of
`plan_mutator(plan, insert_reads)`: the plan's messages, with a `locate` / `read` query inserted
where `C24_relative_decide` says, each message ANNOTATED with `initial_positions` at the time it
goes out (`emOut`, the recursive specification proved equal to the stack machine in
Lemmas/C23Mutator.lean).  The wrapped plan is ANY behaviour, the script ANY list of sends / throws
of non-GeneratorExit exceptions, optionally ended by `close()`.
-/
import BlueskyVerif.Lemmas.C24
import BlueskyVerif.Gen.Ast

namespace BlueskyVerif.C24
open BlueskyVerif.Gen
set_option linter.unusedSectionVars false

section
variable {R E : Type} [Inhabited R] [DecidableEq R] [PyExc E]

/-! ## relative_set_wrapper -/

/-- **relative_set_wrapper, exact trace**: the mutated plan `relBody` with every message passed
through `rewriteMsg` (= `rewrite_pos` reading `initial_positions` as it is when the message goes
out); outcome and close behaviour are those of the mutated plan. -/
theorem C24_relative_trace (f : Nat) (mi : MotorInfo) (view : PosView R) (devices : Option (List Dev))
    (plan : PBeh R E) (c : Bool) (ins : List (Inp R E)) (hn : NoGenExit ins) :
    drive c (relativeSetWrapper (f + 3) mi view devices plan) ins
      = (relBody mi view devices plan c ins).map rewriteMsg :=
  drive_relativeSetWrapper f mi view devices plan c ins hn

/-- **Where the initial position comes from, and when**: for a message object `m` not seen before.
(1) `m` is a `set` on an eligible device `d` (in `devices`, or `devices is None`) whose position is
not recorded, and `d` has no `.position` (or is Locatable): a `locate` (Locatable) / `read` query on
`d` goes out BEFORE `m`; its answer (0 for None) is recorded as `initial_positions[d]`, then `m`
follows.  (2) the same with a `.position` attribute: recorded at once, no message.  (3) otherwise
(not a `set`, device not eligible, position already recorded): `m` goes out, nothing is recorded.
So the position is obtained at the FIRST `set` of `d` only. -/
theorem C24_relative_decide (mi : MotorInfo) (view : PosView R) (devices : Option (List Dev))
    (seen : List (List Nat)) (env : Positions) (m : PMsg) (hs : m.ident ∉ seen) :
    let dec := emDecide (relSpec mi view devices) PMsg.ident seen env m
    (∃ d, m.obj = some d ∧ relTrigger devices env m d = true ∧ posSource mi d ≠ .attribute ∧
        dec.2.1 = env ∧ dec.2.2.1 = .query m ∧
        dec.2.2.2 = queryMsg (if posSource mi d = .locate then .locate else .read) d) ∨
    (∃ d, m.obj = some d ∧ relTrigger devices env m d = true ∧ posSource mi d = .attribute ∧
        dec.2.1 = posSet env d (mi.position d) ∧ (∀ m', dec.2.2.1 ≠ .query m') ∧ dec.2.2.2 = m) ∨
    ((∀ d, m.obj = some d → relTrigger devices env m d = false) ∧
        dec.2.1 = env ∧ (∀ m', dec.2.2.1 ≠ .query m') ∧ dec.2.2.2 = m) :=
  rel_decide mi view devices seen env m hs

/-- ... the query's answer is what gets recorded (None counts as 0), under the device's key -/
theorem C24_relative_record (mi : MotorInfo) (view : PosView R) (devices : Option (List Dev))
    (env : Positions) (d : Dev) (cmd : Command) (r : R) (h : posGet env d = none) :
    (relSpec mi view devices).updAsk (queryMsg cmd d) r env
        = env ++ [(d, (view.asPos (queryMsg cmd d) r).getD 0)] ∧
    posGet ((relSpec mi view devices).updAsk (queryMsg cmd d) r env) d
        = some ((view.asPos (queryMsg cmd d) r).getD 0) := by
  have h1 : (relSpec mi view devices).updAsk (queryMsg cmd d) r env
      = posSet env d ((view.asPos (queryMsg cmd d) r).getD 0) := by simp [relSpec, queryMsg]
  rw [h1]
  exact ⟨posSet_new env d _ h, (posExt_set_new env d _ h).2⟩

/-- **The initial position of a device is obtained once and never changes**: in the annotated
trace, for any two messages the later one's `initial_positions` extends the earlier one's
(`PosExt`: every recorded device keeps its recorded value) -- whatever the plan and the script do. -/
theorem C24_relative_init_once (mi : MotorInfo) (view : PosView R) (devices : Option (List Dev))
    (plan : PBeh R E) (c : Bool) (ins : List (Inp R E)) :
    (relBody mi view devices plan c ins).msgs.Pairwise (fun a b => PosExt a.2 b.2) :=
  relBody_pairwise mi view devices plan c ins

/-- **Every `set d x` goes out as `set d (init d + x)`; everything else is unchanged.**
`rewriteMsg (m, env)`: a `set` with offset `rel` on a device with recorded position `init` becomes
the same message with argument `init + rel` (the extracted operator); a message that is not a
`set`, or a `set` on a device without recorded position (not eligible), is the message itself. -/
theorem C24_relative_set_is_offset (m : PMsg) (env : Positions) :
    (∀ d rel init, m.cmd = .set → m.obj = some d → m.num = some rel → posGet env d = some init →
      rewriteMsg (m, env) = { m with ident := 9 :: m.ident, num := some (init + rel) }) ∧
    ((m.cmd ≠ .set ∨ ∀ d, m.obj = some d → posGet env d = none) → rewriteMsg (m, env) = m) :=
  ⟨fun d rel init hc ho hn hi => rewrite_set m env d rel init hc ho hn hi, rewrite_other m env⟩

/-! ## reset_positions_wrapper -/

/-- **reset_positions_wrapper, exact trace**: the mutated plan (`set`s unchanged; queries inserted
as for relative_set_wrapper); when it ends with `o`: nothing more if `o` is a GeneratorExit
(closed), otherwise `reset()` -- `resetProg` of `initial_positions` as recorded by then
(`resetPositions`, equal to the specification's final value) -- and then `o`, or the exception
raised while resetting.  Return, failure, RequestStop and RequestAbort all take the second path. -/
theorem C24_reset_trace (f : Nat) (mi : MotorInfo) (view : PosView R) (devices : Option (List Dev))
    (plan : PBeh R E) (c : Bool) (ins : List (Inp R E)) (hn : NoGenExit ins) :
    drive c (resetPositionsWrapper (f + 3) mi view devices plan) ins
      = ((relBody mi view devices plan c ins).map Prod.fst).bindH c [] ins
          (finallyK fun used => resetProg (resetPositions (f + 3) mi view devices plan used)) ∧
    ∀ used, NoGenExit used →
      resetPositions (f + 3) mi view devices plan used
        = emEnvOut (relSpec mi view devices) PMsg.ident [] [] ((Pos.new plan).resume (.send default)) used :=
  ⟨drive_resetPositionsWrapper f mi view devices plan c ins hn,
   fun used hu => resetPositions_eq f mi view devices plan used hu⟩

/-- **What `reset()` emits** (its messages being answered): for every recorded device, in the
order of recording, `set d (init d)` -- all with one group -- and then `wait` on that group;
nothing on a GeneratorExit (`finallyK`). -/
theorem C24_reset_messages (env : Positions) (c : Bool) (rs : List R) (rest : List (Inp R E))
    (h : rs.length = env.length + 1) (cl : List (Inp R E) → Prog PMsg R R E) (used : List (Inp R E))
    (e : E) (he : isGenExit e = true) :
    (resetProg env : Prog PMsg R R E).drive c (rs.map .send ++ rest)
      = Drv.pre (env.map (fun p => setMsg p.1 p.2 (some 0)) ++ [waitMsg 0])
          (Drv.done (.ret default) rest) ∧
    finallyK cl used c (.exc e) rest = Drv.done (.exc e) rest :=
  ⟨resetProg_drive env c rs rest h, by simp [finallyK, he]⟩

/-! ## rel_set, mvr, the rel_* scans -/

/-- **The compositions.**  `rel_set` is relative_set_wrapper (all devices) around `abs_set`; `mvr`
is relative_set_wrapper (the moved devices) around `mv`; a `rel_*` scan is
reset_positions_wrapper around relative_set_wrapper around the absolute scan, both with the scan's
motors -- so their traces are given by `C24_relative_trace` / `C24_reset_trace`: -/
theorem C24_rel_set_mvr (f : Nat) (mi : MotorInfo) (view : PosView R) (c : Bool)
    (ins : List (Inp R E)) (hn : NoGenExit ins) (d : Dev) (x : Int) (group : Option Nat) (wait : Bool)
    (pairs : List (Dev × Int)) (motors : List Dev) (inner : PBeh R E) :
    drive c (relSet (f + 3) mi view d x group wait) ins
      = (relBody mi view none (absSetProg d x group wait).beh c ins).map rewriteMsg ∧
    drive c (mvr (f + 3) mi view pairs) ins
      = (relBody mi view (some (pairs.map (·.1))) (mvProg pairs).beh c ins).map rewriteMsg ∧
    drive c (relScan (f + 3) mi view motors inner) ins
      = ((relBody mi view (some motors)
            (Beh.retFrom (relativeSetWrapper (f + 3) mi view (some motors) inner)) c ins).map Prod.fst).bindH
          c [] ins
          (finallyK fun used => resetProg (resetPositions (f + 3) mi view (some motors)
            (Beh.retFrom (relativeSetWrapper (f + 3) mi view (some motors) inner)) used)) := by
  refine ⟨?_, ?_, ?_⟩
  · unfold relSet
    rw [drive_retFrom _ _ _ hn, drive_relativeSetWrapper f mi view none _ c ins hn]
  · unfold mvr
    rw [drive_retFrom _ _ _ hn, drive_retFrom _ _ _ hn, drive_relativeSetWrapper f mi view _ _ c ins hn]
  · unfold relScan
    rw [drive_retFrom _ _ _ hn, drive_retFrom _ _ _ hn, drive_resetPositionsWrapper f mi view _ _ c ins hn]

end

/-! ## Non-vacuity: the models on concrete plans -/

/-- motor 0: position only through `read`; motor 1: `.position = 40` -/
def motors : MotorInfo where
  locatable := fun _ => false
  hasPosition := fun d => d = 1
  position := fun _ => 40

def view : PosView Val := { asPos := fun _ r => r }

/-- `yield Msg('set', m0, 5); yield Msg('set', m1, -3); yield Msg('set', m0, 2)` -/
def planSets : PBeh Val Exc :=
  (Prog.msgs [{ ident := [0, 0], cmd := .set, obj := some 0, num := some 5 },
              { ident := [0, 1], cmd := .set, obj := some 1, num := some (-3) },
              { ident := [0, 2], cmd := .set, obj := some 0, num := some 2 }] (.ret none)).beh

def brief (d : Drv PMsg Val Val Exc) : List (Command × Option Dev × Option Int) :=
  d.msgs.map fun m => (m.cmd, m.obj, m.num)

/-- relative: one read of m0 (answered 100) before its first set; 105, 37, 102 -/
example : brief (drive false (relativeSetWrapper 3 motors view none planSets)
      [.send (some 100), .send none, .send none, .send none])
    = [(.read, some 0, none), (.set, some 0, some 105), (.set, some 1, some 37), (.set, some 0, some 102)] := by
  decide

/-- reset: the plan fails at its second message (E1 thrown at `set m1`): both motors commanded so far
    go back -- m0 to the 100 it read, m1 to its `.position` 40 --, then `wait`; the third set never happened -/
example : brief (drive false (resetPositionsWrapper 3 motors view none planSets)
      [.send (some 100), .send none, .throw ⟨.exc1, 5⟩, .send none, .send none])
    = [(.read, some 0, none), (.set, some 0, some 5), (.set, some 1, some (-3)), (.set, some 0, some 100),
       (.set, some 1, some 40), (.wait, none, none)] := by
  decide

end BlueskyVerif.C24
