/-
C29 -- Adaptive and tuning scans terminate and stay within their range.

  "For every detector response, adaptive_scan terminates and only visits positions between start and
   stop (never beyond stop), and tune_centroid terminates and, for non-negative signals, only visits and
   finally parks the motor at positions between start and stop."

Models: Pure/Adaptive.lean, Pure/Tune.lean -- ℚ-transcriptions of the two loops whose every arithmetic
and comparison expression is regenerated from src/bluesky/plans.py on each run
(Pure/AdaptiveGenerated.lean, Pure/TuneGenerated.lean).  The detector is an ARBITRARY response oracle
`I : ℕ → ℚ → ℚ` (the k-th reading, taken at position p); all theorems quantify over every `I`, every
parameter set the plan accepts, and every number of loop iterations (induction / invariants).

Status
  * adaptive_scan, range        : FULL   (`C29_adaptive_in_range`)
  * adaptive_scan, termination  : PARTIAL (`C29_adaptive_terminates_partial` and the explicit bounds):
      the proof forces `backstep = false ∨ stop < start ∨ threshold < 1`.  In the excluded region
      (ascending scan, backstep, threshold ≥ 1) the model has non-terminating runs
      (Counterexamples/C29.lean: threshold 3/2 with a linear detector -- finding F21, reproduced on the
      real code; threshold = 1 with a saturating detector -- exact arithmetic only).
      The full statement stays visible as `C29_adaptive_full`.
  * tune_centroid               : FULL in exact arithmetic (`C29_tune_*`; the final park is clamped into the
      limits by the code -- repair of the one-ulp park defect -- and for non-negative signals the clamp is
      proved to be a no-op, `C29_tune_park_is_centroid`), for every accepted parameter
      set with `num ≠ 1` (Python raises ZeroDivisionError for `num = 1` before any motion).
  Exact rationals stand in for IEEE doubles (see the correspondence run in harness/props/C29.py).
-/
import BlueskyVerif.Lemmas.C29Adaptive
import BlueskyVerif.Lemmas.C29Tune
import Mathlib.Algebra.Order.Archimedean.Basic

namespace BlueskyVerif.C29
open BlueskyVerif.Pure
open BlueskyVerif.C29.AdaptiveLemmas (delta)
open BlueskyVerif.C29.TuneLemmas (L)

/-! ## adaptive_scan -/

/-- FULL STATEMENT for adaptive_scan (what the property asks, for every accepted parameter set and every
    detector response).  NOT provable: see Counterexamples/C29.lean (`adaptive_full_false`). -/
def C29_adaptive_full : Prop :=
  ∀ (P : Adaptive.Params) (I : Adaptive.Resp), P.rejected = false →
    (∀ p, Adaptive.Visits P I p → min P.start P.stop ≤ p ∧ p ≤ max P.start P.stop) ∧
    ∃ N, Adaptive.FinishedWithin P I N

/-- Every position the plan visits lies between `start` (inclusive) and `stop` (exclusive), measured
    along the scan direction -- for EVERY response oracle, backstep setting and threshold. -/
theorem C29_adaptive_in_range (P : Adaptive.Params) (I : Adaptive.Resp) (p : Rat)
    (h : Adaptive.Visits P I p) :
    P.start * P.dir ≤ p * P.dir ∧ p * P.dir < P.stop * P.dir := by
  obtain ⟨hrej, n, s, hs, hl, rfl⟩ := h
  exact ⟨AdaptiveLemmas.start_le_reach hrej hs, (AdaptiveLemmas.live_iff P s).mp hl⟩

/-- ... restated without the direction sign: within [min(start,stop), max(start,stop)] and never at or
    beyond `stop`. -/
theorem C29_adaptive_in_range' (P : Adaptive.Params) (I : Adaptive.Resp) (p : Rat)
    (h : Adaptive.Visits P I p) :
    min P.start P.stop ≤ p ∧ p ≤ max P.start P.stop ∧
      (P.start ≤ P.stop → P.start ≤ p ∧ p < P.stop) ∧ (P.stop < P.start → P.stop < p ∧ p ≤ P.start) := by
  obtain ⟨h1, h2⟩ := C29_adaptive_in_range P I p h
  rcases AdaptiveLemmas.dir_cases P with ⟨hle, hd⟩ | ⟨hlt, hd⟩
  · rw [hd] at h1 h2
    rw [min_eq_left hle, max_eq_right hle]
    refine ⟨by linarith, by linarith, fun _ => ⟨by linarith, by linarith⟩, fun hc => absurd hle (not_le.mpr hc)⟩
  · rw [hd] at h1 h2
    rw [min_eq_right (le_of_lt hlt), max_eq_left (le_of_lt hlt)]
    refine ⟨by linarith, by linarith, fun hc => absurd hlt (not_lt.mpr hc), fun _ => ⟨by linarith, by linarith⟩⟩

/-- Termination with an explicit bound when no genuine backward step can occur (backsteps disabled, or a
    descending scan -- where the code's `next_pos -= step` moves forward --, or threshold ≤ 0):
    every iteration advances by at least `delta = min((max_step - min_step)/2, min_step)`, so with
    `(stop - start)·sign ≤ M · delta` the plan finishes within `M + 1` loop iterations. -/
theorem C29_adaptive_terminates_noback (P : Adaptive.Params) (I : Adaptive.Resp)
    (hrej : P.rejected = false)
    (hnb : P.backstep = false ∨ P.stop < P.start ∨ P.threshold ≤ 0)
    (M : Nat) (hM : (P.stop - P.start) * P.dir ≤ M * delta P) :
    Adaptive.FinishedWithin P I (M + 1) := by
  apply AdaptiveLemmas.finished_of_not_live
  intro s hs
  by_contra hl
  have hl : Adaptive.live P s = true := by simpa using hl
  have hp := (AdaptiveLemmas.prog_reach hrej hnb M s hs).2
  have := (AdaptiveLemmas.live_iff P s).mp hl
  have e : (P.stop - P.start) * P.dir = P.stop * P.dir - P.start * P.dir := by ring
  linarith

/-- Termination with an explicit bound for ascending scans with backsteps and `0 < threshold < 1`:
    a backstep multiplies the step by less than `threshold` and leaves it ≥ `min_step`, so at most
    `K - 1` consecutive backsteps are possible when `max_step · threshold^K < min_step`; with
    `(stop - start)·sign ≤ M · delta` the plan finishes within `M·(K+1) + 2` loop iterations. -/
theorem C29_adaptive_terminates_backstep (P : Adaptive.Params) (I : Adaptive.Resp)
    (hrej : P.rejected = false) (ht0 : 0 < P.threshold) (ht1 : P.threshold < 1)
    (K : Nat) (hK : P.maxStep * P.threshold ^ K < P.minStep)
    (M : Nat) (hM : (P.stop - P.start) * P.dir ≤ M * delta P) :
    Adaptive.FinishedWithin P I (M * (K + 1) + 2) := by
  rcases AdaptiveLemmas.dir_cases P with ⟨_, hd⟩ | ⟨hlt, _⟩
  · apply AdaptiveLemmas.finished_of_not_live
    intro s hs
    by_contra hl
    have hl : Adaptive.live P s = true := by simpa using hl
    obtain ⟨hg, hc⟩ := AdaptiveLemmas.cnt_reach hrej hd ht0 ht1 hK _ s hs
    have hlive := (AdaptiveLemmas.live_iff P s).mp hl
    have hdpos := AdaptiveLemmas.delta_pos hrej
    have hsp : 0 < s.step := lt_of_lt_of_le hdpos hg.1
    rw [hd] at hlive hM
    rcases hc with ⟨_, _, h3⟩ | ⟨_, a, b, hn, hbK, hbase, _⟩
    · omega
    · have haM : (a : Rat) < (M : Rat) := by
        by_contra hcon
        have : (M : Rat) * delta P ≤ (a : Rat) * delta P :=
          mul_le_mul_of_nonneg_right (not_lt.mp hcon) (le_of_lt hdpos)
        linarith
      have haM' : a + 1 ≤ M := by exact_mod_cast haM
      have h1 : (a + 1) * (K + 1) ≤ M * (K + 1) := Nat.mul_le_mul_right _ haM'
      have e : (a + 1) * (K + 1) = a * (K + 1) + K + 1 := by ring
      omega
  · exact AdaptiveLemmas.iterN_none_mono
      (C29_adaptive_terminates_noback P I hrej (Or.inr (Or.inl hlt)) M hM)
      (by have : M ≤ M * (K + 1) := Nat.le_mul_of_pos_right M (Nat.succ_pos K); omega)

/-- PARTIAL termination theorem: for every accepted parameter set and EVERY response oracle the plan
    finishes after finitely many iterations, PROVIDED `backstep = false ∨ stop < start ∨ threshold < 1`.
    (Gap to `C29_adaptive_full`: ascending scans with backstep and threshold ≥ 1.) -/
theorem C29_adaptive_terminates_partial (P : Adaptive.Params) (I : Adaptive.Resp)
    (hrej : P.rejected = false)
    (hyp : P.backstep = false ∨ P.stop < P.start ∨ P.threshold < 1) :
    ∃ N, Adaptive.FinishedWithin P I N := by
  have hdpos := AdaptiveLemmas.delta_pos hrej
  have hv := AdaptiveLemmas.rejected_false hrej
  obtain ⟨M, hM⟩ := exists_nat_ge ((P.stop - P.start) * P.dir / delta P)
  rw [div_le_iff₀ hdpos] at hM
  by_cases hnb : P.backstep = false ∨ P.stop < P.start ∨ P.threshold ≤ 0
  · exact ⟨M + 1, C29_adaptive_terminates_noback P I hrej hnb M hM⟩
  · have ht1 : P.threshold < 1 := by
      rcases hyp with h | h | h
      · exact absurd (Or.inl h) hnb
      · exact absurd (Or.inr (Or.inl h)) hnb
      · exact h
    have ht0 : 0 < P.threshold := by
      by_contra hcon; exact hnb (Or.inr (Or.inr (not_lt.mp hcon)))
    have hmaxpos : 0 < P.maxStep := by linarith
    obtain ⟨K, hK⟩ := exists_pow_lt_of_lt_one (div_pos hv.1 hmaxpos) ht1
    rw [lt_div_iff₀ hmaxpos] at hK
    exact ⟨M * (K + 1) + 2, C29_adaptive_terminates_backstep P I hrej ht0 ht1 K (by linarith) M hM⟩

/-- What is proved of `C29_adaptive_full`: the range half for all inputs, the termination half under the
    forced hypothesis. -/
theorem C29_adaptive_partial (P : Adaptive.Params) (I : Adaptive.Resp) (hrej : P.rejected = false) :
    (∀ p, Adaptive.Visits P I p → min P.start P.stop ≤ p ∧ p ≤ max P.start P.stop) ∧
    ((P.backstep = false ∨ P.stop < P.start ∨ P.threshold < 1) → ∃ N, Adaptive.FinishedWithin P I N) :=
  ⟨fun p h => ⟨(C29_adaptive_in_range' P I p h).1, (C29_adaptive_in_range' P I p h).2.1⟩,
   C29_adaptive_terminates_partial P I hrej⟩

/-! ## tune_centroid -/

/-- FULL STATEMENT for tune_centroid. -/
def C29_tune_full : Prop :=
  ∀ (P : Tune.Params) (I : Tune.Resp), P.rejected = false → P.zeroDiv = false →
    (∃ N, Tune.FinishedWithin P I N) ∧
    ((∀ k p, 0 ≤ I k p) →
      (∀ p, Tune.Visits P I p → min P.start P.stop ≤ p ∧ p ≤ max P.start P.stop) ∧
      (∀ p, Tune.Parks P I p → min P.start P.stop ≤ p ∧ p ≤ max P.start P.stop))

/-- Every position scanned by tune_centroid lies within [min(start,stop), max(start,stop)] -- for every
    signal, negative ones included (the loop guard re-checks the original limits). -/
theorem C29_tune_visits_in_range (P : Tune.Params) (I : Tune.Resp) (p : Rat)
    (h : Tune.Visits P I p) : min P.start P.stop ≤ p ∧ p ≤ max P.start P.stop := by
  obtain ⟨_, _, n, s, _, hl, rfl⟩ := h
  obtain ⟨_, h1, h2⟩ := (TuneLemmas.live_iff P s).mp hl
  rw [TuneLemmas.low_eq] at h1; rw [TuneLemmas.high_eq] at h2
  exact ⟨h1, h2⟩

/-- The final park position lies within [min(start,stop), max(start,stop)] -- for EVERY signal: the code
    clamps the last centroid into the original limits before the final move. -/
theorem C29_tune_park_in_range (P : Tune.Params) (I : Tune.Resp) (p : Rat)
    (h : Tune.Parks P I p) : min P.start P.stop ≤ p ∧ p ≤ max P.start P.stop := by
  obtain ⟨_, _, n, hn⟩ := h
  obtain ⟨m, s, _, hp⟩ := TuneLemmas.exited_from_run hn
  unfold Tune.park at hp
  cases hpk : s.peak with
  | none => rw [hpk] at hp; simp at hp
  | some pk =>
    rw [hpk] at hp
    simp only [Option.map_some, Option.some.injEq] at hp
    have := TuneLemmas.parkPos_mem P pk
    rw [hp, TuneLemmas.low_eq, TuneLemmas.high_eq] at this
    exact this

/-- For non-negative signals that clamp is a no-op (exact arithmetic): the park position IS the centroid
    `sum_xI / sum_I` of the last completed pass, which already lies within the limits because every scanned
    position does and the weights are non-negative. -/
theorem C29_tune_park_is_centroid (P : Tune.Params) (I : Tune.Resp) (hI : ∀ k p, 0 ≤ I k p) (p : Rat)
    (h : Tune.Parks P I p) :
    ∃ m s, Tune.iterN P I m (Tune.start0 P) = .run s ∧ s.peak = some p := by
  obtain ⟨_, _, n, hn⟩ := h
  obtain ⟨m, s, hs, hp⟩ := TuneLemmas.exited_from_run hn
  refine ⟨m, s, hs, ?_⟩
  unfold Tune.park at hp
  cases hpk : s.peak with
  | none => rw [hpk] at hp; simp at hp
  | some pk =>
    rw [hpk] at hp
    simp only [Option.map_some, Option.some.injEq] at hp
    obtain ⟨h1, h2⟩ := (TuneLemmas.nn_reach hI m s hs).2.2.2 pk hpk
    rw [TuneLemmas.parkPos_id h1 h2] at hp
    rw [hp]

/-- Termination with an explicit bound, for EVERY signal: each pass takes at most `L + 1 = |num-1| + 1`
    points and divides the scan range by at least `step_factor`; once
    `|stop - start| < min_step · |num-1| · step_factor^K` the step is below `min_step`, so the plan has
    finished within `K·(|num-1|+1) + 1` loop iterations. -/
theorem C29_tune_terminates (P : Tune.Params) (I : Tune.Resp)
    (hrej : P.rejected = false) (hz : P.zeroDiv = false)
    (K : Nat) (hK : |P.stop - P.start| < P.minStep * (L P : Rat) * P.stepFactor ^ K) :
    Tune.FinishedWithin P I (K * (L P + 1) + 1) := by
  apply TuneLemmas.finished_of_not_live
  intro s hs
  by_contra hl
  have hl : Tune.live P s = true := by simpa using hl
  have := TuneLemmas.live_bound hrej hz hK hs hl
  omega

/-- ... and such a `K` always exists (Archimedean property; `step_factor > 1`). -/
theorem C29_tune_terminates_exists (P : Tune.Params) (I : Tune.Resp)
    (hrej : P.rejected = false) (hz : P.zeroDiv = false) : ∃ N, Tune.FinishedWithin P I N := by
  have hv := TuneLemmas.rejected_false hrej
  have hLpos := TuneLemmas.L_pos hz
  have hm : 0 < P.minStep * (L P : Rat) := mul_pos hv.1 hLpos
  obtain ⟨K, hK⟩ := pow_unbounded_of_one_lt (|P.stop - P.start| / (P.minStep * (L P : Rat))) hv.2
  rw [div_lt_iff₀ hm] at hK
  exact ⟨K * (L P + 1) + 1, C29_tune_terminates P I hrej hz K (by linarith [mul_comm (P.stepFactor ^ K) (P.minStep * (L P : Rat))])⟩

/-- The tune_centroid half of the property, at full strength (exact arithmetic). -/
theorem C29_tune_full_holds : C29_tune_full := by
  intro P I hrej hz
  exact ⟨C29_tune_terminates_exists P I hrej hz,
    fun _ => ⟨fun p h => C29_tune_visits_in_range P I p h, fun p h => C29_tune_park_in_range P I p h⟩⟩

/-! ## non-vacuity: the hypotheses are satisfiable on concrete, non-trivial inputs -/

/-- adaptive_scan(start=0, stop=5, min_step=1/4, max_step=1, target_delta=1/2, backstep=True,
    threshold=4/5) on the parabola I(p) = p² -/
def exA : Adaptive.Params :=
  { start := 0, stop := 5, minStep := 1/4, maxStep := 1, targetDelta := 1/2, backstep := true, threshold := 4/5 }
def exIA : Adaptive.Resp := fun _ p => p * p

example : exA.rejected = false := by decide +kernel
example : exA.maxStep * exA.threshold ^ 7 < exA.minStep := by norm_num [exA]
example : (exA.stop - exA.start) * exA.dir ≤ (20 : Nat) * delta exA := by decide +kernel
/-- the plan really visits 3/8 (second point) and 7/8, so `Visits` is inhabited -/
example : Adaptive.Visits exA exIA (3/8) :=
  ⟨by decide +kernel, 1, Adaptive.body exA exIA (Adaptive.init exA), by decide +kernel, by decide +kernel, by decide +kernel⟩
example : Adaptive.FinishedWithin exA exIA 162 :=
  C29_adaptive_terminates_backstep exA exIA (by decide +kernel) (by norm_num [exA]) (by norm_num [exA]) 7
    (by norm_num [exA]) 20 (by decide +kernel)

/-- tune_centroid(start=0, stop=8, min_step=1/4, num=5, step_factor=2) on a triangular peak at 3 -/
def exT : Tune.Params := { start := 0, stop := 8, minStep := 1/4, num := 5, stepFactor := 2, snake := false }
def exIT : Tune.Resp := fun _ p => C29.rmax 0 (3 - C29.rabs (p - 3))

example : exT.rejected = false ∧ exT.zeroDiv = false := by decide +kernel
example : |exT.stop - exT.start| < exT.minStep * (L exT : Rat) * exT.stepFactor ^ 4 := by
  norm_num [exT, L]
example : Tune.Visits exT exIT 2 :=
  ⟨by decide +kernel, by decide +kernel, 1, Tune.cont exIT (Tune.init exT), by decide +kernel, by decide +kernel, by decide +kernel⟩
example : Tune.Parks exT exIT 3 := ⟨by decide +kernel, by decide +kernel, 21, by decide +kernel⟩

end BlueskyVerif.C29
