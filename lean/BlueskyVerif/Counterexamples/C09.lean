/-
C09 counterexample -- NOT a proof obligation.
After `clear_checkpoint` the message cache is `None` and `_checkpoint` does not re-create it
(`_reset_checkpoint_state_meth` returns early when there is no cache).  A deferred pause that reaches the NEXT
checkpoint is therefore turned into FailedPause by the top of the loop: the engine does not pause at the
checkpoint, it aborts the plan.  This is the hypothesis `s.msgCache = some c` of
`C09_deferred_pause_at_checkpoint_partial`; the same input is run on the real RunEngine by harness/props/C09.py
(counted as "not-judged:deferred-after-clear_checkpoint") and by harness/props/C10.py (judged: FailedPause, abort).
-/
import BlueskyVerif.Props.C09

namespace BlueskyVerif.C09.Counterexamples
open BlueskyVerif.Engine BlueskyVerif.C09

/-- the plan is about to hand out `checkpoint`; a deferred pause is pending; clear_checkpoint ran earlier -/
def s0 : EState :=
  { state := .running, trans := [(.idle, .running)], lifeOk := LifePath.snoc LifePath.nil (by decide),
    permit := true, deferredPause := true, msgCache := none,
    planStack := [Gen.list [{ cmd := "null", mid := some 2 }]], respStack := [.none], pc := .loopSleep }

def ckpt : Msg := { cmd := "checkpoint", mid := some 1 }

/-- the checkpoint is processed and `_run` sleeps; the cache is still absent -/
theorem checkpoint_does_not_recreate_cache :
    (processMsg s0 ckpt).state.pc = .inCkptSleep ∧ (processMsg s0 ckpt).state.msgCache = none := by decide

/-- after the sleep the pause is requested, the top of the loop finds no cache: FailedPause is thrown into the
    plan, which dies; the engine is `aborting` on its way out -- not `paused` -- and `null` was never executed -/
theorem deferred_pause_after_clear_checkpoint_aborts :
    (advanceAt 6 false (processMsg s0 ckpt).state).state = .aborting ∧
    (advanceAt 6 false (processMsg s0 ckpt).state).exitExc = some .failedPause ∧
    (advanceAt 6 false (processMsg s0 ckpt).state).exitStatus = .abort ∧
    (advanceAt 6 false (processMsg s0 ckpt).state).msgs.map (·.cmd) = ["checkpoint"] := by decide

theorem never_paused :
    (advance 6 (advanceAt 6 false (processMsg s0 ckpt).state)).state ≠ .paused := by decide

/-- hence the statement without the cache hypothesis fails -/
theorem C09_full_is_false : ¬ C09_full := fun h => by
  obtain ⟨sA, h1, h2⟩ := h s0 ckpt 5 5 rfl rfl rfl rfl (by decide)
  have : sA = (processMsg s0 ckpt).state := by rw [h1]; rfl
  rw [this] at h2
  exact never_paused h2

end BlueskyVerif.C09.Counterexamples
