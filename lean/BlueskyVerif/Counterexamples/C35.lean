/-
C35 -- counterexamples (NOT proof obligations).
 1. The frame-based ranges are not in event order when a datum of an earlier event arrives after a later
    event's datum was converted (open known finding; replay corpus/C35/frame_late_then_early.json).
 2. The safety criterion of the aliasing model is not vacuous: with the pre-fix table (`datum` handler using
    `copy.copy`, F12) the model really mutates the caller's nested `datum_kwargs`.
-/
import BlueskyVerif.Props.C35

namespace BlueskyVerif.C35.Counterexamples
open BlueskyVerif.Normalizer BlueskyVerif.NormFlow

/-- start, descriptor, resource, event 1 (datum missing), datum of event 2 (frame 1), event 2, datum of
    event 1 (frame 0) -/
def lateThenEarly : List Doc :=
  [.start, .descriptor ⟨"d1", "primary", ["x"], ["img"]⟩, .resource "r" true,
   .event ⟨"d1", 1, [("x", .num 0), ("img", .str "r/0")], [("img", false)]⟩,
   .datum ⟨"r/1", "r", some 1⟩,
   .event ⟨"d1", 2, [("x", .num 1), ("img", .str "r/1")], [("img", false)]⟩,
   .datum ⟨"r/0", "r", some 0⟩]

/-- the later datum is converted first and swallows the first frame: [0,2) then [2,3) -/
theorem ranges_out_of_event_order :
    (NormFlow.run (lateThenEarly ++ [Doc.stop])).err = none ∧
    framed ("primary", "img") (NormFlow.run (lateThenEarly ++ [Doc.stop])).outs = [(0, 2), (2, 3)] ∧
    srcs (NormFlow.run (lateThenEarly ++ [Doc.stop])).outs = [⟨.str "r/1", "img", "d1", 2⟩, ⟨.str "r/0", "img", "d1", 1⟩] ∧
    refsFrom {} lateThenEarly = [⟨.str "r/0", "img", "d1", 1⟩, ⟨.str "r/1", "img", "d1", 2⟩] := by
  decide

theorem not_conversion_in_event_order_full : ¬ C35_conversion_in_event_order_full := by
  intro h
  have := h lateThenEarly (by intro d hd h; subst h; simp [lateThenEarly] at hd) (by decide)
  revert this
  decide

/-- in order, one single-frame file per event: both datums carry frame 0 -/
def repeatedFrame : List Doc :=
  [.start, .descriptor ⟨"d1", "primary", ["x"], ["img"]⟩, .resource "r" true,
   .datum ⟨"r/0", "r", some 0⟩,
   .event ⟨"d1", 1, [("x", .num 0), ("img", .str "r/0")], [("img", false)]⟩,
   .datum ⟨"r/1", "r", some 0⟩,
   .event ⟨"d1", 2, [("x", .num 1), ("img", .str "r/1")], [("img", false)]⟩, .stop]

/-- the second stream datum gets the empty range [1,1) -/
theorem empty_range : (NormFlow.run repeatedFrame).err = none ∧
    framed ("primary", "img") (NormFlow.run repeatedFrame).outs = [(0, 1), (1, 1)] := by decide

theorem not_ranges_nonempty_full : ¬ C35_ranges_nonempty_full := by
  intro h
  have := h repeatedFrame (by decide) ⟨"r/1", "r-img", "d1", 1, 1, 2, 2⟩ ⟨⟨.str "r/1", "img", "d1", 2⟩, some 0, "primary"⟩
    (by decide) (by intro f hf; simp at hf; omega)
  simp at this

/-- the table before fix a091d48: `datum` (and `resource`, `stream_resource`) made a shallow copy -/
def tableF12 : Table :=
  { generatedTable with copyKind := fun hd => match hd with
      | .datum | .resource | .streamResource => some .shallow
      | hd => generatedTable.copyKind hd }

theorem tableF12_unsafe : tableF12.safe = false := by decide

/-- heap: object 0 = `{"frame": 1}` (the datum_kwargs), object 1 = the datum document referencing it;
    object 2 = a stop document.  Calls: `datum(doc 1)` parks a shallow copy in the cache; `stop(doc 2)`
    pops "frame" from the cached datum's datum_kwargs -- which IS the caller's object 0. -/
def heapF12 : Heap := [[("frame", .atom 1)], [("datum_id", .atom 7), ("datum_kwargs", .ref 0)], [("uid", .atom 9)]]

def callsF12 : List Call :=
  [{ handler := .datum, input := 1, steps := [{ idx := 0 }] },
   { handler := .stop, input := 2, steps := [{ idx := 0, pick := 0 }] }]

theorem F12_mutates_input : (Normalizer.run tableF12 { heap := heapF12 } callsF12).heap[0]? = some [] := by decide
theorem fixed_keeps_input : (Normalizer.run generatedTable { heap := heapF12 } callsF12).heap[0]? = some [("frame", .atom 1)] := by decide

end BlueskyVerif.C35.Counterexamples
