/-
C42 counterexamples (finding F18 and relatives) -- NOT proof obligations.
Each theorem evaluates the model (Engine/Tracing.lean with the facts generated from the current
source) on a concrete history and shows that the full statement `C42_full` fails on it.  The same
histories are replayed on the real RunEngine by harness/props/C42.py (corpus/C42/*.json).
-/
import BlueskyVerif.Props.C42

namespace BlueskyVerif.C42.Counterexamples
open BlueskyVerif.Engine.Tracing BlueskyVerif.C42

/-! #### "span-status-swapped:non-lifo-close"
runs a (=0) and b (=1) open, close a with "fail", then b with "success":
`_close_run_trace` pops the LAST span whatever the run key. -/
def hSwap : List Op :=
  [.callBegin, .openRun 1 true, .openRun 2 true, .closeRun 1 (.given .fail), .closeRun 2 (.given .success),
   .callEnd .success]

theorem swap_observed :
    (run facts hSwap).stops = [(1, .success), (0, .fail)] ∧      -- RunStop: run 0 "fail", run 1 "success"
    (run facts hSwap).ended = [(0, .success), (1, .fail)] := by  -- spans : span 0 "success", span 1 "fail"
  decide

theorem swap_not_good : ¬ Good (run facts hSwap) := fun g =>
  absurd (g.own_status 0 .fail .success (by decide) (by decide)) (by decide)

/-! #### "span-never-ended:engine-closed-run"
the plan fails after `open_run`; the `finally` block of `_run` closes the run through the bundler
directly, `_close_run_trace` is not called: RunStop "fail" exists, the span is never ended (and stays
on `_run_tracing_spans` for the next call). -/
def hEngineClosed : List Op := [.callBegin, .openRun 1 true, .callEnd .fail]

theorem engine_closed_observed :
    (run facts hEngineClosed).stops = [(0, .fail)] ∧ (run facts hEngineClosed).ended = [] ∧
    (run facts hEngineClosed).spans = [0] ∧ (run facts hEngineClosed).runs = [] := by decide

theorem engine_closed_not_good : ¬ Good (run facts hEngineClosed) := fun g =>
  absurd (g.ended_once 0 (by decide) (by decide)) (by decide)

/-- ... and an abort in a LATER call ends that stale span as "aborted" although its run failed -/
def hStale : List Op :=
  [.callBegin, .openRun 1 true, .callEnd .fail, .callBegin, .openRun 1 true, .abort,
   .closeRun 1 (.given .abort), .callEnd .abort]

theorem stale_observed :
    (run facts hStale).stops = [(1, .abort), (0, .fail)] ∧
    (run facts hStale).ended = [(0, .aborted), (1, .aborted)] := by decide

/-! #### "span-leaked:rejected-open_run"
`open_run` on a key that is already open: the span is appended BEFORE the duplicate check, so the
rejected message leaves span 1 on the stack; the following `close_run` of run 0 pops span 1, and run
0's own span is never ended. -/
def hLeak : List Op :=
  [.callBegin, .openRun 1 true, .openRun 1 true, .closeRun 1 (.given .success), .callEnd .success]

theorem leak_observed :
    (run facts hLeak).opened = [0] ∧ (run facts hLeak).next = 2 ∧
    (run facts hLeak).ended = [(1, .success)] ∧ (run facts hLeak).spans = [0] := by decide

theorem leak_not_good : ¬ Good (run facts hLeak) := fun g =>
  absurd (g.span_is_run 1 (by decide)) (by decide)

theorem leak_run0_never_ended : endCount (run facts hLeak) 0 = 0 ∧ (0, Status.success) ∈ (run facts hLeak).stops := by
  decide

/-! #### "span-status-none:close_run-exit_status-None"
`bluesky.plan_stubs.close_run()` sends `exit_status=None`: RunStop says "success"
(`... or "success"`), the span attribute is `None` (`msg.kwargs.get("exit_status", self._exit_status)`
finds the key). -/
def hNone : List Op := [.callBegin, .openRun 0 true, .closeRun 0 (.given .pyNone), .callEnd .success]

theorem none_observed :
    (run facts hNone).stops = [(0, .success)] ∧ (run facts hNone).ended = [(0, .pyNone)] := by decide

theorem none_not_good : ¬ Good (run facts hNone) := fun g =>
  absurd (g.own_status 0 .success .pyNone (by decide) (by decide)) (by decide)

/-! #### "span-status-differs:close_run-default-status-after-abort"
after an abort request the engine status is "abort"; a run opened and closed WITHOUT the keyword by
the clean-up gets RunStop "success" but span status "abort". -/
def hDefaultAfterAbort : List Op :=
  [.callBegin, .openRun 0 true, .abort, .closeRun 0 (.given .abort), .openRun 0 true, .closeRun 0 .absent,
   .callEnd .abort]

theorem default_after_abort_observed :
    (run facts hDefaultAfterAbort).stops = [(1, .success), (0, .abort)] ∧
    (run facts hDefaultAfterAbort).ended = [(1, .abort), (0, .aborted)] := by decide

theorem default_after_abort_not_good : ¬ Good (run facts hDefaultAfterAbort) := fun g =>
  absurd (g.own_status 1 .success .abort (by decide) (by decide)) (by decide)

/-! #### "span-status-differs:aborted-run-closed-as-other"
the span is ended as "aborted" at the abort request; the plan catches the exception and closes the
run as "success". -/
def hAbortedOther : List Op :=
  [.callBegin, .openRun 0 true, .abort, .closeRun 0 (.given .success), .callEnd .success]

theorem aborted_other_not_good : ¬ Good (run facts hAbortedOther) := fun g =>
  absurd (g.own_status 0 .success .aborted (by decide) (by decide)) (by decide)

/-- the full statement is false for the current source -/
theorem C42_full_false : ¬ C42_full := fun h => swap_not_good (h hSwap)

/-- every one of these histories violates exactly the discipline hypothesis of the partial theorems -/
theorem all_undisciplined :
    disciplined facts hSwap = false ∧ disciplined facts hEngineClosed = false ∧ disciplined facts hLeak = false ∧
    disciplined facts hNone = false ∧ disciplined facts hDefaultAfterAbort = false ∧
    disciplined facts hAbortedOther = false ∧ disciplined facts hStale = false := by decide

end BlueskyVerif.C42.Counterexamples
