/-
C02: what happens to requests that land in the exit `sleep(0)` of `_run` (arrival S4: after the plan's last
message and before the engine closes the runs that are still open).  Evaluated on the model by the kernel;
`./check C02` replays the same scenarios on the real RunEngine (corpus/C02).  Not proof obligations.

REPAIRED (c) (fix: commit "abort/stop/halt record nothing when the transition is refused"): stop() accepted,
    RequestStop leaves the loop ('success'); an abort() arriving in the exit sleep is REFUSED (TransitionError
    stopping -> aborting).  `_abort_coro` used to store 'abort' and the reason BEFORE the state assignment that
    raised, so the RunStop said 'abort'/'requested'; it now assigns the state first and the RunStop says 'success'
    (`refused_abort_keeps_stop`, `refused_request_stores_nothing` below are now positive statements).

OBSERVATIONS, not findings (ruling: a request ACCEPTED after the plan has ended may or may not be reflected):
(a) halt() accepted there: RunEngineInterrupted, running -> halting -> idle, RunStop says 'success'
    (`_halt_coro` stores 'abort' only when paused, otherwise relies on the ladder, which has already run),
    whereas abort() at the same point gives 'abort' (`_abort_coro` stores it itself).
(b) request_suspend there while no checkpoint exists: running -> aborting -> idle, RunEngineInterrupted,
    RunStop says 'success' (FailedPause is never delivered).
-/
import BlueskyVerif.Props.C02

namespace BlueskyVerif.C02.Counterexample
open BlueskyVerif.Engine

def s0 : EState := {}
def msg (c : String) (i : Nat) : Msg := { cmd := c, mid := some i }

/-- plan: open_run, null -- the run is left open -/
def planOpen : Gen := .list [msg "open_run" 0, msg "null" 1]

def stops (s : EState) : List (String × String) :=
  (s.docs.filter (·.kind == "stop")).map (fun d => (d.exit, d.reason))

/-! (a) halt in the exit sleep -/
def finalA : EState := schedule 50 [(3, [.halt])] 1000 (startCall s0 planOpen)

set_option maxRecDepth 100000 in
theorem halt_after_plan_end_reports_success :
    finalA.arrivals = ["S1", "S1", "S1", "S4"] ∧
    finalA.trans = [(.idle, .running), (.running, .halting), (.halting, .idle)] ∧
    (outcomeOf "call" finalA).result = "raise:RunEngineInterrupted" ∧ stops finalA = [("success", "")] := by decide

/-- abort at the same point is reported as 'abort' -/
def finalA' : EState := schedule 50 [(3, [.abort])] 1000 (startCall s0 planOpen)

set_option maxRecDepth 100000 in
theorem abort_after_plan_end_reports_abort :
    finalA'.trans = [(.idle, .running), (.running, .aborting), (.aborting, .idle)] ∧
    stops finalA' = [("abort", "requested")] := by decide

/-! (b) suspension request in a non-resumable section, in the exit sleep -/
def planUnres : Gen := .list [msg "open_run" 0, msg "clear_checkpoint" 1, msg "null" 2]
def finalB : EState := schedule 50 [(4, [.suspend 0 none none none])] 1000 (startCall s0 planUnres)

set_option maxRecDepth 100000 in
theorem unresumable_suspend_after_plan_end_reports_success :
    finalB.arrivals = ["S1", "S1", "S1", "S1", "S4"] ∧
    finalB.trans = [(.idle, .running), (.running, .aborting), (.aborting, .idle)] ∧
    (outcomeOf "call" finalB).result = "raise:RunEngineInterrupted" ∧ stops finalB = [("success", "")] := by decide

/-! (c) a refused abort leaves the status of an accepted stop alone -/
def finalC : EState := schedule 50 [(1, [.stop]), (2, [.abort])] 1000 (startCall s0 planOpen)

set_option maxRecDepth 100000 in
theorem refused_abort_keeps_stop :
    finalC.arrivals = ["S1", "S1", "S4"] ∧
    finalC.trans = [(.idle, .running), (.running, .stopping), (.stopping, .idle)] ∧
    finalC.refused = ["abort"] ∧ stops finalC = [("success", "")] := by decide

/-- the general reason for (c): a refused request records nothing but the refusal -/
theorem refused_request_stores_nothing (s : EState) (k r : String) (hi : s.state ≠ .idle)
    (ht : (Src.transitions s.state).contains (termTarget k).1 = false) :
    (requestTerminate s k r).exitStatus = s.exitStatus ∧ (requestTerminate s k r).reason = s.reason ∧
    (requestTerminate s k r).interrupted = s.interrupted ∧ (requestTerminate s k r).state = s.state ∧
    (requestTerminate s k r).refused = s.refused ++ [k] := by
  rw [requestTerminate_refused s k r hi ht]
  exact ⟨rfl, rfl, rfl, rfl, rfl⟩

end BlueskyVerif.C02.Counterexample
