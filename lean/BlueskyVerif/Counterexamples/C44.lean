/-
C44 -- counterexample (NOT a proof obligation): the centre-of-mass clause of the property is false for the
code as it is (finding F20).  y = [0, 0] on x = [0, 1]: center_of_mass computes 0/0 = NaN and np.interp
returns NaN, which is not within the x range.  Same for y = [1, -2, 1].
-/
import BlueskyVerif.Props.C44

namespace BlueskyVerif.C44.Counterexamples
open BlueskyVerif.PeakStats BlueskyVerif.C44

def x2 : Vec := fun i => (i : Rat)
def yZero : Vec := fun _ => 0
def y121 : Vec := fun i => if i = 1 then -2 else 1

theorem com_nan_all_zero : (statsOf 2 x2 yZero none).com = none := by
  show com 2 x2 yZero = none
  rw [com_eq_none_iff]
  simp [sumFrom, weighted, yZero]

theorem com_nan_1_m2_1 : (statsOf 3 x2 y121 none).com = none := by
  show com 3 x2 y121 = none
  rw [com_eq_none_iff]
  simp [sumFrom, weighted, y121]
  norm_num

theorem com_in_range_full_is_false : ¬ C44_com_in_range_full := by
  intro h
  have hm : StrictMonotonic 2 x2 := Or.inl (fun i j hij _ => by simp only [x2]; exact_mod_cast hij)
  obtain ⟨c, hc, _⟩ := h 2 x2 yZero none (statsOf 2 x2 yZero none) (by decide) hm trivial rfl
  rw [com_nan_all_zero] at hc
  cases hc

end BlueskyVerif.C44.Counterexamples
