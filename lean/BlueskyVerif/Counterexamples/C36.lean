/-
C36 counterexamples (NOT proof obligations; built opportunistically).

1. concatenate_stream_datums: a zero-width range [3,3) that shares its start with [3,5).
   The set {[0,3), [3,3), [3,5)} is contiguous (in that arrangement), and the call with the
   arguments in the order ([0,3), [3,3), [3,5)) succeeds -- but in the order ([0,3), [3,5), [3,3))
   the stable sort keeps [3,5) before [3,3) and the adjacency test 5 != 3 raises ValueError.
2. ConsolidatorBase.chunks: join_method="concat", join_chunks=False, scalar datum (datum_shape ()),
   chunk_shape (2,): `self.datum_shape[0]` raises IndexError although shape == (num_rows,) is fine.
-/
import BlueskyVerif.Props.C36

namespace BlueskyVerif.C36
open BlueskyVerif.StreamDatum BlueskyVerif.Consolidator

def dA : SD := ⟨1, 7, 9, 0, 3, 1, 4⟩
def dB : SD := ⟨2, 7, 9, 3, 3, 4, 4⟩   -- zero width
def dC : SD := ⟨3, 7, 9, 3, 5, 4, 6⟩

theorem order_ok : concat [dA, dB, dC] = .ok ⟨3, 7, 9, 0, 5, 1, 6⟩ := rfl
theorem order_bad : concat [dA, dC, dB] = .error .valueError := rfl
theorem same_set : [dA, dC, dB].Perm [dA, dB, dC] := List.Perm.cons _ (List.Perm.swap _ _ _)

theorem C36_concat_full_false : ¬ C36_concat_full := by
  intro h
  have hw : WF [dA, dC, dB] := by
    intro d hd; simp at hd; rcases hd with rfl | rfl | rfl <;> decide
  have hacc : Acceptable [dA, dC, dB] := by
    refine ⟨by simp, ?_, ?_, ⟨[dA, dB, dC], same_set.symm, ?_⟩⟩
    · intro a ha b hb; simp at ha hb; rcases ha with rfl | rfl | rfl <;> rcases hb with rfl | rfl | rfl <;> rfl
    · intro a ha b hb; simp at ha hb; rcases ha with rfl | rfl | rfl <;> rcases hb with rfl | rfl | rfl <;> rfl
    · exact ⟨rfl, rfl, trivial⟩
  obtain ⟨r, hr⟩ := (h _ hw).mpr hacc
  rw [order_bad] at hr
  cases hr

theorem C36_chunks_defined_full_false : ¬ C36_chunks_defined_full := by
  intro h
  obtain ⟨cs, hcs⟩ := h ⟨[], [2], .concat, false, 3, []⟩ (by decide)
  have : chunks ⟨[], [2], .concat, false, 3, []⟩ = .error .indexError := rfl
  rw [this] at hcs
  cases hcs

end BlueskyVerif.C36
