/-
C32, behaviour OUTSIDE the property's domain (not a proof obligation): a handler that raises
StopIteration -- e.g. the handler installed by `add_callback_handler_for_multiple` once its `docs`
iterator is used up -- is caught by `simulate_plan`'s own `except StopIteration`: the call returns
the messages recorded so far as if the plan had finished and overwrites `return_value` with the
StopIteration's value (None), although the plan would have gone on (here: yield "b", return 42).
Reproduced on the real code: plan `a, a, b -> 42`, `add_callback_handler_for_multiple("a", [[..]])`
gives messages `[a, a]`, `return_value None`, no error.
-/
import BlueskyVerif.Pure.Simulator

namespace BlueskyVerif.Counterexamples.C32
open BlueskyVerif.Simulator

def plan : Plan String Int (Option Int) String
  | [] => .yld "a"
  | [_] => .yld "b"
  | _ => .ret (some 42)

def exhausted : Handler String Int (Option Int) String :=
  { pred := fun m => m == "a", run := fun _ => .stop none }

theorem handler_stopiteration_ends_the_run :
    simulate (fun _ => true) [exhausted] plan 10 = .done ["a"] (some none) := by decide

theorem without_the_handler :
    simulate (fun _ => true) [] plan 10 = .done ["a", "b"] (some (some 42)) := by decide

end BlueskyVerif.Counterexamples.C32
