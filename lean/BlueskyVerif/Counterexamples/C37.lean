/-
C37 counterexample (NOT a proof obligation; built opportunistically): on the current tree the
unrestricted statement `C37_full` is false -- template "%.0d", frame index 0:
printf prints "" (C11 7.21.6.1p8: "The result of converting a zero value with a precision of zero is
no characters"), the consolidator's template "{:00d}" gives "0".
-/
import BlueskyVerif.Props.C37

namespace BlueskyVerif.C37
open BlueskyVerif.PyStr BlueskyVerif.Printf

theorem inGrammar_dot0 : InGrammar [] none (some ['0']) :=
  ⟨⟨(by intro c hc; simp at hc), (by intro ws h; cases h),
    (by intro ps h; cases h; exact ⟨by simp, by intro c hc; simp at hc; subst hc; decide⟩)⟩,
   (by intro ps h; cases h; decide)⟩

theorem tmpl_dot0 : tmpl [] none (some ['0']) = "%.0d".toList := by decide

theorem C37_full_false : ¬ C37_full := by
  intro h
  obtain ⟨out, hc, hd⟩ := h [] none (some ['0']) 0 inGrammar_dot0
  have g := C37_gap_characterised [] none ['0'] inGrammar_dot0 (by decide)
  rw [g.1] at hc
  rw [g.2] at hd
  have h1 : out = signStr [] := (Option.some.inj hc).symm
  have h2 : out = signStr [] ++ ['0'] := (Option.some.inj hd).symm
  rw [h1] at h2
  simp [signStr, signOf] at h2

end BlueskyVerif.C37
