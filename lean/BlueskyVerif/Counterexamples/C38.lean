/-
C38 -- remarks that are NOT proof obligations (built opportunistically).

1. The function is not idempotent on inf: truncate(inf) = 1.7976e308 (a finite float, as the float clause
   of the property demands) but truncate(1.7976e308) = 2**53 - 1, because 1.7976e308 is itself an
   integral-valued float.  Under the strict reading ("every integral-valued output is within +-(2**53-1)")
   this would be a violation; the coordinator ruled the weak reading (see Props/C38.lean, `leafOK`).
2. `leafOK` with the input ignored (strict reading) is false on that output.
-/
import BlueskyVerif.Lemmas.C38

namespace BlueskyVerif.C38.Counterexamples
open BlueskyVerif.Truncate

theorem floatLit0_isInt : ∃ n : Int, floatLit0 = (n : Rat) ∧ 2 ^ 53 - 1 < n := by
  refine ⟨floatLit0.floor, ?_, ?_⟩
  · unfold floatLit0; norm_cast
  · unfold floatLit0
    rw [show ((179760000000000006699746331006432779834999560347169499422775468297879533801900767278522560117448960543732964692852119893626308821104497360505697836250617120976172762448953212986783241032151275729834404296629759766863339943960402267511615891272406407610325740465768229570134852362620779604604571267511984586752 : Rat)) = ((179760000000000006699746331006432779834999560347169499422775468297879533801900767278522560117448960543732964692852119893626308821104497360505697836250617120976172762448953212986783241032151275729834404296629759766863339943960402267511615891272406407610325740465768229570134852362620779604604571267511984586752 : Int) : Rat) by norm_cast, Rat.floor_intCast]
    norm_num

/-- truncate(truncate(inf)) = 2**53 - 1 ≠ truncate(inf) -/
theorem not_idempotent_on_inf :
    truncLeaf (truncLeaf (.flt .py .posInf)) = pyI (2 ^ 53 - 1) ∧
    truncLeaf (.flt .py .posInf) ≠ pyI (2 ^ 53 - 1) := by
  obtain ⟨n, hn, hbig⟩ := floatLit0_isInt
  rw [truncLeaf_posInf]
  refine ⟨?_, by simp [pyF, pyI]⟩
  rw [pyF, truncLeaf_fin_int .py floatLit0 n hn]
  have : ¬ (1 - 2 ^ 53 ≤ n ∧ n ≤ 2 ^ 53 - 1) := by omega
  have h2 : ¬ n < 1 - 2 ^ 53 := by omega
  rw [if_neg this, if_neg h2]

end BlueskyVerif.C38.Counterexamples
