/-
C13 counterexample (finding F6) -- NOT a proof obligation.
A `wait` on a pending status is interrupted by a pause request: the CancelledError is delivered inside the
command, the inner `finally` of `_run` pushes `new_response` (still `None`) into the slot of the `wait`
message; after `resume()` the rewind plan replays `set` + `wait`, the replay's responses go to the rewind
generator and are discarded, and the plan receives `None` for its `wait` instead of `True`.
The same scenario is replayed on the real RunEngine by harness/props/C13.py (signature
"response-lost:interrupted-blocking-command:wait").
-/
import BlueskyVerif.Props.C13
import BlueskyVerif.Engine.Ast

namespace BlueskyVerif.C13.Counterexamples
open BlueskyVerif.Engine BlueskyVerif.C13

/-- block level: `_run` suspended inside `wait` with all statuses of the group done, a cancellation delivered -/
def sWait : EState := { pc := .inWait "g", resp := some .none, planStack := [Gen.list []], respStack := [] }

theorem cancelled_wait_is_answered_none :
    inCmd sWait.pc = true ∧ pushedAnswer true sWait = some .none ∧ ownAnswer sWait = some (.bool true) := by decide

/-- hence the full statement fails -/
theorem C13_full_is_false : ¬ C13_full := fun h =>
  absurd (h true sWait .none (by decide) (by decide) (by decide)) (by decide)

/-! end to end: checkpoint; set m1 (pending status, group g); wait g -- pause requested at the quiescence
arrival (index 3) while `_run` is blocked inside the wait; then `resume()`. -/
def plan : Gen := (Stmt.seq [
  .msg { cmd := "checkpoint", mid := some 0 },
  .msg { cmd := "set", obj := some "m1", iargs := [3], name := some "g", mid := some 1 },
  .msg { cmd := "wait", name := some "g", mid := some 2 }]).toGen

def init : EState := { devSpecs := [{ name := "m1", kind := "motor", modes := [("set", ["pending"])] }] }
def script : Script := [(3, [Action.pause false])]

def afterCall : EState := schedule 300 script 1000 (startCall init plan)
def afterResume' : EState := schedule 300 script 1000 (startResume afterCall)

theorem the_call_pauses_inside_wait :
    afterCall.state = .paused ∧ afterCall.arrivals = ["S1", "S1", "S1", "quiesce"] ∧
    afterCall.yields = [(0, .send .none), (1, .send (.status 0))] := by decide

/-- the plan's `wait` (mid 2) receives `None`; the replayed `set`/`wait` (same mids 1, 2 in `msgs`) got their
    responses (`status 1`, `True`) discarded -/
theorem the_wait_receives_none :
    afterResume'.state = .idle ∧
    afterResume'.yields = [(0, .send .none), (1, .send (.status 0)), (2, .send .none)] ∧
    afterResume'.msgs.map (fun m => (m.cmd, m.mid)) =
      [("checkpoint", some 0), ("set", some 1), ("wait", some 2), ("set", some 1), ("wait", some 2)] := by decide

/-- without the pause the same plan receives `True` -/
theorem uninterrupted_wait_receives_true :
    (schedule 300 [] 1000 (startCall init plan)).yields =
      [(0, .send .none), (1, .send (.status 0)), (2, .send (.bool true))] := by decide

end BlueskyVerif.C13.Counterexamples
