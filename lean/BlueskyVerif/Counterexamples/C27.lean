/-
C27 -- record of the repaired defect (not a proof obligation; independent of the generated files).

Before the fix `spiral_fermat keeps points inside the requested y range when dr_y differs from dr`,
spiral_fermat tested `abs(y) <= half_y` with `half_y = y_range / (2*dr_aspect)` although `y` is
already multiplied by dr_aspect.  With dr_aspect < 1 that test accepts points outside the rectangle:
-/
import BlueskyVerif.Pure.SpiralBase

namespace BlueskyVerif.Counterexamples.C27
open BlueskyVerif.Pure.Spiral

/-- the pre-fix test of spiral_fermat -/
def oldFermatTest (x y dr_aspect tilt_tan half_x half_y : Rat) : Bool :=
  decide (rabs (x - (y / dr_aspect) / tilt_tan) ≤ half_x) && decide (rabs y ≤ half_y)

/-- x_range = y_range = 1, dr_aspect = 1/2 (dr = 1, dr_y = 1/2): half_y = 1; the candidate (0, 3/4)
    passes the old test although |y| = 3/4 > y_range/2 = 1/2. -/
theorem old_test_accepts_point_outside :
    oldFermatTest 0 (3/4) (1/2) 100 (1/2) (1 / (2 * (1/2))) = true ∧ ¬ (rabs (3/4 : Rat) ≤ 1 / 2) := by
  decide +kernel

end BlueskyVerif.Counterexamples.C27
