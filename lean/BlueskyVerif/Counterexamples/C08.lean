/-
C08 counterexample (finding F4, open): a pause request that lands in the exit `sleep(0)` of `_run`
(arrival S4, after the plan's last message) -- `RE(plan)` raises RunEngineInterrupted although the plan
ran to completion, the engine is idle and no abort/stop/halt/FailedPause happened.
Evaluated on the model by the kernel; the same scenario is replayed on the real RunEngine by
`./check C08` (signature `interrupted-but-idle-and-plan-complete:pause-request-at-S4`).
Not a proof obligation.
-/
import BlueskyVerif.Props.C08

namespace BlueskyVerif.C08.Counterexample
open BlueskyVerif.Engine

/-- plan: open_run, null, close_run (any plan does) -/
def plan : Gen := .list [{ cmd := "open_run", mid := some 0 }, { cmd := "null", mid := some 1 },
  { cmd := "close_run", mid := some 2 }]

/-- arrivals 0..3 are the loop-top sleeps S1, arrival 4 is the exit sleep S4: request a pause there -/
def script : Script := [(4, [.pause false])]

def s0 : EState := {}
def final : EState := schedule 50 script 1000 (startCall s0 plan)

set_option maxRecDepth 100000 in
theorem f4_arrivals : final.arrivals = ["S1", "S1", "S1", "S1", "S4"] := by decide

set_option maxRecDepth 100000 in
/-- the call raises RunEngineInterrupted, the engine is idle, the plan is done, every run is closed,
    and the only transitions are running -> pausing -> idle -/
theorem f4_outcome :
    final.blockingEvent = true ∧ (outcomeOf "call" final).result = "raise:RunEngineInterrupted" ∧
    final.state = .idle ∧ final.planDone = true ∧ final.bundlers = [] ∧
    final.trans = [(.idle, .running), (.running, .pausing), (.pausing, .idle)] := by decide

set_option maxRecDepth 100000 in
/-- hence the full statement is false on the model of the unchanged tree -/
theorem C08_full_is_false : ¬ C08_full := by
  intro h
  have h1 := (h 50 script 1000 s0 plan rfl f4_outcome.1).1 f4_outcome.2.1
  have hs : final.state = .idle := f4_outcome.2.2.1
  have ht : final.trans = [(.idle, .running), (.running, .pausing), (.pausing, .idle)] := f4_outcome.2.2.2.2.2
  rcases h1 with ⟨hp, _⟩ | ⟨_, _, p, hp, hterm⟩
  · have : final.state = .paused := hp
    rw [hs] at this; cases this
  · have hp' : p ∈ final.trans.drop s0.trans.length := hp
    rw [ht] at hp'
    simp [s0] at hp'
    rcases hp' with hp' | hp' | hp' <;> subst hp' <;> simp at hterm

/-- it is the second alternative of `C08_interrupted_idle_explained`: pausing -> idle was logged -/
example : PISeen s0.trans final := ⟨final.trans, by simp [s0], by rw [f4_outcome.2.2.2.2.2]; simp⟩

/-- the partial theorem does hold on it: the task has ended, idle, closed -/
example : Returned final := C08_interrupted_partial 50 script 1000 s0 plan rfl f4_outcome.1

end BlueskyVerif.C08.Counterexample
