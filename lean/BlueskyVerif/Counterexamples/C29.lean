/-
C29 -- counterexamples (NOT proof obligations; built opportunistically, reported as
"finding still reproduces in the model").

1. `adaptive_full_false` (finding F21): with `backstep = True`, `threshold = 3/2` and the linear detector
   I(p) = p, the ascending scan 0 → 5 reaches position 1/2 in its third iteration and then repeats the
   state (next_pos = 1/2, step = 1/2, past_I = 0) for ever: `new_step = clip(target/slope) = 1/2` is
   always `< step * threshold = 3/4`, so every iteration is a "backstep" that lands on the same point.
   Hence `C29_adaptive_full` is false, for ALL iteration counts (induction, not a bounded search).
2. `adaptive_threshold_one_nonterminating`: the hypothesis `threshold < 1` of
   `C29_adaptive_terminates_partial` is tight in exact arithmetic: with `threshold = 1` and the saturating
   detector I(p) = p / (p + 1/4) every iteration is a backstep with `new_step = (step + 1/4)/2`, strictly
   decreasing towards `min_step = 1/4` and never reaching it.  (IEEE doubles do reach it: on the real
   code this input terminates; see harness/props/C29.py.)
3. `tune_negative_centroid_outside`: for signals that are not non-negative the centroid computed by
   tune_centroid can lie outside [start, stop] (the property excludes this case by hypothesis); since the
   repair of the one-ulp park defect the final move is clamped, so the motor is parked at the limit.
-/
import BlueskyVerif.Props.C29

namespace BlueskyVerif.C29.Counterexamples
open BlueskyVerif.Pure BlueskyVerif.Pure.Adaptive BlueskyVerif.C29.AdaptiveLemmas

/-! ### 1. F21 -/

def cexP : Params :=
  { start := 0, stop := 5, minStep := 1/4, maxStep := 1, targetDelta := 1/2, backstep := true, threshold := 3/2 }
def cexI : Resp := fun _ p => p

def stuck (k : Nat) : St := { nextPos := 1/2, step := 1/2, pastI := some 0, k := k }

theorem stuck_iter (k : Nat) : iter cexP cexI (stuck k) = some (stuck (k + 1)) := by
  have e1 : AdaptiveGen.loopCond (1/2) cexP.stop cexP.start cexP.dir = true := by decide +kernel
  have e2 : AdaptiveGen.backCond cexP.backstep (newStep cexP (1/2) 0 (1/2)) (1/2) cexP.threshold = true := by
    decide +kernel
  have e3 : AdaptiveGen.backStep (1/2) (newStep cexP (1/2) 0 (1/2)) = 1/2 := by decide +kernel
  have e4 : AdaptiveGen.finalNext (AdaptiveGen.backNext (1/2) (1/2) (newStep cexP (1/2) 0 (1/2)) cexP.dir)
      (1/2) cexP.dir = 1/2 := by decide +kernel
  simp only [iter, live, stuck, e1, if_true, body, cexI, e2, e3, e4]

theorem stuck_forever (n : Nat) : iterN cexP cexI (n + 2) (init cexP) = some (stuck (n + 2)) := by
  induction n with
  | zero => decide +kernel
  | succ n ih => rw [iterN, ih]; exact stuck_iter (n + 2)

theorem adaptive_never_finishes : ∀ N, ¬ FinishedWithin cexP cexI N := by
  intro N h
  have := iterN_none_mono h (Nat.le_add_right N 2)
  rw [stuck_forever N] at this
  exact absurd this (by simp)

/-- the full statement of the adaptive half of C29 is FALSE -/
theorem adaptive_full_false : ¬ C29_adaptive_full := by
  intro h
  obtain ⟨_, N, hN⟩ := h cexP cexI (by decide +kernel)
  exact adaptive_never_finishes N hN

/-- concrete form: after 1000 loop iterations the plan is still running and the motor is still at 1/2 -/
example : (iterN cexP cexI 1000 (init cexP)).map (·.nextPos) = some (1/2) := by
  rw [show 1000 = 998 + 2 from rfl, stuck_forever]; rfl
example : (iterN cexP cexI 60 (init cexP)).map (·.nextPos) = some (1/2) := by decide +kernel

/-! ### 2. threshold = 1 is already too much in exact arithmetic -/

def satP : Params :=
  { start := 0, stop := 5, minStep := 1/4, maxStep := 2, targetDelta := 1/2, backstep := true, threshold := 1 }
/-- a saturating (Michaelis-Menten shaped) detector response -/
def satI : Resp := fun _ p => p / (p + 1/4)

/-- every iteration after the first: `past_I = 0` (the reading at `start = 0`), the motor sits at
    `start + step`, and `min_step < step ≤ max_step` -/
def Sat (s : St) : Prop := s.pastI = some 0 ∧ s.nextPos = s.step ∧ 1/4 < s.step ∧ s.step ≤ 2

theorem sat_newStep (x : Rat) (h1 : 1/4 < x) (h2 : x ≤ 2) :
    newStep satP x 0 (x / (x + 1/4)) = (x + 1/4) / 2 := by
  have hx : 0 < x := by linarith
  have hden : 0 < x + 1/4 := by linarith
  have hcur : 0 < x / (x + 1/4) := div_pos hx hden
  have hsl : x / (x + 1/4) / x = 1 / (x + 1/4) := by field_simp
  have hne : (1 / (x + 1/4) != 0) = true := by
    simp only [bne_iff_ne, ne_eq]; exact ne_of_gt (div_pos one_pos hden)
  have htd : (1/2 : Rat) / (1 / (x + 1/4)) = (x + 1/4) / 2 := by field_simp
  unfold newStep
  simp only [AdaptiveGen.dI, AdaptiveGen.slope, AdaptiveGen.slopeTruthy, AdaptiveGen.newStepSloped, sub_zero,
    C29.rabs_eq_abs, abs_of_pos hcur, hsl, hne, if_true, satP, htd]
  unfold C29.rclip C29.rmin C29.rmax
  split_ifs <;> linarith

theorem sat_step {s : St} (h : Sat s) : ∃ s', iter satP satI s = some s' ∧ Sat s' := by
  obtain ⟨hp, hn, h1, h2⟩ := h
  have hdir : satP.dir = 1 := by decide +kernel
  have hl : live satP s = true := by
    rw [live_iff, hdir, hn]; simp only [satP]; linarith
  refine ⟨body satP satI s, by simp [iter, hl], ?_⟩
  have hns := sat_newStep s.step h1 h2
  have hback : AdaptiveGen.backCond satP.backstep (newStep satP s.step 0 (satI s.k s.nextPos)) s.step satP.threshold = true := by
    rw [backCond_iff]; simp only [satI, hn, hns]; constructor
    · rfl
    · simp only [satP]; linarith
  unfold body
  rw [hp]; simp only [hback, if_true]
  simp only [satI, hn, hns, AdaptiveGen.finalNext, AdaptiveGen.backNext, AdaptiveGen.backStep, hdir]
  refine ⟨rfl, by ring, by linarith, by linarith⟩

theorem sat_forever (n : Nat) : ∃ s, iterN satP satI (n + 1) (init satP) = some s ∧ Sat s := by
  induction n with
  | zero =>
    refine ⟨{ nextPos := 7/8, step := 7/8, pastI := some 0, k := 1 }, by decide +kernel, rfl, rfl, ?_, ?_⟩ <;> norm_num
  | succ n ih =>
    obtain ⟨s, hs, hsat⟩ := ih
    obtain ⟨s', hs', hsat'⟩ := sat_step hsat
    exact ⟨s', by rw [iterN, hs]; exact hs', hsat'⟩

/-- with `threshold = 1` (and exact arithmetic) the plan never finishes on this smooth, bounded,
    monotone detector: the hypothesis `threshold < 1` cannot be weakened to `threshold ≤ 1` -/
theorem adaptive_threshold_one_nonterminating : ∀ N, ¬ FinishedWithin satP satI N := by
  intro N h
  have := iterN_none_mono h (Nat.le_add_right N 1)
  obtain ⟨s, hs, _⟩ := sat_forever N
  rw [hs] at this
  exact absurd this (by simp)

/-! ### 3. negative signals -/

def cexT : Tune.Params := { start := 0, stop := 8, minStep := 1/4, num := 5, stepFactor := 2, snake := false }
/-- -1 at position 0, +2 at position 8, 0 elsewhere -/
def cexIT : Tune.Resp := fun _ p => if p == 0 then -1 else if p == 8 then 2 else 0

/-- the raw centroid of the first pass is 16, outside [0, 8]; the clamp before the final move parks the
    motor at 8 instead -- so for signed signals the park position is NOT the centroid -/
theorem tune_negative_centroid_outside :
    Tune.Parks cexT cexIT 8 ∧
    (∃ s, Tune.iterN cexT cexIT 5 (Tune.start0 cexT) = .run s ∧ s.peak = some 16) ∧
    ¬ ((16 : Rat) ≤ max cexT.start cexT.stop) :=
  ⟨⟨by decide +kernel, by decide +kernel, 6, by decide +kernel⟩,
   ⟨Tune.recentre cexT cexIT (Tune.cont cexIT (Tune.cont cexIT (Tune.cont cexIT (Tune.cont cexIT (Tune.init cexT))))),
     by decide +kernel, by decide +kernel⟩,
   by norm_num [cexT]⟩

end BlueskyVerif.C29.Counterexamples
