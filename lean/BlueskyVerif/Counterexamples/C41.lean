/-
C41 counterexample (finding F17): a suspension while a signal is monitored.

`_start_suspender` never calls suspend_monitors, `_resume_from_suspender` (`_resume`) calls
restore_monitors: the registration stays during the suspension (an update IS reported) and a second
one is added at the end (every later update is reported twice) -- until the next pause / unmonitor /
run end removes every copy.  Not proof obligations of the property; they document why `C41_full` is
only proved as `C41_partial`.
-/
import BlueskyVerif.Props.C41

namespace BlueskyVerif.C41.Counterexample
open BlueskyVerif.Engine BlueskyVerif.C41

/-- GENERAL: `_start_suspender` leaves every subscription list exactly as it was -/
theorem start_suspender_keeps_subscriptions (s : EState) (m : Msg) (n : String) :
    subsOf (cmdStartSuspender s m).1 n = subsOf s n := subsOf_cmdStartSuspender s m n

/-- GENERAL: `_resume_from_suspender` appends one registration per monitor, whatever is there -/
theorem resume_from_suspender_adds_subscriptions (s : EState) (n : String) :
    subsOf (cmdResumeFromSuspender s).1 n = subsOf s n ++ restored s.bundlers n := subsOf_cmdResumeFromSuspender s n

/-- one run (id 0) monitoring s1, its registration in place, one pending suspension request -/
def b0 : Bundler := { runId := 0, monitors := [("s1", "s1_monitor")] }
def s0 : EState :=
  { bundlers := [("", b0)], devs := [("s1", { subs := [(0, "s1_monitor")] })],
    suspReqs := [{ fut := 0, pre := none, post := none, just := none }] }
def startMsg : Msg := { cmd := "_start_suspender", iargs := [0] }

theorem s0_request : s0.suspReqs[(startMsg.iargs.headD 0).toNat]? = some { fut := 0, pre := none, post := none, just := none } := rfl

/-- during the suspension the registration is still there ... -/
theorem subscribed_during_suspension : subsOf (cmdStartSuspender s0 startMsg).1 "s1" = [(0, "s1_monitor")] := by
  rw [subsOf_cmdStartSuspender]; rfl

/-- ... so an update during the suspension is reported (one event of run 0 in 's1_monitor') -/
theorem update_during_suspension_reported :
    ∃ new, (monitorUpdate (cmdStartSuspender s0 startMsg).1 "s1" 7).docs = (cmdStartSuspender s0 startMsg).1.docs ++ new ∧
      new.map Doc.core = [("event", 0, "s1_monitor", [("s1", 7)])] := by
  obtain ⟨j, rw, hb2⟩ := cmdStartSuspender_bundlers s0 startMsg _ s0_request
  have hbund : keys (cmdStartSuspender s0 startMsg).1.bundlers = [""] := by rw [hb2]; rfl
  have hrid : (cmdStartSuspender s0 startMsg).1.bundlers.map (fun kb => kb.2.runId) = [0] := by
    rw [hb2]
    simp only [mapB, s0, List.map_cons, List.map_nil]
    cases rw
    · simp [resetN_runId, intBundler_runId, b0]
    · simp [rewind_runId, resetN_runId, intBundler_runId, b0]
  have := update_emits_one_event_per_subscription (cmdStartSuspender s0 startMsg).1 "s1" 7
    (by rw [hbund]; simp)
    (by rw [subscribed_during_suspension, hrid]; simp)
  rw [subscribed_during_suspension] at this
  exact this

/-- the suspension clause of `C41_full` is false -/
theorem start_suspender_does_not_silence : ¬ NoMonSubs (cmdStartSuspender s0 startMsg).1 := by
  intro h
  obtain ⟨j, rw, hb2⟩ := cmdStartSuspender_bundlers s0 startMsg _ s0_request
  have hmem : ("", (fun b => if rw then (resetN j (intBundler b)).rewind else resetN j (intBundler b)) b0) ∈
      (cmdStartSuspender s0 startMsg).1.bundlers := by rw [hb2]; simp [mapB, s0]
  have hmon : ((fun b => if rw then (resetN j (intBundler b)).rewind else resetN j (intBundler b)) b0).monitors = [("s1", "s1_monitor")] := by
    cases rw
    · simp [resetN_monitors, intBundler_monitors, b0]
    · simp [rewind_monitors, resetN_monitors, intBundler_monitors, b0]
  have hrid : ((fun b => if rw then (resetN j (intBundler b)).rewind else resetN j (intBundler b)) b0).runId = 0 := by
    cases rw
    · simp [resetN_runId, intBundler_runId, b0]
    · simp [rewind_runId, resetN_runId, intBundler_runId, b0]
  have := h _ hmem ("s1", "s1_monitor") (by rw [hmon]; simp)
  apply this
  simp only []
  rw [hrid, subscribed_during_suspension]; simp

theorem C41_full_is_false : ¬ C41_full := by
  intro h
  exact start_suspender_does_not_silence (h.2.2.1 s0 startMsg ⟨_, s0_request⟩)

/-- after the suspension the callback is registered twice: every update is reported twice -/
theorem subscribed_twice_after_suspension :
    subsOf (cmdResumeFromSuspender (cmdStartSuspender s0 startMsg).1).1 "s1" = [(0, "s1_monitor"), (0, "s1_monitor")] := by
  rw [subsOf_cmdResumeFromSuspender, subscribed_during_suspension]
  obtain ⟨j, rw, hb2⟩ := cmdStartSuspender_bundlers s0 startMsg _ s0_request
  rw [hb2]
  cases rw
  · simp [restored, mapB, s0, resetN_monitors, resetN_runId, intBundler_monitors, intBundler_runId, b0]
  · simp [restored, mapB, s0, rewind_monitors, rewind_runId, resetN_monitors, resetN_runId, intBundler_monitors, intBundler_runId, b0]

end BlueskyVerif.C41.Counterexample
