/-
C11 counterexample (finding F5, overlapping suspensions) -- NOT a proof obligation.

Signature "plan-resumed-while-first-suspension-still-held:overlapping-suspensions".
Mechanism, in the model exactly as in run_engine.py: a second `request_suspend` (future 1) arrives while the
helper of the first suspension sits in `wait_for [future 0]`.  The request cancels the `_run` task; the
`except CancelledError` branch for state 'suspending' just goes on, and the inner `finally` pushes `None` as the
response of the cancelled `wait_for` -- the wait now looks completed.  The second helper runs on top; when ITS
future is released and it returns, the first helper is resumed with that `None`, yields `_resume_from_suspender`
and the plan goes on although future 0 was never released.
The same scenario is replayed on the real RunEngine by harness/props/C11.py (`minimal_f5`).
-/
import BlueskyVerif.Props.C11

namespace BlueskyVerif.C11.Counterexamples
open BlueskyVerif.Engine BlueskyVerif.C11

/-! #### the step: a cancelled `wait_for` resumes with response `None`, whatever the future -/

/-- For EVERY state blocked in `wait_for [f]` in state 'suspending' with a cancellation pending -- released or not --
    the `CancelledError` handler goes on at the loop top with `None` pushed as the response of the wait: -/
theorem cancelled_wait_counts_as_done (s : EState) (r0 : Resp) (hst : s.state = .suspending) (hr : s.resp = some r0) :
    hCancel s .none = .loopTop { s with respStack := .none :: s.respStack, resp := none } := by
  unfold hCancel
  simp [hst, Src.cancelMap, fin, hr]

/-! #### the run: checkpoint, null, null; suspend on future 0; while it waits, suspend on future 1; release 1 only -/

def plan : Gen := Gen.list [{ cmd := "checkpoint", mid := some 0 }, { cmd := "null", mid := some 1 }, { cmd := "null", mid := some 2 }]
def script : Script := [(1, [.suspend 0 none none none]), (5, [.suspend 1 none none none]), (9, [.release 1])]
def sc : Scenario := { devSpecs := [], recordInterruptions := false, plan := plan, script := script, decisions := [], maxArrivals := 60 }

/-- what the model does: future 0 is never released, both `_start_suspender` ran, and the plan's `null` messages
    (ids 1, 2) ran after them; the call returned normally with state idle, never paused / aborted -/
theorem f5_observed :
    (simulate sc).1.futs = [1] ∧
    (simulate sc).1.msgs.map (fun m => (m.cmd, m.mid)) =
      [("checkpoint", some 0), ("_start_suspender", none), ("rewindable", none), ("wait_for", none),
       ("_start_suspender", none), ("rewindable", none), ("wait_for", none), ("_resume_from_suspender", none),
       ("rewindable", none), ("_resume_from_suspender", none), ("rewindable", none), ("null", some 1), ("null", some 2)] ∧
    (simulate sc).1.trans = [(.idle, .running), (.running, .suspending), (.suspending, .running), (.running, .suspending),
                             (.suspending, .running), (.running, .idle)] ∧
    (simulate sc).2.map (fun o => (o.op, o.result)) = [("call", "return")] := by
  decide

/-- hence the full statement is false -/
theorem overlapping_full_is_false : ¬ C11_overlapping_full := by
  intro h
  have hplain : plainScript sc.script := by
    intro p hp a ha
    simp only [sc, script, List.mem_cons, List.not_mem_nil, or_false] at hp
    rcases hp with rfl | rfl | rfl
    · simp only [List.mem_singleton] at ha; subst ha; exact Or.inl ⟨0, none, rfl⟩
    · simp only [List.mem_singleton] at ha; subst ha; exact Or.inl ⟨1, none, rfl⟩
    · simp only [List.mem_singleton] at ha; subst ha; exact Or.inr ⟨1, rfl⟩
  have htr : ∀ t ∈ (simulate sc).1.trans, t.2 = .running ∨ t.2 = .suspending ∨ t.2 = .idle := by
    rw [f5_observed.2.2.1]; decide
  have hreq : (simulate sc).1.suspReqs[0]?.map (·.fut) = some 0 := by decide
  cases hq : (simulate sc).1.suspReqs[0]? with
  | none => rw [hq] at hreq; cases hreq
  | some rq =>
    rw [hq] at hreq
    have hfut : rq.fut = 0 := by simpa using hreq
    have hunrel : (simulate sc).1.futs.contains rq.fut = false := by rw [hfut, f5_observed.1]; decide
    have hmsgs : (simulate sc).1.msgs =
        [{ cmd := "checkpoint", mid := some 0 }] ++ startMsg 0 ::
          ((simulate sc).1.msgs.drop 2) := by decide
    have := h sc hplain htr 0 rq hq hunrel _ _ hmsgs { cmd := "null", mid := some 1 } (by decide)
    cases this

end BlueskyVerif.C11.Counterexamples
