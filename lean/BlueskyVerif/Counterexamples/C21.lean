/-
Counterexamples/C21.lean -- finding F9 reproduced in the model (NOT a proof obligation of C21; if
the code is repaired this file is expected to stop compiling).

`msgs_seen` is keyed by `id(msg)`: only the very message OBJECT that went through the processor is
protected.  A head (or tail) plan that yields a FRESH Msg object has that object passed to msg_proc
and the answer is honoured -- inserted messages ARE re-processed.
-/
import BlueskyVerif.Props.C21

namespace BlueskyVerif.C21.Counterexample
open BlueskyVerif.Gen BlueskyVerif.C21

/-- host: `yield Msg('null', 1)` -/
def host : Stmt := .yield 1 true

/-- the processor replaces message 1 by the head `yield Msg('null', 2)` and message 2 by the head
    `yield Msg('null', 3)` -/
def proc : Proc Msg Val Val Exc := fun log m =>
  if m.payload = 1 then (some (interp [1, log.length, 0] (.yield 2 true)), none)
  else if m.payload = 2 then (some (interp [1, log.length, 0] (.yield 3 true)), none)
  else (none, none)

/-- If inserted messages were not re-processed, the caller would see head's message 2.  It sees 3:
    the inserted message 2 went through the processor again. -/
theorem inserted_head_message_is_reprocessed :
    payloads (run (planMutator 10 Msg.ident proc (interp [0] host)) [.send none]) = [.yld 3] := by
  decide

/-- the same for a tail: the processor answers `(None, tail)` for 1, the tail yields a fresh 2,
    which is replaced by 3 -/
def procT : Proc Msg Val Val Exc := fun log m =>
  if m.payload = 1 then (none, some (interp [1, log.length, 1] (.yield 2 true)))
  else if m.payload = 2 then (some (interp [1, log.length, 0] (.yield 3 true)), none)
  else (none, none)

theorem inserted_tail_message_is_reprocessed :
    payloads (run (planMutator 10 Msg.ident procT (interp [0] host)) [.send none, .send (some 7)])
      = [.yld 1, .yld 3] := by
  decide

/-- a state in which the inserted head (generator id 1) is about to yield its fresh message 2 -/
def sBad : PM Msg (List Nat) Val Val Exc :=
  { msgsSeen := [[0, 0]], planStack := [(1, Pos.new (interp [1, 0, 0] (.yield 2 true))),
      (0, ⟨interp [0] host, [.send none], .live⟩)],
    resultStack := [none], tailCache := [(1, none)], tailResultCache := [], exception := none,
    retValue := none, ret := none, nextId := 3, procLog := [⟨[0, 0], 1⟩] }

def isYield : PMRes Msg (List Nat) Val Val Exc → Bool
  | .yield _ _ => true
  | _ => false

/-- the full claim `C21_full` is false -/
theorem C21_full_refuted : ¬ C21_full := by
  intro h
  obtain ⟨s', hs, _⟩ := h Msg (List Nat) Val Val Exc Msg.ident proc sBad 1
    (Pos.new (interp [1, 0, 0] (.yield 2 true)))
    ⟨interp [1, 0, 0] (.yield 2 true), [.send none], .live⟩
    [(0, ⟨interp [0] host, [.send none], .live⟩)] none [] ⟨[1, 0, 0, 0], 2⟩
    (by decide) rfl rfl rfl rfl
  have : isYield (pmIter Msg.ident proc sBad) = false := by decide
  rw [hs] at this
  simp [isYield] at this

end BlueskyVerif.C21.Counterexample
