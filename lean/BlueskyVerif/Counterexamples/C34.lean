/-
C34 counterexample (NOT a proof obligation): the full line-level statement is false for a
pre-existing file that does not end with a newline -- JSONLinesWriter opens in append mode and writes
`dumps ++ "\n"` without first terminating the last old line, so the first new record is glued to it.
-/
import BlueskyVerif.Props.C34

namespace BlueskyVerif.C34
open BlueskyVerif.JsonWriter

/-- pre-existing content `{"a":1}` (no trailing newline), one new record `{"b":2}`: the file has ONE
    line `{"a":1}{"b":2}` instead of two. -/
theorem C34_lines_full_false : ¬ C34_lines_full := by
  intro h
  have := h "x" ["y"] (by simp)
  simp [concatAll] at this
  revert this
  decide

/-- the same in the model of the writer itself: old content "x", one call with text "y" -/
example : ∃ c, (runCalls (linesCall "d") ⟨some "f.jsonl"⟩ [("f.jsonl", "x")] [⟨"event", "y", none⟩]).2.1.get "f.jsonl" = some c
    ∧ c = "x" ++ concatAll ["y" ++ "\n"] := by
  have := (C34_lines_append "d" ⟨some "f.jsonl"⟩ [("f.jsonl", "x")] ⟨"event", "y", none⟩ [] "" (by simp)).1
  refine ⟨_, ?_, rfl⟩
  have hf : linesFile "d" ⟨some "f.jsonl"⟩ ⟨"event", "y", none⟩ "" = "f.jsonl" := by
    simp [linesFile, truthy]
  rw [hf] at this
  rw [this]
  simp [FS.get, List.lookup, concatAll]

end BlueskyVerif.C34
