/-
C34, historical counterexample (NOT a proof obligation; finding repaired in /repo by the commit
"fix: JSONLinesWriter starts a new line when appending to a file without a trailing newline").

Before the repair JSONLinesWriter wrote `dumps ++ "\n"` directly after the old content.  Without the
`lineFix` term of `C34_lines_full` the line-level statement is false for a pre-existing file that
does not end with a newline: the first new record is glued to the last old line.
-/
import BlueskyVerif.Props.C34

namespace BlueskyVerif.C34
open BlueskyVerif.JsonWriter

/-- pre-existing content `x` (no trailing newline), one new record `y`: the unrepaired text `xy\n`
    has ONE line instead of two. -/
theorem C34_lines_unrepaired_false :
    ¬ (∀ (pre : String) (texts : List String), (∀ t ∈ texts, '\n' ∉ t.toList) →
        linesOf (pre ++ concatAll (texts.map (· ++ "\n"))).toList = linesOf pre.toList ++ texts.map String.toList) := by
  intro h
  have := h "x" ["y"] (by simp)
  simp [concatAll] at this
  revert this
  decide

end BlueskyVerif.C34
