/-
Gen/Paired.lean -- the paired-action wrappers of src/bluesky/preprocessors.py (C23) as the
compositions the source uses:

* `run_wrapper`           = `open_run`; `contingency_wrapper(plan, except_plan=.., else_plan=close_run)`
* `stage_wrapper`         = `finalize_wrapper(stage_all(..); plan,  unstage_all(reversed ..))`
* `subs_wrapper`          = `finalize_wrapper(_subscribe(); plan,  _unsubscribe())`      (closure `tokens`)
* `suspend_wrapper`       = `finalize_wrapper(_install(); plan,  _remove())`
* `lazily_stage_wrapper`  = `finalize_wrapper(plan_mutator(plan, inner), inner_unstage_all())`
                                                                             (closure `devices_staged`)
* `monitor_during_wrapper`, `fly_during_wrapper` = two nested `plan_mutator`s.

`finalize_wrapper`, `contingency_wrapper` (Gen/Wrappers.lean), `plan_mutator` (Gen/Mutators.lean) and
`yield from` (Gen/YieldFrom.lean) are the shared models; the small inner generators are `Prog`s
(Gen/PairedBasic.lean) transcribed statement by statement; the order / argument / table facts come
from Gen/GeneratedPaired.lean (extracted from the current source on every run).

Closure variables.  Three wrappers share a mutable variable between the wrapped part and the
cleanup generator (`tokens`, `devices_staged`; for C24 `initial_positions`).  The cleanup generator
object is created eagerly but its body only starts when `finalize_wrapper` reaches its `finally`
block; what it then reads is a function of the inputs the wrapped part has received.  This is
`finalizeClosure`: `finalize_wrapper` (same phase machine, pause_for_debug=False) whose final plan is
given as a function of the body's input history.  (`Lemmas/C23Closure.lean` proves that for a
constant function it IS `finalizeWrapper` of Gen/Wrappers.lean.)

`lazily_stage_wrapper`'s (and `relative_set_wrapper`'s, `reset_positions_wrapper`'s) processor reads
and the head generators it returns write such a variable.  `envMutator` is `plan_mutator` -- the shared
`pmStep`, unchanged -- with that variable threaded alongside: before a resume is passed to `pmStep`
the variable is updated if the inserted generator on top of plan_mutator's stack is suspended at its
first yield (a query such as `stage root`) and is being sent the response (`updAsk`: the statement
after that yield); after the step it is updated if a head that writes before its first yield was
just started (`updSilent`); the processor handed to `pmStep` reads the current value.
-/
import BlueskyVerif.Gen.Mutators
import BlueskyVerif.Gen.Wrappers
import BlueskyVerif.Gen.GeneratedPaired
import BlueskyVerif.Gen.PairedDuring

namespace BlueskyVerif.Gen

/-- what the wrappers look at in a response -/
structure RespView (R : Type) where
  /-- the list a `stage d` message was answered with (`none`: the response is None) -/
  asDevs : Dev → R → Option (List Dev)
  /-- `isinstance(ret, Status)` -/
  isStatus : R → Bool
  /-- a token / number, for messages that carry a response back (`unsubscribe(token=..)`) -/
  asInt : R → Option Int

section
variable {R E : Type} [Inhabited R] [DecidableEq R] [PyExc E]

/-- `return (yield from g)` -/
def Beh.retFrom {M V : Type} [Inhabited V] (g : Beh M R V E) : Beh M R V E := Beh.bind g Beh.pure

/-- the `close_run(...)` message of a call described by `a`, `e` being the caught exception -/
def CloseArgs.msg (info : ExcInfo E) (a : CloseArgs) (e : Option E) : PMsg :=
  closeRunMsg
    (match a.status with
     | .absent => none
     | .const s => some s
     | .ofExc => e.map info.exitStatus)
    (if a.reason then e.map info.text else none)

/-! ### run_wrapper -/

/-- run_wrapper's `except_plan(e)` -/
def rwExceptPlan (info : ExcInfo E) (e : E) : PBeh R E :=
  if isControl e then oneMsg (Generated.rwControlClose.msg info (some e))
  else oneMsg (Generated.rwOtherClose.msg info (some e))

/-- `run_wrapper(plan, md=md)` -/
def runWrapper (info : ExcInfo E) (md : Option Int) (plan : PBeh R E) : PBeh R E :=
  -- rs_uid = yield from open_run(md)
  Beh.bind (oneMsg (openRunMsg md)) fun uid =>
    -- yield from contingency_wrapper(plan, except_plan=except_plan, else_plan=close_run)
    Beh.bind (contingencyWrapper (Beh.pure default) false (some (rwExceptPlan info))
        (some (oneMsg (Generated.rwElseClose.msg info none))) none true plan) fun _ =>
      -- return rs_uid
      Beh.pure uid

/-! ### stage_wrapper -/

/-- `stage_all(*devs)` / `unstage_all(*devs)` (`cmd`), group `g`; `any` = a Status was received -/
def stageAllProg (view : RespView R) (cmd : Command) (g : Nat) : List Dev → Bool → Prog PMsg R R E
  | [], any => if any then .yield (waitMsg g) (fun _ => .ret default) else .ret default
  | d :: ds, any =>
    .yield (devMsg cmd d (some g)) (fun r => stageAllProg view cmd g ds (any || view.isStatus r))

/-- the roots that stage_wrapper works on: `separate_devices(root_ancestor(d) for d in devices)` -/
def stageRoots (t : DevTree) (devices : List Dev) : List Dev :=
  separateDevices t (devices.map (rootAncestor t))

/-- `stage_wrapper(plan, devices)` -/
def stageWrapper (view : RespView R) (t : DevTree) (devices : List Dev) (plan : PBeh R E) :
    PBeh R E :=
  let devs := stageRoots t devices
  -- def inner(): yield from stage_devices(); return (yield from plan)
  let inner := Beh.bind (stageAllProg view .stage 0 (Generated.swStageOrder.apply devs) false).beh
    fun _ => plan
  let unstage := (stageAllProg view .unstage 1 (Generated.swUnstageOrder.apply devs) false).beh
  Beh.retFrom (finalizeWrapper (Beh.pure default) false unstage inner)

end

/-! ### finalize_wrapper with a final plan that reads closure variables -/

section
variable {M R V E : Type} [Inhabited R] [DecidableEq R] [Inhabited V] [PyExc E]

/-- program points of `finalizeClosure` -/
inductive FCPh (M R V E : Type) where
  | init
  | body (p : Pos M R V E)                          -- in `ret = yield from plan`
  | fin (pend : Pending V E) (p : Pos M R V E)      -- in `yield from final_plan` (outcome pending)
  | done

/-- a step of `yield from ensure_generator(final_plan_instance)` gave `r` -/
def fcOnFinal (pend : Pending V E) : YfRes M R V E → Out M V E × FCPh M R V E
  | .yld m p => (.yld m, .fin pend p)
  | .done _ => (pend.toOut, .done)
  | .raised x => (.raise x, .done)

/-- a step of `ret = yield from plan` gave `r`; `ins` = what the body has received (after `next`) -/
def fcOnBody (final : List (Inp R E) → Beh M R V E) (ins : List (Inp R E)) :
    YfRes M R V E → Out M V E × FCPh M R V E
  | .yld m p => (.yld m, .body p)
  | .done v => fcOnFinal (.ret v) (yfStart (Pos.new (final ins)))
  | .raised e =>
    match dispatch Generated.fwClauses e with
    | .closed => (.raise e, .done)              -- except GeneratorExit: cleanup = False; raise
    | _ => fcOnFinal (.exc e) (yfStart (Pos.new (final ins)))   -- (pause_for_debug False) raise -> finally

def fcStep (final : List (Inp R E) → Beh M R V E) (plan : Beh M R V E) :
    FCPh M R V E → Inp R E → Out M V E × FCPh M R V E
  | .init, _ => fcOnBody final [] (yfStart (Pos.new plan))
  | .body p, i => fcOnBody final (p.hist.tail ++ [i]) (yfStep p i)
  | .fin pend p, i => fcOnFinal pend (yfStep p i)
  | .done, _ => (.ret default, .done)

/-- `finalize_wrapper(plan, final_plan)` where `final_plan`, when it starts, behaves as
    `final ins`, `ins` being the inputs `plan` has received -/
def finalizeClosure (final : List (Inp R E) → Beh M R V E) (plan : Beh M R V E) : Beh M R V E :=
  Beh.ofMachine (fcStep final plan) .init

end

/-! ### plan_mutator with a closure variable -/

/-- what the processor does with a message -/
inductive Ins (M : Type) where
  | pass                -- `(None, None)`
  | silent              -- head: write the variable, then `yield msg`
  | ask (q : M)         -- head: `ret = yield q`, write the variable, then `yield msg`

/-- a processor reading / heads writing a closure variable of type `σ` -/
structure EnvSpec (σ M R : Type) where
  decide : σ → M → Ins M
  /-- recognises the query messages of the heads (they are not queries of the wrapped plan:
      only inserted generators are looked at) -/
  isQuery : M → Bool
  /-- the statement(s) after `ret = yield q` -/
  updAsk : M → R → σ → σ
  /-- the statement(s) before `yield msg` of a head that asks nothing -/
  updSilent : M → σ → σ

section
variable {σ M ι R V E : Type} [Inhabited R] [DecidableEq R] [Inhabited V] [PyExc E] [DecidableEq ι]

/-- head `ret = yield q; <write>; yield msg` -/
def askHead (q m : M) : Prog M R V E := .yield q (fun _ => .yield m (fun _ => .ret default))
/-- head `<write>; yield msg` -/
def silentHead (m : M) : Prog M R V E := .yield m (fun _ => .ret default)

/-- the `msg_proc` handed to plan_mutator while the variable has value `env` -/
def EnvSpec.proc (spec : EnvSpec σ M R) (env : σ) : Proc M R V E := fun _ m =>
  match spec.decide env m with
  | .pass => (none, none)
  | .silent => (some (silentHead m).beh, none)
  | .ask q => (some (askHead q m).beh, none)

/-- the message at which the INSERTED generator on top of plan_mutator's stack is suspended, if
    that is its first yield -/
def topFirstYield : PMSt M ι R V E → Option M
  | .atYield s =>
    match s.planStack with
    | (gid, p) :: _ =>
      if gid ≠ 0 ∧ p.hist.length = 1 then
        match p.beh p.hist with
        | .yld m => some m
        | _ => none
      else none
    | [] => none
  | _ => none

structure EMSt (σ M ι R V E : Type) where
  pm : PMSt M ι R V E
  env : σ

/-- the write after `ret = yield q`, executed when the head is sent the response -/
def envPre (spec : EnvSpec σ M R) (st : PMSt M ι R V E) (i : Inp R E) (env : σ) : σ :=
  match topFirstYield st, i with
  | some q, .send r => if spec.isQuery q then spec.updAsk q r env else env
  | _, _ => env

/-- the write before the first yield of a head that asks nothing, executed when it is started -/
def envPost (spec : EnvSpec σ M R) (st : PMSt M ι R V E) (env : σ) : σ :=
  match topFirstYield st with
  | some m => if spec.isQuery m then env else spec.updSilent m env
  | none => env

def annotate (env : σ) : Out M V E → Out (M × σ) V E
  | .yld m => .yld (m, env)
  | .ret v => .ret v
  | .raise e => .raise e

/-- one resume of plan_mutator (`pmStep`) with the closure variable alongside -/
def emStep (fuel : Nat) (key : M → ι) (spec : EnvSpec σ M R) (plan : Beh M R V E) :
    EMSt σ M ι R V E → Inp R E → Out (M × σ) V E × EMSt σ M ι R V E
  | ⟨st, env⟩, i =>
    let env1 := envPre spec st i env
    let r := pmStep fuel key (spec.proc env1) plan st i
    let env2 := envPost spec r.2 env1
    (annotate env2 r.1, ⟨r.2, env2⟩)

/-- `plan_mutator(plan, proc)`; every message is paired with the value of the variable at the
    time it is yielded (model-only annotation, used by `msg_mutator(.., rewrite_pos)` in C24) -/
def envMutatorA (fuel : Nat) (key : M → ι) (spec : EnvSpec σ M R) (env0 : σ) (plan : Beh M R V E) :
    Beh (M × σ) R V E :=
  Beh.ofMachine (emStep fuel key spec plan) ⟨.init, env0⟩

def envMutator (fuel : Nat) (key : M → ι) (spec : EnvSpec σ M R) (env0 : σ) (plan : Beh M R V E) :
    Beh M R V E :=
  Beh.mapMsg Prod.fst (envMutatorA fuel key spec env0 plan)

/-- the value of the variable after the mutator has received `hist` -/
def envAfter (fuel : Nat) (key : M → ι) (spec : EnvSpec σ M R) (env0 : σ) (plan : Beh M R V E)
    (hist : List (Inp R E)) : σ :=
  (Machine.state (emStep fuel key spec plan) ⟨.init, env0⟩ hist).env

end

section
variable {R E : Type} [Inhabited R] [DecidableEq R] [PyExc E]

/-! ### subs_wrapper -/

/-- `_subscribe()`; `subs` = the `(name, func)` pairs in the order of `subs.items()` -/
def subscribeProg : List (Nat × Nat) → Prog PMsg R R E
  | [] => .ret default
  | (name, func) :: rest => .yield (subscribeMsg name func) (fun _ => subscribeProg rest)

/-- `tokens` (a set: insertion order, no duplicates) after `_inner_plan` has received `ins`;
    `n` = number of subscriptions still to be made -/
def subsTokens : Nat → List (Inp R E) → List R → List R
  | 0, _, acc => acc
  | _, [], acc => acc
  | n + 1, .send r :: rest, acc => subsTokens n rest (if acc.contains r then acc else acc ++ [r])
  | _ + 1, .throw _ :: _, acc => acc

/-- `subs_wrapper(plan, subs)`.  The order in which `_unsubscribe` walks the set is not modelled
    (insertion order here; the harness compares the unsubscribe block as a multiset). -/
def subsWrapper (view : RespView R) (subs : List (Nat × Nat)) (plan : PBeh R E) : PBeh R E :=
  let inner := Beh.bind (subscribeProg subs).beh fun _ => plan
  let unsubscribe := fun ins =>
    (Prog.msgs ((subsTokens subs.length ins []).map fun tk => unsubscribeMsg (view.asInt tk))
      (.ret default)).beh
  Beh.retFrom (finalizeClosure unsubscribe inner)

/-! ### suspend_wrapper -/

/-- `suspend_wrapper(plan, suspenders)` -/
def suspendWrapper (suspenders : List Nat) (plan : PBeh R E) : PBeh R E :=
  let install : PBeh R E :=
    (Prog.msgs (suspenders.map (suspenderMsg .installSuspender)) (.ret default)).beh
  let inner := Beh.bind install fun _ => plan
  let remove : PBeh R E := (Prog.msgs (suspenders.map (suspenderMsg .removeSuspender)) (.ret default)).beh
  Beh.retFrom (finalizeWrapper (Beh.pure default) false remove inner)

/-! ### lazily_stage_wrapper -/

/-- `inner(msg)` and `new_gen()` of lazily_stage_wrapper; the variable is `devices_staged`.
    Messages whose command is in COMMANDS are assumed to carry a device. -/
def lazySpec (view : RespView R) (t : DevTree) : EnvSpec (List Dev) PMsg R where
  decide := fun staged m =>
    match m.obj with
    | some d =>
      if Generated.lsCommands.contains m.cmd && !staged.contains d then
        -- root = root_ancestor(msg.obj);  if root in devices_staged: return None, None
        if staged.contains (rootAncestor t d) then .pass
        else .ask (devMsg .stage (rootAncestor t d))
      else .pass
    | none => .pass
  isQuery := fun m => m.cmd == .stage
  -- if ret is None: ret = [root];  devices_staged.extend(ret)
  updAsk := fun q r staged =>
    match q.obj with
    | some root => staged ++ (view.asDevs root r).getD [root]
    | none => staged
  updSilent := fun _ staged => staged

/-- `lazily_stage_wrapper(plan)` -/
def lazilyStageWrapper (fuel : Nat) (view : RespView R) (t : DevTree) (plan : PBeh R E) : PBeh R E :=
  let body := envMutator fuel PMsg.ident (lazySpec view t) [] plan
  let unstage := fun ins =>
    (stageAllProg view .unstage 1
      (Generated.lsUnstageOrder.apply
        (envAfter fuel PMsg.ident (lazySpec view t) [] plan (.send default :: ins))) false).beh
  Beh.retFrom (finalizeClosure unstage body)

/-! ### monitor_during_wrapper / fly_during_wrapper -/

/-- `plan2 = plan_mutator(plan_mutator(plan, insert_after_open), insert_before_close)` -/
def duringWrapper (fuel : Nat) (after before : List InsertPart) (devs : List Dev) (plan : PBeh R E) :
    PBeh R E :=
  Beh.retFrom (planMutator fuel PMsg.ident (beforeCloseProc before devs)
    (planMutator fuel PMsg.ident (afterOpenProc after devs) plan))

def monitorDuringWrapper (fuel : Nat) (signals : List Dev) (plan : PBeh R E) : PBeh R E :=
  duringWrapper fuel Generated.mdAfterOpen Generated.mdBeforeClose signals plan

def flyDuringWrapper (fuel : Nat) (flyers : List Dev) (plan : PBeh R E) : PBeh R E :=
  duringWrapper fuel Generated.fdAfterOpen Generated.fdBeforeClose flyers plan

end
end BlueskyVerif.Gen
