/-
Gen/Ast.lean -- the plan-AST grammar used by the correspondence runs (harness/plangen.py) and its
interpreter into a behaviour (`Beh`).  The theorems never mention this grammar (they quantify over
all behaviours); the grammar only feeds the tie: the same AST is compiled to Python source and
exec'd into a REAL generator by plangen.py, and interpreted here.

Concrete carrier types of the drivers:
* responses / return values `Val` = None or an int;
* exceptions `Exc` = (class, tag); the classes are the ones the harness throws or the plans raise;
* messages `Msg` = (identity, payload).  The identity models `id(msg)`: every evaluation of
  `Msg('null', k)` makes a new object (identity = path of the generator instance ++ [allocation
  counter]); `yieldShared k` yields one pre-allocated object (identity `[2, k]`) every time.

Semantics: big-step over the list of inputs still to be consumed.  Running a statement either
consumes inputs and completes (normally / by `return` / by an exception) or runs out of inputs at
a `yield` -- then the yielded message is the answer (`Res.susp`).  `yield from` creates a nested
generator OBJECT (`Pos.new (interp ..)`) and delegates with `yfStart` / `yfStep` (PEP 380), so a
nested generator that misbehaves on `close()` is modelled faithfully.  Total by structural
recursion (loops are bounded), no fuel needed.
-/
import BlueskyVerif.Gen.YieldFrom

namespace BlueskyVerif.Gen

/-- exception classes of the correspondence domain -/
inductive ExcCls where
  | exc1          -- class E1(Exception)
  | exc2          -- class E2(Exception)
  | requestStop   -- bluesky.utils.RequestStop
  | requestAbort  -- bluesky.utils.RequestAbort
  | genExit       -- GeneratorExit
  | planHalt      -- bluesky.utils.PlanHalt (subclass of GeneratorExit)
  | runtimeError  -- RuntimeError
  | typeError     -- TypeError
  | baseExc       -- class BaseExc(BaseException)  (like KeyboardInterrupt)
  | modelError    -- model-only marker (out of fuel)
  deriving DecidableEq, Repr, Inhabited

structure Exc where
  cls : ExcCls
  tag : Nat
  deriving DecidableEq, Repr, Inhabited

def ExcCls.isException : ExcCls → Bool
  | .exc1 | .exc2 | .requestStop | .requestAbort | .runtimeError | .typeError => true
  | _ => false

def ExcCls.isGenExit : ExcCls → Bool
  | .genExit | .planHalt => true
  | _ => false

def ExcCls.isControl : ExcCls → Bool
  | .requestStop | .requestAbort => true
  | _ => false

/-- tags of the exceptions the interpreter itself (CPython) raises -/
def tagCloseIgnored : Nat := 9001   -- RuntimeError('generator ignored GeneratorExit')
def tagSendFresh : Nat := 9002      -- TypeError("can't send non-None value to a just-started generator")
def tagNoActive : Nat := 9003       -- RuntimeError('No active exception to reraise')

instance : PyExc Exc where
  isException e := e.cls.isException
  isGenExit e := e.cls.isGenExit
  isControl e := e.cls.isControl
  genExit := ⟨.genExit, 0⟩
  closeIgnored := ⟨.runtimeError, tagCloseIgnored⟩
  sendFresh := ⟨.typeError, tagSendFresh⟩
  modelError := ⟨.modelError, 0⟩
  genExit_isGenExit := rfl
  exception_not_genExit := by intro ⟨c, t⟩; cases c <;> simp [ExcCls.isException, ExcCls.isGenExit]
  control_isException := by intro ⟨c, t⟩; cases c <;> simp [ExcCls.isException, ExcCls.isControl]
  closeIgnored_isException := rfl

/-- responses and return values: None or an int -/
abbrev Val := Option Int

/-- a message object -/
structure Msg where
  ident : List Nat
  payload : Nat
  deriving DecidableEq, Repr, Inhabited

/-- what an `except` clause names -/
inductive Catch where
  | never           -- no except clause
  | exception       -- except Exception
  | baseException   -- except BaseException
  | genExit         -- except GeneratorExit
  | exc1            -- except E1
  | control         -- except RunEngineControlException
  deriving DecidableEq, Repr, Inhabited

def Catch.matches : Catch → ExcCls → Bool
  | .never, _ => false
  | .exception, c => c.isException
  | .baseException, _ => true
  | .genExit, c => c.isGenExit
  | .exc1, c => c == .exc1
  | .control, c => c.isControl

/-- value expressions -/
inductive Expr where
  | none | const (k : Int) | var
  deriving DecidableEq, Repr, Inhabited

/-- statements of a generator function body (one variable `r`) -/
inductive Stmt where
  | pass
  | yield (k : Nat) (bind : Bool)          -- `[r =] yield Msg('null', k)`
  | yieldShared (k : Nat) (bind : Bool)    -- `[r =] yield SHARED[k]`  (the same Msg object each time)
  | yieldFrom (sub : Stmt) (bind : Bool)   -- `[r =] yield from sub()`, `sub` a nested generator function
  | seq (a b : Stmt)
  | ifEq (k : Int) (thn els : Stmt)        -- `if r == k: thn  else: els`
  /-- `try: body  except <catch>: handler  else: els  finally: fin` (`ctch = never`: no except
      clause and no else clause; `fin = pass`: as if there were no finally clause) -/
  | tryS (body : Stmt) (ctch : Catch) (handler els fin : Stmt)
  | raise (cls : ExcCls) (tag : Nat)       -- `raise Cls(tag)`
  | reraise                                -- bare `raise`
  | ret (e : Expr)                         -- `return e`
  | loop (n : Nat) (body : Stmt)           -- `for _ in range(n): body`
  deriving Repr, Inhabited

/-- interpreter state of one generator instance -/
structure Env where
  r : Val := none            -- the variable `r`
  cur : Option Exc := none   -- exception currently being handled (for bare `raise`)
  ctr : Nat := 0             -- allocation counter (message objects, nested generator instances)

/-- result of running a statement against the remaining inputs -/
inductive Res where
  | norm (env : Env) (rest : List (Inp Val Exc))            -- completed
  | susp (m : Msg)                                          -- inputs ran out at `yield m`
  | ret (v : Val) (env : Env) (rest : List (Inp Val Exc))   -- `return v` is propagating
  | exc (e : Exc) (env : Env) (rest : List (Inp Val Exc))   -- exception `e` is propagating

/-- resumed at a `yield` -/
def atYield (m : Msg) (bind : Bool) (env : Env) : List (Inp Val Exc) → Res
  | [] => .susp m
  | .send v :: rest => .norm (if bind then { env with r := v } else env) rest
  | .throw e :: rest => .exc e env rest

/-- the delegation loop of `[r =] yield from sub` after a delegation step gave `res` -/
def delegate (bind : Bool) (env : Env) : YfRes Msg Val Val Exc → List (Inp Val Exc) → Res
  | .done v, rest => .norm (if bind then { env with r := v } else env) rest
  | .raised e, rest => .exc e env rest
  | .yld m _, [] => .susp m
  | .yld _ sub, i :: rest => delegate bind env (yfStep sub i) rest

/-- `for _ in range(n): body` -/
def loopN (body : Env → List (Inp Val Exc) → Res) : Nat → Env → List (Inp Val Exc) → Res
  | 0, env, rest => .norm env rest
  | n + 1, env, rest =>
    match body env rest with
    | .norm env' rest' => loopN body n env' rest'
    | r => r

def Expr.eval (env : Env) : Expr → Val
  | .none => Option.none
  | .const k => some k
  | .var => env.r

def Res.toOut : Res → Out Msg Val Exc
  | .norm _ _ => .ret none      -- fell off the end of the body
  | .susp m => .yld m
  | .ret v _ _ => .ret v
  | .exc e _ _ => .raise e

/-- run statement `s` of the generator instance `path` -/
def exec (path : List Nat) : Stmt → Env → List (Inp Val Exc) → Res
  | .pass, env, rest => .norm env rest
  | .yield k bind, env, rest =>
    atYield ⟨path ++ [env.ctr], k⟩ bind { env with ctr := env.ctr + 1 } rest
  | .yieldShared k bind, env, rest => atYield ⟨[2, k], k⟩ bind env rest
  | .yieldFrom sub bind, env, rest =>
    let child : Beh Msg Val Val Exc := fun hist =>
      (exec (path ++ [env.ctr]) sub {} hist.tail).toOut
    let env := { env with ctr := env.ctr + 1 }
    delegate bind env (yfStart (Pos.new child)) rest
  | .seq a b, env, rest =>
    match exec path a env rest with
    | .norm env' rest' => exec path b env' rest'
    | r => r
  | .ifEq k thn els, env, rest =>
    if env.r = some k then exec path thn env rest else exec path els env rest
  | .raise cls tag, env, rest => .exc ⟨cls, tag⟩ env rest
  | .reraise, env, rest =>
    match env.cur with
    | some e => .exc e env rest
    | none => .exc ⟨.runtimeError, tagNoActive⟩ env rest
  | .ret e, env, rest => .ret (e.eval env) env rest
  | .loop n body, env, rest => loopN (exec path body) n env rest
  | .tryS body ctch handler els fin, env, rest =>
    let saved := env.cur
    -- try-body, then except / else
    let r2 : Res :=
      match exec path body env rest with
      | .norm env' rest' => if ctch = .never then .norm env' rest' else exec path els env' rest'
      | .exc e env' rest' =>
        if ctch.matches e.cls then
          -- the handler runs with `e` as the exception being handled; afterwards the previous
          -- one is restored
          match exec path handler { env' with cur := some e } rest' with
          | .norm env'' rest'' => .norm { env'' with cur := saved } rest''
          | .ret v env'' rest'' => .ret v { env'' with cur := saved } rest''
          | .exc e' env'' rest'' => .exc e' { env'' with cur := saved } rest''
          | .susp m => .susp m
        else .exc e env' rest'
      | r => r
    -- finally (runs on every way out; its own return / exception replaces the pending one)
    match r2 with
    | .susp m => .susp m
    | .norm env' rest' => exec path fin env' rest'
    | .ret v env' rest' =>
      match exec path fin env' rest' with
      | .norm env'' rest'' => .ret v env'' rest''
      | r => r
    | .exc e env' rest' =>
      match exec path fin { env' with cur := some e } rest' with
      | .norm env'' rest'' => .exc e { env'' with cur := saved } rest''
      | r => r

/-- the behaviour of the generator function with body `s`; `path` identifies the instance -/
def interp (path : List Nat) (s : Stmt) : Beh Msg Val Val Exc :=
  fun hist => (exec path s {} hist.tail).toOut

end BlueskyVerif.Gen
