/-
Gen/YieldFrom.lean -- `yield from` (PEP 380) as ONE combinator, plus the small generators built
from it (`single_gen`, sequencing).

While a generator is suspended inside `v = yield from sub`, whatever the caller does is delegated:

* `send r`  -> `sub.send(r)` (`next(sub)` when r is None -- the same thing for generators);
* `throw e`, e not a GeneratorExit -> `sub.throw(e)`;
* `throw e`, e a GeneratorExit (this is also what `close()` does) -> `sub.close()`; if that raises
  (RuntimeError because sub yielded, or another exception) that exception replaces `e`; then the
  exception is raised in the delegating generator at the `yield from` expression;
* sub yields m      -> the delegating generator yields m (stays in the `yield from`);
* sub returns v     -> the `yield from` expression evaluates to v;
* sub raises e      -> e is raised at the `yield from` expression.

Entering `yield from sub` calls `next(sub)` (`yfStart`).  Every wrapper model (Mutators, Wrappers)
and the plan-AST interpreter use `yfStart` / `yfStep` for every `yield from` of the source.
Sub-plans are assumed to be generators (bluesky's `ensure_generator` makes them so).
-/
import BlueskyVerif.Gen.Basic

namespace BlueskyVerif.Gen

/-- outcome of one delegation step -/
inductive YfRes (M R V E : Type) where
  | yld (m : M) (sub : Pos M R V E)   -- still delegating; `sub` is the sub-generator afterwards
  | done (v : V)                      -- value of the `yield from` expression
  | raised (e : E)                    -- exception raised at the `yield from` expression

section
variable {M R V E : Type}

def yfOfOut : Out M V E × Pos M R V E → YfRes M R V E
  | (.yld m, p) => .yld m p
  | (.ret v, _) => .done v
  | (.raise e, _) => .raised e

variable [Inhabited R] [DecidableEq R] [Inhabited V] [PyExc E]

/-- entering `yield from sub`: `next(sub)` -/
def yfStart (sub : Pos M R V E) : YfRes M R V E := yfOfOut (sub.resume (.send default))

/-- the delegating generator is resumed with `i` while suspended inside `yield from sub` -/
def yfStep (sub : Pos M R V E) : Inp R E → YfRes M R V E
  | .send r => yfOfOut (sub.resume (.send r))
  | .throw e =>
    if isGenExit e then
      match sub.close with
      | (none, _) => .raised e
      | (some x, _) => .raised x
    else yfOfOut (sub.resume (.throw e))

end

/-! ### small generators -/

section
variable {M R V E : Type}

/-- `def f(): return v`  (a generator function whose body returns at once) -/
def Beh.pure (v : V) : Beh M R V E := fun _ => .ret v

/-- `def f(): raise e` -/
def Beh.fail (e : E) : Beh M R V E := fun _ => .raise e

/-- `bluesky.utils.single_gen(m)`: `return (yield m)`; the response is converted by `f`
    (`f = id` when `V = R`).  Histories longer than two inputs never occur (`Pos.resume`). -/
def Beh.singleWith [Inhabited V] (f : R → V) (m : M) : Beh M R V E
  | [_] => .yld m
  | [_, .send r] => .ret (f r)
  | [_, .throw e] => .raise e
  | _ => .ret default

/-- `single_gen(m)` when responses and return values have the same type -/
def Beh.single [Inhabited R] (m : M) : Beh M R R E := Beh.singleWith id m

variable [Inhabited R] [DecidableEq R] [Inhabited V] [PyExc E]

/-- program points of `def f(): v = yield from a; return (yield from k(v))` -/
inductive BindSt (M R V W E : Type) where
  | init
  | first (p : Pos M R V E)
  | second (p : Pos M R W E)
  | fin

variable {W : Type} [Inhabited W]

def Beh.bindSecond (r : YfRes M R W E) : Out M W E × BindSt M R V W E :=
  match r with
  | .yld m p => (.yld m, .second p)
  | .done w => (.ret w, .fin)
  | .raised e => (.raise e, .fin)

def Beh.bindFirst (k : V → Beh M R W E) (r : YfRes M R V E) : Out M W E × BindSt M R V W E :=
  match r with
  | .yld m p => (.yld m, .first p)
  | .done v => Beh.bindSecond (yfStart (Pos.new (k v)))
  | .raised e => (.raise e, .fin)

def Beh.bindStep (a : Beh M R V E) (k : V → Beh M R W E) :
    BindSt M R V W E → Inp R E → Out M W E × BindSt M R V W E
  | .init, _ => Beh.bindFirst k (yfStart (Pos.new a))
  | .first p, i => Beh.bindFirst k (yfStep p i)
  | .second p, i => Beh.bindSecond (yfStep p i)
  | .fin, _ => (.ret default, .fin)

/-- `def f(): v = yield from a(); return (yield from k(v))` -- sequencing of plans -/
def Beh.bind (a : Beh M R V E) (k : V → Beh M R W E) : Beh M R W E :=
  Beh.ofMachine (Beh.bindStep a k) .init

/-- `def f(): yield from a(); return (yield from b())` -/
def Beh.seq (a : Beh M R V E) (b : Beh M R W E) : Beh M R W E := Beh.bind a (fun _ => b)

end

end BlueskyVerif.Gen
