/-
Gen/Mutators.lean -- `bluesky.preprocessors.msg_mutator` and `plan_mutator` transcribed as
generators-as-state-machines (source: src/bluesky/preprocessors.py, lines ~33-283).

Both wrappers are generators themselves; their behaviours are `Beh.ofMachine step init` where
`step` continues the Python body from the `yield` it is suspended at.  Inner loops that may spin
without yielding (msg_mutator dropping messages; plan_mutator popping/pushing generators) take
`fuel`; running out of fuel produces `raise PyExc.modelError` (the Python would hang).

Modelling choices (all stated in ASSUMPTIONS of harness/props/C20.py, C21.py):
* `msg_proc` is a total function that does not raise;
* the generators returned by plan_mutator's `msg_proc` are fresh generator objects; every
  generator object gets a unique id that is never reused.  CPython does reuse `id()` of a collected
  object; plan_mutator's caches are keyed by `id()`, so an entry left behind for a dead generator
  can be found again by a later one.  The throw branch now removes the entries of the generator it
  pops (repaired after this check reproduced a stale tail running; harness probe `stale_tail`);
  the send branch removes the tail_cache entry but not a tail_result_cache entry of a tail that
  raised (no observable effect could be produced); the harness keeps generators alive;
* `id(msg)` is `key msg`.
-/
import BlueskyVerif.Gen.YieldFrom
import BlueskyVerif.Gen.Generated

namespace BlueskyVerif.Gen

/-! ## msg_mutator -/

section msgMutator
variable {M M' R V E : Type} [Inhabited R] [DecidableEq R] [Inhabited V] [PyExc E]

/-- program points of `msg_mutator` -/
inductive MMSt (M R V E : Type) where
  | init                          -- not started
  | atYield (plan : Pos M R V E)  -- suspended at `_s = yield msg`
  | fin

/--
The `while 1:` loop of msg_mutator, entered with the result of the last `plan.send/throw`:
```
    try: msg = plan.send(...) / plan.throw(_e)
    except StopIteration as _e: ret = _e.value; break   ... return ret
    (any other exception propagates)
    msg = msg_proc(msg)
    if msg is None: _s = None;  [else-branch of the try:] msg = plan.send(_s)     -- loops
    else: _s = yield msg
```
-/
def mmGo (proc : M → Option M') : Nat → Out M V E × Pos M R V E → Out M' V E × MMSt M R V E
  | _, (.ret v, _) => (.ret v, .fin)
  | _, (.raise e, _) => (.raise e, .fin)
  | 0, (.yld _, _) => (.raise PyExc.modelError, .fin)
  | f + 1, (.yld msg, plan) =>
    match proc msg with
    | some m' => (.yld m', .atYield plan)
    | none => mmGo proc f (plan.resume (.send default))

/-- one resume of the msg_mutator generator -/
def mmStep (fuel : Nat) (proc : M → Option M') (plan : Beh M R V E) :
    MMSt M R V E → Inp R E → Out M' V E × MMSt M R V E
  -- `msg = plan.send(None)`  (outside the try: exceptions propagate, StopIteration -> return)
  | .init, _ => mmGo proc fuel ((Pos.new plan).resume (.send default))
  -- `_s = yield msg` returned a value: else-branch `msg = plan.send(_s)`
  | .atYield p, .send r => mmGo proc fuel (p.resume (.send r))
  | .atYield p, .throw e =>
    -- the except clauses of the try around the yield, as extracted from the source
    match firstMatch Generated.mmYieldClauses e with
    | some .genExit =>
      -- `except GeneratorExit: plan.close(); raise`
      match p.close with
      | (some x, _) => (.raise x, .fin)
      | (none, _) => (.raise e, .fin)
    | some _ =>
      -- `except BaseException as _e: msg = plan.throw(_e)`
      mmGo proc fuel (p.resume (.throw e))
    | none => (.raise e, .fin)   -- not caught: leaves msg_mutator
  | .fin, _ => (.ret default, .fin)

/-- `msg_mutator(plan, proc)`; `proc m = none` means the processor returned None (drop). -/
def msgMutator (fuel : Nat) (proc : M → Option M') (plan : Beh M R V E) : Beh M' R V E :=
  Beh.ofMachine (mmStep fuel proc plan) .init

end msgMutator

/-! ## plan_mutator -/

section dict
variable {κ α : Type} [DecidableEq κ]
/-- Python dicts as association lists -/
def dictGet (d : List (κ × α)) (k : κ) : Option α := (d.find? (·.1 = k)).map (·.2)
def dictDel (d : List (κ × α)) (k : κ) : List (κ × α) := d.filter (·.1 ≠ k)
def dictSet (d : List (κ × α)) (k : κ) (v : α) : List (κ × α) := (k, v) :: dictDel d k
end dict

section planMutator
variable {M ι R V E : Type}

/-- `msg_proc`: given the messages it has been called with before (it may be stateful) and the
    message, returns `(head, tail)`; each is `None` or a fresh generator. -/
abbrev Proc (M R V E : Type) := List M → M → Option (Beh M R V E) × Option (Beh M R V E)

/-- the processor that changes nothing: `(None, None)` -/
def Proc.nothing : Proc M R V E := fun _ _ => (none, none)

/-- a generator object on plan_mutator's stacks, with its `id()`; id 0 is `parent_plan` -/
abbrev GenObj (M R V E : Type) := Nat × Pos M R V E

/-- local variables of `plan_mutator` -/
structure PM (M ι R V E : Type) where
  msgsSeen : List ι                                   -- keys of `msgs_seen`
  planStack : List (GenObj M R V E)                   -- head of the list = top (`plan_stack[-1]`)
  resultStack : List R                                -- head of the list = top
  tailCache : List (Nat × Option (GenObj M R V E))    -- id(new_gen) ↦ tail_gen
  tailResultCache : List (Nat × R)                    -- id(tail gen) ↦ saved result
  exception : Option E
  retValue : V
  ret : R                                             -- the local `ret` (may be stale!)
  nextId : Nat                                        -- ids for generator objects made by msg_proc
  procLog : List M                                    -- messages msg_proc was called with

/-- what one trip round `while True:` ends in -/
inductive PMRes (M ι R V E : Type) where
  | cont (s : PM M ι R V E)            -- `continue`
  | yield (m : M) (s : PM M ι R V E)   -- reached `inner_ret = yield msg`
  | ret (v : V)                        -- `return ret_value`
  | raise (e : E)                      -- exception leaves plan_mutator

variable [Inhabited R] [DecidableEq R] [Inhabited V] [PyExc E] [DecidableEq ι]

/-- does the `except Exception` / `except BaseException` clause of this (extracted) clause list
    catch `x`? -/
def caughtBy (cs : List Clause) (x : E) : Bool :=
  match firstMatch cs x with
  | some .exception | some .baseException => true
  | _ => false

/--
The `except StopIteration as e:` block (the two copies in the source, lines ~97-125 and ~142-170,
are textually identical -- checked by the extractor).  `gid` is the exhausted generator
(already popped: `rest`), `v = e.value`, `s.ret` the current value of the local `ret`.
-/
def pmExhausted (s : PM M ι R V E) (gid : Nat) (rest : List (GenObj M R V E)) (v : V) :
    PMRes M ι R V E :=
  -- if exhausted_gen is parent_plan: ret_value = e.value
  let retValue := if gid = 0 then v else s.retValue
  -- if id(exhausted_gen) in tail_result_cache: ret = tail_result_cache.pop(id(exhausted_gen))
  let (ret, trc) :=
    match dictGet s.tailResultCache gid with
    | some r => (r, dictDel s.tailResultCache gid)
    | none => (s.ret, s.tailResultCache)
  -- result_stack.append(ret)
  let rs := ret :: s.resultStack
  -- if id(exhausted_gen) in tail_cache: gen = tail_cache.pop(...); if gen is not None: ...
  let (ps, rs, tc, trc) :=
    match dictGet s.tailCache gid with
    | some (some (tid, tpos)) =>
      -- plan_stack.append(gen); saved_result = result_stack.pop();
      -- tail_result_cache[id(gen)] = saved_result; result_stack.append(None)
      ((tid, tpos) :: rest, default :: s.resultStack, dictDel s.tailCache gid, dictSet trc tid ret)
    | some none => (rest, rs, dictDel s.tailCache gid, trc)
    | none => (rest, rs, s.tailCache, trc)
  -- if plan_stack: continue  else: return ret_value
  if ps.isEmpty then .ret retValue
  else .cont { s with planStack := ps, resultStack := rs, tailCache := tc, tailResultCache := trc,
                      retValue := retValue, ret := ret }

/--
Lines ~189-209: a message `msg` came out of the top generator.
```
        if id(msg) not in msgs_seen:
            msgs_seen[id(msg)] = msg
            new_gen, tail_gen = msg_proc(msg)
            if tail_gen is not None and new_gen is None: new_gen = single_gen(msg)
            if new_gen is not None:
                plan_stack.append(new_gen); result_stack.append(None)
                tail_cache[id(new_gen)] = tail_gen
                continue
        ... yield msg
```
(the return value of `single_gen` is never looked at, so it is modelled as `default`).
-/
def pmProcess (key : M → ι) (proc : Proc M R V E) (s : PM M ι R V E) (msg : M) : PMRes M ι R V E :=
  if s.msgsSeen.contains (key msg) then .yield msg s
  else
    let (newGen, tailGen) := proc s.procLog msg
    let s := { s with msgsSeen := key msg :: s.msgsSeen, procLog := s.procLog ++ [msg] }
    let newGen : Option (Beh M R V E) :=
      match newGen, tailGen with
      | none, some _ => some (Beh.singleWith (fun _ => default) msg)
      | g, _ => g
    match newGen with
    | some g =>
      let hid := s.nextId
      let tid := s.nextId + 1
      .cont { s with planStack := (hid, Pos.new g) :: s.planStack,
                     resultStack := default :: s.resultStack,
                     tailCache := dictSet s.tailCache hid (tailGen.map (fun t => (tid, Pos.new t))),
                     nextId := s.nextId + 2 }
    | none => .yield msg s

/-- `msg = plan_stack[-1].throw(exception)` gave `res` (lines ~95-137); `(gid, _) :: rest` was the
    plan stack, `s.exception` is still the thrown exception. -/
def pmOnThrow (key : M → ι) (proc : Proc M R V E) (s : PM M ι R V E) (gid : Nat)
    (rest : List (GenObj M R V E)) : Out M V E × Pos M R V E → PMRes M ι R V E
  | (.ret v, _) => pmExhausted s gid rest v            -- except StopIteration as e
  | (.raise x, _) =>
    if caughtBy Generated.pmThrowClauses x then        -- except Exception as e
      -- failed_gen = plan_stack.pop()
      -- tail_cache.pop(id(failed_gen), None); tail_result_cache.pop(id(failed_gen), None)
      -- if plan_stack: exception = e; continue   else: raise
      if rest.isEmpty then .raise x
      else .cont { s with planStack := rest, tailCache := dictDel s.tailCache gid,
                          tailResultCache := dictDel s.tailResultCache gid, exception := some x }
    else .raise x                                      -- not caught: leaves plan_mutator
  | (.yld msg, top') =>                                -- else: exception = None
    pmProcess key proc { s with planStack := (gid, top') :: rest, exception := none } msg

/-- `msg = plan_stack[-1].send(ret)` gave `res` (lines ~139-188); `(gid, _) :: rest` was the plan
    stack; `ret` has been popped from the result stack (`s.ret`). -/
def pmOnSend (key : M → ι) (proc : Proc M R V E) (s : PM M ι R V E) (gid : Nat)
    (rest : List (GenObj M R V E)) : Out M V E × Pos M R V E → PMRes M ι R V E
  | (.ret v, _) => pmExhausted s gid rest v            -- except StopIteration as e
  | (.raise x, _) =>
    if caughtBy Generated.pmSendClauses x then         -- except Exception as ex
      -- failed_gen = plan_stack.pop()
      -- if id(failed_gen) in tail_cache: gen = tail_cache.pop(..); if gen is not None: push
      let (ps, tc) :=
        match dictGet s.tailCache gid with
        | some (some g) => (g :: rest, dictDel s.tailCache gid)
        | some none => (rest, dictDel s.tailCache gid)
        | none => (rest, s.tailCache)
      -- if plan_stack: exception = ex; continue   else: raise ex
      if ps.isEmpty then .raise x
      else .cont { s with planStack := ps, tailCache := tc, exception := some x }
    else .raise x
  | (.yld msg, top') => pmProcess key proc { s with planStack := (gid, top') :: rest } msg

/-- One trip round `while True:` up to the `yield` (lines ~91-209). -/
def pmIter (key : M → ι) (proc : Proc M R V E) (s : PM M ι R V E) : PMRes M ι R V E :=
  match s.exception with
  | some exc =>
    -- msg = plan_stack[-1].throw(exception)
    match s.planStack with
    | [] => .raise PyExc.modelError
    | (gid, top) :: rest => pmOnThrow key proc s gid rest (top.resume (.throw exc))
  | none =>
    -- ret = result_stack.pop();  msg = plan_stack[-1].send(ret)
    match s.resultStack with
    | [] => .raise PyExc.modelError
    | r :: rs =>
      match s.planStack with
      | [] => .raise PyExc.modelError
      | (gid, top) :: rest =>
        pmOnSend key proc { s with resultStack := rs, ret := r } gid rest (top.resume (.send r))

/-- `for p in plan_stack: p.close()` -- in deque order (bottom first); the first close that raises
    aborts the loop with that exception. -/
def closeAll : List (GenObj M R V E) → Option E
  | [] => none
  | (_, p) :: ps =>
    match p.close with
    | (some x, _) => some x
    | (none, _) => closeAll ps

/--
Lines ~211-227: resumed at `inner_ret = yield msg`.
```
        except GeneratorExit: for p in plan_stack: p.close(); raise
        except Exception as ex: if plan_stack: exception = ex; continue   else: raise
        else: result_stack.append(inner_ret)
```
-/
def pmResume (s : PM M ι R V E) : Inp R E → PMRes M ι R V E
  | .send r => .cont { s with resultStack := r :: s.resultStack }
  | .throw e =>
    match firstMatch Generated.pmYieldClauses e with
    | some .genExit =>
      match closeAll s.planStack.reverse with
      | some x => .raise x
      | none => .raise e
    | some .exception | some .baseException =>
      if s.planStack.isEmpty then .raise e else .cont { s with exception := some e }
    | _ => .raise e           -- not caught: leaves plan_mutator

/-- program points of `plan_mutator` -/
inductive PMSt (M ι R V E : Type) where
  | init
  | atYield (s : PM M ι R V E)     -- suspended at `inner_ret = yield msg`
  | fin

/-- run loop iterations until the generator yields / returns / raises -/
def pmLoop (key : M → ι) (proc : Proc M R V E) : Nat → PM M ι R V E → Out M V E × PMSt M ι R V E
  | 0, _ => (.raise PyExc.modelError, .fin)
  | f + 1, s =>
    match pmIter key proc s with
    | .cont s' => pmLoop key proc f s'
    | .yield m s' => (.yld m, .atYield s')
    | .ret v => (.ret v, .fin)
    | .raise e => (.raise e, .fin)

/-- lines ~77-89: the state before the first loop iteration -/
def pmInit (plan : Beh M R V E) : PM M ι R V E :=
  { msgsSeen := [], planStack := [(0, Pos.new plan)], resultStack := [default], tailCache := [],
    tailResultCache := [], exception := none, retValue := default, ret := default, nextId := 1,
    procLog := [] }

/-- one resume of the plan_mutator generator -/
def pmStep (fuel : Nat) (key : M → ι) (proc : Proc M R V E) (plan : Beh M R V E) :
    PMSt M ι R V E → Inp R E → Out M V E × PMSt M ι R V E
  | .init, _ => pmLoop key proc fuel (pmInit plan)
  | .atYield s, i =>
    match pmResume s i with
    | .cont s' => pmLoop key proc fuel s'
    | .yield m s' => (.yld m, .atYield s')   -- (never produced by pmResume)
    | .ret v => (.ret v, .fin)
    | .raise e => (.raise e, .fin)
  | .fin, _ => (.ret default, .fin)

/-- `plan_mutator(plan, proc)` -/
def planMutator (fuel : Nat) (key : M → ι) (proc : Proc M R V E) (plan : Beh M R V E) :
    Beh M R V E :=
  Beh.ofMachine (pmStep fuel key proc plan) .init

end planMutator

end BlueskyVerif.Gen
