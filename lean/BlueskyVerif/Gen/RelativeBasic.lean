/-
Gen/RelativeBasic.lean -- descriptors that harness/pairedextract.py extracts for the relative-move
wrappers (C24); values in Gen/GeneratedRelative.lean.
-/
import BlueskyVerif.Gen.PairedBasic

namespace BlueskyVerif.Gen

/-- how `rewrite_pos` combines the initial position with the requested offset -/
inductive RelOp where
  | add   -- `initial_positions[msg.obj] + rel_pos`
  | sub   -- (not in the source; recognised so that a sign change is reported precisely)
  deriving DecidableEq, Repr

def RelOp.apply : RelOp → Int → Int → Int
  | .add, init, rel => init + rel
  | .sub, init, rel => init - rel

end BlueskyVerif.Gen
