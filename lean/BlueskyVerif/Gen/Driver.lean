/-
Gen/Driver.lean -- JSON plumbing shared by the drivers of the generator properties (C20-C24):
plan ASTs, scripts and observation traces <-> JSON.  (Not part of any proof.)

AST encoding (harness/plangen.py produces it):
  ["pass"] ["yield",k,bind] ["yieldShared",k,bind] ["yieldFrom",sub,bind] ["seq",a,b]
  ["ifEq",k,thn,els] ["try",body,catch,handler,els,fin] ["raise",cls,tag] ["reraise"]
  ["ret",["none"]|["const",k]|["var"]] ["loop",n,body]
script: [["send",null|int] | ["throw",cls,tag] | ["close"]]
trace:  [["yld",payload] | ["ret",null|int] | ["raise",cls,tag] | ["closed"]]
-/
import BlueskyVerif.Util.DriverLib
import BlueskyVerif.Gen.Ast

namespace BlueskyVerif.Gen.Driver
open Lean BlueskyVerif.Driver BlueskyVerif.Gen

def excClsOf : String → Option ExcCls
  | "E1" => some .exc1
  | "E2" => some .exc2
  | "RequestStop" => some .requestStop
  | "RequestAbort" => some .requestAbort
  | "GeneratorExit" => some .genExit
  | "PlanHalt" => some .planHalt
  | "RuntimeError" => some .runtimeError
  | "TypeError" => some .typeError
  | "BaseExc" => some .baseExc
  | _ => none

def excClsName : ExcCls → String
  | .exc1 => "E1"
  | .exc2 => "E2"
  | .requestStop => "RequestStop"
  | .requestAbort => "RequestAbort"
  | .genExit => "GeneratorExit"
  | .planHalt => "PlanHalt"
  | .runtimeError => "RuntimeError"
  | .typeError => "TypeError"
  | .baseExc => "BaseExc"
  | .modelError => "MODEL-OUT-OF-FUEL"

def catchOf : String → Option Catch
  | "never" => some .never
  | "Exception" => some .exception
  | "BaseException" => some .baseException
  | "GeneratorExit" => some .genExit
  | "E1" => some .exc1
  | "RunEngineControlException" => some .control
  | _ => none

def valOf : Json → Val
  | Json.null => none
  | j => match j.getInt? with
    | .ok i => some i
    | .error _ => none

def jVal : Val → Json
  | none => Json.null
  | some i => jInt i

def asBool : Json → Bool
  | Json.bool b => b
  | _ => false

def parseExpr (j : Json) : Except String Expr :=
  match asArr j with
  | [Json.str "none"] => pure .none
  | [Json.str "const", k] => pure (.const (asInt k))
  | [Json.str "var"] => pure .var
  | _ => throw s!"bad expr {j.compress}"

def parseStmt : Nat → Json → Except String Stmt
  | 0, _ => throw "ast too deep"
  | d + 1, j =>
    match asArr j with
    | [Json.str "pass"] => pure .pass
    | [Json.str "yield", k, b] => pure (.yield (asNat k) (asBool b))
    | [Json.str "yieldShared", k, b] => pure (.yieldShared (asNat k) (asBool b))
    | [Json.str "yieldFrom", sub, b] => do pure (.yieldFrom (← parseStmt d sub) (asBool b))
    | [Json.str "seq", a, b] => do pure (.seq (← parseStmt d a) (← parseStmt d b))
    | [Json.str "ifEq", k, a, b] => do pure (.ifEq (asInt k) (← parseStmt d a) (← parseStmt d b))
    | [Json.str "try", body, Json.str c, h, e, f] => do
      match catchOf c with
      | none => throw s!"bad catch {c}"
      | some c =>
        pure (.tryS (← parseStmt d body) c (← parseStmt d h) (← parseStmt d e) (← parseStmt d f))
    | [Json.str "raise", Json.str c, t] =>
      match excClsOf c with
      | none => throw s!"bad class {c}"
      | some c => pure (.raise c (asNat t))
    | [Json.str "reraise"] => pure .reraise
    | [Json.str "ret", e] => do pure (.ret (← parseExpr e))
    | [Json.str "loop", n, body] => do pure (.loop (asNat n) (← parseStmt d body))
    | _ => throw s!"bad stmt {j.compress}"

def parsePlan (j : Json) : Except String Stmt := parseStmt 64 j

def parseCmd (j : Json) : Except String (Cmd Val Exc) :=
  match asArr j with
  | [Json.str "send", v] => pure (.send (valOf v))
  | [Json.str "throw", Json.str c, t] =>
    match excClsOf c with
    | none => throw s!"bad class {c}"
    | some c => pure (.throw ⟨c, asNat t⟩)
  | [Json.str "close"] => pure .close
  | _ => throw s!"bad cmd {j.compress}"

def parseScript (j : Json) : Except String (List (Cmd Val Exc)) := (asArr j).mapM parseCmd

def jObs : Obs Msg Val Exc → Json
  | .yld m => Json.arr #[Json.str "yld", jNat m.payload]
  | .ret v => Json.arr #[Json.str "ret", jVal v]
  | .raise e => Json.arr #[Json.str "raise", Json.str (excClsName e.cls), jNat e.tag]
  | .closed => Json.arr #[Json.str "closed"]

def jTrace (t : List (Obs Msg Val Exc)) : Json := jList jObs t

def jErr (e : String) : Json := Json.mkObj [("error", Json.str e)]

/-- fuel for the wrappers' inner loops in the drivers (the harness never generates cases whose
    Python would spin longer) -/
def driverFuel : Nat := 10000

end BlueskyVerif.Gen.Driver
