/-
Gen/Wrappers.lean -- `finalize_wrapper`, `contingency_wrapper`, `finalize_decorator`
(src/bluesky/preprocessors.py ~508-714) as ONE explicit phase machine `tryWrap`, instantiated three
times.  The three sources are the same Python `try` statement with different pieces:

```
    cleanup = True
    try:
        ret = yield from plan                                   -- phase `body`
    except GeneratorExit:                                       -- clause table: Generated.*Clauses
        cleanup = False
        raise
    except BaseException:            (finalize_wrapper)   /   except Exception as e:  (contingency_wrapper)
        if pause_for_debug: yield from pause()                  -- phase `pause`
        raise                                             /   if except_plan:
                                                                  ret = yield from except_plan(e)   -- phase `exc`
                                                                  if auto_raise: raise
                                                                  else: return ret
                                                              else: raise
    else:                                                 (contingency_wrapper only)
        if else_plan: yield from else_plan()                    -- phase `els`
    finally:
        if cleanup [and final_plan]: yield from final_plan      -- phase `fin`
    return ret
```
(`finalize_decorator` has only the GeneratorExit clause and no pause.)  Which `except` clauses each
wrapper has is EXTRACTED from the source (Gen/GeneratedWrappers.lean); the statement shapes are
checked by harness/genextract.py on every run.

Every `yield from` of the source is `yfStart` / `yfStep` (Gen/YieldFrom.lean).  The state carries
two pieces of bookkeeping that do not influence the behaviour: `log`, appended to exactly where a
sub-plan is started (`yfStart`) or ends, and the `Path` by which control reached the `finally`
block (Python needs only its pending outcome, `Path.pending`).  The theorems of C22 are about the
log: what ran, how often, in which order.
-/
import BlueskyVerif.Gen.YieldFrom
import BlueskyVerif.Gen.GeneratedWrappers

namespace BlueskyVerif.Gen

/-- what the `except` clauses of the try statement do with an exception coming out of the body -/
inductive Dispatch where
  | closed     -- `except GeneratorExit: cleanup = False; raise`
  | handled    -- `except Exception as e:` / `except BaseException:` -- the handler block runs
  | uncaught   -- no clause matches: straight to `finally`
  deriving DecidableEq, Repr

def dispatch {E : Type} [PyExc E] (cs : List Clause) (e : E) : Dispatch :=
  match firstMatch cs e with
  | some .genExit => .closed
  | some .exception | some .baseException => .handled
  | _ => .uncaught

/-- how a (sub-)plan ended / what is pending while `finally` runs -/
inductive Pending (V E : Type) where
  | ret (v : V)
  | exc (e : E)
  deriving DecidableEq, Repr

def Pending.toOut {M V E : Type} : Pending V E → Out M V E
  | .ret v => .ret v
  | .exc e => .raise e

/-- instrumentation events -/
inductive Ev (V E : Type) where
  | bodyEnd (o : Pending V E)        -- `yield from plan` ended
  | pauseStart | pauseEnd (o : Pending V E)
  | exceptStart (e : E) | exceptEnd (o : Pending V E)
  | elseStart | elseEnd (o : Pending V E)
  | finalStart | finalEnd (o : Pending V E)
  deriving DecidableEq, Repr

/-- the pieces of the try statement -/
structure TryCfg (M R V E : Type) where
  clauses : List Clause                      -- except clauses, in source order (extracted)
  pausePlan : Option (Beh M R V E)           -- `pause()` when pause_for_debug
  exceptPlan : Option (E → Beh M R V E)      -- `except_plan`
  autoRaise : Bool
  elsePlan : Option (Beh M R V E)            -- `else_plan()`
  finalPlan : Option (Beh M R V E)           -- `final_plan()` / `ensure_generator(final_plan_instance)`

/-- the way control reached the `finally` block -/
inductive Path (V E : Type) where
  | ret (v : V)                               -- body returned v; there is no else plan
  | retElse (v : V) (o : Pending V E)         -- body returned v; the else plan ended with o
  | uncaught (e : E)                          -- body raised e; no except clause catches it
  /-- body raised e and the `except Exception/BaseException` clause caught it; `pz` = how
      `pause()` ended (none: no pause_for_debug); `ex` = how `except_plan(e)` ended (none: not run) -/
  | handled (e : E) (pz : Option (Pending V E)) (ex : Option (Pending V E))
  deriving DecidableEq, Repr

/-- Python's pending outcome when the `finally` block is entered on this path -/
def Path.pending {V E : Type} (autoRaise : Bool) : Path V E → Pending V E
  | .ret v => .ret v
  | .retElse v (.ret _) => .ret v             -- `return ret` after the else plan
  | .retElse _ (.exc x) => .exc x
  | .uncaught e => .exc e
  | .handled _ (some (.exc x)) _ => .exc x    -- pause() raised inside the handler
  | .handled e _ none => .exc e               -- `raise`
  | .handled e _ (some (.ret w)) => if autoRaise then .exc e else .ret w
  | .handled _ _ (some (.exc x)) => .exc x    -- except_plan raised

/-- how the wrapper finished -/
inductive DoneInfo (V E : Type) where
  | closed (e : E)                                  -- GeneratorExit clause: cleanup = False; raise
  | noFinal (path : Path V E)                       -- no final plan
  | final (path : Path V E) (o : Pending V E)       -- the final plan ran and ended with o
  deriving DecidableEq, Repr

/-- the wrapper's own outcome (Python: an exception / return in `finally` replaces the pending one) -/
def DoneInfo.result {V E : Type} (autoRaise : Bool) : DoneInfo V E → Pending V E
  | .closed e => .exc e
  | .noFinal path => path.pending autoRaise
  | .final path (.ret _) => path.pending autoRaise
  | .final _ (.exc x) => .exc x

/-- program points -/
inductive TryPh (M R V E : Type) where
  | init
  | body (p : Pos M R V E)                                         -- in `ret = yield from plan`
  | pause (e : E) (p : Pos M R V E)                                -- in `yield from pause()`
  | exc (e : E) (pz : Option (Pending V E)) (p : Pos M R V E)      -- in `yield from except_plan(e)`
  | els (v : V) (p : Pos M R V E)                                  -- in `yield from else_plan()`
  | fin (path : Path V E) (p : Pos M R V E)                        -- in `yield from final_plan()`
  | done (d : DoneInfo V E)

structure TrySt (M R V E : Type) where
  ph : TryPh M R V E
  log : List (Ev V E)

section
variable {M R V E : Type} [Inhabited R] [DecidableEq R] [Inhabited V] [PyExc E]

abbrev TryRes (M R V E : Type) := Out M V E × TrySt M R V E

def tryFinish (cfg : TryCfg M R V E) (log : List (Ev V E)) (d : DoneInfo V E) : TryRes M R V E :=
  ((d.result cfg.autoRaise).toOut, ⟨.done d, log⟩)

/-- a step of `yield from final_plan()` gave `r` -/
def onFinal (cfg : TryCfg M R V E) (log : List (Ev V E)) (path : Path V E) :
    YfRes M R V E → TryRes M R V E
  | .yld m p => (.yld m, ⟨.fin path p, log⟩)
  | .done u => tryFinish cfg (log ++ [.finalEnd (.ret u)]) (.final path (.ret u))
  | .raised x => tryFinish cfg (log ++ [.finalEnd (.exc x)]) (.final path (.exc x))

/-- the `finally:` block, reached with `cleanup = True` -/
def enterFinal (cfg : TryCfg M R V E) (log : List (Ev V E)) (path : Path V E) : TryRes M R V E :=
  match cfg.finalPlan with
  | none => tryFinish cfg log (.noFinal path)
  | some f => onFinal cfg (log ++ [.finalStart]) path (yfStart (Pos.new f))

/-- a step of `ret = yield from except_plan(e)` gave `r` -/
def onExcept (cfg : TryCfg M R V E) (log : List (Ev V E)) (e : E) (pz : Option (Pending V E)) :
    YfRes M R V E → TryRes M R V E
  | .yld m p => (.yld m, ⟨.exc e pz p, log⟩)
  -- `if auto_raise: raise  else: return ret`  -> finally
  | .done w => enterFinal cfg (log ++ [.exceptEnd (.ret w)]) (.handled e pz (some (.ret w)))
  | .raised x => enterFinal cfg (log ++ [.exceptEnd (.exc x)]) (.handled e pz (some (.exc x)))

/-- `if except_plan: ret = yield from except_plan(e); ...  else: raise` -/
def enterExcept (cfg : TryCfg M R V E) (log : List (Ev V E)) (e : E) (pz : Option (Pending V E)) :
    TryRes M R V E :=
  match cfg.exceptPlan with
  | none => enterFinal cfg log (.handled e pz none)
  | some ep => onExcept cfg (log ++ [.exceptStart e]) e pz (yfStart (Pos.new (ep e)))

/-- a step of `yield from pause()` gave `r` -/
def onPause (cfg : TryCfg M R V E) (log : List (Ev V E)) (e : E) :
    YfRes M R V E → TryRes M R V E
  | .yld m p => (.yld m, ⟨.pause e p, log⟩)
  | .done u => enterExcept cfg (log ++ [.pauseEnd (.ret u)]) e (some (.ret u))
  | .raised x => enterFinal cfg (log ++ [.pauseEnd (.exc x)]) (.handled e (some (.exc x)) none)

/-- the `except Exception as e:` / `except BaseException:` block is entered -/
def enterHandler (cfg : TryCfg M R V E) (log : List (Ev V E)) (e : E) : TryRes M R V E :=
  match cfg.pausePlan with
  | none => enterExcept cfg log e none
  | some pp => onPause cfg (log ++ [.pauseStart]) e (yfStart (Pos.new pp))

/-- a step of `yield from else_plan()` gave `r` -/
def onElse (cfg : TryCfg M R V E) (log : List (Ev V E)) (v : V) :
    YfRes M R V E → TryRes M R V E
  | .yld m p => (.yld m, ⟨.els v p, log⟩)
  | .done u => enterFinal cfg (log ++ [.elseEnd (.ret u)]) (.retElse v (.ret u))
  | .raised x => enterFinal cfg (log ++ [.elseEnd (.exc x)]) (.retElse v (.exc x))

/-- a step of `ret = yield from plan` gave `r` -/
def onBody (cfg : TryCfg M R V E) (log : List (Ev V E)) : YfRes M R V E → TryRes M R V E
  | .yld m p => (.yld m, ⟨.body p, log⟩)
  | .done v =>
    -- else: `if else_plan: yield from else_plan()`
    match cfg.elsePlan with
    | none => enterFinal cfg (log ++ [.bodyEnd (.ret v)]) (.ret v)
    | some ep => onElse cfg (log ++ [.bodyEnd (.ret v), .elseStart]) v (yfStart (Pos.new ep))
  | .raised e =>
    match dispatch cfg.clauses e with
    -- `except GeneratorExit: cleanup = False; raise` -- the finally block then does nothing
    | .closed => tryFinish cfg (log ++ [.bodyEnd (.exc e)]) (.closed e)
    | .handled => enterHandler cfg (log ++ [.bodyEnd (.exc e)]) e
    -- no clause catches e: straight to finally
    | .uncaught => enterFinal cfg (log ++ [.bodyEnd (.exc e)]) (.uncaught e)

/-- one resume of the wrapper generator -/
def tryStep (cfg : TryCfg M R V E) (plan : Beh M R V E) :
    TrySt M R V E → Inp R E → TryRes M R V E
  | ⟨.init, log⟩, _ => onBody cfg log (yfStart (Pos.new plan))
  | ⟨.body p, log⟩, i => onBody cfg log (yfStep p i)
  | ⟨.pause e p, log⟩, i => onPause cfg log e (yfStep p i)
  | ⟨.exc e pz p, log⟩, i => onExcept cfg log e pz (yfStep p i)
  | ⟨.els v p, log⟩, i => onElse cfg log v (yfStep p i)
  | ⟨.fin path p, log⟩, i => onFinal cfg log path (yfStep p i)
  | ⟨.done d, log⟩, _ => (.ret default, ⟨.done d, log⟩)

/-- the generic try/except/else/finally wrapper -/
def tryWrap (cfg : TryCfg M R V E) (plan : Beh M R V E) : Beh M R V E :=
  Beh.ofMachine (tryStep cfg plan) ⟨.init, []⟩

/-- `finalize_wrapper(plan, final_plan, pause_for_debug=...)`; `pause` is `pause()` -/
def finalizeWrapper (pause : Beh M R V E) (pauseForDebug : Bool) (final : Beh M R V E) :
    Beh M R V E → Beh M R V E :=
  tryWrap { clauses := Generated.fwClauses, pausePlan := if pauseForDebug then some pause else none,
            exceptPlan := none, autoRaise := true, elsePlan := none, finalPlan := some final }

/-- `contingency_wrapper(plan, except_plan=, else_plan=, final_plan=, pause_for_debug=, auto_raise=)` -/
def contingencyWrapper (pause : Beh M R V E) (pauseForDebug : Bool)
    (exceptPlan : Option (E → Beh M R V E)) (elsePlan finalPlan : Option (Beh M R V E))
    (autoRaise : Bool) : Beh M R V E → Beh M R V E :=
  tryWrap { clauses := Generated.cwClauses, pausePlan := if pauseForDebug then some pause else none,
            exceptPlan := exceptPlan, autoRaise := autoRaise, elsePlan := elsePlan,
            finalPlan := finalPlan }

/-- `finalize_decorator(final_plan)(gen_func)(...)` -/
def finalizeDecorator (final : Beh M R V E) : Beh M R V E → Beh M R V E :=
  tryWrap { clauses := Generated.fdClauses, pausePlan := none, exceptPlan := none, autoRaise := true,
            elsePlan := none, finalPlan := some final }

end
end BlueskyVerif.Gen
