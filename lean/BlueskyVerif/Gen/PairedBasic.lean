/-
Gen/PairedBasic.lean -- vocabulary of the paired-action / relative-move wrapper models (C23, C24):
concrete plan messages (`PMsg`), device trees as a parent function (`ancestry`, `root_ancestor`,
`separate_devices` of bluesky.utils transcribed), the descriptors that harness/props/C23.py EXTRACTS
from the source into Gen/GeneratedPaired.lean, and `Prog` -- straight-line generator code without
`try` (every small inner generator of the wrappers: `_subscribe`, `stage_all`, `new_gen`, `reset`,
`ensure_generator(list)` ...), turned into a behaviour by `Prog.beh`.
-/
import BlueskyVerif.Gen.YieldFrom

namespace BlueskyVerif.Gen

/-- a device object (the harness's fake devices are numbered) -/
abbrev Dev := Nat

/-- `Msg.command` -/
inductive Command where
  | null | openRun | closeRun | stage | unstage | subscribe | unsubscribe
  | installSuspender | removeSuspender | monitor | unmonitor | kickoff | complete | collect
  | wait | read | set | trigger | locate | create | save | checkpoint | pause | other
  deriving DecidableEq, Repr, Inhabited

/-- `exit_status` of a `close_run` message -/
inductive ExitStatus where
  | success | abort | fail
  deriving DecidableEq, Repr, Inhabited

/-- A plan message.  `ident` models `id(msg)` (plan_mutator's `msgs_seen` is keyed by it).
    `num` is the one argument the models look at (`set` position, subscription token, callback /
    suspender number, `open_run` metadata tag), `group` the `group=` keyword (numbered),
    `status` / `reason` the keywords of `close_run` (`reason` = a token standing for `str(e)`). -/
structure PMsg where
  ident : List Nat
  cmd : Command
  obj : Option Dev := none
  num : Option Int := none
  group : Option Nat := none
  status : Option ExitStatus := none
  reason : Option Nat := none
  deriving DecidableEq, Repr, Inhabited

/-- what the wrappers need to know about an exception instance beyond `PyExc`:
    `e.exit_status` (class attribute of RequestStop / RequestAbort) and `str(e)` (as a token) -/
structure ExcInfo (E : Type) where
  exitStatus : E → ExitStatus
  text : E → Nat

/-! ### descriptors extracted from the source (values in Gen/GeneratedPaired.lean) -/

/-- where the `exit_status=` argument of a `close_run(...)` call comes from -/
inductive StatusSrc where
  | absent                      -- `close_run()` / `else_plan=close_run`
  | const (s : ExitStatus)      -- `exit_status="fail"`
  | ofExc                       -- `exit_status=e.exit_status`
  deriving DecidableEq, Repr

/-- a `close_run(...)` call of run_wrapper: status source, and whether `reason=str(e)` is passed -/
structure CloseArgs where
  status : StatusSrc
  reason : Bool
  deriving DecidableEq, Repr

/-- iteration order over a device list: `*devices` or `*reversed(devices)` -/
inductive Order where
  | forward | reversed
  deriving DecidableEq, Repr

def Order.apply {α : Type} : Order → List α → List α
  | .forward, l => l
  | .reversed, l => l.reverse

/-- which cleanup helper a wrapper is built on -/
inductive CleanupKind where
  | finalize      -- `finalize_wrapper(body, final)`
  | contingency   -- `contingency_wrapper(plan, except_plan=.., else_plan=..)`
  deriving DecidableEq, Repr

/-- the message lists that monitor_during_wrapper / fly_during_wrapper splice in -/
inductive InsertPart where
  | monitor     -- `monitor_msgs`
  | unmonitor   -- `unmonitor_msgs`
  | kickoff     -- `kickoff_msgs` (+ `wait` when there are flyers)
  | complete    -- `complete_msgs` (+ `wait` when there are flyers)
  | collect     -- `collect_msgs`
  deriving DecidableEq, Repr

/-- how `__read_and_stash_a_motor` obtains the initial position of a device (C24) -/
inductive PosSource where
  | locate      -- `isinstance(obj, Locatable)`: `yield Msg('locate', obj)`, `location['setpoint']`
  | attribute   -- `hasattr(obj, 'position')`: `obj.position`, no message
  | read        -- otherwise: `yield Msg('read', obj)`, value of the (single) hinted / first field
  deriving DecidableEq, Repr, Inhabited

/-! ### device trees -/

/-- `obj.parent` for every device; `depth` bounds the length of every ancestry chain (the harness
    builds finite forests; the bound is only fuel for `ancestry`) -/
structure DevTree where
  parent : Dev → Option Dev
  depth : Nat

/-- `bluesky.utils.ancestry(obj)`: self, parent, grandparent, ... -/
def ancestryAux (parent : Dev → Option Dev) : Nat → Dev → List Dev
  | 0, d => [d]
  | f + 1, d =>
    match parent d with
    | none => [d]
    | some p => d :: ancestryAux parent f p

def ancestry (t : DevTree) (d : Dev) : List Dev := ancestryAux t.parent t.depth d

/-- `bluesky.utils.root_ancestor(obj)` = `ancestry(obj)[-1]` -/
def rootAncestor (t : DevTree) (d : Dev) : Dev := (ancestry t d).getLast?.getD d

/-- the inner `for existing_det in result[:]:` loop of `separate_devices`; returns the new
    `result` and whether the loop ended by `break` -/
def sepInner (t : DevTree) (det : Dev) : List Dev → List Dev → List Dev × Bool
  | [], result => (result, false)
  | ex :: snapshot, result =>
    if (ancestry t det).contains ex then (result, true)                    -- break
    else if (ancestry t ex).contains det then sepInner t det snapshot (result.erase ex)
    else sepInner t det snapshot result

/-- `bluesky.utils.separate_devices(devices)` -/
def separateDevices (t : DevTree) (devices : List Dev) : List Dev :=
  devices.foldl (fun result det =>
    match sepInner t det result result with
    | (result', true) => result'                 -- break: the for-else does not run
    | (result', false) => result' ++ [det]) []

/-! ### straight-line generator code -/

/-- Generator bodies without `try`: return, raise, or `r = yield m` and continue.  An exception
    thrown in at a yield propagates (ends the generator). -/
inductive Prog (M R V E : Type) where
  | ret (v : V)
  | raise (e : E)
  | yield (m : M) (k : R → Prog M R V E)

namespace Prog
variable {M R V E : Type}

/-- output after the inputs that follow the initial `next` -/
def after : Prog M R V E → List (Inp R E) → Out M V E
  | .ret v, _ => .ret v
  | .raise e, _ => .raise e
  | .yield m _, [] => .yld m
  | .yield _ k, .send r :: rest => (k r).after rest
  | .yield _ _, .throw e :: _ => .raise e

/-- the generator function with this body -/
def beh (p : Prog M R V E) : Beh M R V E := fun hist => p.after hist.tail

/-- `for m in ms: yield m` (responses ignored), then `tail` -/
def msgs (ms : List M) (tail : Prog M R V E) : Prog M R V E :=
  ms.foldr (fun m k => .yield m (fun _ => k)) tail

/-- `return (yield m)` with the response converted by `f` -/
def single (f : R → V) (m : M) : Prog M R V E := .yield m (fun r => .ret (f r))


/-- what is left of the program after one more input -/
def step : Prog M R V E → Inp R E → Prog M R V E
  | .yield _ k, .send r => k r
  | .yield _ _, .throw e => .raise e
  | p, _ => p

theorem after_cons (p : Prog M R V E) (i : Inp R E) (h : List (Inp R E)) :
    p.after (i :: h) = (p.step i).after h := by
  cases p <;> cases i <;> simp [after, step]

theorem after_foldl (h : List (Inp R E)) : ∀ p : Prog M R V E, p.after h = (h.foldl step p).after [] := by
  induction h with
  | nil => intro p; rfl
  | cons i h ih => intro p; rw [after_cons, ih]; rfl

end Prog

/-- relabel the messages a generator yields (used by the drivers to turn the payload numbers of
    the plan-AST grammar into `PMsg`s; no generator semantics involved) -/
def Out.mapMsg {M M' V E : Type} (f : M → M') : Out M V E → Out M' V E
  | .yld m => .yld (f m)
  | .ret v => .ret v
  | .raise e => .raise e

def Beh.mapMsg {M M' R V E : Type} (f : M → M') (b : Beh M R V E) : Beh M' R V E :=
  fun hist => (b hist).mapMsg f

end BlueskyVerif.Gen
