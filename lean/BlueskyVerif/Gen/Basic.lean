/-
Gen/Basic.lean -- the shared model of Python generators (DESIGN.md section 3.1).

A Python generator is modelled by its *behaviour*: a total function from the list of all inputs
it has received so far (`send r` / `throw e`) to the output of the LAST resume
(`yield m` / `return v` / `raise e`).  This covers every generator, including infinite ones and
ones that misbehave (ignore GeneratorExit, yield in `finally`, ...).  Everything lives in `Type`,
so wrappers (functions `Beh -> Beh`) nest without universe bumps.

`Pos` = a generator object: behaviour + inputs so far + status.  `Pos.resume` is the generator
protocol of CPython 3.12 (`gen_send_ex` / `gen_throw` / `gen_close`):

* the first resume of a fresh generator must be `send None` (`next`); `send x`, x not None, raises
  `TypeError` and leaves the generator fresh;
* `throw e` into a fresh generator raises `e` without running the body; the generator is finished;
* a finished generator answers `send` with `StopIteration(None)` and `throw e` with `e`;
* `close` = nothing on a fresh/finished generator; otherwise `throw GeneratorExit` and then:
  yields -> `RuntimeError('generator ignored GeneratorExit')` (generator stays suspended),
  returns or raises a `GeneratorExit` (incl. subclasses such as `PlanHalt`) -> ok (returns None),
  any other exception -> propagates.

Exceptions are an abstract type `E` with classifiers (`PyExc`).  `StopIteration` is NOT a member
of `E`: a generator body can never raise it (PEP 479 turns it into `RuntimeError`); a `return v`
is `Out.ret v`.

Equality of two behaviours on all input histories IS observational equivalence; `run` drives a
generator object with a script of `send` / `throw` / `close` and records what the caller observes.
-/

namespace BlueskyVerif.Gen

/-- Classification of Python exception instances, as far as bluesky's wrappers look at them. -/
class PyExc (E : Type) where
  /-- `isinstance(e, Exception)` -/
  isException : E → Bool
  /-- `isinstance(e, GeneratorExit)` (hence also `bluesky.utils.PlanHalt`) -/
  isGenExit : E → Bool
  /-- `isinstance(e, RunEngineControlException)` (`RequestStop`, `RequestAbort`) -/
  isControl : E → Bool
  /-- the `GeneratorExit()` instance that `close()` throws -/
  genExit : E
  /-- `RuntimeError('generator ignored GeneratorExit')` raised by `close()` -/
  closeIgnored : E
  /-- `TypeError("can't send non-None value to a just-started generator")` -/
  sendFresh : E
  /-- MODEL-ONLY marker: (a) an inner loop of a wrapper ran out of fuel (the Python would not
      terminate) or (b) a branch that is an `IndexError` on an empty deque in the Python and is
      unreachable.  Never produced when the fuel hypotheses of the theorems hold. -/
  modelError : E
  genExit_isGenExit : isGenExit genExit = true
  exception_not_genExit : ∀ e, isException e = true → isGenExit e = false
  control_isException : ∀ e, isControl e = true → isException e = true
  closeIgnored_isException : isException closeIgnored = true

export PyExc (isException isGenExit isControl)

/-- The class named by an `except` clause of the wrappers' source, as far as the models care.
    The lists of clauses of the relevant `try` statements are EXTRACTED from the current source
    into Gen/Generated.lean on every run; the models dispatch on them with `firstMatch`. -/
inductive Clause where
  | stopIteration   -- `except StopIteration` (a `return` of the inner generator, never an `E`)
  | genExit         -- `except GeneratorExit`
  | exception       -- `except Exception`
  | baseException   -- `except BaseException`
  deriving DecidableEq, Repr

def Clause.matches {E : Type} [PyExc E] : Clause → E → Bool
  | .stopIteration, _ => false
  | .genExit, e => isGenExit e
  | .exception, e => isException e
  | .baseException, _ => true

/-- the first `except` clause (in source order) that catches `e` -/
def firstMatch {E : Type} [PyExc E] (cs : List Clause) (e : E) : Option Clause :=
  cs.find? (·.matches e)

/-- What the caller does to a suspended generator. -/
inductive Inp (R E : Type) where
  | send (r : R)
  | throw (e : E)
  deriving Repr, DecidableEq

/-- What one resume produces. -/
inductive Out (M V E : Type) where
  | yld (m : M)
  | ret (v : V)      -- StopIteration(v)
  | raise (e : E)
  deriving Repr, DecidableEq

def Out.isYld {M V E} : Out M V E → Bool
  | .yld _ => true
  | _ => false

instance {M V E} [Inhabited V] : Inhabited (Out M V E) := ⟨.ret default⟩

/-- A generator function's behaviour: output of the LAST resume given all inputs so far.
    Only ever applied to non-empty histories whose first element is `send None`. -/
abbrev Beh (M R V E : Type) := List (Inp R E) → Out M V E

inductive Status where
  | fresh | live | dead
  deriving Repr, DecidableEq

/-- A generator object. -/
structure Pos (M R V E : Type) where
  beh : Beh M R V E
  hist : List (Inp R E)
  status : Status

namespace Pos
variable {M R V E : Type}

/-- `g = genfunc()` -/
def new (b : Beh M R V E) : Pos M R V E := ⟨b, [], .fresh⟩

/-- run the body with one more input -/
def advance (p : Pos M R V E) (i : Inp R E) : Out M V E × Pos M R V E :=
  let h := p.hist ++ [i]
  let o := p.beh h
  (o, ⟨p.beh, h, if o.isYld then .live else .dead⟩)

variable [Inhabited R] [DecidableEq R] [Inhabited V] [PyExc E]

/-- `g.send(r)` / `g.throw(e)` : the generator protocol. -/
def resume (p : Pos M R V E) (i : Inp R E) : Out M V E × Pos M R V E :=
  match p.status with
  | .dead =>
    match i with
    | .send _ => (.ret default, p)
    | .throw e => (.raise e, p)
  | .fresh =>
    match i with
    | .throw e => (.raise e, { p with status := .dead })
    | .send r => if r = default then p.advance i else (.raise PyExc.sendFresh, p)
  | .live => p.advance i

/-- Result of `g.close()`: `none` = returned None, `some e` = raised `e`. -/
def close (p : Pos M R V E) : Option E × Pos M R V E :=
  match p.status with
  | .dead => (none, p)
  | .fresh => (none, { p with status := .dead })
  | .live =>
    match p.advance (.throw PyExc.genExit) with
    | (.yld _, p') => (some PyExc.closeIgnored, p')
    | (.ret _, p') => (none, p')
    | (.raise e, p') => (if isGenExit e then none else some e, p')

end Pos

/-! ### Driving a generator with a script -/

/-- one action of the caller -/
inductive Cmd (R E : Type) where
  | send (r : R)
  | throw (e : E)
  | close
  deriving Repr, DecidableEq

/-- what the caller observes -/
inductive Obs (M V E : Type) where
  | yld (m : M)
  | ret (v : V)
  | raise (e : E)
  | closed          -- `close()` returned
  deriving Repr, DecidableEq

def Out.toObs {M V E} : Out M V E → Obs M V E
  | .yld m => .yld m
  | .ret v => .ret v
  | .raise e => .raise e

section run
variable {M R V E : Type} [Inhabited R] [DecidableEq R] [Inhabited V] [PyExc E]

def Pos.exec (p : Pos M R V E) : Cmd R E → Obs M V E × Pos M R V E
  | .send r => let (o, p') := p.resume (.send r); (o.toObs, p')
  | .throw e => let (o, p') := p.resume (.throw e); (o.toObs, p')
  | .close =>
    match p.close with
    | (none, p') => (.closed, p')
    | (some e, p') => (.raise e, p')

/-- The observation trace of driving the generator object `p` with `script`. -/
def Pos.run (p : Pos M R V E) : List (Cmd R E) → List (Obs M V E)
  | [] => []
  | c :: cs => (p.exec c).1 :: (p.exec c).2.run cs

/-- `run b script`: create a generator from behaviour `b` and drive it. -/
def run (b : Beh M R V E) (script : List (Cmd R E)) : List (Obs M V E) := (Pos.new b).run script

end run

/-! ### Generators written as explicit state machines

A wrapper such as `plan_mutator` is itself a generator.  Its body is transcribed as a step
function on an explicit state (the local variables + the program point it is suspended at);
`Beh.ofMachine` turns it into a behaviour by replaying the inputs.  `step` is only ever called
on states that are suspended at a yield (or `init`, with `send None`). -/

section machine
variable {M R V E σ : Type} [Inhabited V]

/-- state and last output after feeding `hist` -/
def Machine.fold (step : σ → Inp R E → Out M V E × σ) (init : σ) (hist : List (Inp R E)) :
    Out M V E × σ :=
  hist.foldl (fun acc i => step acc.2 i) (default, init)

def Machine.state (step : σ → Inp R E → Out M V E × σ) (init : σ) (hist : List (Inp R E)) : σ :=
  (Machine.fold step init hist).2

def Beh.ofMachine (step : σ → Inp R E → Out M V E × σ) (init : σ) : Beh M R V E :=
  fun hist => (Machine.fold step init hist).1

@[simp] theorem Machine.state_nil (step : σ → Inp R E → Out M V E × σ) (init : σ) :
    Machine.state step init [] = init := rfl

@[simp] theorem Machine.state_snoc (step : σ → Inp R E → Out M V E × σ) (init : σ)
    (hist : List (Inp R E)) (i : Inp R E) :
    Machine.state step init (hist ++ [i]) = (step (Machine.state step init hist) i).2 := by
  simp [Machine.state, Machine.fold, List.foldl_append]

@[simp] theorem Beh.ofMachine_snoc (step : σ → Inp R E → Out M V E × σ) (init : σ)
    (hist : List (Inp R E)) (i : Inp R E) :
    Beh.ofMachine step init (hist ++ [i]) = (step (Machine.state step init hist) i).1 := by
  simp [Beh.ofMachine, Machine.state, Machine.fold, List.foldl_append]

end machine

end BlueskyVerif.Gen
