/-
Gen/PairedDuring.lean -- the part of the paired-action wrapper models that does not need the
try-statement machine: message constructors, one-message plans, and the processors of
monitor_during_wrapper / fly_during_wrapper (`insert_after_open`, `insert_before_close`).
(Separate file so that the lemmas about them can import the plan_mutator lemmas of C21.)
-/
import BlueskyVerif.Gen.Mutators
import BlueskyVerif.Gen.GeneratedPaired

namespace BlueskyVerif.Gen

section
variable {R E : Type} [Inhabited R] [DecidableEq R] [PyExc E]

/-- plans over concrete messages; return values are responses -/
abbrev PBeh (R E : Type) := Beh PMsg R R E

/-! ### messages created by the wrappers (fresh objects; `ident` starts with 9) -/

def openRunMsg (md : Option Int) : PMsg := { ident := [9, 0], cmd := .openRun, num := md }
def closeRunMsg (st : Option ExitStatus) (reason : Option Nat) : PMsg :=
  { ident := [9, 1], cmd := .closeRun, status := st, reason := reason }
/-- `Msg(cmd, dev, group=g)` -/
def devMsg (cmd : Command) (d : Dev) (g : Option Nat := none) : PMsg :=
  { ident := [9, 2, d], cmd := cmd, obj := some d, group := g }
def waitMsg (g : Nat) : PMsg := { ident := [9, 3], cmd := .wait, group := some g }
/-- `Msg('subscribe', None, func, name)` -/
def subscribeMsg (name func : Nat) : PMsg :=
  { ident := [9, 4], cmd := .subscribe, num := some func, group := some name }
/-- `Msg('unsubscribe', None, token=token)` -/
def unsubscribeMsg (token : Option Int) : PMsg := { ident := [9, 5], cmd := .unsubscribe, num := token }
def suspenderMsg (cmd : Command) (s : Nat) : PMsg := { ident := [9, 6], cmd := cmd, num := some s }

/-- `open_run(md)` / `close_run(..)`: `return (yield Msg(..))` -/
def oneMsg (m : PMsg) : PBeh R E := (Prog.single id m).beh

/-- `monitor_msgs`, `unmonitor_msgs`, `kickoff_msgs`, `complete_msgs`, `collect_msgs` for the device
    list `devs` (kickoff group 0, complete group 1) -/
def partMsgs (devs : List Dev) : InsertPart → List PMsg
  | .monitor => devs.map (devMsg .monitor)
  | .unmonitor => devs.map (devMsg .unmonitor)
  | .kickoff => devs.map (devMsg .kickoff · (some 0)) ++ (if devs.isEmpty then [] else [waitMsg 0])
  | .complete => devs.map (devMsg .complete · (some 1)) ++ (if devs.isEmpty then [] else [waitMsg 1])
  | .collect => devs.map (devMsg .collect)

/-- `insert_after_open`: `(single_gen(msg), new_gen())` -/
def afterOpenProc (parts : List InsertPart) (devs : List Dev) : Proc PMsg R R E := fun _ m =>
  if m.cmd = .openRun then
    (some (oneMsg m), some (Prog.msgs (parts.flatMap (partMsgs devs)) (.ret default)).beh)
  else (none, none)

/-- `insert_before_close`: `(new_gen(), None)`, new_gen = the lists, then `yield msg` -/
def beforeCloseProc (parts : List InsertPart) (devs : List Dev) : Proc PMsg R R E := fun _ m =>
  if m.cmd = .closeRun then
    (some (Prog.msgs (parts.flatMap (partMsgs devs) ++ [m]) (.ret default)).beh, none)
  else (none, none)

end
end BlueskyVerif.Gen
