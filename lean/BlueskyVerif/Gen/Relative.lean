/-
Gen/Relative.lean -- the relative-move wrappers (C24) as the compositions the source uses:

* `relative_set_wrapper(plan, devices)` = `msg_mutator(plan_mutator(plan, insert_reads), rewrite_pos)`
* `reset_positions_wrapper(plan, devices)` = `finalize_wrapper(plan_mutator(plan, insert_reads), reset())`
* `rel_set` = `relative_set_wrapper(abs_set(..))`;  `mvr` = `relative_set_wrapper(mv(..), objs)`
* the `rel_*` scans = `reset_positions_wrapper(relative_set_wrapper(scan, motors), motors)`.

The closure variable is `initial_positions` (an insertion-ordered dict: association list).
`insert_reads` / `__read_and_stash_a_motor` are an `EnvSpec` for `envMutatorA` (Gen/Paired.lean:
the shared plan_mutator with the closure variable alongside); `rewrite_pos` is the processor of the
shared `msgMutator`, reading the variable from the annotation.  Positions are integers (any
additive group would do; pseudo-positioners are out of the model).
-/
import BlueskyVerif.Gen.Paired
import BlueskyVerif.Gen.GeneratedRelative

namespace BlueskyVerif.Gen

/-- what `__read_and_stash_a_motor` can find out about a device object -/
structure MotorInfo where
  /-- `isinstance(obj, Locatable)` -/
  locatable : Dev → Bool
  /-- `hasattr(obj, 'position')` -/
  hasPosition : Dev → Bool
  /-- `obj.position` -/
  position : Dev → Int

/-- the setpoint in the answer to a `locate` / the value in the answer to a `read`
    (`none`: the answer is None, the source then uses 0) -/
structure PosView (R : Type) where
  asPos : PMsg → R → Option Int

/-- `initial_positions` -/
abbrev Positions := List (Dev × Int)

def posGet (env : Positions) (d : Dev) : Option Int := (env.find? (·.1 = d)).map (·.2)

/-- `initial_positions[d] = x` (a new key goes to the end) -/
def posSet (env : Positions) (d : Dev) (x : Int) : Positions :=
  if (posGet env d).isSome then env.map (fun p => if p.1 = d then (d, x) else p) else env ++ [(d, x)]

/-- which branch of `__read_and_stash_a_motor` applies (the tests in source order) -/
def posSource (mi : MotorInfo) (d : Dev) : PosSource :=
  (Generated.posSourceOrder.find? fun s =>
    match s with
    | .locate => mi.locatable d
    | .attribute => mi.hasPosition d
    | .read => true).getD .read

def queryMsg (cmd : Command) (d : Dev) : PMsg := { ident := [9, 9, d], cmd := cmd, obj := some d }
def setMsg (d : Dev) (x : Int) (g : Option Nat) : PMsg :=
  { ident := [9, 8, d], cmd := .set, obj := some d, num := some x, group := g }

section
variable {R E : Type} [Inhabited R] [DecidableEq R] [PyExc E]

/-- `insert_reads(msg)` + `__read_and_stash_a_motor`; `devices = none` means `devices is None` -/
def relSpec (mi : MotorInfo) (view : PosView R) (devices : Option (List Dev)) :
    EnvSpec Positions PMsg R where
  decide := fun env m =>
    match m.obj with
    | some d =>
      -- eligible = devices is None or msg.obj in devices;  seen = msg.obj in initial_positions
      if m.cmd = .set && (match devices with | none => true | some ds => ds.contains d) &&
          (posGet env d).isNone then
        match posSource mi d with
        | .locate => .ask (queryMsg .locate d)
        | .attribute => .silent
        | .read => .ask (queryMsg .read d)
      else .pass
    | none => .pass
  isQuery := fun m => m.cmd == .read || m.cmd == .locate
  -- setpoint = 0 if the answer is None;  initial_positions[obj] = setpoint
  updAsk := fun q r env =>
    match q.obj with
    | some d => posSet env d ((view.asPos q r).getD 0)
    | none => env
  updSilent := fun m env =>
    match m.obj with
    | some d => posSet env d (mi.position d)
    | none => env

/-- `rewrite_pos(msg)`, reading `initial_positions` from the annotation.  `set` messages are
    assumed to carry exactly one positional argument. -/
def rewritePos : PMsg × Positions → Option PMsg := fun (m, env) =>
  some (
    if m.cmd = .set then
      match m.obj, m.num with
      | some d, some rel =>
        match posGet env d with
        | some init => { m with ident := 9 :: m.ident, num := some (Generated.rsCombine.apply init rel) }
        | none => m
      | _, _ => m
    else m)

/-- `relative_set_wrapper(plan, devices)` -/
def relativeSetWrapper (fuel : Nat) (mi : MotorInfo) (view : PosView R) (devices : Option (List Dev))
    (plan : PBeh R E) : PBeh R E :=
  Beh.retFrom (msgMutator fuel rewritePos
    (envMutatorA fuel PMsg.ident (relSpec mi view devices) [] plan))

/-- `initial_positions` when the wrapped part of reset_positions_wrapper has received `used` -/
def resetPositions (fuel : Nat) (mi : MotorInfo) (view : PosView R) (devices : Option (List Dev))
    (plan : PBeh R E) (used : List (Inp R E)) : Positions :=
  envAfter fuel PMsg.ident (relSpec mi view devices) [] plan (.send default :: used)

/-- `reset()`: a `set` back to the initial position for every entry (group 0), then `wait` -/
def resetProg (env : Positions) : Prog PMsg R R E :=
  Prog.msgs ((Generated.rpResetOrder.apply env).map (fun p => setMsg p.1 p.2 (some 0)) ++ [waitMsg 0])
    (.ret default)

/-- `reset_positions_wrapper(plan, devices)` -/
def resetPositionsWrapper (fuel : Nat) (mi : MotorInfo) (view : PosView R)
    (devices : Option (List Dev)) (plan : PBeh R E) : PBeh R E :=
  let body := envMutator fuel PMsg.ident (relSpec mi view devices) [] plan
  Beh.retFrom (finalizeClosure
    (fun used => (resetProg (resetPositions fuel mi view devices plan used)).beh) body)

/-! ### the stubs -/

/-- a plan message of a stub (a fresh object; `ident` distinguishes the stubs' own messages) -/
def stubSet (k : Nat) (d : Dev) (x : Int) (g : Option Nat) : PMsg :=
  { ident := [7, k], cmd := .set, obj := some d, num := some x, group := g }
def stubWait (g : Option Nat) : PMsg := { ident := [7, 99], cmd := .wait, group := g }

/-- `abs_set(obj, x, group=group, wait=wait)` -/
def absSetProg (d : Dev) (x : Int) (group : Option Nat) (wait : Bool) : Prog PMsg R R E :=
  -- if wait and group is None: group = str(uuid.uuid4())
  let group := if wait && group.isNone then some 6 else group
  .yield (stubSet 0 d x group) fun ret =>
    if wait then .yield (stubWait group) (fun _ => .ret ret) else .ret ret

/-- `rel_set(obj, x, group=group, wait=wait)` -/
def relSet (fuel : Nat) (mi : MotorInfo) (view : PosView R) (d : Dev) (x : Int) (group : Option Nat)
    (wait : Bool) : PBeh R E :=
  Beh.retFrom (relativeSetWrapper fuel mi view none (absSetProg d x group wait).beh)

/-- `mv(d1, x1, d2, x2, ...)` for distinct simple devices: the sets, then `wait`; the tuple of
    statuses it returns is not modelled -/
def mvProg (pairs : List (Dev × Int)) : Prog PMsg R R E :=
  Prog.msgs ((pairs.zipIdx.map fun (p, k) => stubSet k p.1 p.2 (some 5)) ++ [stubWait (some 5)])
    (.ret default)

/-- `mvr(d1, x1, ...)` -/
def mvr (fuel : Nat) (mi : MotorInfo) (view : PosView R) (pairs : List (Dev × Int)) : PBeh R E :=
  Beh.retFrom (Beh.retFrom (relativeSetWrapper fuel mi view (some (pairs.map (·.1))) (mvProg pairs).beh))

/-- the `rel_*` scans: `@reset_positions_decorator(motors) @relative_set_decorator(motors)` around
    the absolute scan `inner` -/
def relScan (fuel : Nat) (mi : MotorInfo) (view : PosView R) (motors : List Dev) (inner : PBeh R E) :
    PBeh R E :=
  Beh.retFrom (Beh.retFrom (resetPositionsWrapper fuel mi view (some motors)
    (Beh.retFrom (relativeSetWrapper fuel mi view (some motors) inner))))

end
end BlueskyVerif.Gen
