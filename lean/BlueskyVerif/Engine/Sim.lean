/-
API layer (RunEngine.__call__, resume, abort/stop/halt, request_pause, request_suspend) and the
deterministic scheduler that plays an environment script against the `_run` machine.
-/
import BlueskyVerif.Engine.Model

namespace BlueskyVerif.Engine

inductive Action where
  | pause (defer : Bool)
  | suspend (fut : Nat) (pre post : Option Gen) (just : Option String)
  | release (fut : Nat)
  | abort | stop | halt
  | status (k : Nat) (ok : Bool)
  | monitor (sig : String) (v : Int)
deriving Inhabited

def refuse (s : EState) (what : String) : EState := { s with refused := s.refused ++ [what] }

def termTarget (kind : String) : St × Exc × Option ExitStatus :=
  if kind == "abort" then (Src.abortState, Src.abortExc, Src.abortSetsExit)
  else if kind == "stop" then (Src.stopState, Src.stopExc, Src.stopSetsExit)
  else (Src.haltState, Src.haltExc, Src.haltSetsExit)

/-- what the request coroutines store right AFTER the state assignment succeeded (abort: reason and exit status);
    a refused request (TransitionError) stores nothing -/
def termPrep (s : EState) (kind reason : String) : EState :=
  let s := { s with interrupted := true }
  if kind == "abort" then { s with reason := reason, exitStatus := (termTarget kind).2.2.getD s.exitStatus } else s

/-- ... and after it: paused -> leave the exception for `_run`; otherwise cancel the task -/
def termAfter (s : EState) (kind : String) (wasPaused : Bool) : EState :=
  if wasPaused then
    let s := { s with exceptionSlot := some (termTarget kind).2.1 }
    if kind == "halt" then { s with exitStatus := (termTarget kind).2.2.getD s.exitStatus } else s
  else { s with cancelPending := true }

/-- `_abort_coro` / `_stop_coro` / `_halt_coro` -/
def requestTerminate (s : EState) (kind : String) (reason : String := "requested") : EState :=
  if s.state == .idle then refuse s kind else
  match setState (termPrep s kind reason) (termTarget kind).1 with
  | .error _ => refuse s kind
  | .ok s' => termAfter s' kind (s.state == .paused)

/-- second half of `_request_suspend`: push the `_start_suspender` message and, unless paused, go to
    'suspending' and cancel the task -/
def pushSuspender (fut : Nat) (pre post : Option Gen) (just : Option String) (s : EState) : EState :=
  let idx := s.suspReqs.length
  let rq : SuspReq := { fut := fut, pre := pre, post := post, just := just }
  let startMsg : Msg := { cmd := "_start_suspender", iargs := [(idx : Int)] }
  let s := { s with suspReqs := s.suspReqs ++ [rq], planStack := Gen.fresh [startMsg] :: s.planStack,
                    respStack := .none :: s.respStack }
  if s.state != .paused then
    match setState s .suspending with
    | .ok s => { s with cancelPending := true }
    | .error _ => refuse s "suspend"
  else s

/-- the coroutine `_request_suspend` inside `request_suspend` -/
def requestSuspend (s : EState) (fut : Nat) (pre post : Option Gen) (just : Option String) : EState :=
  if s.msgCache.isNone then
    let wasPaused := s.state == .paused
    match setState { s with interrupted := true, exceptionSlot := some .failedPause } .aborting with
    | .error _ => refuse { s with interrupted := true, exceptionSlot := some .failedPause } "suspend"
    | .ok s => pushSuspender fut pre post just (if !wasPaused then { s with cancelPending := true } else s)
  else pushSuspender fut pre post just s

def monitorUpdate (s : EState) (sig : String) (v : Int) : EState :=
  let s := setDev s sig { (devOf s sig) with value := v }
  (devOf s sig).subs.foldl (fun s (rid, stream) =>
    match s.bundlers.find? (fun (_, b) => b.runId == rid) with
    | none => refuse s "monitor-callback-after-run"
    | some (k, b) =>
      let (s, b) := emitEvent s b stream [(sig, v)]
      let b := if Src.bundlerCommits.contains "monitor" then b.commit stream else b
      { s with bundlers := assocSet k b s.bundlers }) s

def applyAction (s : EState) : Action → EState
  | .pause defer =>
    match requestPause s defer with
    | .ok s => s
    | .error _ => refuse s "pause"
  | .suspend f pre post just => requestSuspend s f pre post just
  | .release f => if s.futs.contains f then s else { s with futs := s.futs ++ [f], futsKnown := if s.futsKnown.contains f then s.futsKnown else s.futsKnown ++ [f] }
  | .abort => requestTerminate s "abort"
  | .stop => requestTerminate s "stop"
  | .halt => requestTerminate s "halt"
  | .status k ok =>
    match s.statuses[k]? with
    | some r => if r.done then s else completeStatus { s with statuses := s.statuses.set k { r with done := true, ok := ok } } k
    | none => s
  | .monitor sig v => monitorUpdate s sig v

/-- the harness executes status / monitor / release actions of an arrival at once (inside the arrival hook)
    and queues the request coroutines behind them with call_soon -/
def Action.immediate : Action → Bool
  | .status _ _ | .monitor _ _ | .release _ => true
  | _ => false

def orderActions (as : List Action) : List Action :=
  as.filter (·.immediate) ++ as.filter (fun a => !a.immediate)

abbrev Script := List (Nat × List Action)

def scriptAt (sc : Script) (n : Nat) : List Action :=
  match sc.find? (·.1 == n) with
  | some (_, as) => as
  | none => []

def arrivalKind : PC → String
  | .loopSleep => "S1" | .exitSleep => "S4" | .inSleep => "sleep" | .inCkptSleep => "ckpt"
  | _ => "quiesce"

def releaseAll (s : EState) : EState × Bool :=
  let pend := (List.range s.statuses.length).filter (fun k => match s.statuses[k]? with | some r => !r.done | none => false)
  let s1 := pend.foldl (fun s k => applyAction s (.status k true)) s
  let unrel := s.futsKnown.filter (fun f => !s.futs.contains f)
  let s2 := unrel.foldl (fun s f => applyAction s (.release f)) s1
  (s2, !pend.isEmpty || !unrel.isEmpty)

/-- let the loop run until the blocking event is set (the call returns to the main thread) -/
def schedule (maxArr : Nat) (sc : Script) : Nat → EState → EState
  | 0, s => refuse s "schedule-fuel"
  | fuel + 1, s =>
    if s.blockingEvent then s else
    match s.pc with
    | .noTask | .finished => s
    | .pausedWait => if s.permit then schedule maxArr sc fuel (advance 4000 s) else s
    | .start => schedule maxArr sc fuel (advance 4000 s)
    | .loopSleep | .exitSleep | .inSleep | .inCkptSleep =>
      let n := s.arrivals.length
      let s := { s with arrivals := s.arrivals ++ [arrivalKind s.pc] }
      let s := flushCompletions s
      let s := if n >= maxArr then applyAction s .halt else (orderActions (scriptAt sc n)).foldl applyAction s
      schedule maxArr sc fuel (advance 4000 s)
    | .inWait _ | .inWaitFor _ =>
      let s := flushCompletions s
      let s' := advance 4000 s
      if s'.pc == s.pc && !s'.blockingEvent && s'.msgs.length == s.msgs.length then
        -- still blocked: the loop is idle -> quiescence arrival
        let n := s'.arrivals.length
        let s' := { s' with arrivals := s'.arrivals ++ ["quiesce"] }
        if n >= maxArr then schedule maxArr sc fuel (applyAction s' .halt) else
        match scriptAt sc n with
        | [] =>
          let (s'', did) := releaseAll s'
          schedule maxArr sc fuel (if did then s'' else applyAction s'' .halt)
        | as => schedule maxArr sc fuel ((orderActions as).foldl applyAction s')
      else schedule maxArr sc fuel s'

/-- outcome of a blocking API call as seen by the caller -/
structure CallOutcome where
  op : String
  result : String            -- "return" | "raise:<Class>"
  state : St
  interrupted : Bool
  deferred : Bool
  openRuns : Nat
deriving Repr, Inhabited

def outcomeOf (op : String) (s : EState) : CallOutcome :=
  let res :=
    if s.pc == .finished then
      match s.taskResult with
      | .raised e => "raise:" ++ e.name
      | _ => if s.interrupted then "raise:RunEngineInterrupted" else "return"
    else if s.interrupted then "raise:RunEngineInterrupted" else "return"
  { op := op, result := res, state := s.state, interrupted := s.interrupted, deferred := s.deferredPause, openRuns := s.bundlers.length }

/-- `RE(plan)` up to the point where it blocks -/
def startCall (s : EState) (plan : Gen) : EState :=
  { s with planStack := [plan], respStack := [.none], msgCache := some [], deferredPause := false,
           exceptionSlot := none, interrupted := false, exitStatus := .success, reason := "",
           staged := [], moved := [], objsSeen := [], runStartUids := [], pardon := false,
           permit := true, blockingEvent := false, pc := .start, taskResult := .pending, cancelPending := false }

/-- `RE.resume()` up to the point where it blocks -/
def startResume (s : EState) : EState :=
  let s := { s with interrupted := false }
  let s := forBundlers s (fun s b => recordInterruption s b "resume")
  let (rw, s) := rewindPlan s
  let s := { s with planStack := Gen.list rw :: s.planStack, respStack := .none :: s.respStack }
  let s := resumeHooks s
  { s with permit := true, blockingEvent := false }

/-- abort()/stop()/halt() issued from the main thread while paused -/
def startTerminate (s : EState) (kind : String) : EState :=
  let s := requestTerminate s kind ""
  { s with permit := true, blockingEvent := false }

structure Scenario where
  devSpecs : List DevSpec
  recordInterruptions : Bool
  plan : Gen
  script : Script
  decisions : List String
  maxArrivals : Nat := 400

def initState (sc : Scenario) : EState :=
  { devSpecs := sc.devSpecs, recordInterruptions := sc.recordInterruptions }

def decide (sc : Scenario) : Nat → List String → EState → List CallOutcome → EState × List CallOutcome
  | 0, _, s, acc => (s, acc)
  | n + 1, ds, s, acc =>
    if s.state != .paused then (s, acc) else
    let (d, ds') := match ds with
      | [] => ("resume", [])
      | d :: ds' => (d, ds')
    let s := if d == "resume" then startResume s else startTerminate s d
    let s := schedule sc.maxArrivals sc.script 100000 s
    let o := outcomeOf d s
    -- abort()/stop()/halt() return the uids; they do not raise RunEngineInterrupted
    let o := if d != "resume" && o.result == "raise:RunEngineInterrupted" then { o with result := "return" } else o
    decide sc n ds' s (acc ++ [o])

def simulate (sc : Scenario) : EState × List CallOutcome :=
  let s := startCall (initState sc) sc.plan
  let s := schedule sc.maxArrivals sc.script 100000 s
  decide sc 64 sc.decisions s [outcomeOf "call" s]

end BlueskyVerif.Engine
