/-
Plan ASTs of the correspondence scenarios and their interpretation as generator behaviours.
Only the driver uses this file; the theorems quantify over arbitrary `Beh`.
-/
import BlueskyVerif.Engine.Types

namespace BlueskyVerif.Engine

inductive Stmt where
  | msg (m : Msg)
  | seq (body : List Stmt)
  | tryS (body : Stmt) (handler : Option Stmt) (fin : Option Stmt)
  | raise
  | ret
deriving Inhabited

inductive Compl where
  | normal | raising (e : Exc) | returning
deriving Inhabited

inductive Frame where
  | seqK (rest : List Stmt)
  | tryK (handler : Option Stmt) (fin : Option Stmt)
  | handlerK (fin : Option Stmt)
  | finK (after : Compl)
deriving Inhabited

inductive Ctrl where
  | exec (s : Stmt)
  | unwind (c : Compl)
  | atYield (m : Msg)            -- suspended at `r = yield m`
  | finishedWith (o : Out)
deriving Inhabited

/-- `closing = some e`: a GeneratorExit-class exception `e` was thrown in.  The harness builds plans as
    nested generators (one frame per statement, joined by `yield from`), so PEP 380 turns the throw into
    `close()` of every inner frame: a frame that yields while being closed makes its parent see
    RuntimeError("generator ignored GeneratorExit"); a frame that ends quietly lets its parent go on
    raising GeneratorExit. -/
structure AState where
  ctrl : Ctrl
  stack : List Frame
  closing : Option Exc := none
deriving Inhabited

/-- abandon the innermost try frame (it yielded while being closed) -/
def dropTryFrame : List Frame → List Frame
  | [] => []
  | .handlerK _ :: st => st
  | .finK _ :: st => st
  | _ :: st => dropTryFrame st

/-- run until the next yield or until the generator finishes -/
def astRun : Nat → AState → AState
  | 0, a => { a with ctrl := .finishedWith (.raise .runtimeError) }
  | n + 1, a =>
    match a.ctrl with
    | .atYield _ => a
    | .finishedWith _ => a
    | .exec (.msg m) =>
      match a.closing with
      | none => { a with ctrl := .atYield m }
      | some _ => astRun n { a with ctrl := .unwind (.raising .runtimeError), stack := dropTryFrame a.stack }
    | .exec (.seq []) => astRun n { a with ctrl := .unwind .normal }
    | .exec (.seq (s :: rest)) => astRun n { a with ctrl := .exec s, stack := .seqK rest :: a.stack }
    | .exec (.tryS body h f) => astRun n { a with ctrl := .exec body, stack := .tryK h f :: a.stack }
    | .exec .raise => astRun n { a with ctrl := .unwind (.raising .planError) }
    | .exec .ret => astRun n { a with ctrl := .unwind .normal }   -- `return` ends that statement's own frame only
    | .unwind c =>
      match a.stack with
      | [] =>
        match c, a.closing with
        | .normal, some e0 | .returning, some e0 => { a with ctrl := .finishedWith (.raise e0) }
        | .raising e, some e0 =>
          { a with ctrl := .finishedWith (.raise (if e.isGenExit then e0 else if e == .stopIteration then .runtimeError else e)) }
        | .normal, none | .returning, none => { a with ctrl := .finishedWith .ret }
        | .raising e, none =>
          -- PEP 479: StopIteration escaping a generator frame becomes RuntimeError
          { a with ctrl := .finishedWith (.raise (if e == .stopIteration then .runtimeError else e)) }
      | .seqK rest :: st =>
        match c with
        | .normal =>
          match rest with
          | [] => astRun n { a with ctrl := .unwind .normal, stack := st }
          | s :: rest' => astRun n { a with ctrl := .exec s, stack := .seqK rest' :: st }
        | c => astRun n { a with ctrl := .unwind c, stack := st }
      | .tryK h f :: st =>
        match c, h with
        | .raising e, some hs =>
          if e.isException then astRun n { a with ctrl := .exec hs, stack := .handlerK f :: st }
          else match f with
            | some fs => astRun n { a with ctrl := .exec fs, stack := .finK c :: st }
            | none => astRun n { a with ctrl := .unwind c, stack := st }
        | c, _ =>
          match f with
          | some fs => astRun n { a with ctrl := .exec fs, stack := .finK c :: st }
          | none => astRun n { a with ctrl := .unwind c, stack := st }
      | .handlerK f :: st =>
        match f with
        | some fs => astRun n { a with ctrl := .exec fs, stack := .finK c :: st }
        | none =>
          let c' := match a.closing, c with
            | some _, .normal => Compl.raising .genExit
            | some _, .returning => Compl.raising .genExit
            | _, c => c
          astRun n { a with ctrl := .unwind c', stack := st }
      | .finK after :: st =>
        match c with
        | .normal =>
          -- the finally block ended quietly: the pending completion continues; while closing, a try frame
          -- that ends without an exception makes its parent re-raise GeneratorExit
          let after' := match a.closing, after with
            | some _, .normal => Compl.raising .genExit
            | some _, .returning => Compl.raising .genExit
            | _, c => c
          astRun n { a with ctrl := .unwind after', stack := st }
        | c => astRun n { a with ctrl := .unwind c, stack := st }     -- a new completion replaces the pending one

def Stmt.size : Stmt → Nat
  | .msg _ => 1
  | .seq body => 1 + (body.attach.map (fun ⟨s, _⟩ => s.size)).sum
  | .tryS b h f => 3 + b.size + (match h with | some s => s.size | none => 0) + (match f with | some s => s.size | none => 0)
  | .raise => 1
  | .ret => 1

def astFeed (fuel : Nat) (a : AState) (inp : Inp) : AState :=
  match a.ctrl with
  | .atYield _ =>
    match inp with
    | .send _ => astRun fuel { a with ctrl := .unwind .normal }
    | .throw e => astRun fuel { a with ctrl := .unwind (.raising e), closing := if e.isGenExit then some e else none }
  | _ => a

/-- the behaviour function of the generator made from a plan AST -/
def astBeh (p : Stmt) : Beh := fun hist =>
  let fuel := 4 * p.size + 16
  match hist with
  | [] => .ret
  | _first :: rest =>
    -- the first input is `next()`: start the body
    let a0 : AState := astRun fuel { ctrl := .exec p, stack := [] }
    let a := rest.foldl (astFeed fuel) a0
    match a.ctrl with
    | .atYield m => .yld m
    | .finishedWith o => o
    | _ => .raise .runtimeError

def Stmt.toGen (p : Stmt) : Gen := .user (astBeh p) [] false

end BlueskyVerif.Engine
