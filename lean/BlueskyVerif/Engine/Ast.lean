/-
Plan ASTs of the correspondence scenarios and their interpretation as generator behaviours.
Only the driver uses this file; the theorems quantify over arbitrary `Beh`.
-/
import BlueskyVerif.Engine.Types

namespace BlueskyVerif.Engine

inductive Stmt where
  | msg (m : Msg)
  | seq (body : List Stmt)
  | tryS (body : Stmt) (handler : Option Stmt) (fin : Option Stmt)
  | raise
  | ret
deriving Inhabited

inductive Compl where
  | normal | raising (e : Exc) | returning
deriving Inhabited

inductive Frame where
  | seqK (rest : List Stmt)
  | tryK (handler : Option Stmt) (fin : Option Stmt)
  | handlerK (fin : Option Stmt)
  | finK (after : Compl)
deriving Inhabited

inductive Ctrl where
  | exec (s : Stmt)
  | unwind (c : Compl)
  | atYield (m : Msg)            -- suspended at `r = yield m`
  | finishedWith (o : Out)
deriving Inhabited

structure AState where
  ctrl : Ctrl
  stack : List Frame
deriving Inhabited

/-- run until the next yield or until the generator finishes -/
def astRun : Nat → AState → AState
  | 0, a => { a with ctrl := .finishedWith (.raise .runtimeError) }
  | n + 1, a =>
    match a.ctrl with
    | .atYield _ => a
    | .finishedWith _ => a
    | .exec (.msg m) => { a with ctrl := .atYield m }
    | .exec (.seq []) => astRun n { a with ctrl := .unwind .normal }
    | .exec (.seq (s :: rest)) => astRun n { ctrl := .exec s, stack := .seqK rest :: a.stack }
    | .exec (.tryS body h f) => astRun n { ctrl := .exec body, stack := .tryK h f :: a.stack }
    | .exec .raise => astRun n { a with ctrl := .unwind (.raising .planError) }
    | .exec .ret => astRun n { a with ctrl := .unwind .returning }
    | .unwind c =>
      match a.stack with
      | [] =>
        match c with
        | .normal | .returning => { a with ctrl := .finishedWith .ret }
        | .raising e =>
          -- PEP 479: StopIteration escaping a generator frame becomes RuntimeError
          { a with ctrl := .finishedWith (.raise (if e == .stopIteration then .runtimeError else e)) }
      | .seqK rest :: st =>
        match c with
        | .normal =>
          match rest with
          | [] => astRun n { ctrl := .unwind .normal, stack := st }
          | s :: rest' => astRun n { ctrl := .exec s, stack := .seqK rest' :: st }
        | c => astRun n { ctrl := .unwind c, stack := st }
      | .tryK h f :: st =>
        match c, h with
        | .raising e, some hs =>
          if e.isException then astRun n { ctrl := .exec hs, stack := .handlerK f :: st }
          else match f with
            | some fs => astRun n { ctrl := .exec fs, stack := .finK c :: st }
            | none => astRun n { ctrl := .unwind c, stack := st }
        | c, _ =>
          match f with
          | some fs => astRun n { ctrl := .exec fs, stack := .finK c :: st }
          | none => astRun n { ctrl := .unwind c, stack := st }
      | .handlerK f :: st =>
        match f with
        | some fs => astRun n { ctrl := .exec fs, stack := .finK c :: st }
        | none => astRun n { ctrl := .unwind c, stack := st }
      | .finK after :: st =>
        match c with
        | .normal => astRun n { ctrl := .unwind after, stack := st }
        | c => astRun n { ctrl := .unwind c, stack := st }     -- a new completion replaces the pending one

def Stmt.size : Stmt → Nat
  | .msg _ => 1
  | .seq body => 1 + (body.attach.map (fun ⟨s, _⟩ => s.size)).sum
  | .tryS b h f => 3 + b.size + (match h with | some s => s.size | none => 0) + (match f with | some s => s.size | none => 0)
  | .raise => 1
  | .ret => 1

def astFeed (fuel : Nat) (a : AState) (inp : Inp) : AState :=
  match a.ctrl with
  | .atYield _ =>
    match inp with
    | .send _ => astRun fuel { a with ctrl := .unwind .normal }
    | .throw e => astRun fuel { a with ctrl := .unwind (.raising e) }
  | _ => a

/-- the behaviour function of the generator made from a plan AST -/
def astBeh (p : Stmt) : Beh := fun hist =>
  let fuel := 4 * p.size + 16
  match hist with
  | [] => .ret
  | _first :: rest =>
    -- the first input is `next()`: start the body
    let a0 := astRun fuel { ctrl := .exec p, stack := [] }
    let a := rest.foldl (astFeed fuel) a0
    match a.ctrl with
    | .atYield m => .yld m
    | .finishedWith o => o
    | _ => .raise .runtimeError

def Stmt.toGen (p : Stmt) : Gen := .user (astBeh p) [] false

end BlueskyVerif.Engine
