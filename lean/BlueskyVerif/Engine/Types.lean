/-
Engine model: basic types.  Hand-written transcription targets:
src/bluesky/run_engine.py (RunEngine._run, __call__, resume, request_pause, request_suspend,
abort/stop/halt, the command handlers) and src/bluesky/utils (exception classes, Msg).
No Mathlib.  Everything lives in Type 0.
-/
namespace BlueskyVerif.Engine

/-- RunEngineStateMachine.States -/
inductive St where
  | idle | running | pausing | paused | halting | stopping | aborting | suspending | panicked
deriving Repr, DecidableEq, Inhabited

def St.name : St → String
  | .idle => "idle" | .running => "running" | .pausing => "pausing" | .paused => "paused"
  | .halting => "halting" | .stopping => "stopping" | .aborting => "aborting"
  | .suspending => "suspending" | .panicked => "panicked"

/-- Exceptions that travel through `_run`, by class. -/
inductive Exc where
  | failedPause | requestAbort | requestStop | planHalt | cancelled
  | failedStatus (k : Nat) | illegalSeq | invalidCommand | deviceError
  | planError | stopIteration | transitionError | waitForTimeout | runtimeError
  | genExit | valueError | noReplay | typeError
deriving Repr, DecidableEq, Inhabited

def Exc.name : Exc → String
  | .failedPause => "FailedPause" | .requestAbort => "RequestAbort" | .requestStop => "RequestStop"
  | .planHalt => "PlanHalt" | .cancelled => "CancelledError" | .failedStatus _ => "FailedStatus"
  | .illegalSeq => "IllegalMessageSequence" | .invalidCommand => "InvalidCommand"
  | .deviceError => "DeviceError" | .planError => "PlanError" | .stopIteration => "StopIteration"
  | .transitionError => "TransitionError" | .waitForTimeout => "WaitForTimeoutError"
  | .runtimeError => "RuntimeError" | .genExit => "GeneratorExit" | .valueError => "ValueError"
  | .noReplay => "NoReplayAllowed" | .typeError => "TypeError"

/-- `isinstance(e, Exception)`: PlanHalt (a GeneratorExit), GeneratorExit and CancelledError are
    BaseException-only. -/
def Exc.isException : Exc → Bool
  | .planHalt | .cancelled | .genExit => false
  | _ => true

/-- `isinstance(e, GeneratorExit)` -/
def Exc.isGenExit : Exc → Bool
  | .planHalt | .genExit => true
  | _ => false

inductive ExitStatus where | success | abort | fail
deriving Repr, DecidableEq, Inhabited

def ExitStatus.name : ExitStatus → String
  | .success => "success" | .abort => "abort" | .fail => "fail"

/-- What a command hands back / what a yield receives. -/
inductive Resp where
  | none
  | run (n : Nat)              -- a RunStart uid, canonically the index of the run
  | status (k : Nat)
  | bool (b : Bool)
  | reading (dev : String) (v : Int)
  | seq                        -- a list (stage / unstage)
  | exc (e : Exc)              -- an exception instance stored as the response (thrown at the next yield)
deriving Repr, DecidableEq, Inhabited

structure Msg where
  cmd : String
  obj : Option String := none
  iargs : List Int := []
  name : Option String := none      -- stream name (create) / group (set, trigger, wait)
  flag : Bool := false              -- defer (pause) / value (rewindable)
  run : Option String := none       -- run key
  mid : Option Nat := none          -- identity of the Msg object (creation index); none = made by the engine
deriving Repr, DecidableEq, Inhabited

inductive Inp where
  | send (r : Resp)
  | throw (e : Exc)
deriving Repr, DecidableEq

inductive Out where
  | yld (m : Msg)
  | ret
  | raise (e : Exc)
deriving Repr, DecidableEq

/-- Behaviour of an arbitrary Python generator: the outcome of the LAST resume, given every input so
    far (the first input is `send none` = `next`).  Any plan at all is such a function. -/
abbrev Beh := List Inp → Out

/-- Generators that sit on the plan stack. -/
inductive Gen where
  | user (beh : Beh) (hist : List Inp) (dead : Bool)   -- arbitrary plan
  | list (msgs : List Msg)                              -- `ensure_generator(list)`, `single_gen(msg)`
  | chain (cur : Gen) (rest : List Gen)                 -- `yield from a; yield from b; ...` with no try blocks
  | fresh (msgs : List Msg)                             -- a list generator that has not been started yet
deriving Inhabited

/-- One resume of a generator (send or throw) following the CPython generator protocol. -/
def Gen.resume : Gen → Inp → Out × Gen
  | .user beh hist dead, inp =>
    if dead then
      match inp with
      | .send _ => (.ret, .user beh hist true)
      | .throw e => (.raise e, .user beh hist true)
    else
      match hist, inp with
      | [], .throw e =>     -- thrown into a not-yet-started generator (PEP 479 applies to its frame)
        (.raise (if e == .stopIteration then .runtimeError else e), .user beh hist true)
      | _, _ =>
        let hist' := hist ++ [inp]
        match beh hist' with
        | .yld m => (.yld m, .user beh hist' false)
        | o => (o, .user beh hist' true)
  | .list msgs, inp =>
    match inp with
    | .throw e => (.raise (if e == .stopIteration then .runtimeError else e), .list [])
    | .send _ =>
      match msgs with
      | [] => (.ret, .list [])
      | m :: ms => (.yld m, .list ms)
  | .fresh msgs, inp =>
    -- CPython: "TypeError: can't send non-None value to a just-started generator"
    match inp with
    | .throw e => (.raise (if e == .stopIteration then .runtimeError else e), .list [])
    | .send r =>
      if r == .none then
        match msgs with
        | [] => (.ret, .list [])
        | m :: ms => (.yld m, .list ms)
      else (.raise .typeError, .fresh msgs)
  | .chain cur rest, inp =>
    match cur.resume inp with
    | (.yld m, cur') => (.yld m, .chain cur' rest)
    | (.raise e, _) => (.raise e, .chain (.list []) [])
    | (.ret, _) =>
      -- the delegate returned: the enclosing frame continues with the next `yield from`
      let rec next : List Gen → Out × Gen
        | [] => (.ret, .chain (.list []) [])
        | g :: gs =>
          match g.resume (.send .none) with
          | (.yld m, g') => (.yld m, .chain g' gs)
          | (.raise e, _) => (.raise e, .chain (.list []) [])
          | (.ret, _) => next gs
      next rest

/-- Documents, reduced to what the properties speak about. -/
structure Doc where
  kind : String                      -- start | descriptor | event | stop
  run : Nat
  stream : String := ""
  seq : Nat := 0
  keys : List String := []
  data : List (String × Int) := []
  note : String := ""                -- interruption text
  exit : String := ""
  reason : String := ""
  numEvents : List (String × Nat) := []
deriving Repr, DecidableEq, Inhabited

/-- Device ledger entry: (device, operation, argument) -/
structure Call where
  dev : String
  op : String
  arg : Option Int := none
  raised : Bool := false
deriving Repr, DecidableEq, Inhabited

def assocGet {β} (k : String) : List (String × β) → Option β
  | [] => none
  | (k', v) :: xs => if k' = k then some v else assocGet k xs

def assocSet {β} (k : String) (v : β) : List (String × β) → List (String × β)
  | [] => [(k, v)]
  | (k', v') :: xs => if k' = k then (k, v) :: xs else (k', v') :: assocSet k v xs

def assocErase {β} (k : String) : List (String × β) → List (String × β)
  | [] => []
  | (k', v') :: xs => if k' = k then xs else (k', v') :: assocErase k xs

end BlueskyVerif.Engine
