/-
The RunEngine as a program-counter machine (DESIGN.md Appendix A/B).

`_run` is executed atomically from one suspension point to the next (`advance`); the
environment (requests from other threads, status completions, monitor updates, the main
thread's decisions while paused) acts only while `_run` is suspended.  The tables
`Src.transitions`, `Src.uncacheable`, `Src.registry`, `Src.resetsCheckpoint`, the exit ladder and
the request constants are GENERATED from the source (Engine/Generated.lean).
-/
import BlueskyVerif.Engine.Generated

namespace BlueskyVerif.Engine

/-! ## devices (fakes of harness/engine_impl.py) -/

structure DevSpec where
  name : String
  kind : String                              -- motor | det | sig
  modes : List (String × List String) := []  -- op ↦ per-call mode: done | fail | pending | raise | noreplay
  pausable : Bool := false
  offset : Int := 0
deriving Repr, Inhabited

structure DevState where
  pos : Int := 0
  counts : List (String × Nat) := []
  subs : List (Nat × String) := []   -- engine callbacks currently subscribed: (run id, stream), with repeats
  value : Int := 0           -- signal value
deriving Repr, Inhabited

/-! ## the bundler, reduced to what the engine properties need (bundlers.py) -/

structure Bundler where
  runId : Nat
  runOpen : Bool := true
  bundling : Bool := false
  bundleName : String := ""
  objsRead : List String := []
  readCache : List (String × Int) := []
  descriptors : List (String × List String) := []   -- stream ↦ objects (descriptor emitted)
  seq : List (String × Nat) := []                    -- _sequence_counters
  seqCopy : List (String × Nat) := []                -- _sequence_counters_copy
  monitors : List (String × String) := []            -- signal ↦ stream (monitor_params)
  recordInt : Bool := false                          -- interruptions descriptor exists
deriving Repr, Inhabited

/-- where the `_run` coroutine is suspended -/
inductive PC where
  | noTask | start | loopSleep | inSleep | inCkptSleep
  | inWait (group : String) | inWaitFor (fut : Nat)
  | pausedWait | exitSleep | finished
deriving Repr, DecidableEq, Inhabited

/-- result of the `_run` task -/
inductive TaskResult where
  | pending | returned | raised (e : Exc) | cancelled
deriving Repr, DecidableEq, Inhabited

structure SuspReq where
  fut : Nat
  pre : Option Gen
  post : Option Gen
  just : Option String

structure StatusRec where
  dev : String
  op : String
  done : Bool := false
  ok : Bool := false
  futDone : Bool := false      -- the asyncio future kept in _groups is resolved
  futExc : Bool := false
deriving Repr, Inhabited

/-- `LifePath cur log`: the transition log is a path in the generated transition table from `idle`
    to the current state.  EState carries a proof of it, so the state can only ever be changed by
    extending the log along an edge of the table (what LoggingPropertyMachine.__set__ enforces). -/
inductive LifePath : St → List (St × St) → Prop where
  | nil : LifePath .idle []
  | snoc {cur : St} {log : List (St × St)} {new : St} :
      LifePath cur log → (Src.transitions cur).contains new = true → LifePath new (log ++ [(cur, new)])

structure EState where
  devSpecs : List DevSpec := []
  devs : List (String × DevState) := []
  recordInterruptions : Bool := false
  -- RunEngine attributes
  state : St := .idle
  trans : List (St × St) := []
  lifeOk : LifePath state trans := by exact LifePath.nil
  planStack : List Gen := []            -- top first
  respStack : List Resp := []           -- top first
  msgCache : Option (List Msg) := some []   -- oldest first
  rewindable : Bool := true
  deferredPause : Bool := false
  exceptionSlot : Option Exc := none
  interrupted : Bool := false
  exitStatus : ExitStatus := .success
  reason : String := ""
  bundlers : List (String × Bundler) := []   -- run key ↦ bundler ("" = None), insertion order
  staged : List String := []
  moved : List String := []
  objsSeen : List String := []
  runStartUids : List Nat := []
  nextRun : Nat := 0
  scanId : Nat := 0
  statuses : List StatusRec := []
  groups : List (String × List Nat) := []    -- group ↦ status ids
  waiting : List Nat := []                   -- the futures popped from `_groups` by the `wait` in progress
  pendingCompl : List Nat := []              -- finished statuses whose loop callback has not run yet
  pardon : Bool := false
  futs : List Nat := []                      -- released futures (suspender events that are set)
  futsKnown : List Nat := []                 -- events created so far (a wait_for asked for them)
  suspReqs : List SuspReq := []
  permit : Bool := false
  blockingEvent : Bool := false
  cancelPending : Bool := false
  taskResult : TaskResult := .pending
  -- the `_run` coroutine
  pc : PC := .noTask
  stashed : Option Exc := none
  resp : Option Resp := none                 -- none = sentinel
  curMsg : Option Msg := none
  exitExc : Option Exc := none               -- exception that left the loop
  exitReason : String := ""
  planDone : Bool := false                   -- the plan returned (StopIteration left the loop)
  cleanupExc : Option Exc := none            -- an exception raised inside the outer `finally` (it replaces the result)
  nCreated : Nat := 0
  -- monotone logs
  msgs : List Msg := []
  refused : List String := []
  docs : List Doc := []
  calls : List Call := []
  yields : List (Nat × Inp) := []
  arrivals : List String := []

instance : Inhabited EState := ⟨{}⟩

/-! ## small helpers -/

def EState.logCall (s : EState) (c : Call) : EState := { s with calls := s.calls ++ [c] }
def EState.emit (s : EState) (d : Doc) : EState := { s with docs := s.docs ++ [d] }

def specOf (s : EState) (n : String) : Option DevSpec := s.devSpecs.find? (·.name = n)
def devOf (s : EState) (n : String) : DevState := (assocGet n s.devs).getD {}
def setDev (s : EState) (n : String) (d : DevState) : EState := { s with devs := assocSet n d s.devs }

/-- consume the next scripted mode of operation `op` on device `n` -/
def nextMode (s : EState) (n : String) (op : String) : String × EState :=
  let d := devOf s n
  let k := (assocGet op d.counts).getD 0
  let modes := ((specOf s n).map (fun sp => (assocGet op sp.modes).getD [])).getD []
  let mode := (modes[k]?).getD "done"
  (mode, setDev s n { d with counts := assocSet op (k + 1) d.counts })

/-- the state setter of LoggingPropertyMachine: refuses moves that are not in the generated table -/
def setState (s : EState) (new : St) : Except Exc EState :=
  if h : (Src.transitions s.state).contains new = true then
    .ok { s with state := new, trans := s.trans ++ [(s.state, new)], lifeOk := LifePath.snoc s.lifeOk h }
  else .error .transitionError

def Gen.pendingMid : Gen → Option Nat
  | .user beh hist dead => if dead || hist.isEmpty then none else
      match beh hist with
      | .yld m => m.mid
      | _ => none
  | .list _ => none
  | .fresh _ => none
  | .chain cur _ => cur.pendingMid

/-! ## bundler operations (bundlers.py), returning the documents through the engine state -/

def Bundler.counter (b : Bundler) (stream : String) : Nat := (assocGet stream b.seq).getD 1

/-- compose_event on stream: read counter, emit, write counter + 1 -/
def emitEvent (s : EState) (b : Bundler) (stream : String) (data : List (String × Int)) (note : String := "") :
    EState × Bundler :=
  let n := b.counter stream
  let s := s.emit { kind := "event", run := b.runId, stream := stream, seq := n, data := data, note := note }
  (s, { b with seq := assocSet stream (n + 1) b.seq })

def Bundler.commit (b : Bundler) (stream : String) : Bundler :=
  if Src.bundlerCommits.isEmpty then b else
  match assocGet stream b.seq with
  | some v => { b with seqCopy := assocSet stream v b.seqCopy }
  | none => b

def Bundler.resetCheckpoint (b : Bundler) : Bundler :=
  { b with seqCopy := b.seq.foldl (fun acc (k, v) => assocSet k v acc) b.seqCopy }

def Bundler.rewind (b : Bundler) : Bundler :=
  let seq := b.seqCopy
  let fix := b.descriptors.foldl (fun (acc : List (String × Nat) × List (String × Nat)) (k, _) =>
      if (assocGet k acc.1).isNone then (assocSet k 1 acc.1, assocSet k 1 acc.2) else acc) (seq, b.seqCopy)
  { b with seq := fix.1, seqCopy := fix.2, bundling := false }

def recordInterruption (s : EState) (b : Bundler) (content : String) : EState × Bundler :=
  if b.recordInt then
    let (s, b) := emitEvent s b "interruptions" [] content
    -- NB in the source the commit happens before emit_sync; the document order is the same
    (s, if Src.bundlerCommits.contains "record_interruption" then b.commit "interruptions" else b)
  else (s, b)

/-- apply `f` to every bundler in insertion order, threading the engine state -/
def forBundlers (s : EState) (f : EState → Bundler → EState × Bundler) : EState :=
  let rec go (s : EState) (todo : List (String × Bundler)) (done : List (String × Bundler)) : EState :=
    match todo with
    | [] => { s with bundlers := done.reverse }
    | (k, b) :: rest => let (s', b') := f s b; go s' rest ((k, b') :: done)
  go s s.bundlers []

def prepareStream (s : EState) (b : Bundler) (stream : String) (objs : List String) : EState × Bundler :=
  let s := s.emit { kind := "descriptor", run := b.runId, stream := stream, keys := objs }
  let b := { b with descriptors := assocSet stream objs b.descriptors }
  let b := if (assocGet stream b.seq).isNone then
    { b with seq := assocSet stream 1 b.seq, seqCopy := assocSet stream 1 b.seqCopy } else b
  (s, b)

/-- `obj.clear_sub(cb)` removes every registration of that callback (ophyd semantics) -/
def suspendMonitors (s : EState) (b : Bundler) : EState × Bundler :=
  (b.monitors.foldl (fun s (sig, stream) =>
    let d := devOf s sig
    setDev (s.logCall { dev := sig, op := "clear_sub" }) sig { d with subs := d.subs.filter (· != (b.runId, stream)) }) s, b)

def restoreMonitors (s : EState) (b : Bundler) : EState × Bundler :=
  (b.monitors.foldl (fun s (sig, stream) =>
    let d := devOf s sig
    setDev (s.logCall { dev := sig, op := "subscribe" }) sig { d with subs := d.subs ++ [(b.runId, stream)] }) s, b)

def clearMonitors (s : EState) (b : Bundler) : EState × Bundler :=
  let (s, b) := suspendMonitors s b
  (s, { b with monitors := [] })

/-- RunBundler.close_run (exit_status / reason given) -/
def closeRunDoc (s : EState) (b : Bundler) (exit : String) (reason : String) : EState × Bundler :=
  let (s, b) := clearMonitors s b
  let s := s.emit { kind := "stop", run := b.runId, exit := exit, reason := reason,
                    numEvents := b.seq.map (fun (k, v) => (k, v - 1)) }
  (s, { (b.resetCheckpoint) with runOpen := false })

/-! ## engine-level helpers -/

def resetCheckpointMeth (s : EState) : EState :=
  match s.msgCache with
  | none => s
  | some _ => forBundlers { s with msgCache := some [] } (fun s b => (s, b.resetCheckpoint))

def stopMovables (s : EState) : EState :=
  s.moved.foldl (fun s n =>
    let (mode, s) := nextMode s n "stop"
    let (_, s) := (mode, s)
    s.logCall { dev := n, op := "stop" }) s

/-- the `obj.pause()` loop over objs_seen (Pausable devices only); NoReplayAllowed resets the checkpoint -/
def pauseHooks (s : EState) : EState :=
  s.objsSeen.foldl (fun s n =>
    match specOf s n with
    | some sp => if sp.pausable then
        let (mode, s) := nextMode s n "pause"
        let s := s.logCall { dev := n, op := "pause" }
        if mode == "noreplay" then resetCheckpointMeth s else s
      else s
    | none => s) s

def resumeHooks (s : EState) : EState :=
  s.objsSeen.foldl (fun s n =>
    match specOf s n with
    | some sp => if sp.pausable then s.logCall { dev := n, op := "resume" } else s
    | none => s) s

/-- RunEngine._rewind -/
def rewindPlan (s : EState) : List Msg × EState :=
  let cache := s.msgCache.getD []
  let s := { s with msgCache := some [] }
  let s := if cache.isEmpty then s else forBundlers s (fun s b => (s, b.rewind))
  (cache, s)

def runKey (m : Msg) : String := m.run.getD ""
def getBundler (s : EState) (m : Msg) : Option Bundler := assocGet (runKey m) s.bundlers
def putBundler (s : EState) (m : Msg) (b : Bundler) : EState := { s with bundlers := assocSet (runKey m) b s.bundlers }

/-- new status object from a device operation (`_add_status_to_group`) -/
def newStatus (s : EState) (dev op mode : String) (group : Option String) : Nat × EState :=
  let k := s.statuses.length
  let done := mode != "pending"
  let r : StatusRec := { dev := dev, op := op, done := done, ok := mode == "done" }
  let g := group.getD ""
  let s := { s with statuses := s.statuses ++ [r],
                    groups := assocSet g (((assocGet g s.groups).getD []) ++ [k]) s.groups,
                    pendingCompl := if done then s.pendingCompl ++ [k] else s.pendingCompl }
  (k, s)

/-- `_status_object_completed` for status k (runs as a loop callback) -/
def completeStatus (s : EState) (k : Nat) : EState :=
  match s.statuses[k]? with
  | none => s
  | some r =>
    if r.futDone then s else
    if !r.ok && !s.pardon then
      { s with statuses := s.statuses.set k { r with futDone := true, futExc := true },
               exceptionSlot := some (.failedStatus k) }
    else { s with statuses := s.statuses.set k { r with futDone := true } }

def flushCompletions (s : EState) : EState :=
  s.pendingCompl.foldl completeStatus { s with pendingCompl := [] }

/-! ## the command handlers.  Outcome of a command: a value, an exception, or a suspension. -/

inductive CmdOut where
  | value (r : Resp)
  | raised (e : Exc)
  | suspend (pc : PC)

def groupReady (s : EState) (_g : String) : Bool × Bool :=
  -- (no future pending, some future failed) over the futures the running `wait` popped from `_groups`
  let ids := s.waiting
  let recs := ids.filterMap (fun k => s.statuses[k]?)
  (recs.all (·.futDone), recs.any (·.futExc))

/-- `_request_pause_coro` -/
def requestPause (s : EState) (defer : Bool) : Except Exc EState :=
  if !(Src.transitions s.state).contains .pausing then .error .transitionError else
  if defer then .ok { s with deferredPause := true } else
  match setState { s with deferredPause := false, interrupted := true } .pausing with
  | .error e => .error e
  | .ok s =>
    let s := forBundlers s (fun s b => recordInterruption s b "pause")
    .ok { s with cancelPending := true }

def readingOf (s : EState) (n : String) : Int :=
  match specOf s n with
  | some sp =>
    if sp.kind == "det" then
      (s.devSpecs.filter (·.kind == "motor")).foldl (fun acc m => acc + (devOf s m.name).pos) 0 * 10 + sp.offset
    else if sp.kind == "sig" then (devOf s n).value
    else (devOf s n).pos
  | none => 0

def cmdOpenRun (s : EState) (m : Msg) : EState × CmdOut :=
  if (getBundler s m).isSome then (s, .raised .illegalSeq) else
  let rid := s.nextRun
  let b : Bundler := { runId := rid }
  let s := { s with nextRun := rid + 1, scanId := s.scanId + 1 }
  let s := s.emit { kind := "start", run := rid, seq := s.scanId }
  let b := b.resetCheckpoint
  let (s, b) := if s.recordInterruptions then
      let s := s.emit { kind := "descriptor", run := rid, stream := "interruptions", keys := ["interruption"] }
      (s, { b with recordInt := true, seq := assocSet "interruptions" 1 b.seq })
    else (s, b)
  let s := { s with bundlers := s.bundlers ++ [(runKey m, b)], runStartUids := s.runStartUids ++ [rid] }
  (s, .value (.run rid))

def cmdCloseRun (s : EState) (m : Msg) : EState × CmdOut :=
  match getBundler s m with
  | none => (s, .raised .illegalSeq)
  | some b =>
    if !b.runOpen then (s, .raised .illegalSeq) else
    let exit := m.name.getD "success"
    let (s, _) := closeRunDoc s b exit ""
    let s := { s with bundlers := assocErase (runKey m) s.bundlers }
    let s := if Src.resetsCheckpoint.contains "close_run" then resetCheckpointMeth s else s
    (s, .value (.run b.runId))

def cmdCreate (s : EState) (m : Msg) : EState × CmdOut :=
  match getBundler s m with
  | none => (s, .raised .illegalSeq)
  | some b =>
    if b.bundling then (s, .raised .illegalSeq) else
    match m.name with
    | none => (putBundler s m { b with bundling := true, objsRead := [], readCache := [] }, .raised .valueError)
    | some nm => (putBundler s m { b with bundling := true, bundleName := nm, objsRead := [], readCache := [] }, .value .none)

def cmdRead (s : EState) (m : Msg) : EState × CmdOut :=
  let n := m.obj.getD ""
  let (mode, s) := if (specOf s n).map (·.kind) == some "det" then nextMode s n "read" else ("done", s)
  if mode == "raise" then (s.logCall { dev := n, op := "read", raised := true }, .raised .deviceError) else
  let v := readingOf s n
  let s := if (specOf s n).map (·.kind) == some "det" then s.logCall { dev := n, op := "read", arg := some v } else s
  match getBundler s m with
  | none => (s, .value (.reading n v))
  | some b =>
    if b.bundling then
      if b.objsRead.contains n then (s, .raised .valueError) else
      (putBundler s m { b with objsRead := b.objsRead ++ [n], readCache := b.readCache ++ [(n, v)] }, .value (.reading n v))
    else (s, .value (.reading n v))

def sameSet (a b : List String) : Bool := a.all b.contains && b.all a.contains

def cmdSave (s : EState) (m : Msg) : EState × CmdOut :=
  match getBundler s m with
  | none => (s, .raised .illegalSeq)
  | some b =>
    if !b.bundling then (s, .raised .illegalSeq) else
    if b.objsRead.isEmpty then (putBundler s m { b with bundling := false, bundleName := "" }, .value .none) else
    let stream := b.bundleName
    let b := { b with bundling := false, bundleName := "" }
    match assocGet stream b.descriptors with
    | none =>
      let (s, b) := prepareStream s b stream b.objsRead
      let (s, b) := emitEvent s b stream b.readCache
      (putBundler s m b, .value .none)
    | some objs =>
      if !sameSet objs b.objsRead then (putBundler s m b, .raised .runtimeError) else
      let (s, b) := emitEvent s b stream b.readCache
      (putBundler s m b, .value .none)

def cmdDrop (s : EState) (m : Msg) : EState × CmdOut :=
  match getBundler s m with
  | none => (s, .raised .illegalSeq)
  | some b =>
    if !b.bundling then (s, .raised .illegalSeq) else
    (putBundler s m { b with bundling := false, bundleName := "" }, .value .none)

def cmdCheckpoint (s : EState) : EState × CmdOut :=
  if s.bundlers.any (fun (_, b) => b.bundling) then (s, .raised .illegalSeq) else
  let s := resetCheckpointMeth s
  if s.deferredPause then (s, .suspend .inCkptSleep) else (s, .value .none)

def cmdClearCheckpoint (s : EState) : EState × CmdOut :=
  let s := { s with msgCache := none }
  (forBundlers s (fun s b => (s, { b with seqCopy := [] })), .value .none)

def cmdRewindable (s : EState) (m : Msg) : EState × CmdOut :=
  -- Msg('rewindable', None, flag) ; iargs = [] means `None` (query only)
  match m.iargs with
  | [] => (s, .value (.bool s.rewindable))
  | _ =>
    let v := m.flag
    let cur := s.rewindable
    let s := { s with rewindable := v }
    let s := if s.msgCache.isSome && v != cur && Src.rewindableToggleResets then resetCheckpointMeth s else s
    (s, .value (.bool s.rewindable))

def cmdSet (s : EState) (m : Msg) : EState × CmdOut :=
  let n := m.obj.getD ""
  let s := if s.moved.contains n then s else { s with moved := s.moved ++ [n] }
  let (mode, s) := nextMode s n "set"
  if mode == "raise" then (s.logCall { dev := n, op := "set", raised := true }, .raised .deviceError) else
  let v := m.iargs.headD 0
  let s := setDev s n { (devOf s n) with pos := v }
  let s := s.logCall { dev := n, op := "set", arg := some v }
  let (k, s) := newStatus s n "set" mode m.name
  (s, .value (.status k))

def cmdTrigger (s : EState) (m : Msg) : EState × CmdOut :=
  let n := m.obj.getD ""
  let (mode, s) := nextMode s n "trigger"
  if mode == "raise" then (s.logCall { dev := n, op := "trigger", raised := true }, .raised .deviceError) else
  let s := s.logCall { dev := n, op := "trigger" }
  let (k, s) := newStatus s n "trigger" mode m.name
  (s, .value (.status k))

def cmdWait (s : EState) (m : Msg) : EState × CmdOut :=
  let g := m.name.getD ""
  match assocGet g s.groups with
  | none => (s, .value (.bool true))
  | some [] => ({ s with groups := assocErase g s.groups }, .value (.bool true))
  | some ids =>
    -- `futs = self._groups.pop(group)`: a cancelled wait does not put them back
    ({ s with groups := assocErase g s.groups, waiting := ids }, .suspend (.inWait g))

def cmdStage (s : EState) (m : Msg) (op : String) : EState × CmdOut :=
  let n := m.obj.getD ""
  let (mode, s) := nextMode s n op
  let s := s.logCall { dev := n, op := op }
  if mode == "raise" then (s, .raised .deviceError) else
  let s := if op == "stage" then (if s.staged.contains n then s else { s with staged := s.staged ++ [n] })
           else { s with staged := s.staged.filter (· != n) }
  (resetCheckpointMeth s, .value .seq)

def cmdMonitor (s : EState) (m : Msg) : EState × CmdOut :=
  match getBundler s m with
  | none => (s, .raised .illegalSeq)
  | some b =>
    let sig := m.obj.getD ""
    if (assocGet sig b.monitors).isSome then (s, .raised .illegalSeq) else
    let stream := m.name.getD (sig ++ "_monitor")
    let (s, b) := prepareStream s b stream [sig]
    let b := { b with monitors := b.monitors ++ [(sig, stream)] }
    let d := devOf s sig
    let s := setDev (s.logCall { dev := sig, op := "subscribe" }) sig { d with subs := d.subs ++ [(b.runId, stream)] }
    (resetCheckpointMeth (putBundler s m b), .value .none)

def cmdUnmonitor (s : EState) (m : Msg) : EState × CmdOut :=
  match getBundler s m with
  | none => (s, .raised .illegalSeq)
  | some b =>
    let sig := m.obj.getD ""
    if (assocGet sig b.monitors).isNone then (s, .raised .illegalSeq) else
    let d := devOf s sig
    let stream := (assocGet sig b.monitors).getD ""
    let s := setDev (s.logCall { dev := sig, op := "clear_sub" }) sig { d with subs := d.subs.filter (· != (b.runId, stream)) }
    let b := { b with monitors := assocErase sig b.monitors }
    let b := b.resetCheckpoint
    (resetCheckpointMeth (putBundler s m b), .value .none)

/-- `_start_suspender` -/
def cmdStartSuspender (s : EState) (m : Msg) : EState × CmdOut :=
  match s.suspReqs[(m.iargs.headD 0).toNat]? with
  | none => (s, .raised .runtimeError)
  | some rq =>
    let just := rq.just.getD "suspended"
    let s := forBundlers s (fun s b => recordInterruption s b just)
    let s := stopMovables s
    let s := pauseHooks s
    let (rw, s) := rewindPlan s
    let was := s.rewindable
    let helper : Gen := .chain (.list [{ cmd := "rewindable", iargs := [0], flag := false }])
      ((rq.pre.toList) ++ [Gen.list [{ cmd := "wait_for", iargs := [rq.fut] }, { cmd := "_resume_from_suspender" }]]
        ++ rq.post.toList ++ [Gen.list [{ cmd := "rewindable", iargs := [0], flag := was }], Gen.list rw])
    ({ s with planStack := helper :: s.planStack, respStack := .none :: s.respStack }, .value .none)

def cmdResumeFromSuspender (s : EState) : EState × CmdOut :=
  -- `_resume`: restore monitors, resume hooks
  let s := forBundlers s restoreMonitors
  (resumeHooks s, .value .none)

def cmdWaitFor (s : EState) (m : Msg) : EState × CmdOut :=
  let f := (m.iargs.headD 0).toNat
  let s := if s.futsKnown.contains f then s else { s with futsKnown := s.futsKnown ++ [f] }
  if s.futs.contains f then (s, .value .seq) else (s, .suspend (.inWaitFor f))

def runCommand (s : EState) (m : Msg) : EState × CmdOut :=
  match m.cmd with
  | "open_run" => cmdOpenRun s m
  | "close_run" => cmdCloseRun s m
  | "create" => cmdCreate s m
  | "read" => cmdRead s m
  | "save" => cmdSave s m
  | "drop" => cmdDrop s m
  | "checkpoint" => cmdCheckpoint s
  | "clear_checkpoint" => cmdClearCheckpoint s
  | "rewindable" => cmdRewindable s m
  | "set" => cmdSet s m
  | "trigger" => cmdTrigger s m
  | "wait" => cmdWait s m
  | "sleep" => (s, .suspend .inSleep)
  | "stage" => cmdStage s m "stage"
  | "unstage" => cmdStage s m "unstage"
  | "monitor" => cmdMonitor s m
  | "unmonitor" => cmdUnmonitor s m
  | "null" => (s, .value .none)
  | "pause" =>
    match requestPause s m.flag with
    | .ok s => (s, .value .none)
    | .error e => (s, .raised e)
  | "_start_suspender" => cmdStartSuspender s m
  | "_resume_from_suspender" => cmdResumeFromSuspender s
  | "wait_for" => cmdWaitFor s m
  | _ => (s, .raised .runtimeError)

/-! ## `_run`, block by block -/

/-- the inner `finally`: if a response was popped and the plan was not popped, push the new response -/
def fin (s : EState) (newResp : Resp) : EState :=
  match s.resp with
  | none => s
  | some _ => { s with respStack := newResp :: s.respStack, resp := none }

/-- outcome of one `advance` run: keep going at the loop top, or suspended/finished -/
inductive Flow where
  | loopTop (s : EState)
  | stop (s : EState)

/-- leaving the loop with exception `e` (or StopIteration when `e = stopIteration`): the outer ladder -/
def leaveLoop (s : EState) (e : Exc) : EState :=
  let s := { s with exitExc := some e }
  match e with
  | .stopIteration => { s with exitStatus := Src.exitOnStopIteration, planDone := true, pc := .exitSleep }
  | .requestStop => { s with exitStatus := Src.exitOnRequestStop, pc := .exitSleep }
  | .failedPause | .requestAbort | .cancelled | .planHalt => { s with exitStatus := Src.exitOnAbortLike, pc := .exitSleep }
  | .genExit => { s with exitStatus := Src.exitOnGeneratorExit, exitReason := "genexit", pc := .finished }   -- cleanup follows at once
  | e => { s with exitStatus := Src.exitOnException, exitReason := e.name, pc := .finished }

def closeGen (s : EState) (g : Gen) : EState :=
  match g.pendingMid, g.resume (.throw .genExit) with
  | some mid, _ => { s with yields := s.yields ++ [(mid, .throw .genExit)] }
  | none, _ => s

/-- the outer `finally` of `_run`, up to (not including) the final `self._state = "idle"` -/
def cleanupBody (s : EState) : EState :=
  let reason := if s.exitReason == "" then s.reason else s.exitReason
  let s := { s with pardon := true }
  let s := if Src.finallyStopsMovables then stopMovables s else s
  let s := if Src.finallyClearsMonitors then forBundlers s clearMonitors else s
  let s := if Src.finallyUnstages then
      s.staged.foldl (fun s n => let (_, s) := nextMode s n "unstage"; s.logCall { dev := n, op := "unstage" }) s
    else s
  let s := { s with staged := [] }
  let s := if Src.finallyClosesRuns then
      forBundlers s (fun s b => if b.runOpen then closeRunDoc s b s.exitStatus.name reason else (s, b))
    else s
  let s := { s with bundlers := [] }
  s.planStack.foldl closeGen s

/-- the outer `finally` of `_run` -/
def cleanup (s : EState) : EState :=
  let s := cleanupBody s
  match setState s .idle with
  | .ok s => s
  | .error e => { s with cleanupExc := some e }

/-- the task ends: compute its result and fire the done-callback (sets the blocking event) -/
def finishTask (s : EState) : EState :=
  let res : TaskResult :=
    match s.cleanupExc with
    | some e => .raised e
    | none =>
    match s.exitExc with
    | some .genExit => .raised .valueError
    | some e =>
      if s.stashed == some .cancelled then .cancelled else
      match e with
      | .stopIteration | .requestStop | .failedPause | .requestAbort | .cancelled | .planHalt => .returned
      | e => .raised e
    | none => .returned
  { s with taskResult := res, pc := .finished, blockingEvent := true }

/-- bookkeeping for a message handed out by the top plan: msg_hook, objs_seen, the message cache -/
def noteMsg (s : EState) (m : Msg) : EState :=
  let s := { s with msgs := s.msgs ++ [m], stashed := none }
  let s := match m.obj with
    | some o => if s.objsSeen.contains o then s else { s with objsSeen := s.objsSeen ++ [o] }
    | none => s
  match s.msgCache with
  | some c => if s.rewindable && !Src.uncacheable.contains m.cmd then { s with msgCache := some (c ++ [m]) } else s
  | none => s

/-- what follows the command: its outcome becomes the new response, or `_run` suspends inside it -/
def afterCommand (m : Msg) : EState × CmdOut → Flow
  | (s, .value r) => .loopTop (fin s r)
  | (s, .raised e) => .loopTop (fin s (.exc e))
  | (s, .suspend pc) => .stop { s with pc := pc, curMsg := some m }

/-- process message `m` yielded by the top plan -/
def processMsg (s : EState) (m : Msg) : Flow :=
  let s := noteMsg s m
  if !Src.registry.contains m.cmd then .loopTop (fin s (.exc .invalidCommand))
  else afterCommand m (runCommand s m)

/-- pop a dead plan: `_plan_stack.pop(); resp = sentinel` and decide -/
def popPlan (s : EState) (how : Option Exc) : Flow :=
  let s := { s with planStack := s.planStack.tail, resp := none }
  if s.planStack.isEmpty then
    .stop (leaveLoop s (how.getD .stopIteration))
  else
    match how with
    | some e => .loopTop { s with stashed := some e }
    | none => .loopTop s

/-- `resp = self._response_stack.pop()` and the pick-up of `self._exception` -/
def takeResp (s : EState) (r : Resp) (rs : List Resp) : EState :=
  let s := { s with respStack := rs, resp := some r }
  match s.exceptionSlot with
  | some e => { s with stashed := some e, exceptionSlot := none }
  | none => s

/-- `stashed_exception or resp` when one of them is an exception to throw -/
def thrownOf (s : EState) (r : Resp) : Option Exc :=
  match s.stashed, r with
  | some e, _ => some e
  | none, .exc e => if e.isException then some e else none
  | none, _ => none

def logYield (s : EState) (g : Gen) (inp : Inp) : EState :=
  match g.pendingMid with
  | some mid => { s with yields := s.yields ++ [(mid, inp)] }
  | none => s

/-- what the top plan did when resumed -/
def afterResume (s : EState) (gs : List Gen) (thrown : Option Exc) : Out × Gen → Flow
  | (.yld m, g') => processMsg { s with planStack := g' :: gs } m
  | (.ret, g') =>
    -- StopIteration: in the throw branch it is caught by `except Exception as e` and stashed
    let s := { s with planStack := g' :: gs }
    match thrown with
    | some _ => popPlan s (some .stopIteration)
    | none => popPlan s none
  | (.raise e, g') =>
    let s := { s with planStack := g' :: gs }
    if e.isException then popPlan s (some e)
    else
      -- BaseException only (GeneratorExit / PlanHalt / CancelledError): not caught by the inner
      -- handlers, the inner finally runs with resp still set, then the outer ladder
      .stop (leaveLoop (fin s .none) e)

/-- after the loop-top sleep(0): pop a response, resume the top plan, process its message -/
def afterSleep (s : EState) : Flow :=
  match s.respStack, s.planStack with
  | r :: rs, g :: gs =>
    let s := takeResp s r rs
    let thrown := thrownOf s r
    let inp : Inp := match thrown with
      | some e => .throw e
      | none => .send r
    afterResume (logYield s g inp) gs thrown (g.resume inp)
  | _, _ => .stop (leaveLoop s .runtimeError)     -- unreachable when the stacks are in step

/-- `except asyncio.CancelledError` inside the loop -/
def hCancel (s : EState) (newResp : Resp) : Flow :=
  if s.state == .pausing then .loopTop (fin { s with permit := false } newResp)
  else match Src.cancelMap s.state with
  | some e => .loopTop (fin (if s.stashed.isNone then { s with stashed := some e } else s) newResp)
  | none =>
    if s.state == .suspending then .loopTop (fin s newResp)
    else if s.stashed == some .cancelled then .stop (leaveLoop (fin s newResp) .cancelled)
    else .loopTop (fin (if s.stashed.isNone then { s with stashed := some .cancelled } else s) newResp)

/-- the pause sequence at the top of the loop (`if not self._run_permit.is_set()`) -/
def pauseBlock (s : EState) : Flow :=
  let s := forBundlers s suspendMonitors
  let s := stopMovables s
  let s := pauseHooks s
  match setState s .paused with
  | .error e => .stop (leaveLoop s e)
  | .ok s => .stop { s with blockingEvent := true, pc := .pausedWait }

/-- the top of the while loop, up to the next suspension -/
def loopTop (s : EState) : Flow :=
  if (s.state == .pausing || s.state == .suspending) && s.msgCache.isNone then
    match setState { s with permit := true, stashed := some .failedPause } .aborting with
    | .ok s => .loopTop s
    | .error e => .stop (leaveLoop s e)
  else
  let s1 : Except Exc EState := if s.state == .suspending then setState s .running else .ok s
  match s1 with
  | .error e => .stop (leaveLoop s e)
  | .ok s =>
  if !s.permit then pauseBlock s
  else
    match s.stashed with
    | none => .stop { s with pc := .loopSleep, resp := none }
    | some _ => afterSleep { s with resp := none }

/-- iterate loop tops; every round either suspends or consumes a plan / stashed exception, `fuel`
    bounds the number of rounds (the driver passes a generous bound) -/
def runLoop : Nat → EState → EState
  | 0, s => { s with refused := s.refused ++ ["fuel"] }
  | n + 1, s =>
    match loopTop s with
    | .stop s => if s.pc == .finished then finishTask (cleanup s) else s
    | .loopTop s => runLoop n s

def contFlow (fuel : Nat) : Flow → EState
  | .stop s => if s.pc == .finished then finishTask (cleanup s) else s
  | .loopTop s => runLoop fuel s

/-- resume `_run` from its suspension point (the loop gives it the CPU).  Delivers a pending
    cancellation as CancelledError at that point. -/
def advanceAt (fuel : Nat) (cancel : Bool) (s : EState) : EState :=
  match s.pc with
  | .noTask | .finished => s
  | .start =>
    if !s.permit then s else
    match setState { s with stashed := none, reason := "", exitReason := "", exitExc := none, planDone := false } .running with
    | .ok s => runLoop fuel s
    | .error e => contFlow fuel (.stop (leaveLoop s e))
  | .loopSleep =>
    if cancel then contFlow fuel (hCancel s .none) else contFlow fuel (afterSleep s)
  | .inSleep =>
    if cancel then contFlow fuel (hCancel s .none) else runLoop fuel (fin s .none)
  | .inCkptSleep =>
    if cancel then contFlow fuel (hCancel s .none) else
    match requestPause s false with
    | .ok s => runLoop fuel (fin s .none)
    | .error e => runLoop fuel (fin s (.exc e))
  | .inWait g =>
    if cancel then contFlow fuel (hCancel s .none) else
    let (allDone, anyExc) := groupReady s g
    if allDone then runLoop fuel (fin s (.bool true))
    else if anyExc then
      -- WaitForTimeoutError: the futures are put back under the group key
      runLoop fuel (fin { s with groups := assocSet g s.waiting s.groups } (.exc .waitForTimeout))
    else s
  | .inWaitFor f =>
    if cancel then contFlow fuel (hCancel s .none) else
    if s.futs.contains f then runLoop fuel (fin s .seq) else s
  | .pausedWait =>
    if !s.permit then s else
    if cancel then contFlow fuel (.stop (leaveLoop s .cancelled)) else
    let s := forBundlers s restoreMonitors
    let s1 : Except Exc EState := if s.state == .paused then setState s .running else .ok s
    match s1 with
    | .error e => contFlow fuel (.stop (leaveLoop s e))
    | .ok s =>
      match s.stashed with
      | none => { s with pc := .loopSleep, resp := none }
      | some _ => contFlow fuel (afterSleep { s with resp := none })
  | .exitSleep =>
    let s := if cancel then { s with stashed := some .cancelled, exitExc := some .cancelled } else s
    finishTask (cleanup s)

def advance (fuel : Nat) (s : EState) : EState :=
  advanceAt fuel s.cancelPending { s with cancelPending := false }

end BlueskyVerif.Engine
