/-
C03 -- the small "replay" model: a projection of the engine state onto what the recorded data depends on.

  RState = { pos : device ↦ Int (last set value), seq : stream ↦ Nat (bundler sequence counter) }
  RMsg   = set d v | bundle stream dets (a create / read… / save group: ONE event) | other (no effect)

A bundle emits one event with seq_num = the stream's counter and data = the readings of its objects, a
function of the current positions (`Devices.reading`, for the engine model: `readingOf`), then counter + 1.
`exec` runs a message list.  `execInterrupted` runs the messages K cached since a checkpoint with
interruptions: every pass is cut after a prefix of K, the counters are rolled back to their checkpoint
values (`Bundler.rewind`), positions stay as they are, and K is started again (`_rewind`'s replay plan
followed by the rest of the plan).  No Mathlib.
-/
namespace BlueskyVerif.Replay

abbrev Dev := String
abbrev Stream := String
abbrev Pos := Dev → Int
abbrev Seq := Stream → Nat
abbrev Data := List (Dev × Int)

structure RState where
  pos : Pos
  seq : Seq

inductive RMsg where
  | set (d : Dev) (v : Int)
  | bundle (stream : Stream) (dets : List Dev)
  | other
deriving Repr, DecidableEq, Inhabited

structure REvent where
  stream : Stream
  seq : Nat
  data : Data
deriving Repr, DecidableEq, Inhabited

/-- device semantics (a parameter): the reading of an object as a function of the positions, and the
    devices that reading depends on -/
structure Devices where
  reading : Pos → Dev → Int
  deps : Dev → List Dev

/-- the reading of `det` only depends on the positions of `deps det` -/
def Devices.Sound (D : Devices) : Prop :=
  ∀ (p q : Pos) (det : Dev), (∀ d ∈ D.deps det, p d = q d) → D.reading p det = D.reading q det

def setPos (p : Pos) (d : Dev) (v : Int) : Pos := fun x => if x = d then v else p x
def bump (s : Seq) (st : Stream) : Seq := fun x => if x = st then s st + 1 else s x

def readings (D : Devices) (p : Pos) (dets : List Dev) : Data := dets.map (fun d => (d, D.reading p d))

def step (D : Devices) (s : RState) : RMsg → RState × List REvent
  | .set d v => ({ s with pos := setPos s.pos d v }, [])
  | .bundle st dets => ({ s with seq := bump s.seq st }, [{ stream := st, seq := s.seq st, data := readings D s.pos dets }])
  | .other => (s, [])

def exec (D : Devices) : RState → List RMsg → RState × List REvent
  | s, [] => (s, [])
  | s, m :: ms =>
    let r1 := step D s m
    let r2 := exec D r1.1 ms
    (r2.1, r1.2 ++ r2.2)

/-- devices set by the messages, in order -/
def setsOf : List RMsg → List Dev
  | [] => []
  | .set d _ :: K => d :: setsOf K
  | _ :: K => setsOf K

/-- THE HYPOTHESIS of the replay lemma.  `posT`: positions at the interruption, `posC`: positions at the
    checkpoint.  For every bundle in K and every device its readings depend on: the device is set earlier
    in K, or it is where it was at the checkpoint. -/
def ReplaySafe (D : Devices) (K : List RMsg) (posT posC : Pos) : Prop :=
  ∀ (K1 : List RMsg) (st : Stream) (dets : List Dev) (K2 : List RMsg), K = K1 ++ .bundle st dets :: K2 →
    ∀ det ∈ dets, ∀ d ∈ D.deps det, d ∈ setsOf K1 ∨ posT d = posC d

/-- the same hypothesis as a Boolean (evaluated by the driver on the implementation's traces):
    `done` = devices set so far -/
def replaySafeB (D : Devices) (posT posC : Pos) : List Dev → List RMsg → Bool
  | _, [] => true
  | done, .set d _ :: K => replaySafeB D posT posC (d :: done) K
  | done, .bundle _ dets :: K =>
    dets.all (fun det => (D.deps det).all (fun d => done.contains d || posT d == posC d)) && replaySafeB D posT posC done K
  | done, .other :: K => replaySafeB D posT posC done K

/-- the reading recorded LAST for (stream, seq_num): what a consumer of the documents ends up with -/
def lastFor : List REvent → Stream → Nat → Option Data
  | [], _, _ => none
  | e :: es, st, n =>
    match lastFor es st n with
    | some d => some d
    | none => if e.stream = st ∧ e.seq = n then some e.data else none

/-- K with interruptions: pass i executes the first `nᵢ` messages of K from the positions reached so far
    with the counters rolled back to `seqC`; after the last interruption K runs to its end.  Returns the
    final state and ALL events emitted on the way. -/
def execInterrupted (D : Devices) (K : List RMsg) (seqC : Seq) : Pos → List Nat → RState × List REvent
  | p, [] => exec D { pos := p, seq := seqC } K
  | p, n :: ns =>
    let r1 := exec D { pos := p, seq := seqC } (K.take n)
    let r2 := execInterrupted D K seqC r1.1.pos ns
    (r2.1, r1.2 ++ r2.2)

/-- ReplaySafe at every interruption of a repeated schedule (and at the final pass) -/
def RepeatSafe (D : Devices) (K : List RMsg) (posC : Pos) (seqC : Seq) : Pos → List Nat → Prop
  | p, [] => ReplaySafe D K p posC
  | p, n :: ns => ReplaySafe D K p posC ∧ RepeatSafe D K posC seqC (exec D { pos := p, seq := seqC } (K.take n)).1.pos ns

/-- a checkpointed plan: a list of points, each = the messages between two checkpoints, with its own
    interruption schedule; the checkpoint before a point commits positions and counters -/
def execPoints (D : Devices) : RState → List (List RMsg × List Nat) → RState × List REvent
  | s, [] => (s, [])
  | s, (K, ns) :: rest =>
    let r1 := execInterrupted D K s.seq s.pos ns
    let r2 := execPoints D r1.1 rest
    (r2.1, r1.2 ++ r2.2)

/-- shape of a step-plan point (one_shot / one_1d_step / one_nd_step after their checkpoint): first the
    moves (no bundle among them), then triggers / waits / bundles (no move among them) -/
def RMsg.isSet : RMsg → Bool
  | .set _ _ => true
  | _ => false

def RMsg.isBundle : RMsg → Bool
  | .bundle _ _ => true
  | _ => false

def IsPoint (K : List RMsg) : Prop :=
  ∃ S R, K = S ++ R ∧ (∀ m ∈ S, m.isBundle = false) ∧ (∀ m ∈ R, m.isSet = false)

/-! ## trace-level executor (driver): the messages the implementation executed, with the points where the
    engine emptied its cache (`checkpoint`: counters snapshotted) and where it rewound (`rewind`) -/

inductive RStep where
  | msg (m : RMsg)
  | checkpoint
  | rewind (nonempty : Bool)     -- `_rewind`: the bundlers are rewound only if the cache was not empty
deriving Repr, Inhabited

structure TState where
  pos : Pos
  seq : Seq
  seqCopy : Seq

def stepTrace (D : Devices) (t : TState) : RStep → TState × List REvent
  | .msg m =>
    let r := step D { pos := t.pos, seq := t.seq } m
    ({ t with pos := r.1.pos, seq := r.1.seq }, r.2)
  | .checkpoint => ({ t with seqCopy := t.seq }, [])
  | .rewind ne => (if ne then { t with seq := t.seqCopy } else t, [])

def execTrace (D : Devices) : TState → List RStep → TState × List REvent
  | t, [] => (t, [])
  | t, x :: xs =>
    let r1 := stepTrace D t x
    let r2 := execTrace D r1.1 xs
    (r2.1, r1.2 ++ r2.2)

/-- the fake devices of harness/engine_impl.py: a detector reads 10·Σ motor positions + offset, a motor
    reads its position (same formula as `Engine.readingOf`) -/
structure FakeDev where
  name : String
  kind : String
  offset : Int := 0
deriving Repr, Inhabited

def sumPos (p : Pos) (ms : List String) : Int := ms.foldl (fun acc m => acc + p m) 0

def fakeDevices (specs : List FakeDev) : Devices :=
  let motors := (specs.filter (·.kind == "motor")).map (·.name)
  { reading := fun p n =>
      match specs.find? (·.name = n) with
      | some sp => if sp.kind == "det" then sumPos p motors * 10 + sp.offset else p n
      | none => 0
    deps := fun n =>
      match specs.find? (·.name = n) with
      | some sp => if sp.kind == "det" then motors else [n]
      | none => [] }

end BlueskyVerif.Replay
