/-
Run-span bookkeeping of the RunEngine (src/bluesky/run_engine.py), as it is written:

  `_open_run`      starts a span and appends it to the list `self._run_tracing_spans`, then checks
                   whether the run key is already open (IllegalMessageSequence), validates the
                   metadata, creates the bundler, emits RunStart.
  `_close_run`     rejects a key that is not open; emits RunStop through the bundler
                   (`exit_status = msg.kwargs.get("exit_status", "success") or "success"`);
                   deletes the key; `_close_run_trace` pops the LAST span of the list, whatever the
                   run key, sets `exit_status = msg.kwargs.get("exit_status", self._exit_status)`
                   and ends it.
  `_abort_coro` / `_halt_coro`  call `_destroy_open_run_tracing_spans`: every span left in the list
                   is ended with exit_status "aborted".
  exit of `_run`   (`finally`) closes every run that is still open by calling the bundler directly
                   with `exit_status=self._exit_status`; the span list is not touched.
  `_clear_call_cache` (start of every `__call__`) resets `_exit_status` but not the span list.

Identification used throughout: the n-th `open_run` message processed by an engine (counting
rejected ones) starts span number n, and -- if it is accepted -- opens run number n.  So "the span of
run r" is span r.

The places where the source could plausibly differ are parameters (`Facts`); their values for the
current source are regenerated into `Engine/TracingGenerated.lean` on every check run.
No Mathlib here (this file is loaded by the driver).
-/
namespace BlueskyVerif.Engine.Tracing

/-- values of the `exit_status` keyword / span attribute / RunStop field.
    `pyNone` = Python `None`, `empty` = `""` (both falsy), `other n` = any other string. -/
inductive Status where
  | success | abort | fail | aborted | pyNone | empty
  | other (n : Nat)
deriving DecidableEq, Repr

def Status.truthy : Status → Bool
  | .pyNone => false
  | .empty => false
  | _ => true

/-- the `exit_status` keyword of a `close_run` message: absent, or given (possibly `None`).
    NB `bluesky.plan_stubs.close_run()` always GIVES it (`exit_status=None` by default). -/
inductive Kw where
  | absent
  | given (s : Status)
deriving DecidableEq, Repr

/-- the shapes of "which exit status" expressions the extractor recognises -/
inductive StatusExpr where
  /-- `msg.kwargs.get("exit_status", self._exit_status)` -/
  | kwElseEngine
  /-- `msg.kwargs.get("exit_status", "success") or "success"` -/
  | kwElseSuccessOrSuccess
  /-- `msg.kwargs.get("exit_status", "success")` -/
  | kwElseSuccess
  /-- `self._exit_status` -/
  | engine
deriving DecidableEq, Repr

def StatusExpr.eval (e : StatusExpr) (kw : Kw) (engine : Status) : Status :=
  match e, kw with
  | .kwElseEngine, .absent => engine
  | .kwElseEngine, .given s => s
  | .kwElseSuccessOrSuccess, .absent => .success
  | .kwElseSuccessOrSuccess, .given s => if s.truthy then s else .success
  | .kwElseSuccess, .absent => .success
  | .kwElseSuccess, .given s => s
  | .engine, _ => engine

/-- what is read off the source (see harness/props/C42.py::extract) -/
structure Facts where
  /-- `_open_run`: `self._run_tracing_spans.append(_span)` precedes the `if run_key in self._run_bundlers: raise` -/
  appendBeforeDupCheck : Bool
  /-- ... precedes `self.md_validator(...)` -/
  appendBeforeMdCheck : Bool
  /-- `_close_run_trace`: `.pop()` without argument (true) / `.pop(0)` (false); never looks at the run key -/
  closePopsLast : Bool
  /-- `_close_run_trace`: the expression assigned to the span's `exit_status` attribute -/
  spanStatus : StatusExpr
  /-- `RunBundler.close_run`: the expression that becomes RunStop's `exit_status` -/
  stopStatus : StatusExpr
  /-- `_destroy_open_run_tracing_spans`: `while len(...)` (true) / `if len(...)` (false) -/
  destroyAll : Bool
  /-- ... the literal it writes to `exit_status` -/
  destroyStatus : Status
  /-- `_abort_coro` / `_halt_coro` call it unconditionally -/
  abortDestroys : Bool
  haltDestroys : Bool
  /-- `_abort_coro`: `self._exit_status = <literal>` -/
  abortEngineStatus : Status
  /-- `_halt_coro`: `if was_paused: ... self._exit_status = <literal>` -/
  haltPausedEngineStatus : Status
  /-- the `finally` block of `_run` calls `self._close_run_trace(...)` for the runs it closes -/
  cleanupClosesTrace : Bool
  /-- `_clear_call_cache` empties `_run_tracing_spans` -/
  callResetClearsSpans : Bool
deriving Repr

/-- engine state relevant to run spans -/
structure St where
  /-- number of `open_run` messages processed so far = number of run spans started -/
  next : Nat := 0
  /-- `_run_bundlers`: (run key, run number), MOST RECENTLY OPENED FIRST -/
  runs : List (Nat × Nat) := []
  /-- `_run_tracing_spans`, TOP (last element of the Python list) FIRST -/
  spans : List Nat := []
  /-- every `span.end()` so far: (span, `exit_status` attribute at that moment), newest first -/
  ended : List (Nat × Status) := []
  /-- every RunStop so far: (run, exit_status), newest first -/
  stops : List (Nat × Status) := []
  /-- runs opened (RunStart emitted), newest first -/
  opened : List Nat := []
  /-- `RE._exit_status` -/
  exitStatus : Status := .success
deriving Repr

inductive Op where
  /-- an `open_run` message with this run key; `laterOk = false`: the metadata validator rejects it -/
  | openRun (key : Nat) (laterOk : Bool)
  /-- a `close_run` message with this run key and this `exit_status` keyword -/
  | closeRun (key : Nat) (kw : Kw)
  /-- `_abort_coro` runs -/
  | abort
  /-- `_halt_coro` runs (`paused`: the engine was paused) -/
  | halt (paused : Bool)
  /-- `_run` exits with `_exit_status = st` and cleans up -/
  | callEnd (st : Status)
  /-- `_clear_call_cache` at the start of `__call__` -/
  | callBegin
deriving DecidableEq, Repr

def lookup (key : Nat) : List (Nat × Nat) → Option Nat
  | [] => none
  | (k, r) :: rest => if k = key then some r else lookup key rest

def eraseKey (key : Nat) : List (Nat × Nat) → List (Nat × Nat)
  | [] => []
  | (k, r) :: rest => if k = key then rest else (k, r) :: eraseKey key rest

def ids (runs : List (Nat × Nat)) : List Nat := runs.map (·.2)

/-- `self._run_tracing_spans.pop()` (or `.pop(0)`): the span taken and what is left -/
def popSpan (f : Facts) (spans : List Nat) : Option (Nat × List Nat) :=
  if f.closePopsLast then
    match spans with
    | [] => none
    | t :: rest => some (t, rest)
  else
    match spans.reverse with
    | [] => none
    | b :: rest => some (b, rest.reverse)

/-- `_close_run_trace(msg)` -/
def closeTrace (f : Facts) (s : St) (kw : Kw) : St :=
  match popSpan f s.spans with
  | none => s  -- IndexError: "No open traces left to close!"
  | some (sp, rest) => { s with spans := rest, ended := (sp, f.spanStatus.eval kw s.exitStatus) :: s.ended }

/-- `_open_run(msg)` -/
def openRun (f : Facts) (s : St) (key : Nat) (laterOk : Bool) : St :=
  let n := s.next
  let dup := (lookup key s.runs).isSome
  let accepted := !dup && laterOk
  let pushed := accepted || f.appendBeforeDupCheck || (!dup && f.appendBeforeMdCheck)
  { s with
    next := n + 1
    spans := if pushed then n :: s.spans else s.spans
    runs := if accepted then (key, n) :: s.runs else s.runs
    opened := if accepted then n :: s.opened else s.opened }

/-- `_close_run(msg)` -/
def closeRun (f : Facts) (s : St) (key : Nat) (kw : Kw) : St :=
  match lookup key s.runs with
  | none => s  -- IllegalMessageSequence, nothing done
  | some r =>
    closeTrace f { s with stops := (r, f.stopStatus.eval kw s.exitStatus) :: s.stops, runs := eraseKey key s.runs } kw

/-- `_destroy_open_run_tracing_spans()` -/
def destroy (f : Facts) (s : St) : St :=
  if f.destroyAll then
    { s with spans := [], ended := (s.spans.map (fun sp => (sp, f.destroyStatus))).reverse ++ s.ended }
  else
    match s.spans with
    | [] => s
    | t :: rest => { s with spans := rest, ended := (t, f.destroyStatus) :: s.ended }

def abortOp (f : Facts) (s : St) : St :=
  let s1 := { s with exitStatus := f.abortEngineStatus }
  if f.abortDestroys then destroy f s1 else s1

def haltOp (f : Facts) (s : St) (paused : Bool) : St :=
  let s1 := if f.haltDestroys then destroy f s else s
  if paused then { s1 with exitStatus := f.haltPausedEngineStatus } else s1

/-- the engine closes one still-open run in the `finally` block of `_run` -/
def cleanupOne (f : Facts) (st : Status) (s : St) (r : Nat) : St :=
  let s1 := { s with stops := (r, f.stopStatus.eval (.given st) st) :: s.stops }
  if f.cleanupClosesTrace then closeTrace f s1 (.given st) else s1

/-- exit of `_run`: `_exit_status := st`, then `for key, run in self._run_bundlers.items(): close`
    (insertion order = oldest first), then `self._run_bundlers.clear()` -/
def callEnd (f : Facts) (s : St) (st : Status) : St :=
  let s1 := { s with exitStatus := st }
  let s2 := (ids s1.runs).reverse.foldl (cleanupOne f st) s1
  { s2 with runs := [] }

def callBegin (f : Facts) (s : St) : St :=
  { s with exitStatus := .success, spans := if f.callResetClearsSpans then [] else s.spans }

def step (f : Facts) (s : St) : Op → St
  | .openRun key ok => openRun f s key ok
  | .closeRun key kw => closeRun f s key kw
  | .abort => abortOp f s
  | .halt p => haltOp f s p
  | .callEnd st => callEnd f s st
  | .callBegin => callBegin f s

def runFrom (f : Facts) (s : St) (h : List Op) : St := h.foldl (step f) s

/-- the state of a freshly constructed RunEngine after the history `h` -/
def run (f : Facts) (h : List Op) : St := runFrom f {} h

/-! ### the discipline under which the property is proved (Props/C42.lean) -/

/-- "aborted" (written by `_destroy_open_run_tracing_spans`) and "abort" (RunStop) are read as the
    same outcome -/
def norm : Status → Status
  | .aborted => .abort
  | s => s

/-- the RunStop status a `close_run` message with this keyword asks for -/
def stopOfKw : Kw → Status
  | .absent => .success
  | .given s => if s.truthy then s else .success

/-- the keyword names a status explicitly (truthy), or is absent while the engine's own status is
    still "success" -/
def kwAgrees (kw : Kw) (engine : Status) : Bool :=
  match kw with
  | .given s => s.truthy
  | .absent => engine == .success

/-- is this operation "disciplined" in state `s`?
    * `open_run` is accepted (key not open, metadata accepted);
    * `close_run` names a key that is not open (rejected, harmless), or the MOST RECENTLY OPENED
      open run; if that run's span is still on the stack the message states the status explicitly
      (or omits the keyword while the engine status is "success"); if the span was already ended by
      an abort/halt, the run is closed as "abort";
    * when `_run` exits, no run whose span is still on the stack is left for the engine to close, and
      runs left open (their spans were ended by abort/halt) are closed by an "abort" exit;
    * abort, halt, call start: unrestricted. -/
def okOp (s : St) : Op → Bool
  | .openRun key ok => ok && (lookup key s.runs).isNone
  | .closeRun key kw =>
    match s.runs with
    | [] => true
    | (k, r) :: _ =>
      if k = key then
        (if s.spans.contains r then kwAgrees kw s.exitStatus else norm (stopOfKw kw) == .abort)
      else (lookup key s.runs).isNone
  | .abort => true
  | .halt _ => true
  | .callEnd st => (ids s.runs).all (fun r => !s.spans.contains r) && (s.runs.isEmpty || norm st == .abort)
  | .callBegin => true

def disciplinedFrom (f : Facts) (s : St) : List Op → Bool
  | [] => true
  | op :: rest => okOp s op && disciplinedFrom f (step f s op) rest

def disciplined (f : Facts) (h : List Op) : Bool := disciplinedFrom f {} h

/-- index of the first operation that is not disciplined (for labelling failing inputs) -/
def firstHazardFrom (f : Facts) (s : St) (i : Nat) : List Op → Option Nat
  | [] => none
  | op :: rest => if okOp s op then firstHazardFrom f (step f s op) (i + 1) rest else some i

/-- number of times span `r` has been ended -/
def endCount (s : St) (r : Nat) : Nat := s.ended.countP (fun x => x.1 == r)

end BlueskyVerif.Engine.Tracing
