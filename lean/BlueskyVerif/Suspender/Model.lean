/-
Hand-written part of the suspender model: the tripped-flag update of
`SuspenderBase.__call__` (suspenders.py) and the constructors' parameter storage.
The predicates themselves are generated from the source (Generated.lean).
-/
import BlueskyVerif.Suspender.Generated

namespace BlueskyVerif.Suspender

/-- `SuspenderBase.__call__` restricted to the `_tripped` flag:
    `if should_suspend(v): tripped = True  elif should_resume(v): tripped = False`. -/
def step (c : Cls) (p : Params) (tripped : Bool) (v : Int) : Bool :=
  if shouldSuspend c p v then true
  else if shouldResume c p v then false
  else tripped

/-- flags after each value of a history, starting untripped (fresh suspender) -/
def flagsFrom (c : Cls) (p : Params) (t : Bool) : List Int → List Bool
  | [] => []
  | v :: vs => let t' := step c p t v; t' :: flagsFrom c p t' vs

def run (c : Cls) (p : Params) (vs : List Int) : Bool := vs.foldl (step c p) false

/-- What the constructor stores, from the arguments as given by the user. -/
structure Args where
  suspend : Int := 0
  resume : Option Int := none
  bot : Int := 0
  top : Int := 0
  expected : Option Int := none
  allow : Bool := false
  signal : Int := 0     -- signal.value at construction time

def construct (a : Args) : Params :=
  { suspendThresh := a.suspend
    resumeThresh := ctorResumeThresh a.resume a.suspend
    bot := a.bot, top := a.top
    expected := ctorExpected a.expected a.signal
    allowResume := a.allow }

/-! The documented conditions (class docstrings of suspenders.py), written independently of the
    code: these are the specification side of C30. -/
def docSuspend (c : Cls) (p : Params) (v : Int) : Prop :=
  match c with
  | .suspendBoolHigh => v ≠ 0
  | .suspendBoolLow => v = 0
  | .suspendFloor => v < p.suspendThresh
  | .suspendCeil => v > p.suspendThresh
  | .suspendWhenOutsideBand => ¬ (p.bot < v ∧ v < p.top)
  | .suspendInBand => ¬ (p.bot < v ∧ v < p.top)
  | .suspendOutBand => p.bot < v ∧ v < p.top
  | .suspendWhenChanged => v ≠ p.expected

def docResume (c : Cls) (p : Params) (v : Int) : Prop :=
  match c with
  | .suspendBoolHigh => v = 0
  | .suspendBoolLow => v ≠ 0
  | .suspendFloor => v ≥ p.resumeThresh
  | .suspendCeil => v ≤ p.resumeThresh
  | .suspendWhenOutsideBand => p.bot < v ∧ v < p.top
  | .suspendInBand => p.bot < v ∧ v < p.top
  | .suspendOutBand => ¬ (p.bot < v ∧ v < p.top)
  | .suspendWhenChanged => p.allowResume = true ∧ v = p.expected

end BlueskyVerif.Suspender
