/-
The suspender OBJECT (SuspenderBase in src/bluesky/suspenders.py: `install`, `remove`, `__call__`,
`get_futures`, `__make_event`, `__set_event`) and the gate at the start of `RunEngine.__call__`
(run_engine.py: tripped suspenders' futures are waited for before the plan's first message).

Hand-written transcription; the suspend/resume predicates are the GENERATED ones of C30
(Suspender/Generated.lean).  No Mathlib.
-/
import BlueskyVerif.Suspender.Model
import BlueskyVerif.Engine.Sim

namespace BlueskyVerif.Gate
open BlueskyVerif.Suspender

/-- the attributes of a SuspenderBase instance -/
structure Obj where
  cls : Cls
  p : Params
  installed : Bool := false     -- `self.RE is not None`
  subscribed : Nat := 0         -- registrations of `self` on the signal (`subscribe` adds one, `clear_sub` drops all)
  tripped : Bool := false       -- `self._tripped`
  ev : Option Nat := none       -- `self._ev`: the asyncio.Event currently held (by creation index)
deriving Repr, DecidableEq

/-- what the suspender code touches outside the object -/
structure World where
  nextEv : Nat := 0             -- asyncio.Events created so far
  released : List Nat := []     -- events whose `set` was scheduled (`loop.call_later(sleep, ev.set)`)
  requests : List Nat := []     -- `RE.request_suspend(ev.wait, ...)` calls scheduled, by event
deriving Repr, DecidableEq

abbrev OW := Obj × World

/-- `__make_event` (under the lock, RE not None): create the event unless there is one -/
def makeEvent (x : OW) : OW :=
  if x.1.ev.isNone && x.1.installed then
    ({ x.1 with ev := some x.2.nextEv }, { x.2 with nextEv := x.2.nextEv + 1 })
  else x

/-- `__set_event`: schedule `ev.set` and forget the event -/
def setEvent (x : OW) : OW :=
  match x.1.ev with
  | some e => ({ x.1 with ev := none }, { x.2 with released := x.2.released ++ [e] })
  | none => x

/-- `SuspenderBase.__call__(value)`; `running` = `self.RE.state.is_running` at that moment -/
def call (running : Bool) (x : OW) (v : Int) : OW :=
  if !x.1.installed then x
  else if shouldSuspend x.1.cls x.1.p v then
    let x1 : OW := ({ x.1 with tripped := true }, x.2)
    if x1.1.ev.isNone then
      let x2 := makeEvent x1
      match x2.1.ev with
      | some e => if running then (x2.1, { x2.2 with requests := x2.2.requests ++ [e] }) else x2
      | none => x2
    else x1
  else if shouldResume x.1.cls x.1.p v then
    let x1 := setEvent x
    ({ x1.1 with tripped := false }, x1.2)
  else x

/-- `install(RE)`: remember the engine, subscribe with `run=True` (the signal calls back at once with its
    current value `cur`) -/
def install (running : Bool) (x : OW) (cur : Int) : OW :=
  call running ({ x.1 with installed := true, subscribed := x.1.subscribed + 1 }, x.2) cur

/-- `remove()`: unsubscribe; if installed release the event; forget the engine; clear the flag -/
def remove (x : OW) : OW :=
  let x0 : OW := ({ x.1 with subscribed := 0 }, x.2)
  let x1 := if x0.1.installed then setEvent x0 else x0
  ({ x1.1 with installed := false, tripped := false }, x1.2)

/-- `get_futures()` -/
def getFutures (x : OW) : List Nat × OW :=
  if !x.1.tripped then ([], x)
  else
    let x1 := makeEvent x
    (x1.1.ev.toList, x1)

/-- a signal update reaches the object once per registration -/
def deliver (running : Bool) (x : OW) (v : Int) : OW :=
  (List.range x.1.subscribed).foldl (fun x _ => call running x v) x

inductive Op where
  | install (cur : Int) (running : Bool)
  | remove
  | put (v : Int) (running : Bool)       -- the signal changes (delivered through the subscription)
  | callback (v : Int) (running : Bool)  -- `__call__` invoked directly (e.g. a stale callback)
  | getFutures
deriving Repr, DecidableEq

def step (x : OW) : Op → OW
  | .install cur r => install r x cur
  | .remove => remove x
  | .put v r => deliver r x v
  | .callback v r => call r x v
  | .getFutures => (getFutures x).2

def run (h : List Op) (x : OW) : OW := h.foldl step x

def fresh (c : Cls) (p : Params) : OW := ({ cls := c, p := p }, {})

end BlueskyVerif.Gate

/-! ## the gate of `RunEngine.__call__` on the engine model -/
namespace BlueskyVerif.Engine

def mWaitForGate (F : Nat) : Msg := { cmd := "wait_for", iargs := [F] }

/-- `RE(plan)` with the futures `futs` of the tripped suspenders: the plan goes on the stack and, when there is
    something to wait for, `single_gen(Msg('wait_for', None, futs))` on top of it (both with response `None`).
    The engine model's `wait_for` takes ONE future: `F` stands for "all of `futs`" -- the composition releases
    `F` when every event of `futs` has been set (`allSet`). -/
def startCallGated (s : EState) (plan : Gen) (futs : List Nat) (F : Nat) : EState :=
  if futs.isEmpty then startCall s plan
  else { startCall s plan with planStack := [Gen.fresh [mWaitForGate F], plan], respStack := [.none, .none] }

def allSet (released futs : List Nat) : Bool := futs.all released.contains

end BlueskyVerif.Engine

/-! ## the composition used by the correspondence run: real suspender objects + the real RunEngine are driven
    through a history of operations (harness/props/C31.py); this is the same history on the models.
    Engine futures: event `e` of a suspender ↦ `e`; plan gate `k` ↦ `gateBase + k`; the start gate ↦ `startGate`. -/
namespace BlueskyVerif.Gate
open BlueskyVerif.Suspender BlueskyVerif.Engine

def gateBase : Nat := 1000
def startGate : Nat := 2000

inductive HOp where
  | install (i : Nat)          -- RE.install_suspender(s_i)
  | remove (i : Nat)           -- RE.remove_suspender(s_i)
  | oremove (i : Nat)          -- s_i.remove()
  | put (i : Nat) (v : Int)    -- signal i changes
  | call                       -- RE(plan) from another thread
  | openGate (k : Nat)         -- the plan's k-th gate opens
deriving Repr

inductive Entry where
  | op (j : Nat)
  | msg (cmd : String) (mid : Option Nat)
  | ret (result : String)
deriving Repr

structure Sys where
  e : EState := {}
  objs : List Obj := []
  w : World := {}
  inRE : List Bool := []
  sigs : List Int := []
  startFuts : List Nat := []      -- what the start gate waits for
  calling : Bool := false
  called : Bool := false
  nSeen : Nat := 0                -- engine messages already copied to the log
  nReq : Nat := 0                 -- requests already passed to the engine
  log : List Entry := []

/-- the plan of the harness: `nplan` blocks of checkpoint, gate (a `wait_for` the driver opens), null -/
def harnessPlan (nplan : Nat) : Gen :=
  Gen.list ((List.range nplan).flatMap (fun k =>
    [{ cmd := "checkpoint", mid := some (3 * k) }, { cmd := "wait_for", iargs := [((gateBase + k : Nat) : Int)], mid := some (3 * k + 1) },
     { cmd := "null", mid := some (3 * k + 2) }]))

/-- let `_run` go on until it is parked on an unreleased future, or the call is over -/
def settle : Nat → EState → EState
  | 0, e => e
  | n + 1, e =>
    if e.blockingEvent then e else
    match e.pc with
    | .noTask | .finished | .pausedWait => e
    | .inWaitFor f => if e.cancelPending || e.futs.contains f then settle n (advance 4000 e) else e
    | _ => settle n (advance 4000 (flushCompletions e))

def isRunning (s : Sys) : Bool := s.calling && s.e.state == .running

def setObj (s : Sys) (i : Nat) (x : OW) : Sys := { s with objs := s.objs.set i x.1, w := x.2 }

/-- pass what the suspenders did on to the engine: new `request_suspend` calls, released events, the start gate;
    then let the engine settle and copy the new messages / the return of the call to the log -/
def sync (s : Sys) : Sys :=
  let newReq := s.w.requests.drop s.nReq
  let e := newReq.foldl (fun e ev => applyAction e (.suspend ev none none none)) s.e
  let e := s.w.released.foldl (fun e ev => applyAction e (.release ev)) e
  let e := if s.calling && !s.startFuts.isEmpty && allSet s.w.released s.startFuts then applyAction e (.release startGate) else e
  let e := if s.calling then settle 400 e else e
  let newMsgs := e.msgs.drop s.nSeen
  let log := s.log ++ newMsgs.map (fun m => Entry.msg m.cmd m.mid)
  let s := { s with e := e, nReq := s.w.requests.length, nSeen := e.msgs.length, log := log }
  if s.calling && e.blockingEvent then
    { s with calling := false, log := s.log ++ [.ret (outcomeOf "call" e).result] }
  else s

def applyH (nplan : Nat) (s : Sys) (j : Nat) (o : HOp) : Sys :=
  let s := { s with log := s.log ++ [.op j] }
  let s := match o with
    | .install i =>
      match s.objs[i]? with
      | some ob => { setObj s i (install (isRunning s) (ob, s.w) (s.sigs.getD i 0)) with inRE := s.inRE.set i true }
      | none => s
    | .remove i =>
      match s.objs[i]? with
      | some ob => if s.inRE.getD i false then { setObj s i (remove (ob, s.w)) with inRE := s.inRE.set i false } else s
      | none => s
    | .oremove i =>
      match s.objs[i]? with
      | some ob => setObj s i (remove (ob, s.w))
      | none => s
    | .put i v =>
      let s := { s with sigs := s.sigs.set i v }
      match s.objs[i]? with
      | some ob => setObj s i (deliver (isRunning s) (ob, s.w) v)
      | none => s
    | .call =>
      if s.called then s else
      -- `for sup in self.suspenders: sup.get_futures()` (it changes nothing, see `getFutures_inv`)
      let futs := (List.range s.objs.length).flatMap (fun i =>
        match s.objs[i]? with
        | some ob => if s.inRE.getD i false then (getFutures (ob, s.w)).1 else []
        | none => [])
      { s with e := startCallGated s.e (harnessPlan nplan) futs startGate, startFuts := futs, calling := true, called := true }
    | .openGate k => { s with e := applyAction s.e (.release (gateBase + k)) }
  sync s

def runH (nplan : Nat) (ops : List HOp) (s : Sys) : Sys :=
  (ops.zipIdx).foldl (fun s (o, j) => applyH nplan s j o) s

end BlueskyVerif.Gate
