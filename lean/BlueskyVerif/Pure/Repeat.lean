/-
Model of `bluesky.plan_stubs.repeat` (which `bluesky.plans.count` wraps), statement by statement.

Environment inputs: the readings of `time.time()` in call order (`clock k` = k-th call), and the
messages the inner plan yields in its i-th invocation (`inner i`; responses are forwarded to it by
`yield from`, so for a given consumer this list is just another input).  Delays are a scalar, an
iterable with `len()`, an iterator without `len()` that is exhausted after finitely many entries,
or one that never is.  `None` entries mean "no delay".  Times are exact rationals.

The comparison / arithmetic expressions of the source are in `RepeatGenerated.lean`, regenerated
from the current source on every run.
-/
import BlueskyVerif.Pure.RepeatGenerated

namespace BlueskyVerif.Repeat

inductive Delay where
  /-- not an `Iterable` (float, int, None): `itertools.repeat(delay)` -/
  | scalar (d : Option Rat)
  /-- an iterable with `len()` (list, tuple) -/
  | sized (l : List (Option Rat))
  /-- an iterator / generator without `len()`, exhausted after `l` -/
  | unsized (l : List (Option Rat))
  /-- an iterator without `len()` that is never exhausted -/
  | stream (f : Nat → Option Rat)

/-- the `k`-th `next(delay)` (0-based): `none` = StopIteration -/
def Delay.nth : Delay → Nat → Option (Option Rat)
  | .scalar d, _ => some d
  | .sized l, k => l[k]?
  | .unsized l, k => l[k]?
  | .stream f, k => some (f k)

/-- `len(delay)` when it has one -/
def Delay.sizedLen : Delay → Option Nat
  | .sized l => some l.length
  | _ => none

/-- what the consumer of `repeat(...)` sees -/
inductive Ev (M : Type) where
  | checkpoint
  /-- ghost event: `plan()` is called for repetition `i` (0-based) -/
  | call (i : Nat)
  /-- a message of the inner plan, passed through by `yield from` -/
  | msg (m : M)
  | sleep (d : Rat)
deriving Repr, DecidableEq

inductive End where
  | returned
  | valueError
  /-- model only: fuel exhausted, the generator would go on -/
  | running
deriving Repr, DecidableEq

structure Env (M : Type) where
  clock : Nat → Rat
  inner : Nat → List M

/-- `for i in iterator` is over: `range(num)` exhausted (`itertools.count()` never is) -/
def iterExhausted (num : Option Int) (i : Nat) : Bool :=
  match num with
  | none => false
  | some n => decide (n ≤ (i : Int))

/-- the StopIteration handler: `true` = break, `false` = raise ValueError -/
def stopBreaks (num : Option Int) (i : Nat) : Bool :=
  match num with
  | some n => Gen.isLast i n
  | none => Gen.noneBreaks

/-- ```
    for i in iterator:
        now = time.time()
        yield Msg("checkpoint")
        yield from ensure_generator(plan())
        try: d = next(delay)
        except StopIteration: (break | break | raise ValueError)
        if d is not None:
            d = d - (time.time() - now)
            if d > 0: yield Msg("sleep", None, d)
    ```
    `i` = loop index, `t` = number of `time.time()` calls made so far. -/
def loop {M : Type} (num : Option Int) (dl : Delay) (env : Env M) : Nat → Nat → Nat → List (Ev M) × End
  | 0, _, _ => ([], .running)
  | fuel + 1, i, t =>
    if iterExhausted num i then ([], .returned)
    else
      let now := env.clock t
      let pre : List (Ev M) := .checkpoint :: .call i :: (env.inner i).map .msg
      match dl.nth i with
      | none => (pre, if stopBreaks num i then .returned else .valueError)
      | some none =>
        let r := loop num dl env fuel (i + 1) (t + 1)
        (pre ++ r.1, r.2)
      | some (some d) =>
        let d' := Gen.remaining d (env.clock (t + 1)) now
        let sl : List (Ev M) := if Gen.sleepCond d' then [.sleep d'] else []
        let r := loop num dl env fuel (i + 1) (t + 2)
        (pre ++ sl ++ r.1, r.2)

/-- the up-front check for delays with a `len()`:
    `if num and num - 1 > num_delays: raise ValueError` -/
def tooFew (num : Option Int) (dl : Delay) : Bool :=
  match num, dl.sizedLen with
  | some n, some L => Gen.tooFewSized n L
  | _, _ => false

/-- `repeat(plan, num, delay)`: the up-front length check, then the loop -/
def run {M : Type} (num : Option Int) (dl : Delay) (env : Env M) (fuel : Nat) : List (Ev M) × End :=
  if tooFew num dl then ([], .valueError) else loop num dl env fuel 0 0

end BlueskyVerif.Repeat
