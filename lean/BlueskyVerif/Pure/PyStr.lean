/-
Python string/int helpers shared by the C37 models (strings are `List Char`, ASCII only).
Used by the GENERATED transcription of `int_replacer` (Pure/PrintfGenerated.lean) and by the
hand-written models of `str.format` and C `printf` (Pure/Printf.lean).
No Mathlib (loaded by the driver with `lean --run`).
-/
namespace BlueskyVerif.PyStr

abbrev Str := List Char

/-- ASCII decimal digit -/
def isDig (c : Char) : Bool :=
  c = '0' || c = '1' || c = '2' || c = '3' || c = '4' || c = '5' || c = '6' || c = '7' || c = '8' || c = '9'

def digitVal (c : Char) : Nat :=
  if c = '1' then 1 else if c = '2' then 2 else if c = '3' then 3 else if c = '4' then 4
  else if c = '5' then 5 else if c = '6' then 6 else if c = '7' then 7 else if c = '8' then 8
  else if c = '9' then 9 else 0

def digitChar (d : Nat) : Char :=
  match d with
  | 0 => '0' | 1 => '1' | 2 => '2' | 3 => '3' | 4 => '4'
  | 5 => '5' | 6 => '6' | 7 => '7' | 8 => '8' | _ => '9'

/-- Python `int(s)` for a string of ASCII decimal digits (leading zeros allowed) -/
def pyInt (s : Str) : Nat := s.foldl (fun a c => a * 10 + digitVal c) 0

/-- Python `str(n)` / `f"{n}"` for a non-negative int -/
def natRepr (n : Nat) : Str :=
  if _h : n < 10 then [digitChar n] else natRepr (n / 10) ++ [digitChar (n % 10)]
termination_by n
decreasing_by omega

/-- Python truthiness of an optional regex group (`None` or a string) -/
def truthy (o : Option Str) : Bool :=
  match o with
  | some s => !s.isEmpty
  | none => false

/-- `int(o or k)` -/
def pyIntOr (o : Option Str) (k : Nat) : Nat := if truthy o then pyInt (o.getD []) else k

/-- `c * n` for a one-character string -/
def rep (c : Char) (n : Nat) : Str := List.replicate n c

end BlueskyVerif.PyStr
