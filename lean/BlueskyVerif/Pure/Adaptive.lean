/-
C29 -- ℚ-model of `adaptive_scan` (src/bluesky/plans.py, inner generator `adaptive_core`).

Every arithmetic / comparison expression is GENERATED from the current source
(Pure/AdaptiveGenerated.lean, namespace `AdaptiveGen`); this file transcribes the statement skeleton
that the extractor recognised:

    next_pos = start;  step = initStep;  past_I = None
    direction_sign = dirSign
    while loopCond(next_pos):                      -- `live`
        mv(motor, next_pos); trigger; cur_I = read  -- the k-th reading at the current position: I k next_pos
        if past_I is None:
            past_I = cur_I;  next_pos = firstNext;  continue
        dI = ..; slope = ..
        new_step = newStepSloped if slope else newStepFlat
        if backCond:  next_pos = backNext;  step = backStep      -- `past_I` unchanged
        else:         past_I = cur_I;       step = fwdStep
        next_pos = finalNext

The detector is an arbitrary response oracle `I : ℕ → ℚ → ℚ` (k-th reading taken at position p).
Exact rationals stand in for IEEE doubles.  No Mathlib (the driver runs this file).
-/
import BlueskyVerif.Pure.AdaptiveGenerated

namespace BlueskyVerif.Pure.Adaptive
open BlueskyVerif.Pure.C29 BlueskyVerif.Pure.AdaptiveGen

structure Params where
  start : Rat
  stop : Rat
  minStep : Rat
  maxStep : Rat
  targetDelta : Rat
  backstep : Bool
  threshold : Rat

/-- response oracle: the k-th reading (k = 0, 1, ...) taken with the motor at position p -/
abbrev Resp := Nat → Rat → Rat

/-- the loop variables of `adaptive_core` (+ the number of readings taken so far) -/
structure St where
  nextPos : Rat
  step : Rat
  pastI : Option Rat
  k : Nat
deriving DecidableEq

/-- `if not 0 < min_step < max_step: raise ValueError` -/
def Params.rejected (P : Params) : Bool := rejects P.minStep P.maxStep

def Params.dir (P : Params) : Rat := dirSign P.start P.stop

def init (P : Params) : St :=
  { nextPos := P.start, step := initStep P.start P.stop P.minStep P.maxStep, pastI := none, k := 0 }

/-- the `while` condition -/
def live (P : Params) (s : St) : Bool := loopCond s.nextPos P.stop P.start P.dir

/-- `new_step` computed from the previous accepted reading `past` and the current reading `cur` -/
def newStep (P : Params) (step past cur : Rat) : Rat :=
  let d := dI cur past
  let sl := slope d step
  if slopeTruthy sl d step then newStepSloped P.targetDelta sl step P.minStep P.maxStep
  else newStepFlat P.targetDelta sl step P.minStep P.maxStep

/-- does this iteration take the backstep branch? (`none` pastI = first iteration: never) -/
def backs (P : Params) (I : Resp) (s : St) : Bool :=
  match s.pastI with
  | none => false
  | some past => backCond P.backstep (newStep P s.step past (I s.k s.nextPos)) s.step P.threshold

/-- one execution of the loop body, from a state in which the loop condition holds;
    the motor is moved to `s.nextPos` and reading number `s.k` is taken there -/
def body (P : Params) (I : Resp) (s : St) : St :=
  let cur := I s.k s.nextPos
  match s.pastI with
  | none =>
    { nextPos := firstNext s.nextPos s.step P.dir, step := s.step, pastI := some cur, k := s.k + 1 }
  | some past =>
    let ns := newStep P s.step past cur
    if backCond P.backstep ns s.step P.threshold then
      let np := backNext s.nextPos s.step ns P.dir
      let st := backStep s.step ns
      { nextPos := finalNext np st P.dir, step := st, pastI := some past, k := s.k + 1 }
    else
      let st := fwdStep s.step ns
      { nextPos := finalNext s.nextPos st P.dir, step := st, pastI := some cur, k := s.k + 1 }

/-- one trip round the `while`: `none` = the loop (and the plan) has finished -/
def iter (P : Params) (I : Resp) (s : St) : Option St :=
  if live P s then some (body P I s) else none

/-- state after `n` trips round the loop (fuel-indexed); `none` is absorbing = the plan finished
    within `n` iterations -/
def iterN (P : Params) (I : Resp) : Nat → St → Option St
  | 0, s => some s
  | n + 1, s => (iterN P I n s).bind (iter P I)

/-- position `p` is visited (the motor is set to `p`) by the plan: some reachable loop state passes the
    loop condition with `next_pos = p`.  No bound on the number of iterations. -/
def Visits (P : Params) (I : Resp) (p : Rat) : Prop :=
  P.rejected = false ∧ ∃ n s, iterN P I n (init P) = some s ∧ live P s = true ∧ s.nextPos = p

/-- the plan has finished after at most `n` loop iterations -/
def FinishedWithin (P : Params) (I : Resp) (n : Nat) : Prop := iterN P I n (init P) = none

/-! ### executable trace for the driver / correspondence run -/

/-- closeness of the decisions taken in this iteration to their flip point (0 = on the boundary):
    the loop condition and, when a backstep is possible, the backstep test.  Used by the harness to
    recognise inputs on which float rounding may legitimately decide differently. -/
def margin (P : Params) (I : Resp) (s : St) : Rat :=
  let m1 := rabs (s.nextPos * P.dir - P.stop * P.dir)
  match s.pastI with
  | none => m1
  | some past =>
    if P.backstep then
      rmin m1 (rabs (newStep P s.step past (I s.k s.nextPos) - s.step * P.threshold))
    else m1

structure Row where
  pos : Rat        -- position visited in this iteration
  step : Rat       -- `step` after the iteration
  kind : Nat       -- 0 first iteration, 1 backstep, 2 accepted
  margin : Rat

/-- rows of the first `fuel` iterations and whether the loop has finished by then;
    the last component is the margin of the exit test -/
def trace (P : Params) (I : Resp) : Nat → St → List Row → List Row × Bool × Rat
  | 0, s, acc => (acc.reverse, !(live P s), margin P I s)
  | fuel + 1, s, acc =>
    if live P s then
      let s' := body P I s
      let kind := if s.pastI.isNone then 0 else if backs P I s then 1 else 2
      trace P I fuel s' ({ pos := s.nextPos, step := s'.step, kind := kind, margin := margin P I s } :: acc)
    else (acc.reverse, true, margin P I s)

end BlueskyVerif.Pure.Adaptive
