/-
set_run_key_wrapper (src/bluesky/preprocessors.py): the message mutator `_set_run_key` mapped over the
messages of the wrapped plan (msg_mutator passes responses through unchanged; that plumbing is exercised by
tests on the real generator in harness/props/C14.py).  The guard is GENERATED from the source.
-/
import BlueskyVerif.Engine.Types
import BlueskyVerif.Pure.RunKeyGenerated

namespace BlueskyVerif.RunKey
open BlueskyVerif.Engine

/-- `_set_run_key(msg)`: `if msg.run is None: msg = msg._replace(run=run)`; `return msg` -/
def setRunKey (key : String) (m : Msg) : Msg :=
  if RunKeySrc.guardIsRunIsNone then
    (if m.run.isNone then { m with run := some key } else m)
  else { m with run := some key }

/-- the messages that leave `set_run_key_wrapper(plan, key)` when `plan` yields `msgs` -/
def wrap (key : String) (msgs : List Msg) : List Msg := msgs.map (setRunKey key)

/-- the run key the engine will route the message by (`Msg.run`, `None` = the default run) -/
def route (m : Msg) : Option String := m.run

end BlueskyVerif.RunKey
