/-
C27 -- hand-written prelude shared by the generated files of plan_patterns.spiral /
spiral_fermat / spiral_square_pattern: Python's `abs` on ints and on exact rationals and
Python's `range(start, stop, step)`.  No Mathlib (loaded by the driver with `lean --run`).
-/
namespace BlueskyVerif.Pure.Spiral

/-- Python `abs` on an int -/
def iabs (x : Int) : Int := if x < 0 then -x else x

/-- Python `abs` on an exact rational (the model's stand-in for a float) -/
def rabs (q : Rat) : Rat := if q < 0 then -q else q

/-- Python `list(range(start, stop, step))` (empty for step = 0, where Python raises). -/
def pyRange (start stop step : Int) : List Int :=
  if step > 0 then
    (List.range ((stop - start + step - 1) / step).toNat).map (fun (k : Nat) => start + step * (k : Int))
  else if step < 0 then
    (List.range ((start - stop + (-step) - 1) / (-step)).toNat).map (fun (k : Nat) => start + step * (k : Int))
  else []

end BlueskyVerif.Pure.Spiral
