/-
C27 part A -- model of `plan_patterns.spiral` and `plan_patterns.spiral_fermat`.

Both functions have the shape
    for <candidate (x, y)>:                 -- x = radius*cos(angle), y = radius*sin(angle)*dr_aspect
        if <bounds test>:
            x_points.append(x_start + x); y_points.append(y_start + y)
The candidates (products of floats with cos/sin values) are abstract here: ANY list of pairs of
exact rationals.  The bounds test, the half ranges, dr_aspect and the emitted point are the
GENERATED definitions (SpiralGenerated.lean), re-extracted from the source on every run; the
extractor also checks that no point is appended outside the test.
-/
import BlueskyVerif.Pure.SpiralGenerated

namespace BlueskyVerif.Pure.Spiral
open Gen

inductive Kind where
  | spiral | fermat
deriving Repr, DecidableEq

/-- the arguments of spiral / spiral_fermat that matter for the bounds
    (`tiltTan` = the float `np.tan(tilt + np.pi / 2.0)`, `dr_y = none` for the default) -/
structure Params where
  xStart : Rat
  yStart : Rat
  xRange : Rat
  yRange : Rat
  dr : Rat
  drY : Option Rat
  tiltTan : Rat

/-- `dr_aspect` as the function computes it -/
def drAspect (k : Kind) (p : Params) : Rat :=
  match k, p.drY with
  | .spiral, none => spiral_drAspectNone
  | .spiral, some d => spiral_drAspect d p.dr
  | .fermat, none => spiral_fermat_drAspectNone
  | .fermat, some d => spiral_fermat_drAspect d p.dr

def halfX (k : Kind) (p : Params) : Rat :=
  match k with
  | .spiral => spiral_halfX p.xRange
  | .fermat => spiral_fermat_halfX p.xRange

def halfY (k : Kind) (p : Params) : Rat :=
  match k with
  | .spiral => spiral_halfY p.yRange (drAspect k p)
  | .fermat => spiral_fermat_halfY p.yRange (drAspect k p)

/-- the `if` of the loop body, on one candidate -/
def accepts (k : Kind) (p : Params) (c : Rat × Rat) : Bool :=
  match k with
  | .spiral => spiral_test c.1 c.2 (drAspect k p) p.tiltTan (halfX k p) (halfY k p)
  | .fermat => spiral_fermat_test c.1 c.2 (drAspect k p) p.tiltTan (halfX k p) (halfY k p)

/-- the two `append`s -/
def emit (k : Kind) (p : Params) (c : Rat × Rat) : Rat × Rat :=
  match k with
  | .spiral => (spiral_emitX p.xStart c.1, spiral_emitY p.yStart c.2)
  | .fermat => (spiral_fermat_emitX p.xStart c.1, spiral_fermat_emitY p.yStart c.2)

/-- the loop: statement by statement (accumulating like the two Python lists) -/
def loop (k : Kind) (p : Params) : List (Rat × Rat) → List (Rat × Rat) → List (Rat × Rat)
  | [], acc => acc.reverse
  | c :: cs, acc => if accepts k p c then loop k p cs (emit k p c :: acc) else loop k p cs acc

/-- the (x, y) points of the returned cycler for a given candidate sequence -/
def points (k : Kind) (p : Params) (cands : List (Rat × Rat)) : List (Rat × Rat) := loop k p cands []

/-- indices of the accepted candidates (what the driver reports) -/
def acceptedIdx (k : Kind) (p : Params) (cands : List (Rat × Rat)) : List Nat :=
  ((List.range cands.length).zip cands).filterMap (fun ic => if accepts k p ic.2 then some ic.1 else none)

/-! Specification side: the documented rectangle.  `x_range`/`y_range` are the widths around the
    centre; with a tilt the code measures x in the sheared frame
    `x' = dx - (dy / dr_aspect) / tan(tilt + pi/2)` (= dx + (dy/dr_aspect) * tan(tilt)). -/
def frameX (k : Kind) (p : Params) (pt : Rat × Rat) : Rat :=
  (pt.1 - p.xStart) - ((pt.2 - p.yStart) / drAspect k p) / p.tiltTan

def InRect (k : Kind) (p : Params) (pt : Rat × Rat) : Prop :=
  rabs (frameX k p pt) ≤ p.xRange / 2 ∧ rabs (pt.2 - p.yStart) ≤ p.yRange / 2

end BlueskyVerif.Pure.Spiral
