/-
Model of the argument handling of `plan_patterns.outer_list_product` / `outer_product` /
`inner_product` / `inner_list_product` (src/bluesky/plan_patterns.py): how the snake flags handed to
`snake_cyclers` are derived, and how the per-motor cyclers are combined.  Motors are identified by
their position in the argument list.  No Mathlib.
-/
import BlueskyVerif.Pure.Snake

namespace BlueskyVerif.Pure.Patterns
open BlueskyVerif.Pure.Snake

/-- the `snake_axes` argument of `outer_list_product` / `list_grid_scan` / `grid_scan` -/
inductive SnakeAxes where
  | off                          -- `False` (or any falsy value, e.g. `[]`)
  | all                          -- `True`
  | these (motors : List Nat)    -- an iterable of motors (by argument position)
deriving Repr

/-- the `snaking` list built by the loop of `outer_list_product`:
```
if not snake_axes: False
elif isinstance(snake_axes, Iterable): motor in snake_axes
elif snake_axes: False for the first motor, True for the others
``` -/
def outerListFlags (n : Nat) : SnakeAxes → List Bool
  | .off => List.replicate n false
  | .these ms => if ms.isEmpty then List.replicate n false else (List.range n).map fun i => ms.contains i
  | .all => (List.range n).map fun i => i != 0

/-- `outer_list_product(args, snake_axes)` with `args = (motor_0, list_0, ..., motor_{n-1}, list_{n-1})` -/
def outerListProduct (posLists : List (List α)) (sa : SnakeAxes) : Res α :=
  snakeCyclers posLists (outerListFlags posLists.length sa)

/-- the `snaking` list of `outer_product`: `chunk_outer_product_args` inserts `False` for the first
    motor (pattern 2) or for every motor (pattern 1, no snake arguments: `snakes = none`) -/
def outerProductFlags (n : Nat) : Option (List Bool) → List Bool
  | none => List.replicate n false
  | some snakes => false :: snakes

/-- `functools.reduce(operator.add, cyclers)` of `inner_product` / `inner_list_product`: zip -/
def innerCombine (cols : List (List α)) : Option (List (List α)) :=
  reduce1 addC (cols.map cyc)

end BlueskyVerif.Pure.Patterns
