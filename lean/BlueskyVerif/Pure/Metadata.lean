/-
Model of `RunEngine._open_run` (src/bluesky/run_engine.py) as far as the RunStart metadata and the
scan_id are concerned.  Metadata dictionaries are insertion-ordered association lists with string
keys; values are integers or strings.

Read from the source on every run (Pure/MetadataGenerated.lean): the order of the mappings in the
`ChainMap(...)` of `_open_run`, the place of `self.md["scan_id"] = scan_id` relative to the validator /
normalizer / `RunBundler.open_run`, the keys of the plan-identity mapping, and key / default / step of
`default_scan_id_source`.

Hand-modelled: `ChainMap` lookup and `dict(ChainMap)`; the user-supplied `md_validator` (an arbitrary
predicate, `false` = raises) and `md_normalizer` (an arbitrary partial function, `none` = raises);
whether event_model's `compose_run` accepts the metadata (`composes`: no key 'uid'/'time' -- they
clash with `dict(uid=..., time=..., **metadata)` --, keys without '.' or '/', and the schema types of
scan_id / owner / group / project / data_session / sample over the int-or-string value universe).
-/
import BlueskyVerif.Pure.MetadataGenerated

namespace BlueskyVerif.Metadata

inductive Val where
  | int (i : Int)
  | str (s : String)
  /-- any other JSON-like value (None, bool, float, list, nested dict), carried as its canonical JSON text;
      the code under study never looks inside such a value -/
  | other (json : String)
deriving Repr, DecidableEq

abbrev Dict := List (String × Val)

/-- `d.get(k)` -/
def get? : Dict → String → Option Val
  | [], _ => none
  | (k', v) :: r, k => if k' = k then some v else get? r k

/-- `d[k] = v` -/
def set : Dict → String → Val → Dict
  | [], k, v => [(k, v)]
  | (k', v') :: r, k, v => if k' = k then (k, v) :: r else (k', v') :: set r k v

/-- `d.update(e)`.  The keys of a dict are unique, so the order in which the items of `e` are applied
    is immaterial; applying them right-to-left makes `get? (update d e) k = (get? e k).or (get? d k)`
    hold for arbitrary association lists (no uniqueness side condition in the theorems). -/
def update (d e : Dict) : Dict := e.foldr (fun p acc => set acc p.1 p.2) d

/-- `ChainMap(*maps)[k]`: the first mapping that has the key -/
def chainGet : List Dict → String → Option Val
  | [], _ => none
  | m :: ms, k =>
    match get? m k with
    | some v => some v
    | none => chainGet ms k

/-- `dict(ChainMap(*maps))`: every key of every mapping with the value of the first mapping that has it
    (ChainMap iterates over `reversed(maps)`, so keys of low-precedence mappings come first) -/
def flatten (maps : List Dict) : Dict := maps.reverse.foldl update []

/-- `default_scan_id_source(md)`: `md.get(KEY, DEFAULT) + STEP`; `none` = TypeError (value is not a number) -/
def defaultScanIdSource (md : Dict) : Option Int :=
  match get? md Generated.scanIdKey with
  | none => some (Generated.scanIdDefault + Generated.scanIdStep)
  | some (.int i) => some (i + Generated.scanIdStep)
  | some _ => none

/-- would `event_model.compose_run(uid=..., metadata=md)` produce a valid RunStart? -/
def composes (md : Dict) : Bool :=
  md.all fun p =>
    p.1 != "uid" && p.1 != "time" && !(p.1.toList.any (fun c => c == '.' || c == '/')) &&
    (match p.1, p.2 with
     | "scan_id", .int _ => true
     | "scan_id", _ => false
     | "owner", .str _ => true
     | "owner", _ => false
     | "group", .str _ => true
     | "group", _ => false
     | "project", .str _ => true
     | "project", _ => false
     | "data_session", .str _ => true
     | "data_session", _ => false
     | "sample", .str _ => true
     | "sample", .other j => j.toList.head? == some '{' 
     | "sample", _ => false
     | _, _ => true)

/-- everything one `open_run` message depends on besides the engine state -/
structure Attempt where
  callKw : Dict                         -- `self._metadata_per_call` (the keyword arguments of RE(...))
  openKw : Dict                         -- `msg.kwargs`
  planType : String                     -- `type(self._plan).__name__`
  planName : String                     -- `getattr(self._plan, "__name__", "")`
  validator : Dict → Bool               -- `self.md_validator(dict(md))` returns (true) or raises (false)
  normalizer : Dict → Option Dict       -- `self.md_normalizer(deepcopy(md))`, `none` = raises

structure St where
  md : Dict := []                       -- `RE.md`, the persistent metadata
  registered : Bool := false            -- the run key is present in `self._run_bundlers`
deriving Repr, DecidableEq

inductive Outcome where
  | illegalSequence                     -- 'close_run' not received before 'open_run'
  | scanIdError                         -- the scan_id source raised
  | rejected                            -- the validator raised
  | normalizerError                     -- the normalizer raised
  | composeError                        -- RunBundler.open_run raised (no start document emitted)
  | started (sid : Int) (doc : Dict)    -- RunStart emitted with this metadata (besides uid and time); `sid` = value of the scan_id source
deriving Repr, DecidableEq

def store (st : St) (sid : Int) : St := { st with md := set st.md Generated.scanIdKey (.int sid) }

/-- the mapping of one `Source` -/
def sourceDict (a : Attempt) (sid : Int) (persistent : Dict) : Source → Dict
  | .callKw => a.callKw
  | .openKw => a.openKw
  | .planIdentity => (Generated.planIdentityKeys.zip [Val.str a.planType, Val.str a.planName])
  | .scanId => [(Generated.scanIdKey, .int sid)]
  | .persistent => persistent

/-- `dict(md)` for the ChainMap of `_open_run` -/
def merged (a : Attempt) (sid : Int) (persistent : Dict) : Dict :=
  flatten (Generated.chainOrder.map (sourceDict a sid persistent))

/-- `RunEngine._open_run(msg)` -/
def openRun (st : St) (a : Attempt) : St × Outcome :=
  if st.registered then (st, .illegalSequence) else
  match defaultScanIdSource st.md with
  | none => (st, .scanIdError)
  | some sid =>
    let st0 := if Generated.storeStage = .beforeValidator then store st sid else st
    let m := merged a sid st0.md
    if !a.validator m then (st0, .rejected) else
    match a.normalizer m with
    | none => (st0, .normalizerError)
    | some v =>
      let st1 := if Generated.storeStage = .afterNormalizer then store st0 sid else st0
      -- current_run = self._run_bundlers[run_key] = RunBundler(validated, ...); await current_run.open_run(msg)
      if composes v then
        let st2 := if Generated.storeStage = .afterOpenRun then store st1 sid else st1
        ({ st2 with registered := true }, .started sid v)
      else ({ st1 with registered := true }, .composeError)

/-- an `open_run` followed, when the run was opened, by its `close_run` (`del self._run_bundlers[run_key]`) -/
def attempt (st : St) (a : Attempt) : St × Outcome :=
  let r := openRun st a
  match r.2 with
  | .started _ _ => ({ r.1 with registered := false }, r.2)
  | _ => r

/-- the attempts of one `RE(plan, **kw)` call; `_run` clears `_run_bundlers` on exit -/
def runCall : St → List Attempt → St × List Outcome
  | st, [] => ({ st with registered := false }, [])
  | st, a :: rest =>
    let r := attempt st a
    let rs := runCall r.1 rest
    (rs.1, r.2 :: rs.2)

/-- several calls; the outcomes of all attempts in order -/
def runHistory : St → List (List Attempt) → St × List Outcome
  | st, [] => (st, [])
  | st, c :: cs =>
    let r := runCall st c
    let rs := runHistory r.1 cs
    (rs.1, r.2 ++ rs.2)

/-- the values of the scan_id source for the runs that were started, in order -/
def startedSids : List Outcome → List Int
  | [] => []
  | .started sid _ :: r => sid :: startedSids r
  | _ :: r => startedSids r

end BlueskyVerif.Metadata
