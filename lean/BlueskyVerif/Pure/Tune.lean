/-
C29 -- ℚ-model of `tune_centroid` (src/bluesky/plans.py, inner generator `_tune_core`).

Every arithmetic / comparison expression is GENERATED from the current source
(Pure/TuneGenerated.lean, namespace `TuneGen`); this file transcribes the recognised skeleton:

    low_limit = lowLimit;  high_limit = highLimit                -- of the ORIGINAL start/stop
    next_pos = start;  step = stepNum / stepDen;  peak_position = None;  sum_I = sum_xI = 0
    while guard(step, next_pos):                                  -- `live`
        mv(motor, next_pos);  ret = trigger_and_read(...)
        cur_I = ret[signal];  sum_I = sumIUpd;  position = ret[motor]  (= next_pos, see assumption)
        sum_xI = sumXIUpd;    next_pos = nextUpd
        if not inRange(start, stop, next_pos):                    -- start/stop of the CURRENT pass
            if zeroGuard(sum_I): return                           -- no final move
            peak_position = peak;  sum_I = sum_xI = 0
            new_scan_range = newRange
            start = newStart;  stop = newStop;  if snake: swap
            step = stepNum / stepDen;  next_pos = start
    if peak_position is not None:
        peak_position = parkPos(peak_position, low_limit, high_limit)   -- clamp into the original limits
        mv(motor, peak_position)                                      -- final park

Assumption of the model: the motor's read-back equals the position it was last set to.
Python raises ZeroDivisionError for `num == 1` (stepDen = 0); the model reports that as `zeroDiv`.
-/
import BlueskyVerif.Pure.TuneGenerated

namespace BlueskyVerif.Pure.Tune
open BlueskyVerif.Pure.C29 BlueskyVerif.Pure.TuneGen

structure Params where
  start : Rat
  stop : Rat
  minStep : Rat
  num : Int
  stepFactor : Rat
  snake : Bool

abbrev Resp := Nat → Rat → Rat

/-- loop variables of `_tune_core` (`start`/`stop` are rebound per pass) + readings taken so far -/
structure St where
  start : Rat
  stop : Rat
  nextPos : Rat
  step : Rat
  sumI : Rat
  sumXI : Rat
  peak : Option Rat
  k : Nat
deriving DecidableEq

/-- where the generator is: still looping, or finished -- by leaving the loop (then the motor is parked
    at `park` = the clamped last centroid, when a centroid was ever computed) or by the `return` on an
    all-zero pass -/
inductive Phase where
  | run (s : St)
  | exited (park : Option Rat)
  | returned
deriving DecidableEq

def Params.rejected (P : Params) : Bool := rejects P.minStep P.stepFactor P.start P.stop
def Params.numR (P : Params) : Rat := (P.num : Rat)
/-- `(stop - start) / (num - 1)` raises ZeroDivisionError -/
def Params.zeroDiv (P : Params) : Bool := stepDen P.numR == 0
def Params.low (P : Params) : Rat := lowLimit P.start P.stop
def Params.high (P : Params) : Rat := highLimit P.start P.stop

def passStep (P : Params) (start stop : Rat) : Rat := stepNum start stop / stepDen P.numR

def init (P : Params) : St :=
  { start := P.start, stop := P.stop, nextPos := P.start, step := passStep P P.start P.stop,
    sumI := 0, sumXI := 0, peak := none, k := 0 }

/-- the `while` condition -/
def live (P : Params) (s : St) : Bool := guard s.step P.minStep P.low s.nextPos P.high

/-- `sum_I` after reading number `s.k` at the current position -/
def sumI' (I : Resp) (s : St) : Rat := sumIUpd s.sumI (I s.k s.nextPos)
/-- `sum_xI` after the reading (`position` = read-back of the motor = `s.nextPos`) -/
def sumXI' (I : Resp) (s : St) : Rat := sumXIUpd s.sumXI s.nextPos (I s.k s.nextPos)

/-- the pass continues: only `next_pos` and the accumulators change -/
def cont (I : Resp) (s : St) : St :=
  { s with nextPos := nextUpd s.nextPos s.step, sumI := sumI' I s, sumXI := sumXI' I s, k := s.k + 1 }

/-- the `if not in_range:` block after the zero guard: new pass centred on the centroid -/
def recentre (P : Params) (I : Resp) (s : St) : St :=
  let pk := peak (sumXI' I s) (sumI' I s)
  let r := newRange s.start s.stop P.stepFactor
  let a := newStart pk r P.low P.high
  let b := newStop pk r P.low P.high
  let st := if P.snake then b else a
  let sp := if P.snake then a else b
  { start := st, stop := sp, nextPos := st, step := passStep P st sp,
    sumI := 0, sumXI := 0, peak := some pk, k := s.k + 1 }

/-- one execution of the loop body (the motor is at `s.nextPos`, reading number `s.k` is taken) -/
def body (P : Params) (I : Resp) (s : St) : Phase :=
  if inRange s.start s.stop (nextUpd s.nextPos s.step) then .run (cont I s)
  else if zeroGuard (sumI' I s) (sumXI' I s) then .returned
  else .run (recentre P I s)

/-- the statements after the loop: where the motor is finally parked (if at all) -/
def park (P : Params) (s : St) : Option Rat := s.peak.map (fun pk => parkPos pk P.low P.high)

def iter (P : Params) (I : Resp) : Phase → Phase
  | .run s => if live P s then body P I s else .exited (park P s)
  | ph => ph

/-- phase after `n` trips round the loop (finished phases are absorbing) -/
def iterN (P : Params) (I : Resp) : Nat → Phase → Phase
  | 0, ph => ph
  | n + 1, ph => iter P I (iterN P I n ph)

def start0 (P : Params) : Phase := .run (init P)

def Phase.finished : Phase → Bool
  | .run _ => false
  | _ => true

/-- the motor is set to `p` inside the scanning loop -/
def Visits (P : Params) (I : Resp) (p : Rat) : Prop :=
  P.rejected = false ∧ P.zeroDiv = false ∧
    ∃ n s, iterN P I n (start0 P) = .run s ∧ live P s = true ∧ s.nextPos = p

/-- the motor is finally parked at `p` (the `mv(motor, peak_position)` after the loop) -/
def Parks (P : Params) (I : Resp) (p : Rat) : Prop :=
  P.rejected = false ∧ P.zeroDiv = false ∧ ∃ n, iterN P I n (start0 P) = .exited (some p)

def FinishedWithin (P : Params) (I : Resp) (n : Nat) : Prop := (iterN P I n (start0 P)).finished = true

/-! ### executable trace for the driver / correspondence run -/

/-- closeness of this iteration's decisions to their flip points -/
def margin (P : Params) (I : Resp) (s : St) : Rat :=
  let mg := rmin (rabs (rabs s.step - P.minStep)) (rmin (rabs (s.nextPos - P.low)) (rabs (P.high - s.nextPos)))
  if live P s then
    let np := nextUpd s.nextPos s.step
    let mr := rmin (rabs (np - rmin s.start s.stop)) (rabs (rmax s.start s.stop - np))
    let mz := if inRange s.start s.stop np then mr else rmin mr (rabs (sumI' I s))
    rmin mg mz
  else mg

structure Row where
  pos : Rat
  kind : Nat      -- 0 pass continues, 1 recentred (new pass), 2 returned on zero sum
  margin : Rat

/-- rows of the first `fuel` iterations, the final phase, and the margin of the exit test -/
def trace (P : Params) (I : Resp) : Nat → St → List Row → List Row × Phase × Rat
  | 0, s, acc => (acc.reverse, if live P s then .run s else .exited (park P s), margin P I s)
  | fuel + 1, s, acc =>
    if live P s then
      let m := margin P I s
      match body P I s with
      | .run s' =>
        let kind := if inRange s.start s.stop (nextUpd s.nextPos s.step) then 0 else 1
        trace P I fuel s' ({ pos := s.nextPos, kind := kind, margin := m } :: acc)
      | ph => (({ pos := s.nextPos, kind := 2, margin := m } :: acc).reverse, ph, 1)
    else (acc.reverse, .exited (park P s), margin P I s)

end BlueskyVerif.Pure.Tune
