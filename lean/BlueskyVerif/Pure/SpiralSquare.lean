/-
C27 part B -- model of `plan_patterns.spiral_square_pattern`.

Every emitted coordinate has the shape `c_center - c_delta*c_offset + c_delta*m` with an integer
multiplier `m` (checked by the extractor), so a point is modelled by its pair of multipliers
`(mx, my)`.  Offsets and `num/2` are half-integers: everything is scaled by 2 in the GENERATED
guards (SpiralSquareGenerated.lean: offsets, ring range, the four side guards and `range()` bounds,
inner guards, count guards, multipliers).  Hand-written here: the loop skeleton
  first point; for i_ring: for each of the 4 sides: if guard: for n in range: if guard: emit, count += 1
transcribed statement by statement with the running counter `num_pnts_fnd`.
-/
import BlueskyVerif.Pure.SpiralSquareGenerated

namespace BlueskyVerif.Pure.SpiralSquare
open BlueskyVerif.Pure.Spiral Gen

abbrev Pt := Int × Int

/-- loop state: `num_pnts_fnd` and the points appended so far (most recent first) -/
structure St where
  cnt : Int
  out : List Pt

/-- `for n in range(...): if (inner geometric guard) and (count guard): emit; num_pnts_fnd += 1` -/
def inner (k : Side) (r xNum yNum : Int) : List Int → St → St
  | [], s => s
  | n :: ns, s =>
    if innerGeo k n xNum yNum (xOff2 xNum) (yOff2 yNum) && innerCnt k s.cnt xNum yNum then
      inner k r xNum yNum ns ⟨s.cnt + cntInc k, (ptX k r n, ptY k r n) :: s.out⟩
    else inner k r xNum yNum ns s

/-- `if (side guard) and (count guard): for n in range(start, stop, step): ...` -/
def side (k : Side) (r xNum yNum : Int) (s : St) : St :=
  if sideGeo k r xNum yNum (xOff2 xNum) (yOff2 yNum) && sideCnt k s.cnt xNum yNum then
    inner k r xNum yNum (pyRange (sideStart k r) (sideStop k r) (sideStep k)) s
  else s

/-- body of the ring loop: the sides in source order -/
def ring (xNum yNum : Int) (s : St) (r : Int) : St :=
  sides.foldl (fun s k => side k r xNum yNum s) s

/-- the multipliers `(mx, my)` of the points of the returned cycler, in order -/
def spiralIdx (xNum yNum : Int) : List Pt :=
  ((pyRange ringStart (ringStop (numRing xNum yNum)) ringStep).foldl (ring xNum yNum)
    ⟨cnt0, [(firstX, firstY)]⟩).out.reverse

/-- the function divides by `x_num - 1` and `y_num - 1` before anything else -/
def raisesZeroDivision (xNum yNum : Int) : Bool := xNum == 1 || yNum == 1

/-- physical coordinates: `x_delta = x_range/(x_num-1)`, `x = x_center - x_delta*x_offset + x_delta*mx` -/
def coordX (center range : Rat) (xNum : Int) (m : Int) : Rat :=
  coord center (delta range xNum) ((xOff2 xNum : Int) / 2) m

def coordY (center range : Rat) (yNum : Int) (m : Int) : Rat :=
  coord center (delta range yNum) ((yOff2 yNum : Int) / 2) m

/-! Specification side. -/

/-- grid index (column, row) of a multiplier pair: column `k` is the coordinate
    `x_center - x_range/2 + k*x_delta` (k = 0 .. x_num-1), i.e. `2*k = 2*mx - 2*x_offset + (x_num - 1)` -/
def gridIdx (xNum yNum : Int) (p : Pt) : Pt :=
  ((2 * p.1 - xOff2 xNum + xNum - 1) / 2, (2 * p.2 - yOff2 yNum + yNum - 1) / 2)

/-- all grid indices, column-major -/
def gridList (xNum yNum : Int) : List Pt :=
  (pyRange 0 xNum 1).flatMap (fun k => (pyRange 0 yNum 1).map (fun l => (k, l)))

/-- the k-th of `num` equally spaced coordinates across `range` around `center` -/
def linspacePt (center range : Rat) (num : Int) (k : Int) : Rat :=
  center - range / 2 + (k : Rat) * (range / ((num : Rat) - 1))

end BlueskyVerif.Pure.SpiralSquare
