/-
C36 model (hand-written part) of ConsolidatorBase (consolidators.py): constructor handling of
datum_shape / multiplier / chunk_shape / join_method / join_chunks, the `shape` and `chunks`
properties, `consume_stream_datum` (row count and the seq_num -> row index dict).
`listSummands` and `chunkDimBad` are GENERATED from the source (Pure/ConsolidatorGenerated.lean).
No Mathlib.
-/
import BlueskyVerif.Pure.ConsolidatorGenerated
import BlueskyVerif.Pure.StreamDatumGenerated

namespace BlueskyVerif.Consolidator
open BlueskyVerif.StreamDatum

inductive Join where
  | stack
  | concat
deriving Repr, DecidableEq

inductive CErr where
  | notImplemented   -- variable-sized data (None in the descriptor's shape)
  | valueError
  | indexError
deriving Repr, DecidableEq

/-- what the constructor reads: class attributes, the descriptor's shape, stream_resource parameters -/
structure CtorArgs where
  classJoin : Join
  classJoinChunks : Bool
  shape : List (Option Nat)
  multiplier : Option Nat          -- parameters.get("multiplier")
  chunkShape : Option (List Int)   -- parameters.get("chunk_shape", ())
  paramJoin : Option Join          -- parameters.get("join_method", cls.join_method)
  paramJoinChunks : Option Bool    -- parameters.get("join_chunks", cls.join_chunks)

structure Cons where
  datumShape : List Nat
  chunkShape : List Nat
  join : Join
  joinChunks : Bool
  numRows : Nat
  map : List (Nat × Nat)   -- dict seq_num -> index; the first entry for a key is the current one
deriving Repr, DecidableEq

def construct (a : CtorArgs) : Except CErr Cons :=
  if a.shape.any Option.isNone then .error .notImplemented else
  let ds0 : List Nat := a.shape.map (fun o => o.getD 0)
  -- `() if datum_shape == (1,) and self.join_method == "stack"`  (class attribute at this point)
  let ds1 : List Nat := if ds0 = [1] ∧ a.classJoin = .stack then [] else ds0
  -- `if multiplier := params.get("multiplier")`
  let ds2 : List Nat :=
    match a.multiplier with
    | none => ds1
    | some m =>
      if m = 0 then ds1 else
      let d := if ds1.isEmpty then [m] else ds1
      match d with
      | [] => d
      | h :: t => if h ≠ m then (if h = 1 then m :: t else m :: d) else d
  let cs : List Int := a.chunkShape.getD []
  if cs.any chunkDimBad then .error .valueError else
  .ok { datumShape := ds2, chunkShape := cs.map Int.toNat,
        join := a.paramJoin.getD a.classJoin, joinChunks := a.paramJoinChunks.getD a.classJoinChunks,
        numRows := 0, map := [] }

/-- `shape` property -/
def shape (c : Cons) : List Nat :=
  match c.join, c.datumShape with
  | .concat, h :: t => (c.numRows * h) :: t
  | _, ds => c.numRows :: ds

/-- `chunks` property -/
def chunks (c : Cons) : Except CErr (List (List Nat)) :=
  let sh := shape c
  let cs := c.chunkShape
  if cs.length ≤ sh.length then
    if c.join = .stack ∨ (c.join = .concat ∧ c.joinChunks = true) ∨ cs.length = 0 then
      .ok (List.zipWith (fun ddim cdim => listSummands ddim cdim) (sh.take cs.length) cs
            ++ (sh.drop cs.length).map (fun d => [d]))
    else
      match c.datumShape, cs with
      | d0 :: _, c0 :: ct =>
        .ok ((listSummands d0 c0 c.numRows
               :: List.zipWith (fun ddim cdim => listSummands ddim cdim) ((sh.take cs.length).drop 1) ct)
             ++ (sh.drop cs.length).map (fun d => [d]))
      | _, _ => .error .indexError     -- `self.datum_shape[0]` on an empty tuple
  else .error .valueError

/-- `dict(zip(range(sStart, sStop), range(iStart, iStop)))` -/
def zipRanges (d : SD) : List (Nat × Nat) :=
  (List.range (min (d.sStop - d.sStart) (d.iStop - d.iStart))).map (fun k => (d.sStart + k, d.iStart + k))

/-- `consume_stream_datum` -/
def consume (c : Cons) (d : SD) : Cons :=
  { c with numRows := c.numRows + (d.iStop - d.iStart), map := zipRanges d ++ c.map }

def consumeAll (c : Cons) (docs : List SD) : Cons := docs.foldl consume c

/-- `_seqnums_to_indices_map.get(s)` -/
def lookup (c : Cons) (s : Nat) : Option Nat := c.map.lookup s

end BlueskyVerif.Consolidator
