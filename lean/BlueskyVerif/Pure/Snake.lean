/-
Model of `bluesky.utils.snake_cyclers` (src/bluesky/utils/__init__.py) -- transcribed statement by
statement.  A cycler axis is a `List α` of abstract point labels (one label per row of the cycler;
every key column of a multi-key cycler is a function of the row label, and the code applies the
same array transformation to every key column).  A combined cycler is the list of its points, a
point being the list of the labels of the axes it was built from (`List (List α)`).

The slice offsets and the concatenation order are read from the current source by the extractor
(harness/props/C26.py -> SnakeGenerated.lean); the model and all C26 theorems depend on them.

No Mathlib here: this file is loaded by `lean --run Drivers/C26.lean`.
-/
import BlueskyVerif.Pure.SnakeGenerated

namespace BlueskyVerif.Pure.Snake

/-- `np.prod(lengths)` (empty product = 1). -/
def prod : List Nat → Nat
  | [] => 1
  | x :: xs => x * prod xs

/-- `np.repeat(v, n)`: every element n times, in place. -/
def repeatEach (n : Nat) : List α → List α
  | [] => []
  | x :: xs => List.replicate n x ++ repeatEach n xs

/-- `np.tile(v, n)`: the whole array n times. -/
def tile : Nat → List α → List α
  | 0, _ => []
  | n + 1, v => v ++ tile n v

/-- `cycler(k, v)` as a list of one-coordinate points. -/
def cyc (v : List α) : List (List α) := v.map fun x => [x]

/-- cycler `*` (outer product, left operand slow) on point lists. -/
def mulC (a b : List (List α)) : List (List α) := a.flatMap fun x => b.map fun y => x ++ y

/-- cycler `+` (inner product = zip) on point lists.  The real `+` raises ValueError on unequal
    lengths; `column_length` (Lemmas/C26) shows all operands built by `snake_cyclers` have length
    `total`, so the zip never truncates. -/
def addC (a b : List (List α)) : List (List α) := List.zipWith (· ++ ·) a b

/-- `functools.reduce(f, xs)` without initial value: TypeError (none) on the empty list. -/
def reduce1 (f : β → β → β) : List β → Option β
  | [] => none
  | x :: xs => some (xs.foldl f x)

/-- Body of the `for i, (c, snake)` loop for one key column `v` of axis `i`:
```
num_tiles = np.prod(lengths[:i]); num_repeats = np.prod(lengths[i+1:])
if snake: v = np.concatenate([v, v[::-1]])
v2 = np.tile(np.repeat(v, num_repeats), int(num_tiles)); expanded = v2[:total_length]
``` -/
def snakeColumn (lengths : List Nat) (i : Nat) (v : List α) (snake : Bool) : List α :=
  let numTiles := prod (lengths.take (i + Gen.tilesUpTo))
  let numRepeats := prod (lengths.drop (i + Gen.repeatsFrom))
  let total := prod lengths
  let v' := if snake then (if Gen.forwardFirst then v ++ v.reverse else v.reverse ++ v) else v
  (tile numTiles (repeatEach numRepeats v')).take total

/-- the loop, accumulating `new_cyclers` (here: the expanded label columns) -/
def snakeColumnsFrom (lengths : List Nat) : Nat → List (List α) → List Bool → List (List α)
  | i, c :: cs, s :: ss => snakeColumn lengths i c s :: snakeColumnsFrom lengths (i + 1) cs ss
  | _, _, _ => []

def snakeColumns (cyclers : List (List α)) (flags : List Bool) : List (List α) :=
  snakeColumnsFrom (cyclers.map List.length) 0 cyclers flags

inductive Res (α : Type) where
  | valueError
  | typeError
  | ok (points : List (List α))
deriving Repr, DecidableEq

/-- `not any(snake_booleans[1:])` (offset from the source) -/
def noSnaking (flags : List Bool) : Bool := !(flags.drop Gen.shortcutFlagsFrom).any id

/-- `snake_cyclers(cyclers, snake_booleans)`. -/
def snakeCyclers (cyclers : List (List α)) (flags : List Bool) : Res α :=
  if cyclers.length ≠ flags.length then .valueError          -- raise ValueError
  else if noSnaking flags then                                                       -- if not any(snake_booleans[1:])
    match reduce1 mulC (cyclers.map cyc) with                  --   return reduce(operator.mul, cyclers)
    | none => .typeError
    | some r => .ok r
  else
    match reduce1 addC ((snakeColumns cyclers flags).map cyc) with   -- reduce(operator.add, new_cyclers)
    | none => .typeError
    | some r => .ok r

/-! ### The specification side: closed form of the trajectory in index space -/

/-- index of an axis of length `L`, with `R` = product of the lengths of all faster axes, at flat
    position `p`: plain mixed-radix digit `p / R % L`, mirrored iff the axis is snaked and the number
    `p / (L*R)` of advances of the slower axes so far is odd. -/
def idxAt (L R : Nat) (s : Bool) (p : Nat) : Nat :=
  let r := p / R % L
  if s && (p / (L * R)) % 2 == 1 then L - 1 - r else r

/-- index tuple at flat position `p` for axes given slowest first as (length, snaked) -/
def idxs : List (Nat × Bool) → Nat → List Nat
  | [], _ => []
  | (L, s) :: rest, p => idxAt L (prod (rest.map (·.1))) s p :: idxs rest p

/-- the whole index trajectory -/
def traj (axes : List (Nat × Bool)) : List (List Nat) :=
  (List.range (prod (axes.map (·.1)))).map (idxs axes)

/-- plain digits (product order) -/
def digits : List Nat → Nat → List Nat
  | [], _ => []
  | L :: rest, p => p / prod rest % L :: digits rest p

/-- the full Cartesian product of index ranges in row-major order -/
def grid : List Nat → List (List Nat)
  | [] => [[]]
  | L :: rest => (List.range L).flatMap fun a => (grid rest).map fun t => a :: t

/-- look the labels up: point of label tuple for an index tuple -/
def pick : List (List α) → List Nat → List α
  | v :: vs, i :: is => (v[i]?).toList ++ pick vs is
  | _, _ => []

/-! ### Predicates used to state C26 -/

/-- index tuple lies in the box `Π [0, L_i)` -/
def inBox : List Nat → List Nat → Prop
  | [], [] => True
  | a :: t, L :: Ls => a < L ∧ inBox t Ls
  | _, _ => False

/-- mirror map on `[0,L)`: `r ↦ L-1-r` when `b`, identity otherwise -/
def mirror (L : Nat) (b : Bool) (r : Nat) : Nat := if b then L - 1 - r else r

/-- every axis of the list wraps between two consecutive positions: a snaked axis keeps its index (it
    turns around), an unsnaked axis jumps from its last index back to 0 -/
def WrapStep : List (Nat × Bool) → List Nat → List Nat → Prop
  | [], [], [] => True
  | (L, s) :: rest, a :: t, a' :: t' => (if s then a' = a else a = L - 1 ∧ a' = 0) ∧ WrapStep rest t t'
  | _, _, _ => False

/-- exactly one axis moves, by exactly one index step; all slower axes keep their index; all faster
    axes wrap (`WrapStep`: snaked ones stay where they are) -/
def AdjStep : List (Nat × Bool) → List Nat → List Nat → Prop
  | (_, _) :: rest, a :: t, a' :: t' =>
      ((a' = a + 1 ∨ a = a' + 1) ∧ WrapStep rest t t') ∨ (a' = a ∧ AdjStep rest t t')
  | _, _, _ => False

/-- the two tuples differ in exactly one coordinate, and there by exactly one -/
def OneStep : List Nat → List Nat → Prop
  | a :: t, a' :: t' => ((a' = a + 1 ∨ a = a' + 1) ∧ t' = t) ∨ (a' = a ∧ OneStep t t')
  | _, _ => False

/-- number of flat positions `q < p` at which some axis slower than axis `i` advances, i.e. the
    coordinates of the first `i` axes differ between position `q` and `q+1` -/
def slowerAdvances (axes : List (Nat × Bool)) (i p : Nat) : Nat :=
  ((List.range p).filter fun q => (idxs axes q).take i != (idxs axes (q + 1)).take i).length

/-- the (length, snaked) description of the axes of a call `snake_cyclers(cyclers, flags)` -/
def axesOf (cyclers : List (List α)) (flags : List Bool) : List (Nat × Bool) :=
  (cyclers.map List.length).zip flags

end BlueskyVerif.Pure.Snake
