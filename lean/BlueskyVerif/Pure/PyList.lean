/-
Python list helpers used by the GENERATED transcription of `list_summands`
(Pure/ConsolidatorGenerated.lean).  No Mathlib.
-/
namespace BlueskyVerif.PyList

/-- `l * n` -/
def pyMulList (l : List Nat) : Nat → List Nat
  | 0 => []
  | n + 1 => l ++ pyMulList l n

/-- `a or b` for lists: `a` when non-empty -/
def pyOrList (a b : List Nat) : List Nat := if a.isEmpty then b else a

end BlueskyVerif.PyList
