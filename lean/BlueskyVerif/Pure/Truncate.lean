/-
C38 -- model of `bluesky.utils.truncate_json_overflow` on nested values.

The numeric branches (`cond1/ret1/cond2/ret2/truncLeaf`) are GENERATED from the source
(Pure/TruncateGenerated.lean).  Hand-written here: the value tree, the three container branches
(their shape in the source is checked by the extractor, which raises when it is not recognised):

    if isinstance(data, Mapping):  return {k: truncate_json_overflow(v) for k, v in data.items()}
    elif isinstance(data, np.ndarray) and data.ndim == 0:  return truncate_json_overflow(data.item())
    elif isinstance(data, Iterable) and not isinstance(data, str):  return [truncate_json_overflow(item) for item in data]

and the specification-side notions (shape, leaves, in-range, JSON-level normal form).
-/
import BlueskyVerif.Pure.TruncateGenerated

namespace BlueskyVerif.Truncate

inductive SeqTy where
  | list | tuple | ndarray       -- an n-d array (n >= 1) iterates as a sequence of (n-1)-d arrays / numpy scalars
deriving Repr, DecidableEq

/-- nested values: the inputs of `truncate_json_overflow` the property quantifies over -/
inductive Val where
  | leaf (s : Scalar)
  | arr0 (s : Scalar)                      -- 0-d numpy array holding the numpy scalar `s`
  | seq (t : SeqTy) (xs : List Val)
  | map (es : List (String × Val))         -- insertion-ordered mapping
deriving Repr

mutual
/-- `truncate_json_overflow` -/
def trunc : Val → Val
  | .map es => .map (truncEntries es)
  | .arr0 s => .leaf (truncLeaf (item s))    -- recursion on `data.item()`, a Python scalar
  | .seq _ xs => .seq .list (truncList xs)
  | .leaf s => .leaf (truncLeaf s)           -- strings and non-iterables fall through to the numeric branches
def truncList : List Val → List Val
  | [] => []
  | x :: xs => trunc x :: truncList xs
def truncEntries : List (String × Val) → List (String × Val)
  | [] => []
  | (k, v) :: es => (k, trunc v) :: truncEntries es
end

/-! ### specification side -/

/-- the shape of a value: mapping keys (in order), sequence lengths, leaf positions -/
inductive Shape where
  | leaf
  | seq (xs : List Shape)
  | map (es : List (String × Shape))
deriving Repr

mutual
def shapeOf : Val → Shape
  | .leaf _ => .leaf
  | .arr0 _ => .leaf
  | .seq _ xs => .seq (shapeList xs)
  | .map es => .map (shapeEntries es)
def shapeList : List Val → List Shape
  | [] => []
  | x :: xs => shapeOf x :: shapeList xs
def shapeEntries : List (String × Val) → List (String × Shape)
  | [] => []
  | (k, v) :: es => (k, shapeOf v) :: shapeEntries es
end

mutual
/-- the scalar leaves in document order; a 0-d array counts as the Python scalar it holds -/
def leaves : Val → List Scalar
  | .leaf s => [s]
  | .arr0 s => [item s]
  | .seq _ xs => leavesList xs
  | .map es => leavesEntries es
def leavesList : List Val → List Scalar
  | [] => []
  | x :: xs => leaves x ++ leavesList xs
def leavesEntries : List (String × Val) → List Scalar
  | [] => []
  | (_, v) :: es => leaves v ++ leavesEntries es
end

mutual
/-- the JSON-level value: every sequence is a list, a 0-d array is the Python scalar it holds.
    This is what "unchanged" refers to in C38 (the real function returns lists for tuples/arrays). -/
def normalize : Val → Val
  | .leaf s => .leaf s
  | .arr0 s => .leaf (item s)
  | .seq _ xs => .seq .list (normalizeList xs)
  | .map es => .map (normalizeEntries es)
def normalizeList : List Val → List Val
  | [] => []
  | x :: xs => normalize x :: normalizeList xs
def normalizeEntries : List (String × Val) → List (String × Val)
  | [] => []
  | (k, v) :: es => (k, normalize v) :: normalizeEntries es
end

/-- the bound of the property statement: plus or minus (2**53 - 1).  Written by hand (spec side). -/
def specBound : Int := 2 ^ 53 - 1

/-- a rational is integral-valued -/
def ratIsInt (q : Rat) : Bool := decide (((q.floor : Int) : Rat) = q)

def isInfinite : Scalar → Bool
  | .flt _ .posInf => true
  | .flt _ .negInf => true
  | _ => false

/-- "in range" for one leaf: an integer / integral-valued float lies within +-(2**53-1); a float is
    finite or NaN.  (Strings, None: nothing to demand.) -/
def leafInRange : Scalar → Bool
  | .int .npBool _ => true       -- numpy.bool_ is not a number at the JSON level (and not an `int`)
  | .int _ n => decide (-specBound ≤ n) && decide (n ≤ specBound)
  | .flt _ (.fin q) => !ratIsInt q || (decide ((-specBound : Int) ≤ q) && decide (q ≤ (specBound : Int)))
  | .flt _ .nan => true
  | .flt _ _ => false
  | _ => true

/-- The property's demand on an output leaf `out` produced from the input leaf `inp`
    (weak reading for non-finite inputs, see ASSUMPTIONS of C38):
    * an int-typed output lies within +-(2**53-1);
    * a float output is finite or NaN;
    * an integral-valued float output lies within +-(2**53-1) unless the input was +-inf. -/
def leafOK (inp out : Scalar) : Bool :=
  match out with
  | .int .npBool _ => true
  | .int _ n => decide (-specBound ≤ n) && decide (n ≤ specBound)
  | .flt _ (.fin q) => isInfinite inp || !ratIsInt q || (decide ((-specBound : Int) ≤ q) && decide (q ≤ (specBound : Int)))
  | .flt _ .nan => true
  | .flt _ _ => false
  | _ => true

/-- IEEE fact the rational model does not know: a finite binary16/32/64 float of magnitude >= 2**53
    is an integer -/
def ieeeLike : Scalar → Bool
  | .flt _ (.fin q) => ratIsInt q || (decide (-(2 ^ 53 : Int) < q) && decide (q < (2 ^ 53 : Int)))
  | _ => true

end BlueskyVerif.Truncate
