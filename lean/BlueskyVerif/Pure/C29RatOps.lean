/-
C29 -- the handful of numeric primitives the generated expressions of adaptive_scan /
tune_centroid refer to, over core `Rat` (exact rationals stand in for IEEE doubles).

  rabs x          `abs(x)` / `np.abs(x)`
  rmin a b        `min(a, b)` / `np.min([a, b])`
  rmax a b        `max(a, b)` / `np.max([a, b])`
  rclip x lo hi   `np.clip(x, lo, hi)` = minimum(maximum(x, lo), hi)

Written with `if` on the decidable order of `Rat` so that proofs can `split` and the driver can run
them; no Mathlib.
-/
namespace BlueskyVerif.Pure.C29

def rabs (x : Rat) : Rat := if 0 ≤ x then x else -x
def rmin (a b : Rat) : Rat := if a ≤ b then a else b
def rmax (a b : Rat) : Rat := if a ≤ b then b else a
def rclip (x lo hi : Rat) : Rat := rmin (rmax x lo) hi

end BlueskyVerif.Pure.C29
