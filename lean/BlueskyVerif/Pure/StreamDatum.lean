/-
C36 model (hand-written part) of `concatenate_stream_datums` (callbacks/tiled_writer.py).
The single-document shortcut, the uniformity checks, the sort key, the adjacency test and the
returned document's fields are GENERATED (Pure/StreamDatumGenerated.lean); this file transcribes the
control flow around them.  No Mathlib.
-/
import BlueskyVerif.Pure.StreamDatumGenerated

namespace BlueskyVerif.StreamDatum

inductive Err where
  | valueError   -- one of the three deliberate `raise ValueError`
  | indexError   -- `docs[-1]` on an empty tuple
deriving Repr, DecidableEq

/-- insert `d` in front of the first element whose key is not smaller (keeps equal keys in input order) -/
def insertByKey (d : SD) : List SD → List SD
  | [] => [d]
  | x :: xs => if sortKey d ≤ sortKey x then d :: x :: xs else x :: insertByKey d xs

/-- Python's `sorted(docs, key=sortKey)`: a STABLE sort -/
def sortByKey (l : List SD) : List SD := l.foldr insertByKey []

/-- `len({f(doc) for doc in docs}) > 1` is false -/
def allSame (f : SD → Nat) : List SD → Bool
  | [] => true
  | d :: ds => ds.all (fun e => f e == f d)

/-- the `for d1, d2 in zip(docs[:-1], docs[1:])` loop finds no offending pair -/
def consecutive : List SD → Bool
  | a :: b :: r => !notConsecutive a b && consecutive (b :: r)
  | _ => true

def concat (docs : List SD) : Except Err SD :=
  match singleShortcut, docs with
  | true, [d] => .ok d
  | _, _ =>
    if uniformChecks.any (fun f => !allSame f docs) then .error .valueError
    else
      let s := sortByKey docs
      if !consecutive s then .error .valueError
      else
        match s.head?, s.getLast? with
        | some f, some l => .ok (combine f l)
        | _, _ => .error .indexError

end BlueskyVerif.StreamDatum
