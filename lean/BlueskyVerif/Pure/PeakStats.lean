/-
C44 -- exact-rational model of `PeakStats._calc_stats` (src/bluesky/callbacks/fitting.py).

Hand-written transcription of the numpy computation, statement by statement, over core `Rat`:

    y_orig = np.copy(y)
    if edge_count is not None:
        left_x = np.mean(x[:edge_count]);  left_y = np.mean(y[:edge_count])
        right_x = np.mean(x[-edge_count:]); right_y = np.mean(y[-edge_count:])
        m = (right_y - left_y) / (right_x - left_x);  b = left_y - m * left_x
        y = y - (m * x + b)
    argmin_y = np.argmin(y); argmax_y = np.argmax(y)             -- first occurrence
    fields["min"] = (x[argmin_y], y_orig[argmin_y]); fields["max"] = (x[argmax_y], y_orig[argmax_y])
    (fields["com"],) = np.interp(center_of_mass(y), np.arange(len(x)), x)   -- sum(i*y)/sum(y), clamped
    mid = (np.max(y) + np.min(y)) / 2
    crossings = np.where(np.diff((y > mid).astype(int)))[0]
    for cr in crossings:  _cen_list.append((-_y[0] / (dy / dx)) + _x[0])      -- _y = y[cr:cr+2] - mid
    if _cen_list: cen = mean; crossings = array; if len >= 2: fwhm = |last - first|

Arrays are functions `Nat -> Rat` together with their length `n` (indices >= n are never read).
Floats are exact rationals: IEEE rounding is not modelled; NaN / inf outcomes of numpy (0/0, x/0) are
modelled explicitly as `none` (`com`) or as the `degenerate` background.
-/
namespace BlueskyVerif.PeakStats

abbrev Vec := Nat → Rat

/-- `sum(f[a : a+k])` -/
def sumFrom (f : Vec) (a : Nat) : Nat → Rat
  | 0 => 0
  | k + 1 => sumFrom f a k + f (a + k)

/-- first index of the largest value among `y 0 .. y k` (left-to-right scan, strict improvement) -/
def argmaxUpTo (y : Vec) : Nat → Nat
  | 0 => 0
  | k + 1 => let b := argmaxUpTo y k; if y b < y (k + 1) then k + 1 else b

/-- first index of the smallest value among `y 0 .. y k` -/
def argminUpTo (y : Vec) : Nat → Nat
  | 0 => 0
  | k + 1 => let b := argminUpTo y k; if y (k + 1) < y b then k + 1 else b

/-- `np.argmax(y)` for an array of length `n >= 1` -/
def argmax (n : Nat) (y : Vec) : Nat := argmaxUpTo y (n - 1)
def argmin (n : Nat) (y : Vec) : Nat := argminUpTo y (n - 1)

structure Bkg where
  m : Rat
  b : Rat
deriving Repr

/-- the linear background from the first / last `ec` points.  `none` = numpy produces NaN
    (`ec = 0`: mean of an empty slice; equal edge means of x: division by zero). -/
def bkg (n ec : Nat) (x y : Vec) : Option Bkg :=
  let e := min ec n                      -- x[:ec] and x[-ec:] have min(ec, n) elements
  let leftX := sumFrom x 0 e / (e : Rat)
  let leftY := sumFrom y 0 e / (e : Rat)
  let rightX := sumFrom x (n - e) e / (e : Rat)
  let rightY := sumFrom y (n - e) e / (e : Rat)
  if ec = 0 ∨ rightX - leftX = 0 then none
  else
    let m := (rightY - leftY) / (rightX - leftX)
    some { m := m, b := leftY - m * leftX }

/-- `y - (m * x + b)` -/
def subtract (bk : Bkg) (x y : Vec) : Vec := fun i => y i - (bk.m * x i + bk.b)

/-- `np.interp(c, np.arange(n), x)` for `n >= 1` -/
def interpIdx (n : Nat) (x : Vec) (c : Rat) : Rat :=
  if c ≤ 0 then x 0
  else if ((n - 1 : Nat) : Rat) ≤ c then x (n - 1)
  else
    let j := c.floor.toNat
    (x (j + 1) - x j) / (((j + 1 : Nat) : Rat) - (j : Rat)) * (c - (j : Rat)) + x j

/-- `sum(i * y[i])` -/
def weighted (y : Vec) : Vec := fun i => (i : Rat) * y i

/-- `np.interp(center_of_mass(y), arange(n), x)`; `none` = NaN (0/0).  With `sum(y) = 0` and
    `sum(i*y) != 0` numpy's quotient is +-inf, which `np.interp` clamps to the last / first x. -/
def com (n : Nat) (x y : Vec) : Option Rat :=
  let s := sumFrom y 0 n
  let w := sumFrom (weighted y) 0 n
  if n = 1 then some (x 0)      -- np.interp with a single sample point returns fp[0] for every abscissa, even NaN
  else if s = 0 then
    if w = 0 then none else if 0 < w then some (x (n - 1)) else some (x 0)
  else some (interpIdx n x (w / s))

/-- `np.where(np.diff((y > mid).astype(int)))[0]` -/
def crossIdx (n : Nat) (y : Vec) (mid : Rat) : List Nat :=
  (List.range (n - 1)).filter fun i => decide (mid < y i) != decide (mid < y (i + 1))

/-- one entry of `_cen_list` -/
def crossAt (x y : Vec) (mid : Rat) (cr : Nat) : Rat :=
  let y0 := y cr - mid
  let y1 := y (cr + 1) - mid
  let dx := x (cr + 1) - x cr
  let dy := y1 - y0
  let m := dy / dx
  (-y0 / m) + x cr

def listSum : List Rat → Rat
  | [] => 0
  | a :: as => a + listSum as

def absQ (q : Rat) : Rat := if q < 0 then -q else q

structure Stats where
  minIdx : Nat
  maxIdx : Nat
  mid : Rat
  com : Option Rat            -- none = NaN
  crossIdx : List Nat
  crossings : List Rat        -- [] = attribute stays None
  cen : Option Rat
  fwhm : Option Rat
  bkg : Option Bkg
deriving Repr

/-- the statistics for the (already background-subtracted) data `y` -/
def statsOf (n : Nat) (x y : Vec) (bk : Option Bkg) : Stats :=
  let imin := argmin n y
  let imax := argmax n y
  let mid := (y imax + y imin) / 2
  let idx := crossIdx n y mid
  let cs := idx.map (crossAt x y mid)
  { minIdx := imin, maxIdx := imax, mid := mid
    com := com n x y
    crossIdx := idx
    crossings := cs
    cen := if cs.isEmpty then none else some (listSum cs / (cs.length : Rat))
    fwhm := if 2 ≤ cs.length then some (absQ (cs.getLastD 0 - cs.headD 0)) else none
    bkg := bk }

/-- `_calc_stats(x, y, fields, edge_count)` for `n >= 1`; `none` = degenerate background (NaN everywhere) -/
def calcStats (n : Nat) (x y : Vec) (ec : Option Nat) : Option Stats :=
  match ec with
  | none => some (statsOf n x y none)
  | some e =>
    match bkg n e x y with
    | none => none
    | some bk => some (statsOf n x (subtract bk x y) (some bk))

/-! ### specification side (used by the C44 theorems only) -/

def StrictInc (n : Nat) (x : Vec) : Prop := ∀ i j, i < j → j < n → x i < x j
def StrictDec (n : Nat) (x : Vec) : Prop := ∀ i j, i < j → j < n → x j < x i
/-- "strictly monotonic x" of the property statement -/
def StrictMonotonic (n : Nat) (x : Vec) : Prop := StrictInc n x ∨ StrictDec n x

/-- the x range `[min x, max x]`; for monotonic x its end points are the first and the last sample -/
def xLo (n : Nat) (x : Vec) : Rat := if x 0 ≤ x (n - 1) then x 0 else x (n - 1)
def xHi (n : Nat) (x : Vec) : Rat := if x 0 ≤ x (n - 1) then x (n - 1) else x 0

/-- the data the statistics are computed on: `y`, or `y` minus the linear background -/
def ranked (n : Nat) (x y : Vec) (ec : Option Nat) : Vec :=
  match ec with
  | none => y
  | some e =>
    match bkg n e x y with
    | none => y
    | some bk => subtract bk x y

/-- `c` lies between `a` and `b` (in either order) -/
def Between (a b c : Rat) : Prop := (a ≤ c ∧ c ≤ b) ∨ (b ≤ c ∧ c ≤ a)

/-- adjacent samples `i`, `i+1` straddle the level `mid` -/
def Straddles (y : Vec) (mid : Rat) (i : Nat) : Prop := (mid < y i) ≠ (mid < y (i + 1))

/-- edge_count values the property covers -/
def ValidEdge (n : Nat) : Option Nat → Prop
  | none => True
  | some e => 1 ≤ e ∧ e < n

end BlueskyVerif.PeakStats
