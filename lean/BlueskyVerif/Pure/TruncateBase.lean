/-
C38 -- value model for `bluesky.utils.truncate_json_overflow`: scalars as Python/numpy see them.

Hand-written.  The two numeric branches of the function are NOT written here: they are translated
from the current source into `Pure/TruncateGenerated.lean`, in terms of the operations below.

Floats are modelled as exact rationals plus the tags +inf / -inf / NaN (`Num`).  IEEE rounding is
not modelled: every operation the function performs on a float (`% 1`, `int()`, `float()`,
comparisons with constants, `min`/`max`) is exact on IEEE binary floats, so nothing is lost, but
the model admits more finite values than any binary float format has (see ASSUMPTIONS of C38).
-/
namespace BlueskyVerif.Truncate

/-- an IEEE value: exact rational, or one of the three special values -/
inductive Num where
  | fin (q : Rat)
  | posInf
  | negInf
  | nan
deriving Repr, DecidableEq

namespace Num
/-- IEEE `<` (false as soon as a NaN is involved) -/
def lt : Num → Num → Bool
  | .fin a, .fin b => decide (a < b)
  | .fin _, .posInf => true
  | .negInf, .fin _ => true
  | .negInf, .posInf => true
  | _, _ => false

/-- IEEE `<=` -/
def le : Num → Num → Bool
  | .fin a, .fin b => decide (a ≤ b)
  | .fin _, .posInf => true
  | .negInf, .fin _ => true
  | .negInf, .posInf => true
  | .posInf, .posInf => true
  | .negInf, .negInf => true
  | _, _ => false
end Num

/-- numpy integer widths (they all behave alike in the function; kept to predict the result type) -/
inductive NpInt where
  | i8 | i16 | i32 | i64 | u8 | u16 | u32 | u64
deriving Repr, DecidableEq

/-- runtime type of an integer-valued scalar -/
inductive IntTy where
  | py            -- int
  | bool          -- bool (a subclass of int), value 0/1
  | npBool        -- numpy.bool_ (NOT a subclass of int / numpy.integer), value 0/1
  | np (k : NpInt)
deriving Repr, DecidableEq

/-- runtime type of a float scalar -/
inductive FltTy where
  | py | f16 | f32 | f64
deriving Repr, DecidableEq

/-- a scalar leaf -/
inductive Scalar where
  | str (np : Bool) (s : String)      -- str / numpy.str_
  | none
  | int (t : IntTy) (n : Int)
  | flt (t : FltTy) (x : Num)
deriving Repr, DecidableEq

/-- the classes that may occur in the `isinstance` tuples of the numeric branches -/
inductive Cls where
  | int | float | bool | str
  | npInteger | npFloating | npNumber | npBool | npFloat16 | npFloat32 | npFloat64
deriving Repr, DecidableEq

/-- the classes a scalar is an instance of (its MRO restricted to `Cls`) -/
def classesOf : Scalar → List Cls
  | .str _ _ => [.str]
  | .none => []
  | .int .py _ => [.int]
  | .int .bool _ => [.bool, .int]
  | .int .npBool _ => [.npBool]
  | .int (.np _) _ => [.npInteger, .npNumber]
  | .flt .py _ => [.float]
  | .flt .f16 _ => [.npFloat16, .npFloating, .npNumber]
  | .flt .f32 _ => [.npFloat32, .npFloating, .npNumber]
  | .flt .f64 _ => [.npFloat64, .float, .npFloating, .npNumber]   -- numpy.float64 subclasses float

/-- `isinstance(d, (c1, c2, ...))` -/
def isinst (d : Scalar) (cs : List Cls) : Bool := cs.any fun c => (classesOf d).contains c

/-! ### comparisons as Python/numpy 2 perform them

A Python `int` compared with a numpy floating scalar is a *weak* scalar (NEP 50): it is first
converted to the float kind of the other operand, with round-to-nearest-even.  All other mixed
comparisons occurring here (int/int, int/float, numpy-int/int, float/float) are exact. -/

/-- round a natural number to `p` significant bits, to nearest, ties to even -/
def roundNat (p m : Nat) : Nat :=
  if m = 0 then 0 else
  let bl := m.log2 + 1
  if bl ≤ p then m else
  let e := bl - p
  let q := m >>> e
  let r := m % 2 ^ e
  let half := 2 ^ (e - 1)
  let q' := if r > half ∨ (r = half ∧ q % 2 = 1) then q + 1 else q
  q' * 2 ^ e

/-- an integer converted to a binary float kind with `p` significant bits and largest exponent `emax` -/
def roundInt (p emax : Nat) (n : Int) : Num :=
  let m := roundNat p n.natAbs
  if 2 ^ (emax + 1) ≤ m then (if n < 0 then .negInf else .posInf)
  else .fin (if n < 0 then -(m : Int) else (m : Int))

def pyIntVal : Scalar → Option Int
  | .int .py n => some n
  | .int .bool n => some n
  | _ => none

/-- (significant bits, emax) of the numpy floating kinds -/
def weakOf : Scalar → Option (Nat × Nat)
  | .flt .f16 _ => some (11, 15)
  | .flt .f32 _ => some (24, 127)
  | .flt .f64 _ => some (53, 1023)
  | _ => none

def numOf : Scalar → Num
  | .int _ n => .fin n
  | .flt _ x => x
  | _ => .nan

/-- the value of `a` as a comparison with `b` sees it -/
def seenBy (a b : Scalar) : Num :=
  match pyIntVal a, weakOf b with
  | some n, some (p, e) => roundInt p e n
  | _, _ => numOf a

def Scalar.lt (a b : Scalar) : Bool := Num.lt (seenBy a b) (seenBy b a)
def Scalar.le (a b : Scalar) : Bool := Num.le (seenBy a b) (seenBy b a)
def Scalar.gt (a b : Scalar) : Bool := Scalar.lt b a
def Scalar.ge (a b : Scalar) : Bool := Scalar.le b a

/-- CPython `max(a, b)`: keeps the first argument unless the second compares greater -/
def pyMax (a b : Scalar) : Scalar := if Scalar.gt b a then b else a
/-- CPython `min(a, b)`: keeps the first argument unless the second compares smaller -/
def pyMin (a b : Scalar) : Scalar := if Scalar.lt b a then b else a

/-- Python truthiness -/
def Scalar.truthy : Scalar → Bool
  | .str _ s => s != ""
  | .none => false
  | .int _ n => n != 0
  | .flt _ (.fin q) => q != 0
  | .flt _ _ => true          -- inf, -inf and NaN are truthy

/-- `d % c` for a positive Python int constant `c` (only its truthiness is used by the function;
    for floats the exact remainder is nonzero iff the IEEE remainder is) -/
def Scalar.modInt (d : Scalar) (c : Int) : Scalar :=
  match d with
  | .int t n => .int t (n % c)
  | .flt t (.fin q) => .flt t (.fin (q - (c : Rat) * ((q / (c : Rat)).floor : Int)))
  | .flt t _ => .flt t .nan    -- inf % c = nan, nan % c = nan
  | other => other             -- raises TypeError in Python; guarded by isinstance in the source

/-- truncation toward zero -/
def ratTrunc (q : Rat) : Int := if 0 ≤ q then q.floor else -((-q).floor)

/-- does `int(d)` raise (OverflowError for inf, ValueError for NaN, TypeError for None / non-numeric str)? -/
def intRaises : Scalar → Bool
  | .int _ _ => false
  | .flt _ (.fin _) => false
  | _ => true

/-- `int(d)`; where Python raises the model returns 0 -- `intRaises` says where, and
    `C38_int_conversion_guarded` proves the source never evaluates it there -/
def toPyInt : Scalar → Scalar
  | .int _ n => .int .py n
  | .flt _ (.fin q) => .int .py (ratTrunc q)
  | _ => .int .py 0

/-- `float(d)` (exact for every float kind; for ints the model keeps the exact value) -/
def toPyFloat : Scalar → Scalar
  | .int _ n => .flt .py (.fin n)
  | .flt _ x => .flt .py x
  | other => other

/-- `ndarray.item()` of a 0-d array: the Python scalar of a numpy scalar -/
def item : Scalar → Scalar
  | .str _ s => .str false s
  | .none => .none
  | .int .npBool n => .int .bool n
  | .int (.np _) n => .int .py n
  | .int t n => .int t n
  | .flt _ x => .flt .py x

/-- literals of the source -/
def pyI (n : Int) : Scalar := .int .py n
def pyF (q : Rat) : Scalar := .flt .py (.fin q)

end BlueskyVerif.Truncate
