/-
`numpy.linspace(start, stop, num, endpoint=True)` over exact rationals (core `Rat`).
numpy computes `step = (stop - start) / (num - 1)` and `y[i] = i * step + start` (and for `num = 1`
just `[start]`); in exact arithmetic that is the formula below.  IEEE rounding is NOT modelled: the
correspondence run compares exactly only where numpy's computation is exact (dyadic start/stop,
`num - 1` a power of two) and with a tolerance otherwise.  No Mathlib.
-/
namespace BlueskyVerif.Pure

/-- `np.linspace(start, stop, num)` -/
def linspace (start stop : Rat) (num : Nat) : List Rat :=
  (List.range num).map fun (i : Nat) => start + (i : Rat) * ((stop - start) / ((num : Rat) - 1))

end BlueskyVerif.Pure
