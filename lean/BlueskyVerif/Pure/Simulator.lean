/-
Model of `RunEngineSimulator.simulate_plan`, the handler list (`add_handler`,
`add_handler_for_callback_subscribes`) and `check_limits_async` of src/bluesky/simulators.py.

A plan is ANY Python generator: a behaviour function from the responses received so far to what
the generator does next (`yld m | ret v | raise e`).  This covers every plan, including plans
that never terminate and plans that branch on what they receive.  Everything lives in `Type`.

The facts that can be read off the source syntactically (default insertion index, END meaning
append, direction of the handler lookup, whether `send_value` is reset, whether the
StopIteration value is stored, the command / argument index looked at by check_limits) come
from `SimulatorGenerated.lean`, regenerated from the current source on every run.
-/
import BlueskyVerif.Pure.SimulatorGenerated

namespace BlueskyVerif.Simulator

/-- what a (re)started generator does next -/
inductive Out (M V E : Type) where
  | yld (m : M)
  | ret (v : V)
  | raise (e : E)
deriving Repr, DecidableEq

/-- A plan: responses sent into its yields so far ↦ next output.  Python's `None` is `none`.
    The first `gen.send(None)` only starts the generator, so the history starts empty. -/
abbrev Plan (M R V E : Type) := List (Option R) → Out M V E

/-- result of calling `handler.runnable(msg)`: a value, or an exception.  `StopIteration`
    is kept apart from the other exceptions because `simulate_plan`'s `except StopIteration`
    also catches it when it comes out of a handler. -/
inductive HRes (R V E : Type) where
  | val (r : Option R)
  | stop (v : V)
  | err (e : E)
deriving Repr, DecidableEq

/-- `_MessageHandler(predicate, runnable)`; handlers are functions of the message. -/
structure Handler (M R V E : Type) where
  pred : M → Bool
  run : M → HRes R V E

/-- outcome of `simulate_plan` -/
inductive Res (M V E : Type) where
  /-- `return messages`; `rv = some v`: `self.return_value = v` was executed; `none`: untouched -/
  | done (msgs : List M) (rv : Option V)
  /-- an exception left `simulate_plan` (nothing is returned, `return_value` untouched) -/
  | raised (e : E)
  /-- model only: fuel exhausted, the `while` loop is still running with these messages recorded -/
  | running (msgs : List M)
deriving Repr, DecidableEq

section sim
variable {M R V E : Type}

/-- `next((h for h in <iter> if h.predicate(msg)), None)` -/
def lookup (hs : List (Handler M R V E)) (m : M) : Option (Handler M R V E) :=
  if Gen.lookupReversed then hs.reverse.find? (·.pred m) else hs.find? (·.pred m)

/-- the handler step of one loop iteration: `send_value = None`, then the first matching
    handler's result (if any).  `prev` is the previous `send_value` (only relevant if the source
    stops resetting it). -/
def respond (hs : List (Handler M R V E)) (prev : Option R) (m : M) : HRes R V E :=
  match lookup hs m with
  | some h => h.run m
  | none => .val (if Gen.resetSendValue then none else prev)

/-- value that will be sent for `m` when the handler returns normally -/
def sent (hs : List (Handler M R V E)) (m : M) : Option R :=
  match respond hs none m with
  | .val r => r
  | _ => none

/-- `except StopIteration as e: self.return_value = e.value` -/
def record (v : V) : Option V := if Gen.recordsReturnValue then some v else none

/-- The loop of `simulate_plan`:
    ```
    while msg := gen.send(send_value):      -- falsy message: loop ends, falls to `return messages`
        send_value = None
        messages.append(msg)
        if handler := next((h for h in self.message_handlers if h.predicate(msg)), None):
            send_value = handler.runnable(msg)
    except StopIteration as e: self.return_value = e.value
    return messages
    ```
    `hist` = values sent so far (after the starting `send(None)`), `prev` = current `send_value`. -/
def simLoop (truthy : M → Bool) (hs : List (Handler M R V E)) (p : Plan M R V E) :
    Nat → List (Option R) → Option R → List M → Res M V E
  | 0, _, _, msgs => .running msgs
  | fuel + 1, hist, prev, msgs =>
    match p hist with
    | .ret v => .done msgs (record v)
    | .raise e => .raised e
    | .yld m =>
      if !truthy m then .done msgs none
      else
        let msgs := msgs ++ [m]
        match respond hs prev m with
        | .val r => simLoop truthy hs p fuel (hist ++ [r]) r msgs
        | .stop v => .done msgs (record v)
        | .err e => .raised e

/-- `simulate_plan(gen)` -/
def simulate (truthy : M → Bool) (hs : List (Handler M R V E)) (p : Plan M R V E) (fuel : Nat) : Res M V E :=
  simLoop truthy hs p fuel [] none []

/-- `list.insert(i, x)` of CPython: negative indices count from the end, everything is clamped -/
def pyInsert {α : Type} (l : List α) (i : Int) (x : α) : List α :=
  let n : Int := l.length
  let k : Int := if i < 0 then (if n + i < 0 then 0 else n + i) else (if i > n then n else i)
  l.take k.toNat ++ x :: l.drop k.toNat

/-- the `index` argument of `add_handler` -/
inductive Index where
  | dflt              -- not given
  | at (i : Int)
  | end_              -- the END sentinel
deriving Repr, DecidableEq

/-- `self.message_handlers.insert(index if index != END else len(self.message_handlers), h)` -/
def addHandler (hs : List (Handler M R V E)) (h : Handler M R V E) (idx : Index := .dflt) : List (Handler M R V E) :=
  match idx with
  | .dflt => pyInsert hs Gen.addHandlerDefaultIndex h
  | .at i => pyInsert hs i h
  | .end_ => if Gen.endMeansAppend then pyInsert hs hs.length h else pyInsert hs 0 h

/-- `add_handler_for_callback_subscribes`: `self.message_handlers.append(...)` -/
def addSubscribeHandler (hs : List (Handler M R V E)) (h : Handler M R V E) : List (Handler M R V E) :=
  if Gen.subscribeHandlerAppends then hs ++ [h] else h :: hs

end sim

/-! ### concrete messages, the predicate built by `add_handler`, and `check_limits_async` -/

/-- a device as far as the simulators care -/
structure Dev where
  id : Nat                      -- object identity: two `Dev` values are the same Python object iff equal
  name : String
  /-- `some (low, high)`: the object has `check_value` (is `Checkable`) and checks these limits;
      `none`: no `check_value` method -/
  limits : Option (Int × Int)
deriving Repr, DecidableEq

structure Msg where
  command : String
  obj : Option Dev := none
  args : List Int := []
  group : Option String := none      -- kwargs["group"] when present
deriving Repr, DecidableEq

/-- the `msg_filter` argument of `add_handler` -/
inductive Filter where
  | none
  | fn (f : Msg → Bool)
  | name (s : String)

/-- ```
    lambda msg: msg.command in commands and (msg_filter is None
        or (callable(msg_filter) and msg_filter(msg)) or (msg.obj and msg.obj.name == msg_filter))
    ``` -/
def matchPred (commands : List String) (flt : Filter) (m : Msg) : Bool :=
  commands.contains m.command &&
    (match flt with
     | .none => true
     | .fn f => f m
     | .name s => match m.obj with
        | some d => d.name == s
        | none => false)

/-- `check_value` of the limit-checked fake devices and of ophyd's `SoftPositioner`:
    limits are active iff `low < high`; raise iff not `low <= v <= high`. -/
def outOfLimits (lim : Int × Int) (v : Int) : Bool :=
  decide (lim.1 < lim.2) && !(decide (lim.1 ≤ v) && decide (v ≤ lim.2))

inductive CLRes (E : Type) where
  /-- finished; the objects warned about (each once, in order) -/
  | ok (warned : List Dev)
  /-- `check_value` raised at the `k`-th message of the plan (0-based) -/
  | limitError (k : Nat)
  | planRaised (e : E)
  /-- `obj.name` on `None` -/
  | attributeError (k : Nat)
  /-- `msg.args[i]` on too short args -/
  | indexError (k : Nat)
  | running
deriving Repr, DecidableEq

/-- ```
    ignore = []
    for msg in plan:                     -- every yield receives None
        obj = msg.obj
        if msg.command == "set" and obj not in ignore:
            if isinstance(obj, Checkable): await maybe_await(obj.check_value(msg.args[0]))
            else: warn(f"{obj.name} ... {msg.args[0]} ..."); ignore.append(obj)
    ``` -/
def checkLoop {R V E : Type} (p : Plan Msg R V E) : Nat → Nat → List Dev → CLRes E
  | 0, _, _ => .running
  | fuel + 1, k, ignore =>
    match p (List.replicate k none) with
    | .ret _ => .ok ignore
    | .raise e => .planRaised e
    | .yld m =>
      if m.command == Gen.checkedCommand then
        match m.obj with
        | none =>
          -- `None not in ignore` is true; `isinstance(None, Checkable)` is false; `obj.name` fails
          .attributeError k
        | some d =>
          if ignore.contains d then checkLoop p fuel (k + 1) ignore
          else match m.args[Gen.checkedArgIndex]? with
            | none => .indexError k
            | some v =>
              match d.limits with
              | some lim => if outOfLimits lim v then .limitError k else checkLoop p fuel (k + 1) ignore
              | none => checkLoop p fuel (k + 1) (ignore ++ [d])
      else checkLoop p fuel (k + 1) ignore

/-- `check_limits_async(plan)` -/
def checkLimits {R V E : Type} (p : Plan Msg R V E) (fuel : Nat) : CLRes E := checkLoop p fuel 0 []

/-- a `set` message on a limit-checked device whose value is outside its limits -/
def offending (m : Msg) : Bool :=
  m.command == Gen.checkedCommand &&
    (match m.obj, m.args[Gen.checkedArgIndex]? with
     | some d, some v => (match d.limits with
        | some lim => outOfLimits lim v
        | none => false)
     | _, _ => false)

/-- well-formed for check_limits: a `set` message carries a device and a value -/
def wfSet (m : Msg) : Bool :=
  m.command != Gen.checkedCommand || (m.obj.isSome && (m.args[Gen.checkedArgIndex]?).isSome)

end BlueskyVerif.Simulator
