/-
C37 models (hand-written; tied to the real things by the correspondence run of harness/props/C37.py):

 (0) `reMatch`      the regex `%([flagClass]*)(\d+)?(?:\.(\d+))?([typeClass])` anchored at a '%'
                    (the two character classes are GENERATED from the source);
 (a) `cPrintf`      ISO C `printf` of ONE conversion `%[flags][width][.precision]d` applied to a
                    non-negative integer (C11 7.21.6.1);
 (b) `pyFormatInt`  CPython's format-spec mini-language for a non-negative `int`
                    (`parse_internal_render_format_spec` + `format_long_internal`), presentation type `d`;
     `pyStrFormat`  `'{:spec}'.format(n)` for a template that is exactly one replacement field;
 (c) `derive`       what MultipartRelatedConsolidator does with a conversion: regex groups ->
                    GENERATED `intReplacer` -> `.format(i)`.

Strings are `List Char`; characters are compared with `=` (never by pattern matching on literals) so
that the proofs can rewrite with (in)equalities.  No Mathlib here.
-/
import BlueskyVerif.Pure.PrintfGenerated

namespace BlueskyVerif.Printf
open BlueskyVerif.PyStr

/-! ### (0) the regex, anchored -/

structure Groups where
  flags : Str
  width : Option Str
  precision : Option Str
  typeChar : Str
deriving Repr, DecidableEq

def optGroup (s : Str) : Option Str := if s.isEmpty then none else some s

/-- `re.match(r"%([F]*)(\d+)?(?:\.(\d+))?([T])", t)` -> groups and the unmatched rest.
    Greedy without backtracking: giving characters back can only move '0's between the flag and the
    width group, which never changes the rest of the string, so the greedy split is the one `re` finds. -/
def reMatch (t : Str) : Option (Groups × Str) :=
  match t with
  | [] => none
  | c0 :: r =>
    if c0 ≠ '%' then none else
    let flags := r.takeWhile (fun c => decide (c ∈ flagClass))
    let r1 := r.dropWhile (fun c => decide (c ∈ flagClass))
    let w := r1.takeWhile isDig
    let r2 := r1.dropWhile isDig
    let pr : Option Str × Str :=
      match r2 with
      | [] => (none, r2)
      | c :: r2' =>
        if c = '.' ∧ ¬ (r2'.takeWhile isDig).isEmpty then (some (r2'.takeWhile isDig), r2'.dropWhile isDig)
        else (none, r2)
    match pr.2 with
    | [] => none
    | c :: r4 => if c ∈ typeClass then some ({ flags := flags, width := optGroup w, precision := pr.1, typeChar := [c] }, r4) else none

/-! ### (b) Python: format-spec mini-language for a non-negative int -/

def isAlign (c : Char) : Bool := c = '<' || c = '>' || c = '=' || c = '^'
def isSign (c : Char) : Bool := c = '+' || c = '-' || c = ' '

structure PySpec where
  fill : Option Char      -- explicitly given fill character
  align : Option Char     -- explicitly given alignment
  sign : Option Char
  alt : Bool
  zero : Bool             -- the '0' flag (only recognised when no fill was given)
  width : Option Nat
deriving Repr, DecidableEq

/-- `[[fill]align]` -/
def pyAlign (s : Str) : Option Char × Option Char × Str :=
  match s with
  | f :: a :: r =>
    if isAlign a then (some f, some a, r)
    else if isAlign f then (none, some f, a :: r)
    else (none, none, s)
  | [f] => if isAlign f then (none, some f, []) else (none, none, s)
  | [] => (none, none, [])

def pySign (s : Str) : Option Char × Str :=
  match s with
  | c :: r => if isSign c then (some c, r) else (none, s)
  | [] => (none, [])

def pyHash (s : Str) : Bool × Str :=
  match s with
  | c :: r => if c = '#' then (true, r) else (false, s)
  | [] => (false, [])

def pyZero (fillGiven : Bool) (s : Str) : Bool × Str :=
  match s with
  | c :: r => if c = '0' ∧ fillGiven = false then (true, r) else (false, s)
  | [] => (false, [])

/-- the rest after the width must be the presentation type `d` (or nothing: same rendering for ints);
    grouping (`,` `_`), precision, `z`, and the other integer presentation types are outside the model -/
def pyTypeOk (s : Str) : Bool :=
  match s with
  | [] => true
  | [c] => c = 'd'
  | _ => false

def pyParseSpec (s : Str) : Option PySpec :=
  let a := pyAlign s
  let sg := pySign a.2.2
  let h := pyHash sg.2
  let z := pyZero a.1.isSome h.2
  let wd := z.2.takeWhile isDig
  let rest := z.2.dropWhile isDig
  if pyTypeOk rest then
    some { fill := a.1, align := a.2.1, sign := sg.1, alt := h.1, zero := z.1,
           width := if wd.isEmpty then none else some (pyInt wd) }
  else none

/-- `format_long_internal` for `n >= 0`, type `d`: sign, then `calc_number_widths`/`fill_number` -/
def pyRenderInt (sp : PySpec) (n : Nat) : Str :=
  let digs := natRepr n
  let sg : Str := if sp.sign = some '+' then ['+'] else if sp.sign = some ' ' then [' '] else []
  let fill : Char := match sp.fill with
    | some f => f
    | none => if sp.zero then '0' else ' '
  let align : Char := match sp.align with
    | some a => a
    | none => if sp.zero then '=' else '>'
  let pad := (sp.width.getD 0) - (sg.length + digs.length)
  if align = '<' then sg ++ digs ++ rep fill pad
  else if align = '^' then rep fill (pad / 2) ++ sg ++ digs ++ rep fill (pad - pad / 2)
  else if align = '=' then sg ++ rep fill pad ++ digs
  else rep fill pad ++ sg ++ digs

def pyFormatInt (spec : Str) (n : Nat) : Option Str := (pyParseSpec spec).map (fun sp => pyRenderInt sp n)

/-- the spec of a template that is exactly one auto-numbered replacement field `{:spec}` -/
def stripField (t : Str) : Option Str :=
  match t with
  | a :: b :: r =>
    if a = '{' ∧ b = ':' then
      match r.reverse with
      | z :: sr => if z = '}' ∧ sr.all (fun c => decide (c ≠ '{' ∧ c ≠ '}')) then some sr.reverse else none
      | [] => none
    else none
  | _ => none

/-- `t.format(n)` for such a template -/
def pyStrFormat (t : Str) (n : Nat) : Option Str := (stripField t).bind (fun spec => pyFormatInt spec n)

/-! ### (a) C: printf of one `d` conversion, non-negative argument -/

def isCFlag (c : Char) : Bool := c = '-' || c = '+' || c = ' ' || c = '#' || c = '0'

structure CConv where
  minus : Bool
  plus : Bool
  space : Bool
  hash : Bool
  zero : Bool
  width : Option Nat
  prec : Option Nat
deriving Repr, DecidableEq

/-- parse `%[flags][width][.[precision]]d` (the whole string); `*`, length modifiers and other conversions
    are outside the model -/
def cParse (t : Str) : Option CConv :=
  match t with
  | [] => none
  | c0 :: r =>
    if c0 ≠ '%' then none else
    let fl := r.takeWhile isCFlag
    let r1 := r.dropWhile isCFlag
    let w := r1.takeWhile isDig
    let r2 := r1.dropWhile isDig
    let pr : Option Nat × Str :=
      match r2 with
      | [] => (none, r2)
      | c :: r2' => if c = '.' then (some (pyInt (r2'.takeWhile isDig)), r2'.dropWhile isDig) else (none, r2)
    match pr.2 with
    | [c] =>
      if c = 'd' ∨ c = 'i' then
        some { minus := decide ('-' ∈ fl), plus := decide ('+' ∈ fl), space := decide (' ' ∈ fl), hash := decide ('#' ∈ fl),
               zero := decide ('0' ∈ fl), width := if w.isEmpty then none else some (pyInt w), prec := pr.1 }
      else none
    | _ => none

/-- C11 7.21.6.1 for `d` and a non-negative value:
    precision = minimum number of digits (default 1; value 0 with precision 0 gives no characters);
    `+` then ` ` choose the sign prefix; `-` left-justifies; `0` pads with zeros after the sign unless
    `-` or a precision is given; otherwise pad with spaces on the left up to the field width. -/
def cRender (cv : CConv) (n : Nat) : Str :=
  let p := cv.prec.getD 1
  let ds := natRepr n
  let digs : Str := if n = 0 ∧ p = 0 then [] else rep '0' (p - ds.length) ++ ds
  let sg : Str := if cv.plus then ['+'] else if cv.space then [' '] else []
  let w := cv.width.getD 0
  let pad := w - (sg.length + digs.length)
  if cv.minus then sg ++ digs ++ rep ' ' pad
  else if cv.zero ∧ cv.prec = none then sg ++ rep '0' pad ++ digs
  else rep ' ' pad ++ sg ++ digs

def cPrintf (t : Str) (n : Nat) : Option Str := (cParse t).map (fun cv => cRender cv n)

/-! ### (c) what the consolidator derives for one conversion -/

/-- `re.sub(regex, int_replacer, t)` for a `t` that is one conversion, i.e. the rewritten template -/
def rewrite (t : Str) : Option Str :=
  match reMatch t with
  | some (g, rest) => if rest.isEmpty then some (intReplacer g.flags g.width g.precision g.typeChar) else none
  | none => none

/-- `template.format(i)` -/
def derive (t : Str) (i : Nat) : Option Str := (rewrite t).bind (fun t' => pyStrFormat t' i)

/-- what follows the flags in the template text: `[width][.precision]d` -/
def afterFlags (w p : Option Str) : Str :=
  w.getD [] ++ ((match p with | some ps => '.' :: ps | none => []) ++ ['d'])

/-- the template text for given regex groups -/
def tmpl (flags : Str) (w p : Option Str) : Str := '%' :: (flags ++ afterFlags w p)

end BlueskyVerif.Printf
